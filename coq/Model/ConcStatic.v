(* Model/ConcStatic.v — a static check of the lock table AS EXTRACTED FROM THE SOURCE
   (Model/Conc.v cc_locktab, the rows harness-conc/cmd/afcheck/sections.go prints from the AST).

   The rows are parsed into trees and interpreted abstractly (path-insensitive: both branches of
   every if/switch, loops to a fixpoint, calls inlined by name with a depth bound): the abstract
   state is what the goroutine holds — of mu: nothing / read / write, the NUMBER of FileData mutexes —
   and the stack of deferred unlocks of the current function.  Checked for every function of
   the table, entered holding nothing (the helpers of MemMapFs that have no operation on mu of
   their own and are called with mu write-locked: entered holding mu write-locked; at each call
   site they are inlined in the caller's state anyway):
     - no unlock of a lock that is not held, no lock of mu while mu or a file mutex is held; a
       file mutex is taken while file mutexes are held ONLY with mu write-locked, and never more
       than [cc_max_nest] deep (lock order mu < directory mutexes < the renamed entry's mutex;
       nesting happens in Rename alone, and Renames are serialised by mu);
     - every normal return (after its deferred unlocks) holds what was held at entry;
     - every explicit panic (log.Panic), after the deferred unlocks of ALL frames it unwinds,
       holds nothing.
   No proofs here; the check is evaluated in Props/C03.v. *)
From Coq Require Import String.
From AF Require Import Lib.Bytes Lib.Path Lib.Ops Model.Conc.

Inductive lt := LTok (s : str) | LBlk (kind : str) (body : list lt).

Definition SP : N := 32.
Fixpoint split_sp (s : str) (cur : str) : list str :=
  match s with
  | [] => match cur with [] => [] | _ => [rev cur] end
  | c :: r => if N.eqb c SP then (match cur with [] => split_sp r [] | _ => rev cur :: split_sp r [] end)
              else split_sp r (c :: cur)
  end.

Definition last_is (c : N) (s : str) : bool := match rev s with x :: _ => N.eqb x c | [] => false end.
Definition is_open (t : str) : bool := last_is 123 t.          (* ends with '{' *)
Definition is_close (t : str) : bool := beqb t [125%N].       (* "}" *)

(* parse a token list up to the matching "}" : (trees, rest) *)
Fixpoint parse (fuel : nat) (toks : list str) : list lt * list str :=
  match fuel with
  | O => ([], [])
  | S k =>
    match toks with
    | [] => ([], [])
    | t :: r =>
      if is_close t then ([], r)
      else if is_open t then
        let '(body, r1) := parse k r in
        let '(more, r2) := parse k r1 in
        (LBlk t body :: more, r2)
      else let '(more, r2) := parse k r in (LTok t :: more, r2)
    end
  end.

Definition parse_row (s : str) : list lt := let toks := split_sp s [] in fst (parse (S (length toks)) toks).

(* ---- abstract states ---- *)
Record ast := mkA { a_mu : cc_hmu; a_f : nat; a_d : list cc_lk }.
Definition ast_eqb (x y : ast) : bool :=
  cc_hmu_eqb (a_mu x) (a_mu y) && Nat.eqb (a_f x) (a_f y) && cc_lks_eqb (a_d x) (a_d y).
(* the two parents, the directory whose children are re-keyed, the child *)
Definition cc_max_nest : nat := 4.
Fixpoint mem_ast (x : ast) (l : list ast) : bool :=
  match l with [] => false | y :: r => ast_eqb x y || mem_ast x r end.
Definition add_ast (x : ast) (l : list ast) : list ast := if mem_ast x l then l else l ++ [x].
Definition union_ast (a b : list ast) : list ast := fold_left (fun acc x => add_ast x acc) b a.

Record ares := mkR {
  r_fall : list ast;     (* states at the end of the fragment *)
  r_ret : list ast;      (* states at `ret`, BEFORE the deferred unlocks of this frame *)
  r_panic : list ast;    (* states at a panic, before the deferred unlocks of this frame *)
  r_err : nat            (* discipline violations *)
}.
Definition r0 : ares := mkR [] [] [] 0.
Definition r_union (a b : ares) : ares :=
  mkR (union_ast (r_fall a) (r_fall b)) (union_ast (r_ret a) (r_ret b)) (union_ast (r_panic a) (r_panic b))
      (r_err a + r_err b).

(* token classification *)
Local Open Scope string_scope.
Definition s_mu_lock := cc_bytes "mu.Lock".   Definition s_mu_unlock := cc_bytes "mu.Unlock".
Definition s_mu_rlock := cc_bytes "mu.RLock". Definition s_mu_runlock := cc_bytes "mu.RUnlock".
Definition s_ret := cc_bytes "ret".           Definition s_panic := cc_bytes "panic".
Definition s_defer := cc_bytes "defer:".      Definition s_call := cc_bytes "call:".
Definition s_dotlock := cc_bytes ".Lock".     Definition s_dotunlock := cc_bytes ".Unlock".
Definition s_for := cc_bytes "for{".          Definition s_func := cc_bytes "func{".
Definition s_else := cc_bytes "else{".        Definition s_if := cc_bytes "if{".
Local Close Scope string_scope.

Inductive tk := TAcq (l : cc_lk) | TRel (l : cc_lk) | TDefer (l : cc_lk) | TCall (name : str) | TPanic | TRet | TOther.

Definition rel_of (t : str) : option cc_lk :=
  if beqb t s_mu_unlock then Some LkW
  else if beqb t s_mu_runlock then Some LkR
  else if has_suffix t s_dotunlock then Some LkF
  else None.

Definition classify (t : str) : tk :=
  if beqb t s_mu_lock then TAcq LkW
  else if beqb t s_mu_rlock then TAcq LkR
  else if beqb t s_ret then TRet
  else if beqb t s_panic then TPanic
  else if prefixb s_defer t then (match rel_of (skipn 6 t) with Some l => TDefer l | None => TOther end)
  else if prefixb s_call t then TCall (skipn 5 t)
  else match rel_of t with
       | Some l => TRel l
       | None => if has_suffix t s_dotlock then TAcq LkF else TOther
       end.

(* one lock operation on an abstract state: (new state, violation?) *)
Definition do_acq (maxnest : nat) (l : cc_lk) (a : ast) : ast * bool :=
  match l with
  | LkW => (mkA HW (a_f a) (a_d a), negb (cc_hmu_eqb (a_mu a) HNone) || Nat.ltb 0 (a_f a))
  | LkR => (mkA HR (a_f a) (a_d a), negb (cc_hmu_eqb (a_mu a) HNone) || Nat.ltb 0 (a_f a))
  | LkF => (mkA (a_mu a) (S (a_f a)) (a_d a),
            (Nat.ltb 0 (a_f a) && negb (cc_hmu_eqb (a_mu a) HW)) || Nat.leb maxnest (a_f a))
  end.
Definition do_rel (l : cc_lk) (a : ast) : ast * bool :=
  match l with
  | LkW => (mkA HNone (a_f a) (a_d a), negb (cc_hmu_eqb (a_mu a) HW))
  | LkR => (mkA HNone (a_f a) (a_d a), negb (cc_hmu_eqb (a_mu a) HR))
  | LkF => (mkA (a_mu a) (pred (a_f a)) (a_d a), Nat.eqb (a_f a) 0)
  end.

(* run the deferred unlocks of a frame: (state with no defers, violations) *)
Fixpoint run_defers (d : list cc_lk) (a : ast) : ast * nat :=
  match d with
  | [] => (mkA (a_mu a) (a_f a) [], 0)
  | l :: r => let '(a1, bad) := do_rel l a in
              let '(a2, n) := run_defers r a1 in (a2, (if bad then 1 else 0) + n)
  end.

Definition map_states (g : ast -> ast * bool) (l : list ast) : list ast * nat :=
  fold_left (fun acc a => let '(a1, bad) := g a in (add_ast a1 (fst acc), snd acc + (if bad then 1 else 0))) l ([], 0).

(* the functions of the table a call token may denote: every row whose name ends in ".<name>" or is
   "<pkg>.<name>" *)
Definition callee_rows (tab : list (str * str)) (name : str) : list str :=
  map snd (filter (fun kv => has_suffix (fst kv) (46%N :: name)) tab).

(* interpretation of a tree list from a set of states.  [depth] bounds the inlining of calls. *)
Section Ana.
  Variable tab : list (str * str).
  Variable maxnest : nat.     (* how many file mutexes may be held at a time (under mu write-locked) *)

  (* a call from state a: the callee runs in its own frame (no defers), then returns or panics *)
  Definition call_result (ana_fn : list lt -> list ast -> ares) (name : str) (a : ast) : ares :=
    let rows := callee_rows tab name in
    fold_left (fun acc row =>
      let r := ana_fn (parse_row row) [mkA (a_mu a) (a_f a) []] in
      (* callee's exits: fallthrough and ret run its defers *)
      let exits := union_ast (r_fall r) (r_ret r) in
      let '(outs, e1) := fold_left (fun acc2 x => let '(x1, n) := run_defers (a_d x) x in
                                                 (add_ast (mkA (a_mu x1) (a_f x1) (a_d a)) (fst acc2), snd acc2 + n))
                                   exits ([], 0) in
      let '(pans, e2) := fold_left (fun acc2 x => let '(x1, n) := run_defers (a_d x) x in
                                                 (add_ast (mkA (a_mu x1) (a_f x1) (a_d a)) (fst acc2), snd acc2 + n))
                                   (r_panic r) ([], 0) in
      r_union acc (mkR outs [] pans (r_err r + e1 + e2)))
      rows (match rows with [] => mkR [a] [] [] 0 | _ => r0 end).

  Fixpoint ana (depth : nat) (fuel : nat) (code : list lt) (sts : list ast) : ares :=
    match fuel with
    | O => mkR sts [] [] 0
    | S k =>
      match code with
      | [] => mkR sts [] [] 0
      | LTok t :: rest =>
        match classify t with
        | TAcq l => let '(s1, e) := map_states (do_acq maxnest l) sts in
                    let r := ana depth k rest s1 in mkR (r_fall r) (r_ret r) (r_panic r) (r_err r + e)
        | TRel l => let '(s1, e) := map_states (do_rel l) sts in
                    let r := ana depth k rest s1 in mkR (r_fall r) (r_ret r) (r_panic r) (r_err r + e)
        | TDefer l => ana depth k rest (map (fun a => mkA (a_mu a) (a_f a) (l :: a_d a)) sts)
        | TRet => mkR [] sts [] 0       (* the rest of this block is dead code on this path *)
        | TPanic => mkR [] [] sts 0
        | TCall name =>
          match depth with
          | O => ana depth k rest sts                        (* inlining bound reached: treated as no-op *)
          | S d =>
            let rc := fold_left (fun acc a => r_union acc (call_result (fun c s => ana d k c s) name a)) sts r0 in
            let r := ana depth k rest (r_fall rc) in
            mkR (r_fall r) (r_ret r) (union_ast (r_panic rc) (r_panic r)) (r_err rc + r_err r)
          end
        | TOther => ana depth k rest sts
        end
      | LBlk kind body :: rest =>
        let rb := ana depth k body sts in
        if beqb kind s_for then
          (* zero or more iterations: iterate the body from the union until nothing new (3 rounds suffice
             for the finite state space reachable here; a 4th must add nothing or it is an error) *)
          let s1 := union_ast sts (r_fall rb) in
          let rb2 := ana depth k body s1 in
          let s2 := union_ast s1 (r_fall rb2) in
          let rb3 := ana depth k body s2 in
          let s3 := union_ast s2 (r_fall rb3) in
          let grew := negb (Nat.eqb (length s3) (length s2)) in
          let r := ana depth k rest s3 in
          mkR (r_fall r) (union_ast (r_ret rb3) (r_ret r)) (union_ast (r_panic rb3) (r_panic r))
              (r_err rb3 + r_err r + (if grew then 1 else 0))
        else if beqb kind s_func then
          (* a function literal (sort comparator, sync.Once body): must be balanced on its own *)
          let bad := existsb (fun a => negb (mem_ast a sts)) (union_ast (r_fall rb) (r_ret rb)) in
          let r := ana depth k rest sts in
          mkR (r_fall r) (r_ret r) (union_ast (r_panic rb) (r_panic r)) (r_err rb + r_err r + (if bad then 1 else 0))
        else if beqb kind s_else then
          (* handled together with the preceding if{ *)
          let r := ana depth k rest (r_fall rb) in r_union (mkR [] (r_ret rb) (r_panic rb) (r_err rb)) r
        else
          (* if{ / switch{ / case{ / go{ : taken or not; an if{ followed by else{ : one of the two *)
          match rest with
          | LBlk kind2 body2 :: rest2 =>
            if beqb kind s_if && beqb kind2 s_else then
              let re := ana depth k body2 sts in
              let r := ana depth k rest2 (union_ast (r_fall rb) (r_fall re)) in
              r_union (mkR [] (union_ast (r_ret rb) (r_ret re)) (union_ast (r_panic rb) (r_panic re)) (r_err rb + r_err re)) r
            else
              let r := ana depth k rest (union_ast sts (r_fall rb)) in
              r_union (mkR [] (r_ret rb) (r_panic rb) (r_err rb)) r
          | _ =>
            let r := ana depth k rest (union_ast sts (r_fall rb)) in
            r_union (mkR [] (r_ret rb) (r_panic rb) (r_err rb)) r
          end
      end
    end.
End Ana.

Definition a_empty : ast := mkA HNone 0 [].
Definition a_w : ast := mkA HW 0 [].
Definition holds_nothing (a : ast) : bool := cc_hmu_eqb (a_mu a) HNone && Nat.eqb (a_f a) 0.
Definition holds_as (e a : ast) : bool := cc_hmu_eqb (a_mu a) (a_mu e) && Nat.eqb (a_f a) (a_f e).

(* a helper of MemMapFs: an unexported method (its name starts with a lower-case letter) without
   an operation on mu of its own - called with mu write-locked *)
Definition s_memmapfs_dot : str := Eval vm_compute in cc_bytes "MemMapFs."%string.
Definition s_mu_dot : str := Eval vm_compute in cc_bytes "mu."%string.
Fixpoint has_infix (fuel : nat) (s sub : str) : bool :=
  match fuel with
  | O => false
  | S k => prefixb sub s || match s with [] => false | _ :: r => has_infix k r sub end
  end.
Definition is_mu_helper (kv : str * str) : bool :=
  prefixb s_memmapfs_dot (fst kv) &&
  match skipn 9 (fst kv) with c :: _ => N.leb 97 c && N.leb c 122 | [] => false end &&
  negb (has_infix (S (length (snd kv))) (snd kv) s_mu_dot).
Definition entry_state (kv : str * str) : ast := if is_mu_helper kv then a_w else a_empty.

Record fn_report := mkFR { fr_name : str; fr_errs : nat; fr_ret_leaks : nat; fr_panic_leaks : nat; fr_can_panic : bool }.

(* one function entered in its entry state; at most [maxnest] file mutexes at a time *)
Definition check_fn_with (maxnest : nat) (tab : list (str * str)) (kv : str * str) : fn_report :=
  let e := entry_state kv in
  let r := ana tab maxnest 6 400 (parse_row (snd kv)) [e] in
  let exits := union_ast (r_fall r) (r_ret r) in
  let after := map (fun x => run_defers (a_d x) x) exits in
  let afterp := map (fun x => run_defers (a_d x) x) (r_panic r) in
  mkFR (fst kv)
       (r_err r + fold_left (fun n x => n + snd x) after 0 + fold_left (fun n x => n + snd x) afterp 0)
       (length (filter (fun x => negb (holds_as e (fst x))) after))
       (length (filter (fun x => negb (holds_as e (fst x))) afterp))
       (match r_panic r with [] => false | _ => true end).
Definition check_fn := check_fn_with cc_max_nest.

Definition fn_ok (r : fn_report) : bool :=
  Nat.eqb (fr_errs r) 0 && Nat.eqb (fr_ret_leaks r) 0 && Nat.eqb (fr_panic_leaks r) 0.

Definition cc_tab_report (tab : list (str * str)) : list fn_report := map (check_fn tab) tab.
(* the functions that do not pass when NO nesting of file mutexes is allowed: those in which a file
   mutex is taken while another one is held *)
Definition cc_tab_nesting (tab : list (str * str)) : list str :=
  map fr_name (filter (fun r => negb (fn_ok r)) (map (check_fn_with 1 tab) tab)).
Definition cc_tab_check (tab : list (str * str)) : bool := forallb fn_ok (cc_tab_report tab).
Definition cc_tab_bad (tab : list (str * str)) : list str :=
  map fr_name (filter (fun r => negb (fn_ok r)) (cc_tab_report tab)).
Definition cc_tab_can_panic (tab : list (str * str)) : list str :=
  map fr_name (filter fr_can_panic (cc_tab_report tab)).

(* RemoveAll as it was before commit ce143d9 *)
Definition cc_row_removeall_legacy : str * str :=
  (cc_bytes "MemMapFs.RemoveAll"%string,
   cc_bytes "mu.Lock call:unRegisterWithParent mu.Unlock mu.RLock defer:mu.RUnlock for{ if{ mu.RUnlock mu.Lock mu.Unlock mu.RLock } } ret"%string).

Definition cc_locktab_legacy : list (str * str) :=
  map (fun kv => if beqb (fst kv) (fst cc_row_removeall_legacy) then cc_row_removeall_legacy else kv) cc_locktab_b.

(* ---- which functions release a lock by a plain (not deferred) unlock: a panic between the lock and
   that unlock (a nil dereference is no token of the table) would leave the lock held ---- *)
Fixpoint has_plain_rel (fuel : nat) (l : cc_lk) (code : list lt) : bool :=
  match fuel with
  | O => false
  | S k =>
    existsb (fun x => match x with
                      | LTok t => match classify t with TRel l' => cc_lk_eqb l l' | _ => false end
                      | LBlk _ body => has_plain_rel k l body
                      end) code
  end.

Definition cc_tab_plain_unlock (l : cc_lk) (tab : list (str * str)) : list str :=
  map fst (filter (fun kv => has_plain_rel 50 l (parse_row (snd kv))) tab).

(* register/unRegisterWithParent as they were before commit 2d6ed35 *)
Definition cc_locktab_before_2d6ed35 : list (str * str) :=
  map (fun kv =>
         if beqb (fst kv) (cc_bytes "MemMapFs.registerWithParent"%string)
         then (fst kv, cc_bytes "if{ ret } call:findParent if{ call:Name call:lockfreeMkdir if{ ret } if{ ret } } parent.Lock parent.Unlock"%string)
         else if beqb (fst kv) (cc_bytes "MemMapFs.unRegisterWithParent"%string)
         then (fst kv, cc_bytes "if{ ret } call:findParent if{ call:Name panic } parent.Lock parent.Unlock ret"%string)
         else kv) cc_locktab_b.
