(* Model/Walk.v — C16, Walk half.
   [afero_walk_gen]  : transcription of /repo/path.go  Walk / walk / readDirNames / lstatIfPossible
   [std_walk]        : independent transcription of path/filepath Walk / walk / readDirNames of the
                       installed Go (1.23): names are read BEFORE the callback, a file's callback
                       result is returned as is, Walk converts a final SkipDir into nil.
   Both run over the same immutable tree and call the same callback state machine.

   Modelling decisions (stated in REPORT-c16.md):
   - a filesystem is a [tree]; the children of a directory are an association list in ANY order
     (a Go map / a directory stream); both walks sort the names (sort.Strings / slices.Sort are
     modelled by one insertion sort on the byte-wise string order [bltb]);
   - lstat(Join(path, name)) of a name that was just listed returns that child (static tree, no
     symlinks, no I/O errors): the child's FileInfo is the child node itself;
   - readDirNames of an existing directory never fails (MemMapFs has no such failure; on the OS side
     the harness creates readable directories only);
   - a callback is a state machine [cb : S -> visit -> S * action] for an arbitrary state type S:
     every callback whose behaviour is a function of the visits it has seen so far;
   - Go [error] values returned by the callback / by walk are [action]: Continue = nil,
     SkipDir = filepath.SkipDir, Fail e = any other error (filepath.SkipAll is out of scope: for
     afero it is an ordinary error).
   - strings are sequences of code points < 128 (ASCII), as everywhere in this development. *)
From AF Require Import Lib.Bytes Lib.Path Gen.Consts.

Inductive tree := F | D (kids : list (str * tree)).

Inductive action := Continue | SkipDir | Fail (e : nat).

(* what the callback is shown: path, FileInfo (None = nil info; Some b = info.IsDir()), err *)
Record visit := mkVisit { v_path : str; v_info : option bool; v_err : option nat }.

(* the error of a failed lstat of the root (os.ErrNotExist class) *)
Definition ENOENT : nat := 0.

Definition isdir (t : tree) : bool := match t with F => false | D _ => true end.

(* ---- lstat of a path: MemMapFs semantics (normalizePath, then the key is looked up);
        on a symlink-free OS tree the kernel resolves clean paths to the same node *)
Fixpoint assoc (n : str) (kids : list (str * tree)) : option tree :=
  match kids with
  | [] => None
  | (m, c) :: r => if beqb n m then Some c else assoc n r
  end.

Fixpoint descend (t : tree) (segs : list str) : option tree :=
  match segs with
  | [] => Some t
  | s :: r => match t with
              | F => None
              | D kids => match assoc s kids with Some c => descend c r | None => None end
              end
  end.

Definition lookup (t : tree) (p : str) : option tree :=
  descend t (clean_segs (normalize_path p)).

(* ---- sort.Strings / slices.Sort on the listed names, carrying what lstat will return for
        each name.  Stable insertion sort by Go's string order. *)
Section Sort.
  Context {A : Type}.
  Fixpoint insert_by (x : str * A) (l : list (str * A)) : list (str * A) :=
    match l with
    | [] => [x]
    | y :: r => if bltb (fst x) (fst y) then x :: l else y :: insert_by x r
    end.
  Definition sort_by_name (l : list (str * A)) : list (str * A) :=
    fold_right insert_by [] l.
End Sort.

Section Walk.
  Variable S : Type.
  Variable cb : S -> visit -> S * action.

  (* what the loop over the names needs of a child: IsDir of its FileInfo, and the recursive walk *)
  Definition walker := (bool * (str -> S -> S * action))%type.

  (* ================= afero: /repo/path.go ================= *)

  (* for _, name := range names { filename := filepath.Join(path, name); fileInfo, err := lstatIfPossible(...)
       [err == nil on a static tree]
       err = walk(fs, filename, fileInfo, walkFn)
       if err != nil { if !fileInfo.IsDir() || err != filepath.SkipDir { return err } } }
     return nil *)
  Fixpoint afero_loop (path : str) (l : list (str * walker)) (s : S) : S * action :=
    match l with
    | [] => (s, Continue)
    | (name, (d, w)) :: r =>
      let filename := path_join [path; name] in
      let '(s1, err) := w filename s in
      match err with
      | Continue => afero_loop path r s1
      | SkipDir => if d then afero_loop path r s1 else (s1, SkipDir)
      | Fail e => (s1, Fail e)
      end
    end.

  (* func walk(fs, path, info, walkFn) *)
  Fixpoint afero_walk_node (t : tree) (path : str) (s : S) {struct t} : S * action :=
    (* err := walkFn(path, info, nil) *)
    let '(s1, err) := cb s (mkVisit path (Some (isdir t)) None) in
    match err with
    | SkipDir => if isdir t then (s1, Continue) else (s1, SkipDir)
    | Fail e => (s1, Fail e)
    | Continue =>
      match t with
      | F => (s1, Continue)                                  (* if !info.IsDir() { return nil } *)
      | D kids =>
        (* names, err := readDirNames(fs, path)  -- sorted; no error on a static tree *)
        let names := sort_by_name (map (fun nc => match nc with
                                                   | (n, c) => (n, (isdir c, afero_walk_node c)) end) kids) in
        afero_loop path names s1
      end
    end.

  (* func Walk(fs, root, walkFn):
       info, err := lstatIfPossible(fs, root)
       if err != nil { return walkFn(root, nil, err) }
       return walk(fs, root, info, walkFn)
     [fixed = true]: the proposed patch — a final SkipDir is converted into nil, as filepath.Walk does *)
  Definition afero_walk_gen (fixed : bool) (t : tree) (root : str) (s : S) : S * action :=
    let '(s1, err) :=
      match lookup t root with
      | None => cb s (mkVisit root None (Some ENOENT))
      | Some n => afero_walk_node n root s
      end in
    if fixed then match err with SkipDir => (s1, Continue) | _ => (s1, err) end
    else (s1, err).

  Definition afero_walk_current := afero_walk_gen false.   (* path.go as of the pinned tree *)
  Definition afero_walk := afero_walk_gen true.             (* path.go with the proposed patch *)
  (* path.go as it is in /repo NOW: the translator (afcheck consts) looks at func Walk *)
  Definition afero_walk_repo := afero_walk_gen (Z.eqb walk_skipdir_to_nil 1).

  (* ================= standard library: path/filepath/path.go ================= *)

  (* the loop of filepath.walk: same text as afero's, transcribed separately *)
  Fixpoint std_loop (path : str) (l : list (str * walker)) (s : S) : S * action :=
    match l with
    | [] => (s, Continue)
    | (name, (d, w)) :: r =>
      let filename := path_join [path; name] in
      match w filename s with
      | (s1, Continue) => std_loop path r s1
      | (s1, err) => if negb d || negb (match err with SkipDir => true | _ => false end)
                     then (s1, err) else std_loop path r s1
      end
    end.

  (* func walk(path, info, walkFn):
       if !info.IsDir() { return walkFn(path, info, nil) }
       names, err := readDirNames(path); err1 := walkFn(path, info, err)
       if err != nil || err1 != nil { return err1 }
       for ... *)
  Fixpoint std_walk_node (t : tree) (path : str) (s : S) {struct t} : S * action :=
    match t with
    | F => cb s (mkVisit path (Some false) None)
    | D kids =>
      let names := sort_by_name (map (fun nc => match nc with
                                                 | (n, c) => (n, (isdir c, std_walk_node c)) end) kids) in
      let '(s1, err1) := cb s (mkVisit path (Some true) None) in
      match err1 with
      | Continue => std_loop path names s1
      | _ => (s1, err1)
      end
    end.

  (* func Walk(root, fn):
       info, err := os.Lstat(root)
       if err != nil { err = fn(root, nil, err) } else { err = walk(root, info, fn) }
       if err == SkipDir || err == SkipAll { return nil }
       return err *)
  Definition std_walk (t : tree) (root : str) (s : S) : S * action :=
    let '(s1, err) :=
      match lookup t root with
      | None => cb s (mkVisit root None (Some ENOENT))
      | Some n => std_walk_node n root s
      end in
    match err with
    | SkipDir => (s1, Continue)
    | _ => (s1, err)
    end.
End Walk.

Arguments afero_walk_gen {S} cb fixed t root s.
Arguments afero_walk_current {S} cb t root s.
Arguments afero_walk {S} cb t root s.
Arguments afero_walk_repo {S} cb t root s.
Arguments std_walk {S} cb t root s.
Arguments afero_walk_node {S} cb t path s.
Arguments std_walk_node {S} cb t path s.
Arguments afero_loop {S} path l s.
Arguments std_loop {S} path l s.

(* ---- the callbacks the harness uses: "action at the k-th visit" tables that also log the visits.
        TProp returns the error it was handed (the usual `if err != nil { return err }`). *)
Inductive tact := TCont | TSkip | TErr | TProp.

Definition table_state := (nat * list visit)%type.   (* number of visits so far, log (reversed) *)

Definition table_cb (tbl : list tact) (st : table_state) (v : visit) : table_state * action :=
  let '(k, log) := st in
  let a := match nth_error tbl k with
           | None | Some TCont => Continue
           | Some TSkip => SkipDir
           | Some TErr => Fail (Datatypes.S k)
           | Some TProp => match v_err v with Some e => Fail e | None => Continue end
           end in
  ((Datatypes.S k, v :: log), a).

Definition run_table (w : (table_state -> visit -> table_state * action) -> tree -> str -> table_state
                          -> table_state * action)
           (t : tree) (root : str) (tbl : list tact) : list visit * action :=
  let '((_, log), a) := w (table_cb tbl) t root (0, []) in (rev log, a).

Definition run_afero_repo := run_table (@afero_walk_repo table_state).
Definition run_afero_current := run_table (@afero_walk_current table_state).
Definition run_afero_fixed := run_table (@afero_walk table_state).
Definition run_std := run_table (@std_walk table_state).
