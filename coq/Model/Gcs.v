(* Model/Gcs.v — transcription of gcsfs (fs.go, file.go, file_resource.go, file_info.go) on top of
   an object store with GCS semantics (the store is a transcription of overlay/gcsfake.go).
   Part 1: the store, names, gcsFileResource, GcsFile.  Part 2 (GcsFs.v) has Fs and the case runner.
   The separator is "/" (NewGcsFs).  cfg selects today's code or the code with the two proposed
   patches (REPORT-c20.md: D17 Readdir slice bound, D19 readdirImpl own-name skip, D20 RemoveAll on
   implicit folders). *)
From AF Require Import Lib.Bytes Lib.Path Lib.Ops Gen.Consts.
Local Open Scope Z_scope.

Inductive gerr :=
| GEOF | GClosed | GOutOfRange | GNoBucket | GEmptyName | GObjNotExist | GBucketNotExist
| GENOENT | GEPERM | GEISDIR | GENOTDIR | GENOTEMPTY | GReadOnly
| GRange      (* the store refused a range (HTTP 416) *)
| GOther.     (* fmt.Errorf(...) wrappers *)

Record cfg := mkCfg { fix_d17 : bool; fix_d19 : bool; fix_d20 : bool }.
Definition cfg_today := mkCfg false false false.
Definition cfg_patched := mkCfg true true true.

(* package constants (tied to /repo by the harness' gconst cases) *)
Definition max_write_size : Z := 10000.
Definition folder_size : Z := 42.

Definition BACKSLASH : N := 92.
Definition SPACE : N := 32.

(* ------------------------------------------------------------------ the object store *)
Definition gstore := list (str * bytes).

Definition o_check (bkt bk path : str) : option gerr :=
  if negb (beqb bk bkt) then Some GBucketNotExist
  else if is_empty path then Some GEmptyName else None.

Definition o_attrs (bkt : str) (objs : gstore) (bk path : str) : gerr + Z :=
  match o_check bkt bk path with
  | Some e => inl e
  | None => match alist_get path objs with None => inl GObjNotExist | Some d => inr (zlen d) end
  end.

(* NewRangeReader(off, len): the bytes the reader will deliver *)
Definition o_range (bkt : str) (objs : gstore) (bk path : str) (off len : Z) : gerr + bytes :=
  match o_check bkt bk path with
  | Some e => inl e
  | None =>
    match alist_get path objs with
    | None => inl GObjNotExist
    | Some d =>
      if (off <? 0) || (zlen d <? off) then inl GRange
      else let rest := skipn (Z.to_nat off) d in
           inr (if (0 <=? len) && (off + len <? zlen d) then firstn (Z.to_nat len) rest else rest)
    end
  end.

(* Writer.Close: the buffer becomes the object *)
Definition o_put (bkt : str) (objs : gstore) (bk path : str) (data : bytes) : gerr + gstore :=
  match o_check bkt bk path with
  | Some e => inl e
  | None => inr (alist_set path data objs)
  end.

Definition o_delete (bkt : str) (objs : gstore) (bk path : str) : gerr + gstore :=
  match o_check bkt bk path with
  | Some e => inl e
  | None => match alist_get path objs with None => inl GObjNotExist | Some _ => inr (alist_del path objs) end
  end.

(* dst.CopierFrom(src).Run *)
Definition o_copy (bkt : str) (objs : gstore) (sbk spath dbk dpath : str) : gerr + gstore :=
  match o_check bkt sbk spath with
  | Some e => inl e
  | None =>
    match o_check bkt dbk dpath with
    | Some e => inl e
    | None => match alist_get spath objs with None => inl GObjNotExist | Some d => inr (alist_set dpath d objs) end
    end
  end.

(* Objects(Query{Prefix, Delimiter:"/"}): one page, objects (sorted) then collapsed prefixes (sorted) *)
Inductive lentry := EObj (name : str) (size : Z) | EPrefix (p : str).

Fixpoint has_slash (s : str) : bool :=
  match s with [] => false | c :: r => N.eqb c SLASH || has_slash r end.
(* the part of s up to and including the first slash *)
Fixpoint upto_slash (s : str) : str :=
  match s with [] => [] | c :: r => if N.eqb c SLASH then [c] else c :: upto_slash r end.
Fixpoint gmemb (x : str) (l : list str) : bool :=
  match l with [] => false | y :: r => beqb x y || gmemb x r end.
Fixpoint gdedup (l : list str) : list str :=
  match l with [] => [] | x :: r => if gmemb x r then gdedup r else x :: gdedup r end.

Definition names_sorted (objs : gstore) : list str := sort_by bltb (map fst objs).
Definition names_under (prefix : str) (objs : gstore) : list str := filter (prefixb prefix) (names_sorted objs).
Definition rest_of (prefix n : str) : str := skipn (length prefix) n.

Definition page_objs (objs : gstore) (prefix : str) : list str :=
  filter (fun n => negb (has_slash (rest_of prefix n))) (names_under prefix objs).
Definition page_prefixes (objs : gstore) (prefix : str) : list str :=
  sort_by bltb (gdedup (map (fun n => prefix ++ upto_slash (rest_of prefix n))
                           (filter (fun n => has_slash (rest_of prefix n)) (names_under prefix objs)))).
Definition size_of (objs : gstore) (n : str) : Z :=
  match alist_get n objs with Some d => zlen d | None => 0 end.
Definition list_page (objs : gstore) (prefix : str) : list lentry :=
  map (fun n => EObj n (size_of objs n)) (page_objs objs prefix) ++ map EPrefix (page_prefixes objs prefix).

(* ------------------------------------------------------------------ names *)
Definition gs_prefix : str := [103; 115; 58; 47; 47]%N.
Definition ensure_no_prefix (s : str) : str :=
  if is_empty s then s else if prefixb gs_prefix s then skipn 5 s else s.
Definition norm_seps (s : str) : str := map (fun c => if N.eqb c BACKSLASH then SLASH else c) s.
Definition no_leading (s : str) : str :=
  match s with c :: r => if N.eqb c SLASH then r else s | [] => [] end.
Definition last_is_slash (s : str) : bool :=
  match rev s with c :: _ => N.eqb c SLASH | [] => false end.
Definition ensure_trailing (s : str) : str :=
  if is_empty s then s else if last_is_slash s then s else s ++ s_slash.
Definition norm_name (s : str) : str := no_leading (norm_seps (ensure_no_prefix s)).
Definition norm_dir_name (s : str) : str := no_leading (ensure_trailing (norm_seps (ensure_no_prefix s))).

(* splitName: strings.Split(name, "/") -> (first piece, the others joined again) = cut at the first "/" *)
Fixpoint split_first (s : str) : str * option str :=
  match s with
  | [] => ([], None)
  | c :: r => if N.eqb c SLASH then ([], Some r)
              else let '(a, b) := split_first r in (c :: a, b)
  end.
Definition split_name (s : str) : str * str :=
  let '(a, b) := split_first s in (a, match b with Some r => r | None => [] end).

(* getBucket: fs.buckets is never filled, so every call asks the store *)
Definition get_bucket (bkt bk : str) : option gerr :=
  if beqb bk bkt then None else Some GBucketNotExist.

(* ------------------------------------------------------------------ FileInfo *)
Record ginfo := mkGI { gi_name : str; gi_dir : bool; gi_size : Z }.
Definition gi_base (i : ginfo) : str := path_base (gi_name i).

Definition new_file_info (bkt : str) (objs : gstore) (name : str) : gerr + ginfo :=
  let '(bk, path) := split_name name in
  match get_bucket bkt bk with
  | Some e => inl e
  | None =>
    match o_attrs bkt objs bk path with
    | inr sz => inr (mkGI name false sz)
    | inl GEmptyName => inr (mkGI (ensure_trailing name) true folder_size)
    | inl GObjNotExist =>
      (* the folder probe: Query{Prefix: path+"/"} since the fix, the bare path before *)
      match list_page objs (if Z.eqb gcs_fileinfo_prefix_sep 1 then ensure_trailing path else path) with
      | [] => inl GENOENT
      | _ :: _ => inr (mkGI (ensure_trailing name) true folder_size)
      end
    | inl e => inl e
    end
  end.

Definition info_of_lentry (e : lentry) : ginfo :=
  match e with
  | EObj n sz => mkGI n false sz
  | EPrefix p => mkGI p true folder_size
  end.

(* ------------------------------------------------------------------ gcsFileResource *)
Record resource := mkR {
  r_name : str; r_bk : str; r_path : str;      (* name and the ObjectHandle *)
  r_size : Z; r_off : Z;                        (* currentGcsSize, offset *)
  r_reader : option bytes;                      (* what the open reader will still deliver *)
  r_writer : option bytes }.                    (* what the open writer has buffered *)

Definition set_io (r : resource) (sz off : Z) (rd wr : option bytes) : resource :=
  mkR (r_name r) (r_bk r) (r_path r) sz off rd wr.
Definition new_resource (name : str) : resource :=
  let '(bk, path) := split_name name in mkR name bk path 0 0 None None.

(* maybeCloseWriter *)
Definition close_writer (bkt : str) (objs : gstore) (r : resource) : gstore * resource * option gerr :=
  match r_writer r with
  | None => (objs, r, None)
  | Some w =>
    let tail : gerr + bytes :=
      if r_off r <? r_size r then o_range bkt objs (r_bk r) (r_path r) (r_off r) (-1)
      else inr [] in
    match tail with
    | inl _ => (objs, r, Some GOther)
    | inr t =>
      match o_put bkt objs (r_bk r) (r_path r) (w ++ t) with
      | inl e => (objs, r, Some e)
      | inr objs' => (objs', set_io r (r_size r) (r_off r) (r_reader r) None, None)
      end
    end
  end.

(* maybeCloseIo: reader first, then writer; a writer error is wrapped *)
Definition close_io (bkt : str) (objs : gstore) (r : resource) : gstore * resource * option gerr :=
  let r1 := set_io r (r_size r) (r_off r) None (r_writer r) in
  match close_writer bkt objs r1 with
  | (o, r2, Some _) => (o, r2, Some GOther)
  | (o, r2, None) => (o, r2, None)
  end.

(* reader.Read(p), len p = n > 0 *)
Definition rd_take (r : resource) (rem : bytes) (n : Z) : resource * bytes * option gerr :=
  match rem with
  | [] => (set_io r (r_size r) (r_off r) (Some []) (r_writer r), [], Some GEOF)
  | _ => let b := firstn (Z.to_nat n) rem in
         (set_io r (r_size r) (r_off r + zlen b) (Some (skipn (Z.to_nat n) rem)) (r_writer r), b, None)
  end.

Definition res_read_at (bkt : str) (objs : gstore) (r : resource) (n off : Z)
  : gstore * resource * bytes * option gerr :=
  if n <=? 0 then (objs, r, [], None) else
  match (if off =? r_off r then r_reader r else None) with
  | Some rem => let '(r', b, e) := rd_take r rem n in (objs, r', b, e)
  | None =>
    let dircheck : option gerr :=
      match r_reader r, r_writer r with
      | None, None =>
        match new_file_info bkt objs (r_name r) with
        | inl e => Some e
        | inr i => if gi_dir i then Some GEISDIR else None
        end
      | _, _ => None
      end in
    match dircheck with
    | Some e => (objs, r, [], Some e)
    | None =>
      match close_io bkt objs r with
      | (o1, r1, Some e) => (o1, r1, [], Some e)
      | (o1, r1, None) =>
        match o_range bkt o1 (r_bk r1) (r_path r1) off (-1) with
        | inl e => (o1, r1, [], Some e)
        | inr rem =>
          let r2 := set_io r1 (r_size r1) off (Some rem) (r_writer r1) in
          let '(r3, b, e) := rd_take r2 rem n in (o1, r3, b, e)
        end
      end
    end
  end.

Definition res_write_at (bkt : str) (objs : gstore) (r : resource) (b : bytes) (off : Z)
  : gstore * resource * Z * option gerr :=
  match (if off =? r_off r then r_writer r else None) with
  | Some w => (objs, set_io r (r_size r) (r_off r + zlen b) (r_reader r) (Some (w ++ b)), zlen b, None)
  | None =>
    match close_io bkt objs r with
    | (o1, r1, Some e) => (o1, r1, 0, Some e)
    | (o1, r1, None) =>
      let attrs := o_attrs bkt o1 (r_bk r1) (r_path r1) in
      match (match attrs with
             | inl e => if 0 <? off then inl e else inr 0
             | inr sz => inr sz end) with
      | inl e => (o1, r1, 0, Some e)
      | inr sz =>
        let r2 := set_io r1 sz (r_off r1) (r_reader r1) (r_writer r1) in
        if sz <? off then (o1, r2, 0, Some GOutOfRange) else
        let prefix : gerr + bytes :=
          if 0 <? off then
            match o_range bkt o1 (r_bk r2) (r_path r2) 0 (-1) with
            | inl e => inl e
            | inr d => inr (firstn (Z.to_nat off) d)    (* io.CopyN(w, r, off); off <= size here *)
            end
          else inr [] in
        match prefix with
        | inl e => (o1, r2, 0, Some e)
        | inr p => (o1, set_io r2 sz (off + zlen b) (r_reader r2) (Some (p ++ b)), zlen b, None)
        end
      end
    end
  end.

(* the padding loop of Truncate *)
Fixpoint pad_loop (fuel : nat) (w : bytes) (written wanted : Z) : option bytes :=
  if written <? wanted then
    match fuel with
    | O => None
    | S f => let k := Z.min max_write_size (wanted - written) in
             pad_loop f (w ++ repeat SPACE (Z.to_nat k)) (written + k) wanted
    end
  else Some w.

Inductive trunc_res := TrOk | TrErr (e : gerr) | TrFuel.

Definition res_truncate (bkt : str) (fuel : nat) (objs : gstore) (r : resource) (n : Z)
  : gstore * resource * trunc_res :=
  if n <? 0 then (objs, r, TrErr GOutOfRange) else
  match close_io bkt objs r with
  | (o1, r1, Some e) => (o1, r1, TrErr e)
  | (o1, r1, None) =>
    match o_range bkt o1 (r_bk r1) (r_path r1) 0 n with
    | inl e => (o1, r1, TrErr e)
    | inr d =>
      match pad_loop fuel d (zlen d) n with
      | None => (o1, r1, TrFuel)
      | Some w =>
        match o_put bkt o1 (r_bk r1) (r_path r1) w with
        | inl e => (o1, r1, TrErr GOther)
        | inr o2 => (o2, r1, TrOk)
        end
      end
    end
  end.

(* ------------------------------------------------------------------ GcsFile *)
Record ghandle := mkGH { h_flags : Z; h_off : Z; h_closed : bool; h_res : nat }.
Definition set_hoff (h : ghandle) (o : Z) : ghandle := mkGH (h_flags h) o (h_closed h) (h_res h).
Definition set_hclosed (h : ghandle) : ghandle := mkGH (h_flags h) (h_off h) true (h_res h).

Definition gf_close (bkt : str) (objs : gstore) (r : resource) (h : ghandle)
  : gstore * resource * ghandle * option gerr :=
  if h_closed h then (objs, r, h, Some GClosed) else
  let '(o1, r1, e) := close_io bkt objs r in (o1, r1, set_hclosed h, e).

Definition gf_sync := close_io.

Definition gf_stat (bkt : str) (objs : gstore) (r : resource) : gstore * resource * (gerr + ginfo) :=
  match close_io bkt objs r with
  | (o1, r1, Some e) => (o1, r1, inl e)
  | (o1, r1, None) => (o1, r1, new_file_info bkt o1 (r_name r1))
  end.

Definition gf_read_at (bkt : str) (objs : gstore) (r : resource) (h : ghandle) (n off : Z)
  : gstore * resource * ghandle * bytes * option gerr :=
  if h_closed h then (objs, r, h, [], Some GClosed) else
  let '(o1, r1, b, e) := res_read_at bkt objs r n off in
  (o1, r1, set_hoff h (h_off h + zlen b), b, e).

Definition gf_write_at (bkt : str) (objs : gstore) (r : resource) (h : ghandle) (b : bytes) (off : Z)
  : gstore * resource * ghandle * Z * option gerr :=
  if h_closed h then (objs, r, h, 0, Some GClosed) else
  if negb (Z.land (h_flags h) o_rdonly =? 0) then (objs, r, h, 0, Some GReadOnly) else
  let pre : option gerr :=
    match o_attrs bkt objs (r_bk r) (r_path r) with
    | inr _ => None
    | inl GObjNotExist => if Z.land (h_flags h) o_create =? 0 then Some GENOENT else None
    | inl _ => Some GOther
    end in
  match pre with
  | Some e => (objs, r, h, 0, Some e)
  | None =>
    let '(o1, r1, k, e) := res_write_at bkt objs r b off in
    (o1, r1, set_hoff h (h_off h + k), k, e)
  end.

Definition gf_seek (bkt : str) (objs : gstore) (r : resource) (h : ghandle) (off whence : Z)
  : gstore * resource * ghandle * Z * option gerr :=
  if h_closed h then (objs, r, h, 0, Some GClosed) else
  if ((whence =? 0) && (off =? h_off h)) || ((whence =? 1) && (off =? 0)) then (objs, r, h, h_off h, None) else
  match close_io bkt objs r with
  | (o1, r1, Some e) => (o1, r1, h, 0, Some e)
  | (o1, r1, None) =>
    match gf_stat bkt o1 r1 with
    | (o2, r2, inl _) => (o2, r2, h, 0, None)
    | (o2, r2, inr i) =>
      let t := if whence =? 0 then off
               else if whence =? 1 then h_off h + off
               else if whence =? 2 then gi_size i + off
               else h_off h in
      (o2, r2, set_hoff h t, t, None)
    end
  end.

Definition gf_truncate (bkt : str) (fuel : nat) (objs : gstore) (r : resource) (h : ghandle) (n : Z)
  : gstore * resource * trunc_res :=
  if h_closed h then (objs, r, TrErr GClosed) else
  if h_flags h =? o_rdonly then (objs, r, TrErr GReadOnly) else
  res_truncate bkt fuel objs r n.

(* readdirImpl *)
Definition readdir_impl (c : cfg) (bkt : str) (objs : gstore) (r : resource) (count : Z)
  : gstore * resource * list ginfo * option gerr :=
  match gf_stat bkt objs r with
  | (o1, r1, inl e) => (o1, r1, [], Some e)
  | (o1, r1, inr own) =>
    if negb (gi_dir own) then (o1, r1, [], Some GENOTDIR) else
    let path := ensure_trailing (r_name r1) in
    let '(_, bpath) := split_name path in
    let keep (e : lentry) : bool :=
      if fix_d19 c then
        match e with EObj n _ => negb (beqb n bpath) | EPrefix _ => true end
      else negb (beqb (gi_base (info_of_lentry e)) (gi_base own)) in
    let res := map info_of_lentry (filter keep (list_page o1 bpath)) in
    match res with
    | [] => (o1, r1, [], if count <=? 0 then None else Some GEOF)
    | _ => (o1, r1, res, None)
    end
  end.

Inductive lres := LPanic | LList (l : list ginfo) (e : option gerr).

Definition gf_readdir (c : cfg) (bkt : str) (objs : gstore) (r : resource) (count : Z)
  : gstore * resource * lres :=
  let '(o1, r1, fi, e) := readdir_impl c bkt objs r count in
  let sorted := sort_by (fun a b => bltb (gi_base a) (gi_base b)) fi in
  if 0 <? count then
    if fix_d17 c then
      (o1, r1, LList (if count <? zlen sorted then firstn (Z.to_nat count) sorted else sorted) e)
    else if zlen sorted <? count then (o1, r1, LPanic)
    else (o1, r1, LList (firstn (Z.to_nat count) sorted) e)
  else (o1, r1, LList sorted e).

Inductive nres := NPanic | NErr (e : gerr) | NList (l : list str) (e : option gerr).

Definition gf_readdirnames (c : cfg) (bkt : str) (objs : gstore) (r : resource) (count : Z)
  : gstore * resource * nres :=
  match gf_readdir c bkt objs r count with
  | (o1, r1, LPanic) => (o1, r1, NPanic)
  | (o1, r1, LList l (Some GEOF)) => (o1, r1, NList (map gi_base l) (Some GEOF))
  | (o1, r1, LList l (Some e)) => (o1, r1, NErr e)
  | (o1, r1, LList l None) => (o1, r1, NList (map gi_base l) None)
  end.
