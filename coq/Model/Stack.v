(* Model/Stack.v — stacks of filesystems over one universal state type, the top-level
   case language (targets, handle slots, snapshots) and its interpreter. *)
From AF Require Import Lib.Bytes Lib.Path Lib.Ops Gen.Consts Model.MemFile Model.MemFs Model.ReadOnly Model.BasePath.

Inductive stack :=
| SMem
| SReadOnly (k : stack)
| SBasePath (root : str) (k : stack).

(* universal state: a memory filesystem, or a wrapper's own table around its children *)
Inductive ust :=
| UMem (m : mst)
| UW1 (u : ust).

Fixpoint uinit (k : stack) : ust :=
  match k with
  | SMem => UMem m_init
  | SReadOnly k' => UW1 (uinit k')
  | SBasePath _ k' => UW1 (uinit k')
  end.

Definition lift1 (f : ust -> op -> ust * res) (u : ust) (o : op) : ust * res :=
  match u with
  | UW1 i => let '(i', r) := f i o in (UW1 i', r)
  | _ => (u, RPanic)
  end.
Definition unwrap1 (u : ust) : ust := match u with UW1 i => i | _ => u end.

Fixpoint ustep (k : stack) (u : ust) (o : op) : ust * res :=
  match k with
  | SMem => match u with UMem m => let '(m', r) := m_step m o in (UMem m', r) | _ => (u, RPanic) end
  | SReadOnly k' =>
      let '(i', r) := ro_step (ustep k') (unwrap1 u) o in (UW1 i', r)
  | SBasePath root k' =>
      let '(i', r) := bp_step (ustep k') root (unwrap1 u) o in (UW1 i', r)
  end.

(* apply an op to a layer of the stack addressed by a list of child indices *)
Fixpoint ustep_at (k : stack) (tgt : list nat) (u : ust) (o : op) : ust * res :=
  match tgt with
  | [] => ustep k u o
  | _ :: t' =>
    match k with
    | SMem => (u, RNoSlot)
    | SReadOnly k' | SBasePath _ k' =>
      let '(i', r) := ustep_at k' t' (unwrap1 u) o in (UW1 i', r)
    end
  end.

Fixpoint usub (k : stack) (tgt : list nat) (u : ust) : option mst :=
  match tgt, k with
  | [], SMem => match u with UMem m => Some m | _ => None end
  | _ :: t', SReadOnly k' | _ :: t', SBasePath _ k' => usub k' t' (unwrap1 u)
  | _, _ => None
  end.

Definition usnapshot (k : stack) (tgt : list nat) (u : ust) : list entry :=
  match usub k tgt u with Some m => snapshot m | None => [] end.

(* full internal dump of a MemMapFs layer: (path, node name, child-index keys with the child's name) *)
Definition mem_index (m : mst) : list (str * str * list (str * str)) :=
  sort_by (fun a b => bltb (fst (fst a)) (fst (fst b)))
    (map (fun kv => match get_node m (snd kv) with
                    | Some n => (fst kv, nname n,
                                 sort_by (fun a b => bltb (fst a) (fst b))
                                   (map (fun kc => (fst kc, node_name m (snd kc))) (nkids n)))
                    | None => (fst kv, [], [])
                    end) (mdata m)).
Definition uindex (k : stack) (tgt : list nat) (u : ust) : list (str * str * list (str * str)) :=
  match usub k tgt u with Some m => mem_index m | None => [] end.

(* ---- top-level case language ---- *)
Inductive item :=
| IOp (tgt : list nat) (slot : option nat) (o : op)   (* handle args of H-ops are SLOT numbers *)
| ISnap (tgt : list nat)
| IIndex (tgt : list nat).

Inductive tres :=
| TRes (r : res)
| TSnap (l : list entry)
| TIndex (l : list (str * str * list (str * str))).

Definition slots := list (nat * (list nat * nat)).   (* slot -> (target, handle of that layer) *)

Fixpoint slot_get (sl : slots) (n : nat) : option (list nat * nat) :=
  match sl with
  | [] => None
  | (k, v) :: r => if Nat.eqb k n then Some v else slot_get r n
  end.

Definition op_handle (o : op) : option nat :=
  match o with
  | HRead h _ | HReadAt h _ _ | HWrite h _ | HWriteAt h _ _ | HWriteString h _ | HSeek h _ _
  | HTruncate h _ | HClose h | HReaddir h _ | HReaddirnames h _ | HStat h | HName h | HSync h => Some h
  | _ => None
  end.

Definition op_with_handle (o : op) (h : nat) : op :=
  match o with
  | HRead _ n => HRead h n | HReadAt _ n off => HReadAt h n off | HWrite _ b => HWrite h b
  | HWriteAt _ b off => HWriteAt h b off | HWriteString _ b => HWriteString h b
  | HSeek _ off w => HSeek h off w | HTruncate _ n => HTruncate h n | HClose _ => HClose h
  | HReaddir _ n => HReaddir h n | HReaddirnames _ n => HReaddirnames h n | HStat _ => HStat h
  | HName _ => HName h | HSync _ => HSync h
  | _ => o
  end.

Definition run_item (k : stack) (st : ust * slots) (it : item) : (ust * slots) * tres :=
  let '(u, sl) := st in
  match it with
  | ISnap tgt => (st, TSnap (usnapshot k tgt u))
  | IIndex tgt => (st, TIndex (uindex k tgt u))
  | IOp tgt slot o =>
    match op_handle o with
    | Some sn =>
      match slot_get sl sn with
      | None => (st, TRes RNoSlot)
      | Some (tgt', h) => let '(u', r) := ustep_at k tgt' u (op_with_handle o h) in ((u', sl), TRes r)
      end
    | None =>
      let '(u', r) := ustep_at k tgt u o in
      match r, slot with
      | RHandle h, Some sn => ((u', (sn, (tgt, h)) :: sl), TRes r)
      | _, _ => ((u', sl), TRes r)
      end
    end
  end.

Fixpoint run_items (k : stack) (st : ust * slots) (its : list item) : list tres :=
  match its with
  | [] => []
  | it :: r => let '(st', x) := run_item k st it in x :: run_items k st' r
  end.

Definition run_case (k : stack) (its : list item) : list tres := run_items k (uinit k, []) its.
