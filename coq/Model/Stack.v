(* Model/Stack.v — stacks of filesystems over one universal state type, the top-level
   case language (targets, handle slots, snapshots) and its interpreter. *)
From AF Require Import Lib.Bytes Lib.Path Lib.Ops Gen.Consts Model.MemFile Model.MemFs Model.ReadOnly Model.BasePath
  Model.Regexp Model.Union Model.Cow Model.Cache Model.Faulty.

Inductive stack :=
| SMem
| SReadOnly (k : stack)
| SBasePath (root : str) (k : stack)
| SRegexp (pat : nat) (k : stack)
| SCow (b l : stack)
| SCache (dur : Z) (b l : stack)
| SFaulty (pl : list (nat * fault)) (k : stack).   (* fault injector: UW1 <call trace, newest first> <inner> *)

(* the regular expressions the harness uses, as functions of the whole name (all three are
   decided by the final path element); package regexp itself is trusted *)
Definition last_elem (name : str) : str := snd (path_split name).
Definition re_match (pat : nat) (name : str) : bool :=
  match pat with
  | 0%nat => has_suffix name [46; 116; 120; 116]%N                                   (* \.txt$ *)
  | 1%nat => negb (is_empty (last_elem name)) &&
             forallb (fun c => N.eqb c 97 || N.eqb c 98) (last_elem name)             (* (^|/)[ab]+$ *)
  | 2%nat => match last_elem name with c :: _ => N.eqb c 97 | [] => false end        (* (^|/)a[^/]*$ *)
  | _ => true
  end.

(* universal state: a memory filesystem, or a wrapper's own table around its children *)
Inductive ust :=
| UMem (m : mst)
| UW1 (wrapped : list nat) (u : ust)
| UW2 (clk : Z) (tbl : list chandle) (b l : ust).

Fixpoint uinit (k : stack) : ust :=
  match k with
  | SMem => UMem m_init
  | SReadOnly k' | SBasePath _ k' | SRegexp _ k' | SFaulty _ k' => UW1 [] (uinit k')
  | SCow b l | SCache _ b l => UW2 BIG [] (uinit b) (uinit l)
  end.

Definition unwrap1 (u : ust) : ust := match u with UW1 _ i => i | _ => u end.
Definition wrapped1 (u : ust) : list nat := match u with UW1 w _ => w | _ => [] end.
Definition base2 (u : ust) : ust := match u with UW2 _ _ b _ => b | _ => u end.
Definition layer2 (u : ust) : ust := match u with UW2 _ _ _ l => l | _ => u end.
Definition tbl2 (u : ust) : list chandle := match u with UW2 _ t _ _ => t | _ => [] end.
Definition clk2 (u : ust) : Z := match u with UW2 c _ _ _ => c | _ => 0%Z end.

Fixpoint ustep (k : stack) (u : ust) (o : op) : ust * res :=
  match k with
  | SMem => match u with UMem m => let '(m', r) := m_step m o in (UMem m', r) | _ => (u, RPanic) end
  | SReadOnly k' =>
      let '(i', r) := ro_step (ustep k') (unwrap1 u) o in (UW1 [] i', r)
  | SBasePath root k' =>
      let '(i', r) := bp_step (ustep k') root (unwrap1 u) o in (UW1 [] i', r)
  | SRegexp pat k' =>
      let '((i', w'), r) := re_step (ustep k') (re_match pat) (unwrap1 u, wrapped1 u) o in (UW1 w' i', r)
  | SCow kb kl =>
      let '((b', l', t'), r) := cow_step (ustep kb) (ustep kl) (base2 u, layer2 u, tbl2 u) o in
      (UW2 (clk2 u) t' b' l', r)
  | SCache dur kb kl =>
      let '((b', l', t'), r) := cache_step (ustep kb) (ustep kl) (dur * 1000000000000) (clk2 u) (base2 u, layer2 u, tbl2 u) o in
      (UW2 (clk2 u) t' b' l', r)
  | SFaulty pl k' =>
      let '((i', _), r) := faulty_step (ustep k') (fault_plan_of pl) (unwrap1 u, length (wrapped1 u)) o in
      (UW1 (fault_op_code o :: wrapped1 u) i', r)
  end.

(* apply an op to a layer of the stack addressed by a list of child indices *)
Fixpoint ustep_at (k : stack) (tgt : list nat) (u : ust) (o : op) : ust * res :=
  match tgt with
  | [] => ustep k u o
  | c :: t' =>
    match k with
    | SMem => (u, RNoSlot)
    | SReadOnly k' | SBasePath _ k' | SRegexp _ k' | SFaulty _ k' =>
      let '(i', r) := ustep_at k' t' (unwrap1 u) o in (UW1 (wrapped1 u) i', r)
    | SCow kb kl | SCache _ kb kl =>
      match c with
      | O => let '(b', r) := ustep_at kb t' (base2 u) o in (UW2 (clk2 u) (tbl2 u) b' (layer2 u), r)
      | _ => let '(l', r) := ustep_at kl t' (layer2 u) o in (UW2 (clk2 u) (tbl2 u) (base2 u) l', r)
      end
    end
  end.

(* time.Now() during one top-level item: every clock of the stack is set to [now] *)
Fixpoint uset_clock (k : stack) (u : ust) (now : Z) : ust :=
  match k with
  | SMem => match u with UMem m => UMem (mkM (mdata m) (mheap m) (mhandles m) now) | _ => u end
  | SReadOnly k' | SBasePath _ k' | SRegexp _ k' | SFaulty _ k' => UW1 (wrapped1 u) (uset_clock k' (unwrap1 u) now)
  | SCow kb kl | SCache _ kb kl =>
    UW2 now (tbl2 u) (uset_clock kb (base2 u) now) (uset_clock kl (layer2 u) now)
  end.

Fixpoint usub (k : stack) (tgt : list nat) (u : ust) : option mst :=
  match tgt, k with
  | [], SMem => match u with UMem m => Some m | _ => None end
  | _ :: t', SReadOnly k' | _ :: t', SBasePath _ k' | _ :: t', SRegexp _ k' | _ :: t', SFaulty _ k' => usub k' t' (unwrap1 u)
  | c :: t', SCow kb kl | c :: t', SCache _ kb kl =>
    match c with O => usub kb t' (base2 u) | _ => usub kl t' (layer2 u) end
  | _, _ => None
  end.

Definition usnapshot (k : stack) (tgt : list nat) (u : ust) : list entry :=
  match usub k tgt u with Some m => snapshot m | None => [] end.

(* full internal dump of a MemMapFs layer: (path, node name, child-index keys with the child's name) *)
Definition mem_index (m : mst) : list (str * str * list (str * str)) :=
  sort_by (fun a b => bltb (fst (fst a)) (fst (fst b)))
    (map (fun kv => match get_node m (snd kv) with
                    | Some n => (fst kv, nname n,
                                 sort_by (fun a b => bltb (fst a) (fst b))
                                   (map (fun kc => (fst kc, node_name m (snd kc))) (nkids n)))
                    | None => (fst kv, [], [])
                    end) (mdata m)).
Definition uindex (k : stack) (tgt : list nat) (u : ust) : list (str * str * list (str * str)) :=
  match usub k tgt u with Some m => mem_index m | None => [] end.

(* ---- top-level case language ---- *)
Inductive item :=
| IOp (tgt : list nat) (slot : option nat) (o : op)   (* handle args of H-ops are SLOT numbers *)
| ISnap (tgt : list nat)
| IIndex (tgt : list nat).

Inductive tres :=
| TRes (r : res)
| TSnap (l : list entry)
| TIndex (l : list (str * str * list (str * str))).

Definition slots := list (nat * (list nat * nat)).   (* slot -> (target, handle of that layer) *)

Fixpoint slot_get (sl : slots) (n : nat) : option (list nat * nat) :=
  match sl with
  | [] => None
  | (k, v) :: r => if Nat.eqb k n then Some v else slot_get r n
  end.

Definition op_handle (o : op) : option nat := op_handle_of o.
Definition op_with_handle (o : op) (h : nat) : op := op_set_handle o h.

Definition run_item (k : stack) (st : ust * slots) (it : item) : (ust * slots) * tres :=
  let '(u, sl) := st in
  match it with
  | ISnap tgt => (st, TSnap (usnapshot k tgt u))
  | IIndex tgt => (st, TIndex (uindex k tgt u))
  | IOp tgt slot o =>
    match op_handle o with
    | Some sn =>
      match slot_get sl sn with
      | None => (st, TRes RNoSlot)
      | Some (tgt', h) => let '(u', r) := ustep_at k tgt' u (op_with_handle o h) in ((u', sl), TRes r)
      end
    | None =>
      let '(u', r) := ustep_at k tgt u o in
      match r, slot with
      | RHandle h, Some sn => ((u', (sn, (tgt, h)) :: sl), TRes r)
      | _, _ => ((u', sl), TRes r)
      end
    end
  end.

(* item number i runs with time.Now() = BIG + 1000 * i on every layer *)
Fixpoint run_items (k : stack) (i : Z) (st : ust * slots) (its : list item) : list tres :=
  match its with
  | [] => []
  | it :: r =>
    let st0 := (uset_clock k (fst st) (BIG + 1000 * i)%Z, snd st) in
    let '(st', x) := run_item k st0 it in x :: run_items k (i + 1)%Z st' r
  end.

Definition run_case (k : stack) (its : list item) : list tres := run_items k 0%Z (uinit k, []) its.
