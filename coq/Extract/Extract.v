(* Extraction of the executable models.  ExtrOcamlBasic only: bool, option, unit, list,
   prod, sumbool/sumor map to OCaml's; nat, N, Z, positive stay Coq inductives. *)
From Coq Require Import extraction.Extraction extraction.ExtrOcamlBasic.
From AF Require Import Lib.Bytes Gen.Consts Model.Search.
Extraction Language OCaml.
Extraction "model.ml" reader_contains_any contains_spec.
