#!/bin/bash
# Build the framework from files on disk only (offline): Coq development, extracted model
# runner, Go harness.  Safe to re-run.
set -u
cd "$(dirname "$0")"
export GOFLAGS=-mod=mod GOPROXY=off GOSUMDB=off GOTOOLCHAIN=local CGO_ENABLED=0
mkdir -p work evidence replays
rc=0
( cd harness && cp /repo/go.sum go.sum && go build -o afcheck ./cmd/afcheck ) || rc=1
[ -x harness/afcheck ] && harness/afcheck consts -repo /repo -out coq/Gen/Consts.v || rc=1
tools/mkcoqproject.sh
( cd coq && timeout 3000 make -k -j16 2>&1 | tail -40 ) || rc=1
ocaml/build.sh || rc=1
for m in harness-gcs harness-sftp; do
  if [ -d "$m" ]; then ( cd "$m" && ./build.sh ) || rc=1; fi
done
exit $rc
