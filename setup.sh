#!/bin/bash
# Build the framework from files on disk only (offline): Go harness modules (with the verif
# overlay), regenerated constants, the Coq development, the extracted model runner.  Safe to re-run.
cd "$(dirname "$0")"
mkdir -p work evidence replays
exec ./check build
