From AF Require Import Lib.Bytes Lib.Path Lib.Ops Gen.Consts Model.MemFile Model.MemFs Model.WfOps Model.Posix.
Local Open Scope N_scope.
Definition ops6 : list op :=
  [ Mkdir [47;100] 493%Z; Create [47;100;47;97]; Open [47;100]; RemoveAll [47;100]; HReaddirnames 1 (-1)%Z; Stat [47;100;47;97] ].
Eval vm_compute in (snd (run_steps m_step m_init ops6), wf_seq m_init ops6, wf_seq_sim m_init ops6).
Definition ops7 : list op :=
  [ Mkdir [47;100] 493%Z; Create [47;100;47;97]; Open [47;100]; Remove [47;100;47;97]; Remove [47;100]; Mkdir [47;100] 493%Z; Create [47;100;47;98]; HReaddirnames 1 (-1)%Z ].
Eval vm_compute in (snd (run_steps m_step m_init ops7), wf_seq m_init ops7, wf_seq_sim m_init ops7).
