From AF Require Import Lib.Bytes Lib.Path Lib.Ops Gen.Consts Model.MemFile Model.MemFs Model.Stack.
Local Open Scope N_scope.
Definition run ops := run_steps m_step m_init ops.
Definition A := [47;97]. Definition AB := [47;97;47;98]. Definition R := [47].
Eval vm_compute in (let '(s, r) := run [Remove R; Mkdir A 493] in (mem_index s, r)).
Eval vm_compute in (let '(s, r) := run [Mkdir A 493; RemoveAll R; Stat R; Stat A; Mkdir AB 493] in (mem_index s, r)).
Eval vm_compute in (let '(s, r) := run [Mkdir A 493; Mkdir AB 493; Rename A [47;99]] in (mem_index s, r)).
Eval vm_compute in (depth R, depth A, depth AB).
