From AF Require Import Lib.Bytes Lib.Path Lib.Ops Gen.Consts Model.MemFile Model.MemFs Model.WfOps Model.Posix Props.C01.
Local Open Scope N_scope.
Definition both (ops : list op) :=
  let '(s, outs) := run_steps m_step m_init ops in
  let '(t, pouts) := p_run p_init ops in
  (wf_seq_sim m_init ops, map (fun '(o, r) => mproj o r) (combine ops outs), pouts).
Eval vm_compute in (both c01_demo).
Eval vm_compute in (both c01_demo3).
Definition ops5 : list op :=
  [ MkdirAll [47;97;47;98;47;99] 493%Z; OpenFile [47;97;47;102] (Z.lor o_create o_rdwr) 420%Z; HWrite 0 [1;2;3;4];
    HSeek 0 1%Z 0%Z; HRead 0 2%Z; HReadAt 0 10%Z 2%Z; HTruncate 0 2%Z; HStat 0; Stat [47;97;47;102];
    OpenFile [47;97;47;102] (Z.lor o_trunc o_wronly) 0%Z; Stat [47;97;47;102]; Chmod [47;97;47;102] 511%Z;
    OpenFile [47;97;47;102] (Z.lor (Z.lor o_create o_excl) o_rdwr) 0%Z; OpenFile [47;122] o_rdonly 0%Z;
    Open [47;97]; HReaddir 2 1%Z; HReaddir 2 1%Z; HReaddir 2 1%Z; HClose 2; HClose 2; HWrite 0 [9]; Remove [47;97;47;102]; HWrite 0 [9]; HStat 0;
    Rename [47;97] [47;98]; Stat [47;98;47;98;47;99]; RemoveAll [47;98;47;98]; Stat [47;98;47;98;47;99]; Create [47;98;47;103]; Create [47;98;47;103] ].
Eval vm_compute in (both ops5).
Eval vm_compute in (let '(s, outs) := run_steps m_step m_init ops5 in let '(t, pouts) := p_run p_init ops5 in (snapshot s, ptree t, pinodes t)).
