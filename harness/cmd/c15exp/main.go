package main

import (
	"fmt"
	"testing/fstest"

	"github.com/spf13/afero"
)

func build(fs afero.Fs, root string) {
	fs.MkdirAll(root+"/d/e", 0o755)
	fs.MkdirAll(root+"/empty", 0o755)
	afero.WriteFile(fs, root+"/a", []byte("hello"), 0o644)
	afero.WriteFile(fs, root+"/a.b", []byte(""), 0o644)
	afero.WriteFile(fs, root+"/a-b", []byte("x"), 0o644)
	afero.WriteFile(fs, root+"/B", []byte("0123456789"), 0o644)
	afero.WriteFile(fs, root+"/d/f", make([]byte, 5000), 0o644)
	afero.WriteFile(fs, root+"/d/e/g", []byte("g"), 0o644)
}

var exp = []string{"a", "a.b", "a-b", "B", "d", "d/e", "d/f", "d/e/g", "empty"}

func main() {
	{
		m := afero.NewMemMapFs()
		build(m, "")
		fmt.Println("mem raw:", fstest.TestFS(afero.NewIOFS(m), exp...))
		fmt.Println("mem bp/:", fstest.TestFS(afero.NewIOFS(afero.NewBasePathFs(m, "/")), exp...))
		s, _ := afero.NewIOFS(m).Sub("/")
		fmt.Println("mem sub/:", fstest.TestFS(s, exp...))
		fmt.Println("ro bp/:", fstest.TestFS(afero.NewIOFS(afero.NewBasePathFs(afero.NewReadOnlyFs(m), "/")), exp...))
	}
	{
		m := afero.NewMemMapFs()
		build(m, "/d0")
		fmt.Println("bp:/d0 raw:", fstest.TestFS(afero.NewIOFS(afero.NewBasePathFs(m, "/d0")), exp...))
		fmt.Println("bp:/d0 bp/:", fstest.TestFS(afero.NewIOFS(afero.NewBasePathFs(afero.NewBasePathFs(m, "/d0"), "/")), exp...))
	}
	{
		b, l := afero.NewMemMapFs(), afero.NewMemMapFs()
		build(b, "")
		l.MkdirAll("/d/e", 0o755)
		afero.WriteFile(l, "/d/l1", []byte("l1"), 0o644)
		afero.WriteFile(l, "/a", []byte("over"), 0o644)
		afero.WriteFile(l, "/zz", []byte("zz"), 0o644)
		cow := afero.NewCopyOnWriteFs(b, l)
		e2 := append(append([]string{}, exp...), "d/l1", "zz")
		fmt.Println("cow bp/:", fstest.TestFS(afero.NewIOFS(afero.NewBasePathFs(cow, "/")), e2...))
	}
}
