package main

// constants for the wrapper models (RegexpFs, CopyOnWriteFs, CacheOnReadFs, UnionFile)
import (
	"fmt"
	"go/ast"
	"go/token"
)

func init() { extraConsts = append(extraConsts, wrapConsts) }

func hasCompositeLit(fd *ast.FuncDecl, typeName string) bool {
	found := false
	ast.Inspect(fd, func(n ast.Node) bool {
		if cl, ok := n.(*ast.CompositeLit); ok {
			if id, ok := cl.Type.(*ast.Ident); ok && id.Name == typeName {
				found = true
			}
		}
		return true
	})
	return found
}

// does fn contain a call <recv>.<method>(...) ?
func hasMethodCall(fd *ast.FuncDecl, method string) bool {
	found := false
	ast.Inspect(fd, func(n ast.Node) bool {
		if ce, ok := n.(*ast.CallExpr); ok {
			if se, ok := ce.Fun.(*ast.SelectorExpr); ok && se.Sel.Name == method {
				found = true
			}
		}
		return true
	})
	return found
}

// does fn assign to the selector <x>.<field> (x any identifier)?
func assignsField(fd *ast.FuncDecl, field string) bool {
	found := false
	ast.Inspect(fd, func(n ast.Node) bool {
		switch as := n.(type) {
		case *ast.AssignStmt:
			for _, l := range as.Lhs {
				if se, ok := l.(*ast.SelectorExpr); ok && se.Sel.Name == field && as.Tok != token.DEFINE {
					found = true
				}
			}
		}
		return true
	})
	return found
}

func wrapConsts(repo string, add func(string, int64, string)) error {
	b2i := func(b bool) int64 {
		if b {
			return 1
		}
		return 0
	}
	re, err := parseSrc(repo, "regexpfs.go")
	if err != nil {
		return err
	}
	fd := re.fn("RegexpFs", "OpenFile")
	if fd == nil {
		return fmt.Errorf("regexpfs.go: RegexpFs.OpenFile not found")
	}
	add("regexp_openfile_wraps", b2i(hasCompositeLit(fd, "RegexpFile")), "regexpfs.go OpenFile: 1 iff the returned file is wrapped in a RegexpFile (filtered listings)")

	cow, err := parseSrc(repo, "copyOnWriteFs.go")
	if err != nil {
		return err
	}
	fd = cow.fn("CopyOnWriteFs", "OpenFile")
	if fd == nil {
		return fmt.Errorf("copyOnWriteFs.go: CopyOnWriteFs.OpenFile not found")
	}
	mk := flagMask(fd)
	if mk == nil {
		return fmt.Errorf("copyOnWriteFs.go: OpenFile flag mask not found")
	}
	v, err := evalConst(mk)
	if err != nil {
		return fmt.Errorf("copyOnWriteFs.go: OpenFile flag mask: %v", err)
	}
	add("cow_mask", v, "copyOnWriteFs.go OpenFile: write path iff flag&MASK != 0")

	if mk := cow.fn("CopyOnWriteFs", "Mkdir"); mk == nil {
		return fmt.Errorf("copyOnWriteFs.go: CopyOnWriteFs.Mkdir not found")
	} else {
		add("cow_mkdir_checks_union", b2i(hasMethodCall(mk, "Stat")), "copyOnWriteFs.go Mkdir: 1 iff it refuses a name the union's Stat finds (overlay or base, file or directory)")
	}
	ca, err := parseSrc(repo, "cacheOnReadFs.go")
	if err != nil {
		return err
	}
	fd = ca.fn("CacheOnReadFs", "OpenFile")
	if fd == nil {
		return fmt.Errorf("cacheOnReadFs.go: CacheOnReadFs.OpenFile not found")
	}
	mk = flagMask(fd)
	if mk == nil {
		return fmt.Errorf("cacheOnReadFs.go: OpenFile flag mask not found")
	}
	v, err = evalConst(mk)
	if err != nil {
		return fmt.Errorf("cacheOnReadFs.go: OpenFile flag mask: %v", err)
	}
	add("cache_mask", v, "cacheOnReadFs.go OpenFile: union handle over both layers iff flag&MASK != 0")

	// CacheOnReadFs.copyToLayer: directories made with MkdirAll instead of copied?
	fd = ca.fn("CacheOnReadFs", "copyToLayer")
	if fd == nil {
		return fmt.Errorf("cacheOnReadFs.go: CacheOnReadFs.copyToLayer not found")
	}
	add("cache_copy_dir_mkdir", b2i(hasMethodCall(fd, "MkdirAll")), "cacheOnReadFs.go copyToLayer: 1 iff a base directory is created in the layer with MkdirAll")
	// CacheOnReadFs.Remove: a `case cacheMiss:` clause of its own?
	fd = ca.fn("CacheOnReadFs", "Remove")
	if fd == nil {
		return fmt.Errorf("cacheOnReadFs.go: CacheOnReadFs.Remove not found")
	}
	own := false
	ast.Inspect(fd, func(n ast.Node) bool {
		if cc, ok := n.(*ast.CaseClause); ok && len(cc.List) == 1 {
			if id, ok := cc.List[0].(*ast.Ident); ok && id.Name == "cacheMiss" {
				for _, st := range cc.Body {
					if _, ok := st.(*ast.ReturnStmt); ok {
						own = true
					}
				}
			}
		}
		return true
	})
	add("cache_remove_miss_base_only", b2i(own), "cacheOnReadFs.go Remove: 1 iff a cache miss returns the base's Remove result without calling the layer")
	// CacheOnReadFs.OpenFile: `flag &^= os.O_EXCL` after the copy?
	fd = ca.fn("CacheOnReadFs", "OpenFile")
	clr := false
	ast.Inspect(fd, func(n ast.Node) bool {
		if as, ok := n.(*ast.AssignStmt); ok && as.Tok == token.AND_NOT_ASSIGN {
			clr = true
		}
		return true
	})
	add("cache_openfile_clears_excl", b2i(clr), "cacheOnReadFs.go OpenFile: 1 iff O_EXCL is cleared from the flags after copyFileToLayer")
	// CacheOnReadFs.OpenFile, miss/stale branch: is a DIRECTORY of the base made in the layer (base.Stat,
	// IsDir, layer.MkdirAll) instead of being sent through copyFileToLayer?  Exactly two shapes are known:
	// all three calls present (1) or none of them (0); anything else is an error.
	{
		hasStat, hasIsDir, hasMk := hasMethodCall(fd, "Stat"), hasMethodCall(fd, "IsDir"), hasMethodCall(fd, "MkdirAll")
		if !hasMethodCall(fd, "copyFileToLayer") {
			return fmt.Errorf("cacheOnReadFs.go: CacheOnReadFs.OpenFile no longer calls copyFileToLayer: unknown shape")
		}
		switch {
		case hasStat && hasIsDir && hasMk:
			add("cache_openfile_dir_mkdir", 1, "cacheOnReadFs.go OpenFile: 1 iff on a miss/stale name a base directory is created in the layer with MkdirAll instead of copied like a file")
		case !hasStat && !hasIsDir && !hasMk:
			add("cache_openfile_dir_mkdir", 0, "cacheOnReadFs.go OpenFile: 1 iff on a miss/stale name a base directory is created in the layer with MkdirAll instead of copied like a file")
		default:
			return fmt.Errorf("cacheOnReadFs.go: CacheOnReadFs.OpenFile: unknown shape of the directory branch (Stat=%v IsDir=%v MkdirAll=%v)", hasStat, hasIsDir, hasMk)
		}
	}

	uf, err := parseSrc(repo, "unionFile.go")
	if err != nil {
		return err
	}
	fd = uf.fn("UnionFile", "ReadAt")
	if fd == nil {
		return fmt.Errorf("unionFile.go: UnionFile.ReadAt not found")
	}
	add("union_readat_seeks_base", b2i(hasMethodCall(fd, "Seek")), "unionFile.go ReadAt: 1 iff it seeks the base handle after reading the layer")
	if cf := uf.fn("", "copyFileToLayer"); cf == nil {
		return fmt.Errorf("unionFile.go: copyFileToLayer not found")
	} else {
		// flag&^os.O_APPEND (an expression) or flag &^= os.O_APPEND (a statement): the operand is O_APPEND
		isSel := func(e ast.Expr, name string) bool {
			se, ok := e.(*ast.SelectorExpr)
			return ok && se.Sel.Name == name
		}
		andnot, rdwr := false, false
		ast.Inspect(cf, func(n ast.Node) bool {
			switch x := n.(type) {
			case *ast.BinaryExpr:
				if x.Op == token.AND_NOT && isSel(x.Y, "O_APPEND") {
					andnot = true
				}
			case *ast.AssignStmt:
				if x.Tok == token.AND_NOT_ASSIGN && len(x.Rhs) == 1 && isSel(x.Rhs[0], "O_APPEND") {
					andnot = true
				}
			case *ast.IfStmt:
				// if flag&os.O_WRONLY != 0 { flag = flag&^os.O_WRONLY | os.O_RDWR }
				condW, bodyRW := false, false
				ast.Inspect(x.Cond, func(m ast.Node) bool {
					if e, ok := m.(ast.Expr); ok && isSel(e, "O_WRONLY") {
						condW = true
					}
					return true
				})
				ast.Inspect(x.Body, func(m ast.Node) bool {
					if as, ok := m.(*ast.AssignStmt); ok && len(as.Lhs) == 1 {
						if id, ok := as.Lhs[0].(*ast.Ident); ok && id.Name == "flag" {
							ast.Inspect(as.Rhs[0], func(k ast.Node) bool {
								if e, ok := k.(ast.Expr); ok && isSel(e, "O_RDWR") {
									bodyRW = true
								}
								return true
							})
						}
					}
					return true
				})
				if condW && bodyRW {
					rdwr = true
				}
			}
			return true
		})
		add("copyfiletolayer_clears_append", b2i(andnot), "unionFile.go copyFileToLayer: 1 iff the base is opened with flag&^os.O_APPEND")
		add("copyfiletolayer_reads_through_rdwr", b2i(rdwr), "unionFile.go copyFileToLayer: 1 iff a write-only access mode is replaced by O_RDWR for the handle the copy reads from (not observable on MemMapFs, whose write-only handles can be read; the operating-system scenario of C11 exercises it)")
	}
	fd = uf.fn("UnionFile", "Readdir")
	if fd == nil {
		return fmt.Errorf("unionFile.go: UnionFile.Readdir not found")
	}
	// Readdir(c <= 0): does the branch advance f.off (so that a second call returns nothing)?
	adv := false
	ast.Inspect(fd, func(n ast.Node) bool {
		is, ok := n.(*ast.IfStmt)
		if !ok {
			return true
		}
		be, ok := is.Cond.(*ast.BinaryExpr)
		if !ok || be.Op != token.LEQ {
			return true
		}
		if id, ok := be.X.(*ast.Ident); !ok || id.Name != "c" {
			return true
		}
		for _, st := range is.Body.List {
			if as, ok := st.(*ast.AssignStmt); ok {
				for _, l := range as.Lhs {
					if se, ok := l.(*ast.SelectorExpr); ok && se.Sel.Name == "off" {
						adv = true
					}
				}
			}
		}
		return true
	})
	add("union_readdir_all_advances", b2i(adv), "unionFile.go Readdir(c<=0): 1 iff the call advances the offset to the end of the listing")
	return nil
}
