package main

// constants for the gcsfs model (C20), read from the current sources of /repo/gcsfs
import (
	"fmt"
	"go/ast"
)

func init() { extraConsts = append(extraConsts, gcsConsts) }

func gcsConsts(repo string, add func(string, int64, string)) error {
	f, err := parseSrc(repo, "gcsfs/file_info.go")
	if err != nil {
		return err
	}
	fd := f.fn("", "newFileInfo")
	if fd == nil {
		return fmt.Errorf("gcsfs/file_info.go: newFileInfo not found")
	}
	// the folder probe: Objects(ctx, &storage.Query{Delimiter: .., Prefix: <X>, ..}) —
	// X = bucketPath (0) or fs.ensureTrailingSeparator(bucketPath) (1)
	val := int64(-1)
	ast.Inspect(fd, func(n ast.Node) bool {
		cl, ok := n.(*ast.CompositeLit)
		if !ok {
			return true
		}
		se, ok := cl.Type.(*ast.SelectorExpr)
		if !ok || se.Sel.Name != "Query" {
			return true
		}
		for _, e := range cl.Elts {
			kv, ok := e.(*ast.KeyValueExpr)
			if !ok {
				continue
			}
			if k, ok := kv.Key.(*ast.Ident); !ok || k.Name != "Prefix" {
				continue
			}
			switch v := kv.Value.(type) {
			case *ast.Ident:
				if v.Name == "bucketPath" {
					val = 0
				}
			case *ast.CallExpr:
				if s, ok := v.Fun.(*ast.SelectorExpr); ok && s.Sel.Name == "ensureTrailingSeparator" && len(v.Args) == 1 {
					if a, ok := v.Args[0].(*ast.Ident); ok && a.Name == "bucketPath" {
						val = 1
					}
				}
			}
		}
		return true
	})
	if val < 0 {
		return fmt.Errorf("gcsfs/file_info.go: newFileInfo: the Prefix of the folder probe is not recognised")
	}
	add("gcs_fileinfo_prefix_sep", val, "gcsfs/file_info.go newFileInfo: 1 iff the folder probe lists with the prefix path+separator (0: the bare path, which also matches look-alike siblings such as d.txt for d)")
	return nil
}
