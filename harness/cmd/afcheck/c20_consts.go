package main

// constants for the gcsfs model (C20), read from the current sources of /repo/gcsfs
import (
	"fmt"
	"go/ast"
)

func init() { extraConsts = append(extraConsts, gcsConsts) }

func gcsConsts(repo string, add func(string, int64, string)) error {
	f, err := parseSrc(repo, "gcsfs/file_info.go")
	if err != nil {
		return err
	}
	fd := f.fn("", "newFileInfo")
	if fd == nil {
		return fmt.Errorf("gcsfs/file_info.go: newFileInfo not found")
	}
	// the folder probe: Objects(ctx, &storage.Query{Delimiter: .., Prefix: <X>, ..}) —
	// X = bucketPath (0) or fs.ensureTrailingSeparator(bucketPath) (1)
	val := int64(-1)
	ast.Inspect(fd, func(n ast.Node) bool {
		cl, ok := n.(*ast.CompositeLit)
		if !ok {
			return true
		}
		se, ok := cl.Type.(*ast.SelectorExpr)
		if !ok || se.Sel.Name != "Query" {
			return true
		}
		for _, e := range cl.Elts {
			kv, ok := e.(*ast.KeyValueExpr)
			if !ok {
				continue
			}
			if k, ok := kv.Key.(*ast.Ident); !ok || k.Name != "Prefix" {
				continue
			}
			switch v := kv.Value.(type) {
			case *ast.Ident:
				if v.Name == "bucketPath" {
					val = 0
				}
			case *ast.CallExpr:
				if s, ok := v.Fun.(*ast.SelectorExpr); ok && s.Sel.Name == "ensureTrailingSeparator" && len(v.Args) == 1 {
					if a, ok := v.Args[0].(*ast.Ident); ok && a.Name == "bucketPath" {
						val = 1
					}
				}
			}
		}
		return true
	})
	if val < 0 {
		return fmt.Errorf("gcsfs/file_info.go: newFileInfo: the Prefix of the folder probe is not recognised")
	}
	if err := gcsFileConsts(repo, add); err != nil {
		return err
	}
	add("gcs_fileinfo_prefix_sep", val, "gcsfs/file_info.go newFileInfo: 1 iff the folder probe lists with the prefix path+separator (0: the bare path, which also matches look-alike siblings such as d.txt for d)")
	return nil
}

// exprString renders a small expression (identifiers, selectors, calls, binary/unary operators,
// literals) in a canonical spelling for shape comparison
func exprString(e ast.Expr) string {
	switch v := e.(type) {
	case *ast.Ident:
		return v.Name
	case *ast.BasicLit:
		return v.Value
	case *ast.SelectorExpr:
		return exprString(v.X) + "." + v.Sel.Name
	case *ast.ParenExpr:
		return "(" + exprString(v.X) + ")"
	case *ast.UnaryExpr:
		return v.Op.String() + exprString(v.X)
	case *ast.BinaryExpr:
		return exprString(v.X) + v.Op.String() + exprString(v.Y)
	case *ast.CallExpr:
		s := exprString(v.Fun) + "("
		for i, a := range v.Args {
			if i > 0 {
				s += ","
			}
			s += exprString(a)
		}
		return s + ")"
	}
	return "?"
}

// the three earlier repairs of gcsfs, recognised by shape (coq/Model/Gcs.v: cfg_src)
func gcsFileConsts(repo string, add func(string, int64, string)) error {
	f, err := parseSrc(repo, "gcsfs/file.go")
	if err != nil {
		return err
	}
	// Readdir: `if count > 0 && count < len(fi) { fi = fi[:count] }` (1) or `if count > 0 {` (0)
	rd := f.fn("GcsFile", "Readdir")
	if rd == nil {
		return fmt.Errorf("gcsfs/file.go: GcsFile.Readdir not found")
	}
	bound := int64(-1)
	ast.Inspect(rd, func(n ast.Node) bool {
		if is, ok := n.(*ast.IfStmt); ok && bound < 0 {
			switch exprString(is.Cond) {
			case "count>0&&count<len(fi)":
				bound = 1
			case "count>0":
				bound = 0
			}
		}
		return true
	})
	if bound < 0 {
		return fmt.Errorf("gcsfs/file.go: Readdir: the count guard is not recognised")
	}
	add("gcs_readdir_bounds_count", bound, "gcsfs/file.go Readdir: 1 iff the slice fi[:count] is taken only when count < len(fi) (0: panics when count exceeds the listing)")
	// readdirImpl: which entries are the folder's own?
	ri := f.fn("GcsFile", "readdirImpl")
	if ri == nil {
		return fmt.Errorf("gcsfs/file.go: GcsFile.readdirImpl not found")
	}
	own := int64(-1)
	ast.Inspect(ri, func(n ast.Node) bool {
		if is, ok := n.(*ast.IfStmt); ok {
			switch exprString(is.Cond) {
			case `object.Prefix==""&&object.Name==ownPath`:
				own = 1
			case "tmp.Name()==ownInfo.Name()":
				if own < 0 {
					own = 0
				}
			}
		}
		return true
	})
	if own < 0 {
		return fmt.Errorf("gcsfs/file.go: readdirImpl: the own-entry test is not recognised")
	}
	add("gcs_readdir_skips_own_path", own, "gcsfs/file.go readdirImpl: 1 iff the folder's own placeholder is recognised by its object path (0: by base name, which also drops a child named like the folder)")
	g, err := parseSrc(repo, "gcsfs/fs.go")
	if err != nil {
		return err
	}
	ra := g.fn("Fs", "RemoveAll")
	if ra == nil {
		return fmt.Errorf("gcsfs/fs.go: Fs.RemoveAll not found")
	}
	// RemoveAll: the final Remove of the folder itself — `return fs.Remove(path)` (0) or the
	// result checked with errors.Is(err, ErrFileNotFound) (1)
	nIs := 0
	tail := int64(-1)
	ast.Inspect(ra, func(n ast.Node) bool {
		if c, ok := n.(*ast.CallExpr); ok && exprString(c) == "errors.Is(err,ErrFileNotFound)" {
			nIs++
		}
		return true
	})
	if body := ra.Body.List; len(body) > 0 {
		if rs, ok := body[len(body)-1].(*ast.ReturnStmt); ok && len(rs.Results) == 1 {
			switch exprString(rs.Results[0]) {
			case "fs.Remove(path)":
				tail = 0
			case "err":
				if nIs >= 2 {
					tail = 1
				}
			}
		}
	}
	if tail < 0 {
		return fmt.Errorf("gcsfs/fs.go: RemoveAll: the tail (removal of the folder itself) is not recognised")
	}
	add("gcs_removeall_implicit_ok", tail, "gcsfs/fs.go RemoveAll: 1 iff not-found from the final Remove of the folder itself is success (an implicit folder is gone with its last object)")
	return nil
}
