package main

// canon.go — the one place where implementation results are projected to canonical text.
// Never compared: addresses, clock values ("now"), directory sizes, error strings.

import (
	"errors"
	"fmt"
	"io"
	"io/fs"
	"os"
	"sort"
	"strings"
	"syscall"
	"time"

	"github.com/spf13/afero"
	"github.com/spf13/afero/mem"
)

func errClass(err error) string {
	if err == nil {
		return "-"
	}
	e := err
	for i := 0; i < 4; i++ {
		switch x := e.(type) {
		case *os.PathError:
			e = x.Err
		case *os.LinkError:
			e = x.Err
		case *os.SyscallError:
			e = x.Err
		}
	}
	switch {
	case e == mem.ErrFileClosed || e == os.ErrClosed || e == afero.ErrFileClosed:
		return "Closed"
	case e == io.EOF:
		return "EOF"
	case e == io.ErrUnexpectedEOF:
		return "UnexpectedEOF"
	case e == io.ErrShortWrite:
		return "ShortWrite"
	case e == mem.ErrOutOfRange:
		return "OutOfRange"
	case e == os.ErrNotExist || e == syscall.ENOENT:
		return "NotExist"
	case e == os.ErrExist || e == syscall.EEXIST:
		return "Exist"
	case e == syscall.ENOTEMPTY:
		return "NotEmpty"
	case e == syscall.EPERM || e == os.ErrPermission || e == syscall.EACCES:
		return "Perm"
	case e == syscall.ENOTDIR:
		return "NotDir"
	case e == syscall.EIO:
		return "IO"
	case e == syscall.EBADFD || e == syscall.EBADF:
		return "BadFd"
	case e == syscall.EROFS:
		return "ROFS"
	case e == syscall.EINVAL || e == os.ErrInvalid:
		return "Invalid"
	case e == syscall.EISDIR:
		return "IsDir"
	}
	if errors.Is(err, fs.ErrNotExist) {
		return "NotExist"
	}
	msg := e.Error()
	switch {
	case strings.Contains(msg, "file handle is read only"):
		return "ReadOnlyHandle"
	case strings.Contains(msg, "not a dir"):
		return "NotDir"
	case strings.Contains(msg, "negative offset") || strings.Contains(msg, "negative position"):
		return "Invalid"
	case strings.Contains(msg, "BaseErr:"):
		return "Combined"
	}
	return "Other"
}

const nowThreshold = 1_500_000_000 // explicit times used by the generators are below 2017

func mtimeS(t time.Time) string {
	if t.Unix() >= nowThreshold {
		return "now"
	}
	return fmt.Sprint(t.Unix())
}

func fiS(fi os.FileInfo) string {
	size := "-"
	d := "d"
	if !fi.IsDir() {
		size = fmt.Sprint(fi.Size())
		d = "f"
	}
	return fmt.Sprintf("%s|%s|%s|%d|%s", hx([]byte(fi.Name())), d, size, uint32(fi.Mode()), mtimeS(fi.ModTime()))
}

func fisS(l []os.FileInfo) string {
	parts := make([]string, len(l))
	for i, fi := range l {
		// listing entries: name and kind only (a UnionFile re-serves cached, live FileInfos whose
		// size/mode/mtime follow later changes; attributes are compared through Stat and snapshots)
		d := "f"
		if fi.IsDir() {
			d = "d"
		}
		parts[i] = hx([]byte(fi.Name())) + "|" + d
	}
	// listings are compared as sorted lists (a UnionFile lists in Go map order); order-sensitive
	// properties (C16, C15) compare order in their own harnesses
	sort.Strings(parts)
	return strings.Join(parts, ",")
}

func namesS(l []string) string {
	parts := make([]string, len(l))
	for i, n := range l {
		parts[i] = hx([]byte(n))
	}
	sort.Strings(parts)
	return strings.Join(parts, ",")
}

// list results with a non-EOF error and no entries print as a plain error
func listRes(kind, body string, n int, err error) string {
	if err != nil && err != io.EOF && n == 0 {
		return "err:" + errClass(err)
	}
	return fmt.Sprintf("%s:%s:%s", kind, body, errClass(err))
}

func snapS(es []afero.VerifEntry) string {
	sort.Slice(es, func(i, j int) bool { return es[i].Path < es[j].Path })
	parts := make([]string, len(es))
	for i, e := range es {
		d := "f"
		if e.Dir {
			d = "d"
		}
		parts[i] = fmt.Sprintf("%s|%s|%s|%d|%s", hx([]byte(e.Path)), d, hx(e.Data), uint32(e.Mode), mtimeS(e.ModTime))
	}
	return "snap:" + strings.Join(parts, ";")
}

func indexS(es []afero.VerifEntry) string {
	sort.Slice(es, func(i, j int) bool { return es[i].Path < es[j].Path })
	parts := make([]string, len(es))
	for i, e := range es {
		type kv struct{ k, n string }
		var kids []kv
		for j := range e.KidKeys {
			kids = append(kids, kv{e.KidKeys[j], e.KidNames[j]})
		}
		sort.Slice(kids, func(a, b int) bool { return kids[a].k < kids[b].k })
		ks := make([]string, len(kids))
		for j, k := range kids {
			ks[j] = hx([]byte(k.k)) + "=" + hx([]byte(k.n))
		}
		parts[i] = fmt.Sprintf("%s|%s|%s", hx([]byte(e.Path)), hx([]byte(e.Name)), strings.Join(ks, ","))
	}
	return "index:" + strings.Join(parts, ";")
}
