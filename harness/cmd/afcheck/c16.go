package main

// C16 — Walk and Glob agree with path/filepath on the same tree.  Case kinds (cases.txt):
//   walk  <id> <tree> <root hex> <table>    afero.Walk vs filepath.Walk; table = action at the k-th
//                                           visit: c continue, s SkipDir, e injected error #k+1,
//                                           p return the error that was passed in; "-" = empty table
//   glob  <id> <tree> <pattern hex>         afero.Glob vs filepath.Glob
//   match <id> <pattern hex> <name hex>     filepath.Match (validates the shared Match model)
//   tree ::= F | D[<name hex>=<tree>,...]   children in generation order (NOT sorted)
// Every tree is built three times: on a MemMapFs, split over the two layers of a CopyOnWriteFs, and
// as real files in a fresh temp directory (the process chdir's into it, so relative roots/patterns
// mean the same thing on both sides; absolute ones get the temp dir as prefix, stripped again from
// every reported path).  Impl lines:
//   <id>      afero on MemMapFs            <id>#bp   afero on BasePathFs(mem, "/")
//   <id>#cow  afero on CopyOnWriteFs       <id>#std  path/filepath on the temp directory
// Canonical results:  walk: "v=<path hex>:<d|f|n>:<err>,... r=<err>"   err: - SkipDir NotExist E<k> Other
//                     glob: "m=<path hex>,... r=<-|BadPattern|Other>"   match: true|false|BadPattern
// Oracle (Go side, independent of the model): afero's line must equal the #std line — for glob on EVERY
// pattern (escapes and malformed patterns included: filepath.Glob's matches, order and ErrBadPattern);
// the own grammar check c16WellFormed only classifies the cases (counters).

import (
	"errors"
	"fmt"
	"os"
	"path/filepath"
	"strings"
	"syscall"

	"github.com/spf13/afero"
)

func init() { props["C16"] = runC16 }

// ---------------------------------------------------------------- trees
type c16Tree struct {
	dir  bool
	kids []c16Kid
}
type c16Kid struct {
	name string
	t    *c16Tree
}

func (t *c16Tree) enc(b *strings.Builder) {
	if !t.dir {
		b.WriteByte('F')
		return
	}
	b.WriteString("D[")
	for i, k := range t.kids {
		if i > 0 {
			b.WriteByte(',')
		}
		b.WriteString(hx([]byte(k.name)))
		b.WriteByte('=')
		k.t.enc(b)
	}
	b.WriteByte(']')
}
func (t *c16Tree) String() string { var b strings.Builder; t.enc(&b); return b.String() }

func c16ParseTree(s string) *c16Tree {
	pos := 0
	var rec func() *c16Tree
	rec = func() *c16Tree {
		if s[pos] == 'F' {
			pos++
			return &c16Tree{}
		}
		if s[pos] != 'D' || s[pos+1] != '[' {
			panic("bad tree " + s)
		}
		pos += 2
		t := &c16Tree{dir: true}
		if s[pos] == ']' {
			pos++
			return t
		}
		for {
			st := pos
			for s[pos] != '=' {
				pos++
			}
			name := string(unhx(s[st:pos]))
			pos++
			t.kids = append(t.kids, c16Kid{name, rec()})
			if s[pos] == ',' {
				pos++
				continue
			}
			if s[pos] != ']' {
				panic("bad tree " + s)
			}
			pos++
			return t
		}
	}
	t := rec()
	if pos != len(s) {
		panic("bad tree (trailing) " + s)
	}
	return t
}

func (t *c16Tree) size() int {
	n := 1
	for _, k := range t.kids {
		n += k.t.size()
	}
	return n
}

// all paths of the tree, "/"-rooted, with their kind
func (t *c16Tree) paths(prefix string, out *[]c16Path) {
	p := prefix
	if p == "" {
		p = "/"
	}
	*out = append(*out, c16Path{p, t.dir})
	for _, k := range t.kids {
		k.t.paths(prefix+"/"+k.name, out)
	}
}

type c16Path struct {
	p   string
	dir bool
}

func fnv(s string) uint32 {
	h := uint32(2166136261)
	for i := 0; i < len(s); i++ {
		h = (h ^ uint32(s[i])) * 16777619
	}
	return h
}

// pick(path) chooses the filesystem a leaf (file or empty directory) is created on
func (t *c16Tree) build(path string, pick func(string) afero.Fs) {
	p := path
	if p == "" {
		p = "/"
	}
	if !t.dir {
		if err := afero.WriteFile(pick(p), p, []byte("x"), 0o644); err != nil {
			panic(err)
		}
		return
	}
	if len(t.kids) == 0 {
		if err := pick(p).MkdirAll(p, 0o755); err != nil {
			panic(err)
		}
		return
	}
	for _, k := range t.kids {
		k.t.build(path+"/"+k.name, pick)
	}
}

type c16World struct {
	tree         *c16Tree
	enc          string
	mem, bp, cow afero.Fs
	tmp          string
	fss          []afero.Fs
	tags         []string
}

func c16NewWorld(t *c16Tree) *c16World {
	w := &c16World{tree: t, enc: t.String()}
	mem := afero.NewMemMapFs()
	mem.MkdirAll("/", 0o755)
	t.build("", func(string) afero.Fs { return mem })
	base, layer := afero.NewMemMapFs(), afero.NewMemMapFs()
	base.MkdirAll("/", 0o755)
	layer.MkdirAll("/", 0o755)
	t.build("", func(p string) afero.Fs {
		if fnv(p)&1 == 1 {
			// a file may only be created above directories of the same layer
			layer.MkdirAll(filepath.Dir(p), 0o755)
			return layer
		}
		base.MkdirAll(filepath.Dir(p), 0o755)
		return base
	})
	w.mem, w.bp, w.cow = mem, afero.NewBasePathFs(mem, "/"), afero.NewCopyOnWriteFs(base, layer)
	w.fss = []afero.Fs{w.mem, w.bp, w.cow}
	w.tags = []string{"", "#bp", "#cow"}
	tmp, err := os.MkdirTemp("", "c16w")
	if err != nil {
		panic(err)
	}
	if tmp, err = filepath.EvalSymlinks(tmp); err != nil {
		panic(err)
	}
	if strings.ContainsAny(tmp, "*?[\\") {
		panic("temp dir name has meta characters: " + tmp)
	}
	w.tmp = tmp
	var mk func(t *c16Tree, p string)
	mk = func(t *c16Tree, p string) {
		if !t.dir {
			if err := os.WriteFile(p, []byte("x"), 0o644); err != nil {
				panic(err)
			}
			return
		}
		if err := os.MkdirAll(p, 0o755); err != nil {
			panic(err)
		}
		for _, k := range t.kids {
			mk(k.t, p+"/"+k.name)
		}
	}
	mk(t, tmp)
	if err := os.Chdir(tmp); err != nil {
		panic(err)
	}
	return w
}

func (w *c16World) Close() {
	os.Chdir("/")
	os.RemoveAll(w.tmp)
}

// MemMapFs has no working directory: the key "a" is not the key "/a".  Relative roots and patterns
// (case kinds rwalk / rglob) are therefore only run through BasePathFs(mem, "/"), which joins them
// onto its base the way the kernel joins them onto the working directory.
func (w *c16World) variants(p string) (string, []int) {
	if strings.HasPrefix(p, "/") {
		return "", []int{0, 1, 2}
	}
	return "r", []int{1}
}

// the path as the operating system sees it / as reported back
func (w *c16World) osPath(p string) string {
	if strings.HasPrefix(p, "/") {
		return w.tmp + p
	}
	return p
}
func (w *c16World) rel(p string) string {
	if strings.HasPrefix(p, w.tmp+"/") || p == w.tmp {
		return p[len(w.tmp):]
	}
	return p
}

// ---------------------------------------------------------------- walk
type c16Err struct{ k int }

func (e *c16Err) Error() string { return fmt.Sprintf("injected #%d", e.k) }

func c16ErrClass(err error) string {
	var ie *c16Err
	switch {
	case err == nil:
		return "-"
	case err == filepath.SkipDir:
		return "SkipDir"
	case errors.As(err, &ie):
		return fmt.Sprintf("E%d", ie.k)
	case os.IsNotExist(err) || errors.Is(err, syscall.ENOTDIR):
		return "NotExist"
	case err == filepath.ErrBadPattern:
		return "BadPattern"
	}
	return "Other"
}

func c16Walk(walk func(string, filepath.WalkFunc) error, root string, rel func(string) string, table string) string {
	var vs []string
	k := 0
	err := walk(root, func(p string, info os.FileInfo, err error) error {
		kind := "n"
		if info != nil {
			kind = "f"
			if info.IsDir() {
				kind = "d"
			}
		}
		vs = append(vs, fmt.Sprintf("%s:%s:%s", hx([]byte(rel(p))), kind, c16ErrClass(err)))
		a := byte('c')
		if k < len(table) {
			a = table[k]
		}
		k++
		switch a {
		case 's':
			return filepath.SkipDir
		case 'e':
			return &c16Err{k}
		case 'p':
			return err
		}
		return nil
	})
	v := "-"
	if len(vs) > 0 {
		v = strings.Join(vs, ",")
	}
	return fmt.Sprintf("v=%s r=%s", v, c16ErrClass(err))
}

func stripE(s string) string { // E<k> -> E
	if strings.HasPrefix(s, "E") && len(s) > 1 && s[1] >= '0' && s[1] <= '9' {
		return "E"
	}
	return s
}

func c16WalkSig(tag, af, std string) string {
	a := strings.SplitN(af, " r=", 2)
	s := strings.SplitN(std, " r=", 2)
	if a[0] == s[0] {
		return fmt.Sprintf("walk%s:err:%s->%s", strings.Replace(tag, "#", "@", 1), stripE(s[1]), stripE(a[1]))
	}
	return fmt.Sprintf("walk%s:visits", strings.Replace(tag, "#", "@", 1))
}

func (c *Ctx) c16WalkCase(w *c16World, id, root, table string) {
	if table == "" {
		table = "-"
	}
	tb := table
	if tb == "-" {
		tb = ""
	}
	c.NCases++
	kind, idx := w.variants(root)
	c.Case("%swalk %s %s %s %s", kind, id, w.enc, hx([]byte(root)), table)
	std := c16Walk(filepath.Walk, w.osPath(root), w.rel, tb)
	c.Impl("%s#std %s", id, std)
	first := ""
	for n, i := range idx {
		fs := w.fss[i]
		got := c16Walk(func(r string, fn filepath.WalkFunc) error { return afero.Walk(fs, r, fn) }, root, func(p string) string { return p }, tb)
		c.Impl("%s%s %s", id, w.tags[i], got)
		tag := w.tags[i] // the signature names the wrapper only when the wrapper changes the outcome
		if n == 0 {
			first = got
		}
		if got == first {
			tag = ""
		}
		if got != std {
			c.Oracle("FAIL %s %s tree=%s root=%q table=%s afero%s: %s | filepath: %s", id, c16WalkSig(tag, got, std), w.enc, root, table, w.tags[i], got, std)
		}
	}
	c.Count("walk.result=" + stripE(std[strings.LastIndex(std, " r=")+3:]))
	c.Count(fmt.Sprintf("walk.visits<=%d", bucket(strings.Count(std, ",")+1)))
	c.Sample(fmt.Sprintf("walk tree=%s root=%q table=%s -> %s", w.enc, root, table, std))
}

// number of visits of an undisturbed walk from root (0 = a single visit with an error)
func (w *c16World) visits(root string) int {
	n := 0
	filepath.Walk(w.osPath(root), func(string, os.FileInfo, error) error { n++; return nil })
	return n
}

// ---------------------------------------------------------------- glob
func c16GlobS(m []string, err error, rel func(string) string) string {
	parts := make([]string, len(m))
	for i, p := range m {
		parts[i] = hx([]byte(rel(p)))
	}
	v := "-"
	if len(parts) > 0 {
		v = strings.Join(parts, ",")
	}
	return fmt.Sprintf("m=%s r=%s", v, c16ErrClass(err))
}

// grammar of Match without escapes, one '/'-separated element at a time (own implementation; it was
// the gate of the glob oracle while afero.Glob ignored escapes and malformed patterns, now it only
// classifies):  '*' | '?' | '[' ['^'] range+ ']' | c ;  range = c | c '-' c, c not in "-]"
func c16WellFormed(pat string) bool {
	if strings.Contains(pat, "\\") {
		return false
	}
	for _, el := range strings.Split(pat, "/") {
		i := 0
		for i < len(el) {
			if el[i] != '[' {
				i++
				continue
			}
			i++
			if i < len(el) && el[i] == '^' {
				i++
			}
			n := 0
			for {
				if i >= len(el) {
					return false
				}
				if el[i] == ']' {
					if n == 0 {
						return false
					}
					i++
					break
				}
				if el[i] == '-' {
					return false
				}
				i++
				if i >= len(el) {
					return false
				}
				if el[i] == '-' {
					i++
					if i >= len(el) || el[i] == '-' || el[i] == ']' {
						return false
					}
					i++
					if i >= len(el) {
						return false
					}
				}
				n++
			}
		}
	}
	return true
}

func (c *Ctx) c16GlobCase(w *c16World, id, pat string) {
	c.NCases++
	kind, idx := w.variants(pat)
	c.Case("%sglob %s %s %s", kind, id, w.enc, hx([]byte(pat)))
	m, err := filepath.Glob(w.osPath(pat))
	std := c16GlobS(m, err, w.rel)
	c.Impl("%s#std %s", id, std)
	wf := c16WellFormed(pat)
	first := ""
	for n, i := range idx {
		fs := w.fss[i]
		m, err := afero.Glob(fs, pat)
		got := c16GlobS(m, err, func(p string) string { return p })
		c.Impl("%s%s %s", id, w.tags[i], got)
		tag := strings.Replace(w.tags[i], "#", "@", 1)
		if n == 0 {
			first = got
		}
		if got == first {
			tag = ""
		}
		if got != std {
			sig := "glob" + tag + ":matches"
			if strings.HasSuffix(got, "r=-") != strings.HasSuffix(std, "r=-") {
				sig = "glob" + tag + ":error"
			}
			c.Oracle("FAIL %s %s tree=%s pattern=%q afero%s: %s | filepath: %s", id, sig, w.enc, pat, w.tags[i], got, std)
		}
	}
	switch {
	case strings.Contains(pat, "\\") && strings.HasSuffix(std, "r=-"):
		c.Count("glob.pattern=with-escape(accepted)")
	case strings.Contains(pat, "\\"):
		c.Count("glob.pattern=with-escape(ErrBadPattern)")
	case !wf && strings.HasSuffix(std, "r=-"):
		c.Count("glob.pattern=not-wellformed(no error on this tree)")
	case !wf:
		c.Count("glob.pattern=not-wellformed(ErrBadPattern)")
	case strings.HasPrefix(pat, "/"):
		c.Count("glob.pattern=absolute")
	default:
		c.Count("glob.pattern=relative")
	}
	c.Count(fmt.Sprintf("glob.matches<=%d", bucket(len(m))))
	c.Count("glob.result=" + c16ErrClass(err))
	if len(m) > 0 {
		c.Sample(fmt.Sprintf("glob tree=%s pattern=%q -> %s", w.enc, pat, std))
	}
}

func (c *Ctx) c16MatchCase(id, pat, name string) {
	c.NCases++
	c.Case("match %s %s %s", id, hx([]byte(pat)), hx([]byte(name)))
	ok, err := filepath.Match(pat, name)
	r := fmt.Sprint(ok)
	if err != nil {
		r = "BadPattern"
	}
	c.Impl("%s %s", id, r)
	c.Count("match.result=" + r)
}

// ---------------------------------------------------------------- generators
var c16Names = []string{"a", "a.b", "a-b", "a0", "ab", "b", "B", "_", "c", "a_", "b.c", "ba"}

func c16GenTree(r *Rng, depth int, budget *int) *c16Tree {
	t := &c16Tree{dir: true}
	n := r.Range(0, 5)
	if depth == 0 {
		n = r.Range(1, 6)
	}
	perm := r.Perm(len(c16Names))
	for i := 0; i < n && *budget > 0; i++ {
		*budget--
		name := c16Names[perm[i]]
		if depth < 3 && r.Chance(2, 5) {
			t.kids = append(t.kids, c16Kid{name, c16GenTree(r, depth+1, budget)})
		} else {
			t.kids = append(t.kids, c16Kid{name, &c16Tree{}})
		}
	}
	return t
}

func (r *Rng) Perm(n int) []int {
	p := make([]int, n)
	for i := range p {
		p[i] = i
	}
	for i := n - 1; i > 0; i-- {
		j := r.Intn(i + 1)
		p[i], p[j] = p[j], p[i]
	}
	return p
}

// every tree of depth <= 2 over the names a, b (a name is absent, a file or a directory)
func c16SmallTrees() []*c16Tree {
	names := []string{"b", "a"} // stored unsorted on purpose
	var level func(d int) []*c16Tree
	level = func(d int) []*c16Tree {
		opts := []*c16Tree{nil, {}}
		if d > 0 {
			opts = append(opts, level(d-1)...)
		} else {
			opts = append(opts, &c16Tree{dir: true})
		}
		var out []*c16Tree
		for _, x := range opts {
			for _, y := range opts {
				t := &c16Tree{dir: true}
				if x != nil {
					t.kids = append(t.kids, c16Kid{names[0], x})
				}
				if y != nil {
					t.kids = append(t.kids, c16Kid{names[1], y})
				}
				out = append(out, t)
			}
		}
		return out
	}
	return level(1)
}

func c16Roots(w *c16World, r *Rng, all bool) []string {
	var ps []c16Path
	w.tree.paths("", &ps)
	var roots []string
	add := func(s string) { roots = append(roots, s) }
	if all {
		for _, p := range ps {
			add(p.p)
		}
		add("/zz")
		add(".")
		return roots
	}
	add("/")
	var dirs, files []c16Path
	for _, p := range ps[1:] {
		if p.dir {
			dirs = append(dirs, p)
		} else {
			files = append(files, p)
		}
	}
	if len(dirs) > 0 {
		d := Pick(r, dirs).p
		add(d)
		switch r.Intn(4) { // unclean spellings of an existing directory
		case 0:
			add(d + "/")
		case 1:
			add("/" + d)
		case 2:
			add(d[1:]) // relative
		case 3:
			add("/." + d)
		}
		deep := dirs[0]
		for _, x := range dirs {
			if strings.Count(x.p, "/") > strings.Count(deep.p, "/") {
				deep = x
			}
		}
		add(deep.p)
	}
	if len(files) > 0 {
		f := Pick(r, files).p
		add(f)
		if r.Bool() {
			add(f[1:])
		}
	}
	// missing: directly under the root, under a directory, under a file
	add("/zz")
	if len(dirs) > 0 {
		add(Pick(r, dirs).p + "/zz")
	}
	if len(files) > 0 && r.Bool() {
		add(Pick(r, files).p + "/zz")
	}
	add(".")
	return roots
}

func c16RandTable(r *Rng, n int) string {
	if n == 0 {
		n = 1
	}
	b := make([]byte, n)
	for i := range b {
		b[i] = 'c'
	}
	for j := r.Range(1, 3); j > 0; j-- {
		b[r.Intn(n)] = "ssssseep"[r.Intn(8)]
	}
	return strings.TrimRight(string(b), "c")
}

var c16Segs = []string{"*", "?", "a*", "*b", "a?", "??", "[ab]", "[a-c]", "[^a]", "[a-c]*", "*.*", "?*", "a[.0_]b",
	"[^a-b]*", "*[b_]", "a*b", "*a*", "[A-Z]", "[_a]?", "a", "b", "ab", "a.b", "a-b", "zz", "[a]", "*[0-9]", "]", "a]", "*]", "-", "^", "[]a]"}

// elements with the escape character (well-formed: every backslash is followed by a character)
var c16EscSegs = []string{"\\a", "\\b", "a\\b", "a\\.b", "a\\-b", "\\a\\b", "\\*", "\\?", "\\[", "a\\*", "\\a*", "*\\b", "?\\b", "\\a?", "[\\]]", "[\\-a]",
	"[a\\-c]", "[\\a-\\c]", "[^\\a]", "[\\^a]", "a[\\.0]b", "\\_", "\\B", "*\\.*", "\\\\", "a\\0", "\\]", "[a-\\c]*", "\\z\\z"}

var c16Malformed = []string{"[", "a[", "[]", "[a-]", "[-a]", "[^]", "[a", "[^", "[a-", "*[", "a*[", "?[", "[a-]b]", "[--]", "a\\", "\\a", "\\*", "[\\]]", "a\\b", "[a/b]", "[]]", "[!a]"}

// a pattern element that matches the given name (and usually some of its siblings)
func c16Generalise(r *Rng, name string) string {
	k := r.Intn(len(name))
	switch r.Intn(12) {
	case 9: // the name itself with one character escaped
		return name[:k] + "\\" + name[k:]
	case 10: // an escaped character next to a star
		if k == 0 {
			return "\\" + name[:1] + "*"
		}
		return name[:k-1] + "\\" + name[k-1:k] + "*"
	case 11: // an escaped character inside a class
		return name[:k] + "[\\" + name[k:k+1] + "]" + name[k+1:]
	case 0:
		return name
	case 1:
		return "*"
	case 2:
		return name[:k] + "*"
	case 3:
		return "*" + name[k:]
	case 4:
		return name[:k] + "?" + name[k+1:]
	case 5:
		if name[k] == '-' || name[k] == ']' {
			return name[:k] + "?" + name[k+1:]
		}
		return name[:k] + "[" + name[k:k+1] + "]" + name[k+1:]
	case 6:
		return name[:k] + "[!-~]" + name[k+1:]
	case 7:
		return name[:k] + "[^z]" + "*"
	default:
		return name[:k] + "[^z]" + name[k+1:]
	}
}

func c16GenPattern(w *c16World, r *Rng) string {
	var ps []c16Path
	w.tree.paths("", &ps)
	depth := r.Range(1, 4)
	if r.Chance(1, 8) {
		// a pattern without meta characters: an existing or a missing clean path
		p := Pick(r, ps).p
		if r.Chance(1, 3) {
			p += "/zz"
		}
		if p != "/" && r.Bool() {
			p = p[1:]
		}
		return p
	}
	// follow an existing path, so that deep patterns match something
	tp := Pick(r, ps)
	if len(ps) > 1 {
		tp = Pick(r, ps[1:])
	}
	target := strings.Split(tp.p, "/")[1:]
	if depth > len(target) && r.Chance(4, 5) {
		depth = len(target)
	}
	if depth == 0 {
		depth = 1
	}
	segs := make([]string, depth)
	for i := range segs {
		if i < len(target) && target[i] != "" && r.Chance(3, 4) {
			segs[i] = c16Generalise(r, target[i])
		} else if r.Chance(1, 5) {
			segs[i] = Pick(r, c16EscSegs)
		} else {
			segs[i] = Pick(r, c16Segs)
		}
	}
	sep := "/"
	p := strings.Join(segs, sep)
	switch r.Intn(10) {
	case 0, 1, 2, 3:
		p = "/" + p
	case 4:
		p = "./" + p
	case 5:
		if !strings.ContainsAny(segs[len(segs)-1], "*?[\\") {
			p = p + "/*"
		} else {
			p = p + "/"
		}
	case 6:
		if len(segs) > 1 {
			p = segs[0] + "//" + strings.Join(segs[1:], "/")
		}
	case 7:
		// a last element that no listing ever contains: "." and ".." after a directory part with
		// meta characters match nothing (an lstat of dir/. would find the directory itself)
		// (only when the directory part has a meta character: a pattern without any is looked up as
		// a path, and "missing/.." is resolved lexically by BasePathFs but physically by the OS)
		if strings.ContainsAny(p, "*?[") {
			p = p + "/" + Pick(r, []string{".", "..", "./.", "../.."})
		}
	}
	return p
}

func c16Strings(alpha string, maxLen int) []string {
	out := []string{""}
	prev := []string{""}
	for l := 1; l <= maxLen; l++ {
		var cur []string
		for _, p := range prev {
			for i := 0; i < len(alpha); i++ {
				cur = append(cur, p+alpha[i:i+1])
			}
		}
		out = append(out, cur...)
		prev = cur
	}
	return out
}

// ---------------------------------------------------------------- driver
func runC16(c *Ctx) {
	if c.From == nil {
		runC16OSWalk(c)
	}
	cwd, _ := os.Getwd()
	defer os.Chdir(cwd)
	if c.From != nil {
		worlds := map[string]*c16World{}
		get := func(enc string) *c16World {
			if w, ok := worlds[enc]; ok {
				os.Chdir(w.tmp)
				return w
			}
			w := c16NewWorld(c16ParseTree(enc))
			worlds[enc] = w
			return w
		}
		for _, cs := range c.From {
			t := strings.Fields(cs[0])
			switch t[0] {
			case "walk", "rwalk":
				c.c16WalkCase(get(t[2]), t[1], string(unhx(t[3])), t[4])
			case "glob", "rglob":
				c.c16GlobCase(get(t[2]), t[1], string(unhx(t[3])))
			case "match":
				c.c16MatchCase(t[1], string(unhx(t[2])), string(unhx(t[3])))
			}
		}
		for _, w := range worlds {
			w.Close()
		}
		return
	}
	thorough := c.Tier == "thorough"
	r := c.Rng

	// (1) small scope, exhaustive: every tree of depth <= 2 over {a, b}, every root (existing paths, a
	// missing one, "."), every table with one non-continue action, and (SkipDir at i, action at j > i)
	small := c16SmallTrees()
	nw := 0
	for ti, t := range small {
		w := c16NewWorld(t)
		for ri, root := range c16Roots(w, r, true) {
			n := w.visits(root)
			k := 0
			emit := func(tb string) {
				c.c16WalkCase(w, fmt.Sprintf("xw%d_%d_%d", ti, ri, k), root, tb)
				k++
				nw++
			}
			emit("-")
			for i := 0; i < n; i++ {
				for _, a := range "sep" {
					emit(strings.Repeat("c", i) + string(a))
				}
				for j := i + 1; j < n; j++ {
					for _, a := range "sep" {
						if thorough || (ti+i+j)%3 == 0 {
							emit(strings.Repeat("c", i) + "s" + strings.Repeat("c", j-i-1) + string(a))
						}
					}
				}
			}
		}
		w.Close()
	}
	c.Extra["walk_exhaustive_small_scope"] = fmt.Sprintf("%d trees of depth<=2 over {a,b} x every root x tables with <=2 actions: %d cases", len(small), nw)

	// (2) small scope for glob: every pattern of length <= 3 (4 thorough) over "ab*?[]-^/\\" on three trees
	gl := 3
	if thorough {
		gl = 4
	}
	pats := c16Strings("ab*?[]-^/\\", gl)[1:]
	fixed := []string{
		"D[62=D[61=F,62=F],61=F,6162=D[61=D[62=F]],2d=F]",
		"D[61=D[61=D[61=F,62=F],62=F],62=D[],5d=F,5e=F]",
		"D[]",
	}
	ng := 0
	for ti, enc := range fixed {
		w := c16NewWorld(c16ParseTree(enc))
		for pi, p := range pats {
			// a pattern without meta characters (the backslash is one) is handed to lstat as it is: MemMapFs
			// cleans "f/" into "f" lexically where the kernel answers ENOTDIR for a file f — not Glob's business
			if !strings.ContainsAny(p, "*?[\\") && (filepath.Clean(p) != p || filepath.Clean("/"+p) != "/"+p) {
				continue
			}
			c.c16GlobCase(w, fmt.Sprintf("xg%d_%d", ti, pi), p)
			c.c16GlobCase(w, fmt.Sprintf("xa%d_%d", ti, pi), "/"+p)
			ng += 2
		}
		for pi, p := range c16Malformed {
			c.c16GlobCase(w, fmt.Sprintf("xm%d_%d", ti, pi), p)
			c.c16GlobCase(w, fmt.Sprintf("xn%d_%d", ti, pi), "/*/"+p)
			c.c16GlobCase(w, fmt.Sprintf("xo%d_%d", ti, pi), "/"+p+"/*")
		}
		w.Close()
	}
	c.Extra["glob_exhaustive_small_scope"] = fmt.Sprintf("every pattern of length<=%d over \"ab*?[]-^/\\\\\" on 3 fixed trees: %d cases (+ malformed list alone, below */ and above /*)", gl, ng)

	// (3) filepath.Match itself: patterns <= 3 (4) over "ab*?[]-^\" x names <= 2 (3) over "ab-]", plus random longer ones
	mp, mn := 3, 2
	if thorough {
		mp, mn = 4, 3
	}
	k := 0
	names := c16Strings("ab-]", mn)
	for _, p := range c16Strings("ab*?[]-^\\", mp) {
		for _, n := range names {
			c.c16MatchCase(fmt.Sprintf("mm%d", k), p, n)
			k++
		}
	}
	nm := 3000
	if thorough {
		nm = 60000
	}
	for i := 0; i < nm; i++ {
		var p strings.Builder
		for j := r.Range(1, 5); j > 0; j-- {
			if r.Chance(1, 12) {
				p.WriteString(Pick(r, c16Malformed))
			} else {
				p.WriteString(Pick(r, c16Segs))
			}
		}
		n := make([]byte, r.Range(0, 7))
		for j := range n {
			n[j] = "aabbc.-_0B]/"[r.Intn(12)]
		}
		c.c16MatchCase(fmt.Sprintf("rm%d", i), p.String(), string(n))
	}

	// (4) random trees (<= 25 nodes, depth <= 4): roots of every kind x random tables; generated patterns
	nt, nwalk, nglob := 120, 5, 40
	if thorough {
		nt, nwalk, nglob = 1500, 12, 80
	}
	for ti := 0; ti < nt; ti++ {
		budget := 24
		t := c16GenTree(r, 0, &budget)
		w := c16NewWorld(t)
		c.Count(fmt.Sprintf("tree.nodes<=%d", bucket(t.size())))
		k := 0
		for _, root := range c16Roots(w, r, false) {
			n := w.visits(root)
			c.c16WalkCase(w, fmt.Sprintf("w%d_%d", ti, k), root, "-")
			k++
			for j := 0; j < nwalk; j++ {
				c.c16WalkCase(w, fmt.Sprintf("w%d_%d", ti, k), root, c16RandTable(r, n))
				k++
			}
		}
		for j := 0; j < nglob; j++ {
			c.c16GlobCase(w, fmt.Sprintf("g%d_%d", ti, j), c16GenPattern(w, r))
		}
		for j := 0; j < 4; j++ { // separate malformed / escaped stream
			p := Pick(r, c16Malformed)
			seg := Pick(r, c16Segs)
			if r.Chance(1, 3) {
				seg = Pick(r, c16EscSegs)
			}
			switch r.Intn(3) {
			case 0:
				p = seg + "/" + p
			case 1:
				p = p + "/" + seg
			}
			c.c16GlobCase(w, fmt.Sprintf("gm%d_%d", ti, j), p)
		}
		w.Close()
	}
}

// Walk on the operating system itself (oracle only): a tree with a symbolic link to a directory
// and one to a file, walked by afero.Walk and by the Afero method over OsFs and over a BasePathFs,
// with callbacks that return SkipDir, an error WRAPPING SkipDir (path/filepath compares by
// identity: that is an ordinary error) or an ordinary error at the k-th visit.
func runC16OSWalk(c *Ctx) {
	dir, err := os.MkdirTemp("", "afc16-")
	if err != nil {
		panic(err)
	}
	defer os.RemoveAll(dir)
	for _, p := range []string{"a/x", "a/y/z", "b", "c/q"} {
		os.MkdirAll(filepath.Join(dir, filepath.Dir(p)), 0o755)
		os.WriteFile(filepath.Join(dir, p), []byte(p), 0o644)
	}
	os.Symlink(filepath.Join(dir, "a"), filepath.Join(dir, "ln-dir"))
	os.Symlink(filepath.Join(dir, "b"), filepath.Join(dir, "ln-file"))
	os.Symlink(filepath.Join(dir, "nowhere"), filepath.Join(dir, "ln-dangling"))
	wrapped := fmt.Errorf("stop here: %w", filepath.SkipDir)
	plain := errors.New("plain error")
	run := func(walk func(string, filepath.WalkFunc) error, root, strip string, k int, ret error) string {
		var vs []string
		n := 0
		err := walk(root, func(p string, info os.FileInfo, err error) error {
			kind := "n"
			if info != nil {
				kind = "f"
				if info.IsDir() {
					kind = "d"
				}
				if info.Mode()&os.ModeSymlink != 0 {
					kind = "l"
				}
			}
			vs = append(vs, strings.TrimPrefix(p, strip)+":"+kind)
			n++
			if n == k {
				return ret
			}
			return nil
		})
		r := "-"
		switch {
		case err == nil:
		case err == filepath.SkipDir:
			r = "SkipDir"
		case err == wrapped:
			r = "wrapped"
		case err == plain:
			r = "plain"
		default:
			r = "other"
		}
		return strings.Join(vs, ",") + " r=" + r
	}
	osfs := afero.NewOsFs()
	bp := afero.NewBasePathFs(osfs, dir)
	walkers := []struct {
		name        string
		walk        func(string, filepath.WalkFunc) error
		root, strip string
	}{
		{"afero.Walk(OsFs)", func(r string, fn filepath.WalkFunc) error { return afero.Walk(osfs, r, fn) }, dir, dir},
		{"Afero{OsFs}.Walk", func(r string, fn filepath.WalkFunc) error { return afero.Afero{Fs: osfs}.Walk(r, fn) }, dir, dir},
		{"afero.Walk(BasePathFs(OsFs))", func(r string, fn filepath.WalkFunc) error { return afero.Walk(bp, r, fn) }, "/", ""},
		{"Afero{BasePathFs(OsFs)}.Walk", func(r string, fn filepath.WalkFunc) error { return afero.Afero{Fs: bp}.Walk(r, fn) }, "/", ""},
	}
	n := 0
	for k := 0; k <= 12; k++ {
		for ri, ret := range []error{filepath.SkipDir, wrapped, plain} {
			if k == 0 && ri > 0 {
				continue
			}
			std := run(filepath.Walk, dir, dir, k, ret)
			for _, w := range walkers {
				n++
				c.Count("oswalk")
				got := run(w.walk, w.root, w.strip, k, ret)
				g, s := got, std
				if w.strip == "" && strings.HasPrefix(g, "/:") { // the BasePathFs names its root "/", filepath (after stripping) ""
					g = g[1:]
				}
				if g != s {
					c.Oracle("FAIL osw%d walk:os %s, callback returns %v at visit %d: %s | filepath.Walk: %s", n, w.name, ret, k, got, std)
				}
			}
		}
	}
	// an entry that vanishes between the listing and its lstat (the callback removes a later sibling
	// while it visits an earlier one) and a callback that answers that error report with SkipDir /
	// nil / an error: the remaining siblings are visited exactly as path/filepath visits them
	for ai, answer := range []error{filepath.SkipDir, nil, plain} {
		var logs [2]string
		for side := 0; side < 2; side++ {
			d2, _ := os.MkdirTemp("", "afc16v-")
			for _, p := range []string{"d/a", "d/b", "d/c", "d/e/f", "g"} {
				os.MkdirAll(filepath.Join(d2, filepath.Dir(p)), 0o755)
				os.WriteFile(filepath.Join(d2, p), []byte(p), 0o644)
			}
			var vs []string
			cb := func(p string, info os.FileInfo, err error) error {
				rel := strings.TrimPrefix(p, d2)
				if err != nil {
					vs = append(vs, rel+":ERR")
					return answer
				}
				vs = append(vs, rel)
				if rel == "/d/a" {
					os.Remove(filepath.Join(d2, "d/b"))
				}
				return nil
			}
			var werr error
			if side == 0 {
				werr = filepath.Walk(d2, cb)
			} else {
				werr = afero.Walk(osfs, d2, cb)
			}
			logs[side] = fmt.Sprintf("%s r=%v", strings.Join(vs, ","), werr == nil)
			os.RemoveAll(d2)
		}
		n++
		c.Count("oswalk.vanishing")
		if logs[0] != logs[1] {
			c.Oracle("FAIL oswv%d walk:os:vanished-sibling callback answers %v to the error report of a vanished entry: afero.Walk(OsFs) %s | filepath.Walk %s", ai, answer, logs[1], logs[0])
		}
	}
	// Glob over the same tree: a symbolic link to a directory as a non-final pattern element is followed
	// (path/filepath stats the directory part), a dangling link as the last element is matched (Lstat)
	g := 0
	for _, pat := range []string{"ln-dir/*", "ln-*/*", "l*/x", "*/x", "*/*", "ln-d*/y/*", "ln-file/*", "ln-dangling/*", "ln-*", "*", "ln-dir/[x-z]", "ln-dangling", "ln-dang*", "a/../ln-dir/*", "*/y/z", "l?-dir/?"} {
		g++
		c.Count("osglob")
		want, werr := filepath.Glob(filepath.Join(dir, pat))
		got, gerr := afero.Glob(osfs, filepath.Join(dir, pat))
		if strings.Join(got, ",") != strings.Join(want, ",") || (gerr == nil) != (werr == nil) {
			c.Oracle("FAIL osg%d glob:os:symlinks afero.Glob(OsFs, %q) = %q, %v | filepath.Glob = %q, %v", g, pat, trimAll(got, dir), gerr, trimAll(want, dir), werr)
		}
		gotB, gerrB := afero.Glob(bp, "/"+pat)
		if strings.Join(gotB, ",") != strings.Join(trimAll(want, dir), ",") || (gerrB == nil) != (werr == nil) {
			c.Oracle("FAIL osgb%d glob:os:symlinks afero.Glob(BasePathFs(OsFs), %q) = %q, %v | filepath.Glob = %q, %v", g, "/"+pat, gotB, gerrB, trimAll(want, dir), werr)
		}
	}
	c.Extra["os_glob"] = fmt.Sprintf("%d patterns over the temp dir with symbolic links, afero.Glob over OsFs and BasePathFs(OsFs) against filepath.Glob (oracle only)", g)
	c.Extra["os_walk"] = fmt.Sprintf("%d walks of a temp dir with symbolic links (to a directory, to a file, dangling) by afero.Walk and Afero.Walk over OsFs and BasePathFs(OsFs), callbacks returning SkipDir / wrapped SkipDir / an error at visit k (oracle only)", n)
}

func trimAll(xs []string, prefix string) []string {
	out := make([]string, len(xs))
	for i, x := range xs {
		out[i] = strings.TrimPrefix(x, prefix)
	}
	return out
}
