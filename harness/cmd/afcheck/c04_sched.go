//go:build verifsched

package main

// c04_sched.go — compiled into afcheck-sched only (instrumented afero): histories under the
// cooperative scheduler.  A schedule is the list of goroutine numbers chosen at the choice
// points; it is written into the case header and replays exactly.  Choice points:
//   depth-0 mode     lock acquisitions reached while holding no lock, and the gaps between calls;
//   lock-aware mode  EVERY lock acquisition (also inside a critical section of another lock; a
//                    goroutine whose lock is taken is blocked, a state with nobody enabled is a
//                    deadlock) and the gaps between calls (header token yield=locks).  Systematic
//                    exploration is preemption-bounded: at most `bound` switches away from a
//                    goroutine that could have continued; switches at a blocked acquisition, at
//                    the end of a goroutine and between two calls are free.

import (
	"fmt"
	iofs "io/fs"
	"os"
	"path/filepath"
	"sort"
	"strings"
	"time"

	"github.com/spf13/afero"
	"github.com/spf13/afero/mem"
	"github.com/spf13/afero/verifsched"
)

const c04HasSched = true

// Readdir returns live FileInfos whose Name() locks the entry: rendered through them, a listing
// would be read entry by entry at later instants (the documented live view, like Stat's
// FileInfo).  In this binary the names and kinds of the returned entries are read without
// locks right after Readdir returns — no goroutine switch lies in between — so the recorded
// result is the listing of the instant of the listing section.
func init() {
	c04HandleHook = func(f afero.File, name string, a []string) (string, bool) {
		raw := func(fi os.FileInfo) (string, bool) {
			mfi, ok := fi.(*mem.FileInfo)
			if !ok {
				return "", false
			}
			full, dir := mem.VerifSchedRaw(mfi.FileData)
			_, base := filepath.Split(full)
			d := "f"
			if dir {
				d = "d"
			}
			return hx([]byte(base)) + "|" + d, true
		}
		switch name {
		case "HReaddir":
			l, err := f.Readdir(atoi(a[0]))
			parts := make([]string, len(l))
			for i, fi := range l {
				p, ok := raw(fi)
				if !ok {
					return "", false
				}
				parts[i] = p
			}
			sort.Strings(parts)
			return listRes("infos", strings.Join(parts, ","), len(l), err), true
		case "HReadDir":
			// the io/fs spelling: the entries are common.FileInfoDirEntry values around the same live
			// FileInfos (Info() hands the FileInfo out without a lock)
			rd, ok := f.(iofs.ReadDirFile)
			if !ok {
				return "", false
			}
			des, err := rd.ReadDir(atoi(a[0]))
			parts := make([]string, len(des))
			for i, de := range des {
				fi, ierr := de.Info()
				if ierr != nil {
					return "", false
				}
				p, ok := raw(fi)
				if !ok {
					return "", false
				}
				parts[i] = p
			}
			sort.Strings(parts)
			return listRes("infos", strings.Join(parts, ","), len(des), err), true
		}
		return "", false
	}
}

// lockAware: every lock acquisition is a choice point; bound: preemptions offered (<0: no limit)
type c04SchedOpt struct {
	lockAware bool
	bound     int
}

func (o c04SchedOpt) mode(base string) string {
	if o.lockAware {
		return "l" + base // ldfs, lrand
	}
	return base
}

func c04Sched(p *c04Prog, opt c04SchedOpt, chooser func(en []int, label string) int) *c04Hist {
	verifsched.LockAware = opt.lockAware
	verifsched.Bound = opt.bound
	r, h := c04Prepare(p)
	// MemMapFs creates its root inside a sync.Once on first use, taking the root's mutex (SetMode)
	// while it holds the Once's own, uninstrumented mutex: a switch at that acquisition would let
	// another goroutine block for real on the Once.  The first use happens here.
	r.fs.Stat("/")
	n := len(p.Threads)
	body := func(g int) {
		for i := range r.ops[g] {
			if i > 0 {
				verifsched.Point("call")
			}
			r.call(g, i)
		}
	}
	fin := make(chan struct{})
	go func() { verifsched.Run(n, body, chooser); close(fin) }()
	select {
	case <-fin:
	case <-time.After(5 * time.Second):
		h.Hung = true
	}
	h.LockAware = opt.lockAware
	if !h.Hung {
		h.Deadlock = verifsched.Deadlock
	}
	r.finish(h)
	tr := make([]string, len(verifsched.Trace))
	for i, g := range verifsched.Trace {
		tr[i] = fmt.Sprint(g)
	}
	h.Sched = strings.Join(tr, ".")
	if h.Sched == "" {
		h.Sched = "-"
	}
	return h
}

type c04Seen struct {
	s    *c04State
	idp  string
	p    *c04Prog
	mode string
	seen map[string]*c04Emitted
}

func (x *c04Seen) add(h *c04Hist) {
	x.addMode(h, x.mode)
}

func (x *c04Seen) addMode(h *c04Hist, mode string) {
	h.normalise()
	x.s.total++
	key := h.key()
	if e, ok := x.seen[key]; ok {
		e.count++
		return
	}
	x.s.emit(fmt.Sprintf("%s.%d", x.idp, len(x.seen)), x.p, h, mode, 1)
	x.seen[key] = x.s.emitted[len(x.s.emitted)-1]
	if h.Hung {
		// the scheduler state is lost with a blocked goroutine: stop here, the parent reports it
		c04Finish(x.s, false)
		x.s.c.Close()
		os.Exit(0)
	}
}

// systematic enumeration: depth-first over the choice points, at most budget schedules (in
// lock-aware mode: over the choices the preemption bound leaves)
func c04DFS(s *c04State, idp string, p *c04Prog, budget int, opt c04SchedOpt) (int, bool) {
	x := &c04Seen{s: s, idp: idp, p: p, mode: opt.mode("dfs"), seen: map[string]*c04Emitted{}}
	var prefix []int
	for n := 0; n < budget; n++ {
		var taken, arity []int
		chooser := func(en []int, label string) int {
			k := 0
			if len(taken) < len(prefix) {
				k = prefix[len(taken)]
			}
			if k >= len(en) {
				k = 0
			}
			taken = append(taken, k)
			arity = append(arity, len(en))
			return en[k]
		}
		x.add(c04Sched(p, opt, chooser))
		i := len(taken) - 1
		for i >= 0 && taken[i]+1 >= arity[i] {
			i--
		}
		if i < 0 {
			return n + 1, true
		}
		prefix = append(append([]int{}, taken[:i]...), taken[i]+1)
	}
	return budget, false
}

func c04RandSched(s *c04State, idp string, p *c04Prog, samples int) {
	x := &c04Seen{s: s, idp: idp, p: p, mode: "rand", seen: map[string]*c04Emitted{}}
	for n := 0; n < samples; n++ {
		last := -1
		stick := s.c.Rng.Intn(4) // 0: uniform; otherwise prefer to keep the running goroutine
		// every other sample in lock-aware mode (no preemption bound: random walk); there are
		// several times more choice points there, so the running goroutine is kept more often
		opt := c04SchedOpt{lockAware: n%2 == 1, bound: -1}
		if opt.lockAware {
			stick = []int{0, 1, 3, 7, 15}[s.c.Rng.Intn(5)]
		}
		x.addMode(c04Sched(p, opt, func(en []int, label string) int {
			if stick > 0 && last >= 0 && s.c.Rng.Intn(stick+1) > 0 {
				for _, g := range en {
					if g == last {
						return g
					}
				}
			}
			last = Pick(s.c.Rng, en)
			return last
		}), opt.mode("rand"))
	}
}

func c04Small(p *c04Prog, maxG, maxOps int) *c04Prog {
	q := &c04Prog{Setup: p.Setup, Focus: p.Focus}
	for g, th := range p.Threads {
		if g >= maxG {
			break
		}
		if len(th) > maxOps {
			th = th[:maxOps]
		}
		q.Threads = append(q.Threads, th)
	}
	return q
}

func c04SchedPhase(s *c04State) {
	c := s.c
	if c.From != nil {
		for _, lines := range c.From {
			id, p, sched := c04ParseCase(lines)
			if p == nil || sched == "" {
				continue
			}
			var want []int
			if sched != "-" {
				for _, f := range strings.Split(sched, ".") {
					want = append(want, atoi(f))
				}
			}
			pos := 0
			h := c04Sched(p, c04SchedOpt{lockAware: p.LockAware, bound: -1}, func(en []int, label string) int {
				g := en[0]
				if pos < len(want) {
					for _, e := range en {
						if e == want[pos] {
							g = e
						}
					}
				}
				pos++
				return g
			})
			h.normalise()
			s.emit(id+"r", p, h, "replay", 1)
		}
		return
	}
	nsmall, budget, nbig, samples := 70, 250, 50, 60
	if c.Tier == "thorough" {
		nsmall, budget, nbig, samples = 500, 3000, 400, 300
	}
	// the fixed window configurations, in both tiers: every schedule of the depth-0 mode, and
	// every schedule of the lock-aware mode with at most laBound preemptions (laBudget
	// schedules per program at most; the evidence says which programs were exhausted)
	laBound, laBudget, laSmallBound := 2, 6000, 1
	if c.Tier == "thorough" {
		laBound, laBudget, laSmallBound = 3, 200000, 2
	}
	if v := os.Getenv("C04_LA_BOUND"); v != "" {
		laBound = atoi(v)
	}
	if v := os.Getenv("C04_LA_BUDGET"); v != "" {
		laBudget = atoi(v)
	}
	wex, lex := 0, 0
	wprogs := c04WindowProgs()
	var perProg []string
	t0 := time.Now()
	for wi, p := range wprogs {
		n, ex := c04DFS(s, fmt.Sprintf("w%d", wi), p, 4000, c04SchedOpt{})
		c.Add("sched.window.schedules", n)
		if ex {
			wex++
		}
	}
	c.Extra["window_depth0_s"] = fmt.Sprintf("%.1f", time.Since(t0).Seconds())
	t0 = time.Now()
	lprogs := append(append([]*c04Prog{}, wprogs...), c04LockWindowProgs()...)
	for wi, p := range lprogs {
		n, ex := c04DFS(s, fmt.Sprintf("L%d", wi), p, laBudget, c04SchedOpt{lockAware: true, bound: laBound})
		c.Add("sched.lockaware.window.schedules", n)
		c.Add("sched.lockaware."+p.Focus+".schedules", n)
		st := "exhausted"
		if ex {
			lex++
		} else {
			st = "budget-reached"
		}
		perProg = append(perProg, fmt.Sprintf("L%d %s [%s] schedules=%d %s", wi, p.Focus, c04ProgSummary(p), n, st))
	}
	c.Extra["window_lockaware_s"] = fmt.Sprintf("%.1f", time.Since(t0).Seconds())
	c.Extra["window_lockaware_bound"] = fmt.Sprintf("at most %d preemptions per schedule, at most %d schedules per program", laBound, laBudget)
	c.Extra["window_lockaware_programs"] = perProg
	c.Add("sched.window.programs", len(wprogs))
	c.Add("sched.window.programs-exhausted", wex)
	c.Add("sched.lockaware.window.programs", len(lprogs))
	c.Add("sched.lockaware.window.programs-exhausted-under-bound", lex)
	exhausted, lsmall := 0, 0
	for pi := 0; pi < nsmall; pi++ {
		p := c04ExpandStats(c04Small(c04GenProgRaw(c.Rng, pi), 2+pi%2, 1+(pi/2)%2))
		n, ex := c04DFS(s, fmt.Sprintf("d%d", pi), p, budget, c04SchedOpt{})
		c.Add("sched.dfs.schedules", n)
		if ex {
			exhausted++
		}
		// the same generated program in lock-aware mode, with a smaller preemption bound
		n, ex = c04DFS(s, fmt.Sprintf("D%d", pi), p, budget, c04SchedOpt{lockAware: true, bound: laSmallBound})
		c.Add("sched.lockaware.dfs.schedules", n)
		if ex {
			lsmall++
		}
	}
	c.Add("sched.dfs.programs", nsmall)
	c.Add("sched.dfs.programs-exhausted", exhausted)
	c.Add("sched.lockaware.dfs.programs", nsmall)
	c.Add("sched.lockaware.dfs.programs-exhausted-under-bound", lsmall)
	c.Extra["dfs_lockaware_bound"] = fmt.Sprintf("generated small programs: at most %d preemptions per schedule, at most %d schedules per program", laSmallBound, budget)
	for pi := 0; pi < nbig; pi++ {
		p := c04GenProg(c.Rng, pi)
		c04RandSched(s, fmt.Sprintf("q%d", pi), p, samples)
		c.Add("sched.rand.schedules", samples)
	}
	c.Add("sched.rand.programs", nbig)
}

// "Rename,Rename || HReaddirnames": the op names of every goroutine
func c04ProgSummary(p *c04Prog) string {
	var gs []string
	for _, th := range p.Threads {
		var ns []string
		for _, it := range th {
			f := strings.Fields(it)
			if c04InfoOps[f[2]] {
				continue
			}
			n := f[2]
			if n == "OpenFile" {
				n += "(" + f[4] + ")"
			}
			ns = append(ns, n)
		}
		gs = append(gs, strings.Join(ns, ","))
	}
	return strings.Join(gs, " || ")
}
