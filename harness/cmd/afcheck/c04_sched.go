//go:build verifsched

package main

// c04_sched.go — compiled into afcheck-sched only (instrumented afero): histories under the
// cooperative scheduler.  A schedule is the list of goroutine numbers chosen at the choice
// points (lock acquisitions reached while holding no lock, and the gaps between calls); it is
// written into the case header and replays exactly.

import (
	"fmt"
	"os"
	"strings"
	"time"

	"github.com/spf13/afero/verifsched"
)

const c04HasSched = true

func c04Sched(p *c04Prog, chooser func(en []int, label string) int) *c04Hist {
	r, h := c04Prepare(p)
	n := len(p.Threads)
	body := func(g int) {
		for i := range r.ops[g] {
			if i > 0 {
				verifsched.Point("call")
			}
			r.call(g, i)
		}
	}
	fin := make(chan struct{})
	go func() { verifsched.Run(n, body, chooser); close(fin) }()
	select {
	case <-fin:
	case <-time.After(5 * time.Second):
		h.Hung = true
	}
	r.finish(h)
	tr := make([]string, len(verifsched.Trace))
	for i, g := range verifsched.Trace {
		tr[i] = fmt.Sprint(g)
	}
	h.Sched = strings.Join(tr, ".")
	if h.Sched == "" {
		h.Sched = "-"
	}
	return h
}

type c04Seen struct {
	s    *c04State
	idp  string
	p    *c04Prog
	mode string
	seen map[string]*c04Emitted
}

func (x *c04Seen) add(h *c04Hist) {
	h.normalise()
	x.s.total++
	key := h.key()
	if e, ok := x.seen[key]; ok {
		e.count++
		return
	}
	x.s.emit(fmt.Sprintf("%s.%d", x.idp, len(x.seen)), x.p, h, x.mode, 1)
	x.seen[key] = x.s.emitted[len(x.s.emitted)-1]
	if h.Hung {
		// the scheduler state is lost with a blocked goroutine: stop here, the parent reports it
		c04Finish(x.s, false)
		x.s.c.Close()
		os.Exit(0)
	}
}

// systematic enumeration: depth-first over the choice points, at most budget schedules
func c04DFS(s *c04State, idp string, p *c04Prog, budget int) (int, bool) {
	x := &c04Seen{s: s, idp: idp, p: p, mode: "dfs", seen: map[string]*c04Emitted{}}
	var prefix []int
	for n := 0; n < budget; n++ {
		var taken, arity []int
		chooser := func(en []int, label string) int {
			k := 0
			if len(taken) < len(prefix) {
				k = prefix[len(taken)]
			}
			if k >= len(en) {
				k = 0
			}
			taken = append(taken, k)
			arity = append(arity, len(en))
			return en[k]
		}
		x.add(c04Sched(p, chooser))
		i := len(taken) - 1
		for i >= 0 && taken[i]+1 >= arity[i] {
			i--
		}
		if i < 0 {
			return n + 1, true
		}
		prefix = append(append([]int{}, taken[:i]...), taken[i]+1)
	}
	return budget, false
}

func c04RandSched(s *c04State, idp string, p *c04Prog, samples int) {
	x := &c04Seen{s: s, idp: idp, p: p, mode: "rand", seen: map[string]*c04Emitted{}}
	for n := 0; n < samples; n++ {
		last := -1
		stick := s.c.Rng.Intn(4) // 0: uniform; otherwise prefer to keep the running goroutine
		x.add(c04Sched(p, func(en []int, label string) int {
			if stick > 0 && last >= 0 && s.c.Rng.Intn(stick+1) > 0 {
				for _, g := range en {
					if g == last {
						return g
					}
				}
			}
			last = Pick(s.c.Rng, en)
			return last
		}))
	}
}

func c04Small(p *c04Prog, maxG, maxOps int) *c04Prog {
	q := &c04Prog{Setup: p.Setup, Focus: p.Focus}
	for g, th := range p.Threads {
		if g >= maxG {
			break
		}
		if len(th) > maxOps {
			th = th[:maxOps]
		}
		q.Threads = append(q.Threads, th)
	}
	return q
}

func c04SchedPhase(s *c04State) {
	c := s.c
	if c.From != nil {
		for _, lines := range c.From {
			id, p, sched := c04ParseCase(lines)
			if p == nil || sched == "" {
				continue
			}
			var want []int
			if sched != "-" {
				for _, f := range strings.Split(sched, ".") {
					want = append(want, atoi(f))
				}
			}
			pos := 0
			h := c04Sched(p, func(en []int, label string) int {
				g := en[0]
				if pos < len(want) {
					for _, e := range en {
						if e == want[pos] {
							g = e
						}
					}
				}
				pos++
				return g
			})
			h.normalise()
			s.emit(id+"r", p, h, "replay", 1)
		}
		return
	}
	nsmall, budget, nbig, samples := 70, 250, 50, 60
	if c.Tier == "thorough" {
		nsmall, budget, nbig, samples = 500, 3000, 400, 300
	}
	// the fixed window configurations: every schedule, in both tiers
	wex := 0
	wprogs := c04WindowProgs()
	for wi, p := range wprogs {
		n, ex := c04DFS(s, fmt.Sprintf("w%d", wi), p, 4000)
		c.Add("sched.window.schedules", n)
		if ex {
			wex++
		}
	}
	c.Add("sched.window.programs", len(wprogs))
	c.Add("sched.window.programs-exhausted", wex)
	exhausted := 0
	for pi := 0; pi < nsmall; pi++ {
		p := c04ExpandStats(c04Small(c04GenProgRaw(c.Rng, pi), 2+pi%2, 1+(pi/2)%2))
		n, ex := c04DFS(s, fmt.Sprintf("d%d", pi), p, budget)
		c.Add("sched.dfs.schedules", n)
		if ex {
			exhausted++
		}
	}
	c.Add("sched.dfs.programs", nsmall)
	c.Add("sched.dfs.programs-exhausted", exhausted)
	for pi := 0; pi < nbig; pi++ {
		p := c04GenProg(c.Rng, pi)
		c04RandSched(s, fmt.Sprintf("q%d", pi), p, samples)
		c.Add("sched.rand.schedules", samples)
	}
	c.Add("sched.rand.programs", nbig)
}
