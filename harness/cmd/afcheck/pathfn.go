package main

// pathfn: the path/filepath functions modelled in Lib/Path.v compared with the real ones
//   pathfn <id> <string hex>   ->  clean|dir|base|split.dir|split.file|join(s,"x/../y")
import (
	"fmt"
	"path/filepath"
)

func pathfnCase(c *Ctx, id string, s []byte) {
	str := string(s)
	d, f := filepath.Split(str)
	out := fmt.Sprintf("%s|%s|%s|%s|%s|%s", hx([]byte(filepath.Clean(str))), hx([]byte(filepath.Dir(str))), hx([]byte(filepath.Base(str))),
		hx([]byte(d)), hx([]byte(f)), hx([]byte(filepath.Join(str, "x/../y"))))
	c.NCases++
	c.Case("pathfn %s %s", id, hx(s))
	c.Impl("%s %s", id, out)
	c.Count("pathfn")
}

func runPathfn(c *Ctx, maxLen int) {
	k := 0
	for _, s := range allStrings([]byte{'a', 'b', '.', '/'}, maxLen) {
		pathfnCase(c, fmt.Sprintf("pf%d", k), s)
		k++
	}
	c.Extra["pathfn"] = fmt.Sprintf("filepath.Clean/Dir/Base/Split/Join vs Lib/Path.v on every string of length<=%d over {a,b,.,/}: %d strings", maxLen, k)
}
