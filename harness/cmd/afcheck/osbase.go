package main

// C05 / C07 with the operating-system filesystem underneath (oracle only, no model line).
// MemMapFs ignores O_TRUNC and O_APPEND on a handle without write access, so a weakened flag
// mask in ReadOnlyFs.OpenFile or CopyOnWriteFs.OpenFile changes nothing there; the OS
// truncates on O_RDONLY|O_TRUNC.  Here every combination of the 12 O_* bits (and the name
// taking mutators) goes through the wrapper onto a temp directory, and the directory is
// compared with what was put there.
import (
	"fmt"
	"os"
	"path/filepath"
	"regexp"
	"sort"
	"strings"
	"time"

	"github.com/spf13/afero"
)

func osSnap(dir string) string {
	var out []string
	filepath.Walk(dir, func(p string, fi os.FileInfo, err error) error {
		if err != nil {
			out = append(out, p+":err")
			return nil
		}
		rel := strings.TrimPrefix(p, dir)
		if fi.IsDir() {
			out = append(out, fmt.Sprintf("%s/:%o", rel, fi.Mode().Perm()))
		} else {
			b, _ := os.ReadFile(p)
			out = append(out, fmt.Sprintf("%s=%x:%o:%d", rel, b, fi.Mode().Perm(), fi.ModTime().Unix()))
		}
		return nil
	})
	sort.Strings(out)
	return strings.Join(out, " ")
}

func runOSBase(c *Ctx, prop string) {
	dir, err := os.MkdirTemp("", "afosbase-")
	if err != nil {
		panic(err)
	}
	defer os.RemoveAll(dir)
	old := time.Unix(1000000000, 0)
	reset := func() {
		os.RemoveAll(dir)
		os.MkdirAll(filepath.Join(dir, "d"), 0o755)
		os.MkdirAll(filepath.Join(dir, "empty"), 0o755) // an EMPTY directory: reading its handle fails with EISDIR
		os.WriteFile(filepath.Join(dir, "f"), []byte("abc"), 0o644)
		os.WriteFile(filepath.Join(dir, "d", "g"), []byte("defg"), 0o644)
		for _, p := range []string{"f", "d/g", "d", "empty", ""} {
			os.Chtimes(filepath.Join(dir, p), old, old)
		}
	}
	mk := func() afero.Fs {
		base := afero.NewBasePathFs(afero.NewOsFs(), dir)
		if prop == "C07" {
			return afero.NewReadOnlyFs(base)
		}
		return afero.NewCopyOnWriteFs(base, afero.NewMemMapFs())
	}
	sig := "source-changed:os-base:"
	if prop == "C05" {
		sig = "base-changed:os-base:"
	}
	reset()
	want := osSnap(dir)
	n := 0
	check := func(id, what, call string) {
		n++
		c.Count("osbase." + what)
		if got := osSnap(dir); got != want {
			c.Oracle("FAIL %s %s%s after %s the directory under the wrapper is [%s], was [%s]", id, sig, what, call, got, want)
			reset()
		}
	}
	for m := 0; m < 1<<12; m++ {
		f := 0
		for i, b := range flagBits {
			if m&(1<<i) != 0 {
				f |= b
			}
		}
		for _, name := range []string{"/f", "/d/g", "/new", "/d", "/empty"} {
			fs := mk()
			func() {
				defer func() { recover() }()
				h, err := fs.OpenFile(name, f, 0o644)
				if err == nil && h != nil {
					h.Write([]byte("zz"))
					h.WriteAt([]byte("y"), 0)
					h.WriteString("x")
					h.Truncate(1)
					h.Close()
				}
			}()
			check(fmt.Sprintf("os-fl%d", m), "OpenFile", fmt.Sprintf("OpenFile(%q, %#x) and writes through the handle", name, f))
			// transparency: a flag word without any write/create bit is forwarded as it is, so the
			// wrapper answers as the source does (O_DIRECTORY on a file, O_EXCL alone, ...)
			if prop == "C07" && f&(0x1|0x2|0x40|0x200|0x400) == 0 {
				direct := afero.NewBasePathFs(afero.NewOsFs(), dir)
				hd, ed := direct.OpenFile(name, f, 0o644)
				if hd != nil {
					hd.Close()
				}
				hw, ew := mk().OpenFile(name, f, 0o644)
				if hw != nil {
					hw.Close()
				}
				c.Count("osbase.transparent-open")
				if (ed == nil) != (ew == nil) {
					c.Oracle("FAIL os-tr%d read-open-not-transparent:os-base OpenFile(%q, %#x): the source alone answers %v, through ReadOnlyFs %v", m, name, f, ed, ew)
				}
			}
		}
	}
	muts := []struct {
		what string
		do   func(fs afero.Fs)
	}{
		{"Create", func(fs afero.Fs) {
			if h, err := fs.Create("/f"); err == nil {
				h.Write([]byte("q"))
				h.Close()
			}
		}},
		{"Create-new", func(fs afero.Fs) {
			if h, err := fs.Create("/d/new"); err == nil {
				h.Close()
			}
		}},
		{"Remove", func(fs afero.Fs) { fs.Remove("/f") }},
		{"RemoveAll", func(fs afero.Fs) { fs.RemoveAll("/d") }},
		{"Rename", func(fs afero.Fs) { fs.Rename("/f", "/f2") }},
		{"Rename-dir", func(fs afero.Fs) { fs.Rename("/d", "/d2") }},
		{"Chmod", func(fs afero.Fs) { fs.Chmod("/f", 0o600) }},
		{"Chmod-dir", func(fs afero.Fs) { fs.Chmod("/d", 0o700) }},
		{"Chtimes", func(fs afero.Fs) { fs.Chtimes("/d/g", old.Add(5*time.Second), old.Add(5*time.Second)) }},
		{"Chmod-empty-dir", func(fs afero.Fs) { fs.Chmod("/empty", 0o700) }},
		{"Chtimes-empty-dir", func(fs afero.Fs) { fs.Chtimes("/empty", old.Add(5*time.Second), old.Add(5*time.Second)) }},
		{"Chown-empty-dir", func(fs afero.Fs) { fs.Chown("/empty", os.Getuid(), os.Getgid()) }},
		{"Remove-empty-dir", func(fs afero.Fs) { fs.Remove("/empty") }},
		{"Mkdir", func(fs afero.Fs) { fs.Mkdir("/m", 0o755) }},
		{"MkdirAll", func(fs afero.Fs) { fs.MkdirAll("/d/m/n", 0o755) }},
		{"Open-write", func(fs afero.Fs) {
			if h, err := fs.Open("/f"); err == nil {
				h.Write([]byte("w"))
				h.Truncate(0)
				h.Close()
			}
		}},
		{"WriteFile", func(fs afero.Fs) { afero.WriteFile(fs, "/d/g", []byte("new"), 0o644) }},
		// the optional interfaces: a link made through the wrapper never lands in the base / source
		{"Symlink", func(fs afero.Fs) {
			if l, ok := fs.(afero.Linker); ok {
				l.SymlinkIfPossible("f", "/link")
			}
		}},
		{"Symlink-in-dir", func(fs afero.Fs) {
			if l, ok := fs.(afero.Linker); ok {
				l.SymlinkIfPossible("/f", "/d/link")
			}
		}},
		{"Chown", func(fs afero.Fs) { fs.Chown("/f", os.Getuid(), os.Getgid()) }},
		{"Chtimes-zero", func(fs afero.Fs) { fs.Chtimes("/f", time.Time{}, time.Time{}) }},
	}
	for i, mu := range muts {
		fs := mk()
		func() {
			defer func() { recover() }()
			mu.do(fs)
		}()
		check(fmt.Sprintf("os-mut%d", i), mu.what, mu.what)
	}
	c.Extra["os_base"] = fmt.Sprintf("%d calls through the wrapper over BasePathFs(OsFs, temp dir): all 4096 flag words x 4 names + %d mutators, directory snapshot compared (oracle only)", n, len(muts))
}

// C06 with an operating-system OVERLAY (oracle only): the OS reports ENOTDIR for a name below a
// regular file where MemMapFs says "not exist"; the union must then still show the base's entry
// ("the overlay's entry if the overlay has one and otherwise the base's entry").
func runOSOverlay(c *Ctx) {
	dir, err := os.MkdirTemp("", "afosovl-")
	if err != nil {
		panic(err)
	}
	defer os.RemoveAll(dir)
	os.MkdirAll(filepath.Join(dir, "d"), 0o755)
	os.WriteFile(filepath.Join(dir, "a"), []byte("x"), 0o644)        // a regular file where the base has a directory
	os.WriteFile(filepath.Join(dir, "d", "o"), []byte("ovl"), 0o644) // overlay-only file
	os.WriteFile(filepath.Join(dir, "d", "both"), []byte("OVERLAY"), 0o644)
	base := afero.NewMemMapFs()
	afero.WriteFile(base, "/a/f", []byte("base-f"), 0o644)
	afero.WriteFile(base, "/d/b", []byte("base-b"), 0o644)
	afero.WriteFile(base, "/d/both", []byte("base"), 0o644)
	afero.WriteFile(base, "/e/g", []byte("base-g"), 0o644)
	u := afero.NewCopyOnWriteFs(base, afero.NewBasePathFs(afero.NewOsFs(), dir))
	want := map[string]string{ // path -> content ("/" suffix on the key = directory)
		"/a": "x", "/d/": "", "/d/o": "ovl", "/d/both": "OVERLAY", "/d/b": "base-b", "/e/": "", "/e/g": "base-g",
		"/a/f": "base-f", // the overlay has NO entry for this path (it cannot: /a is a file there): the base's shows
	}
	n := 0
	for k, content := range want {
		p := strings.TrimSuffix(k, "/")
		isDir := strings.HasSuffix(k, "/")
		n++
		c.Count("osoverlay.path")
		fi, err := u.Stat(p)
		if err != nil {
			c.Oracle("FAIL osovl%d view-differs:os-overlay:Stat Stat(%q) through the union over an OsFs overlay: %v, but the view holds this path", n, p, err)
			continue
		}
		if fi.IsDir() != isDir {
			c.Oracle("FAIL osovl%d view-differs:os-overlay:kind Stat(%q).IsDir() = %v, want %v", n, p, fi.IsDir(), isDir)
			continue
		}
		if !isDir {
			b, err := afero.ReadFile(u, p)
			if err != nil || string(b) != content {
				c.Oracle("FAIL osovl%d view-differs:os-overlay:content ReadFile(%q) = %q, %v; want %q", n, p, b, err, content)
			}
		}
	}
	for _, p := range []string{"/nope", "/a/nope", "/d/nope", "/a/f/x"} {
		if _, err := u.Stat(p); err == nil {
			c.Oracle("FAIL osovl-absent view-differs:os-overlay:absent Stat(%q) succeeds, neither layer has it", p)
		}
	}
	if fis, err := afero.ReadDir(u, "/d"); err == nil {
		var names []string
		for _, x := range fis {
			names = append(names, x.Name())
		}
		sort.Strings(names)
		if strings.Join(names, ",") != "b,both,o" {
			c.Oracle("FAIL osovl-list listing:os-overlay ReadDir(/d) = %v, want [b both o]", names)
		}
	} else {
		c.Oracle("FAIL osovl-list listing:os-overlay ReadDir(/d): %v", err)
	}
	// both layers on the operating system (which answers ENOTDIR below a regular file and does not
	// create missing ancestors on Mkdir): modifications go to the overlay, the base is untouched
	m := 0
	for _, roBase := range []bool{false, true} {
		dirB, _ := os.MkdirTemp("", "afosovlb-")
		dirL, _ := os.MkdirTemp("", "afosovll-")
		os.WriteFile(filepath.Join(dirB, "a"), []byte("base-a"), 0o644) // a FILE in the base ...
		os.MkdirAll(filepath.Join(dirL, "a"), 0o755)                    // ... a DIRECTORY in the overlay: the overlay's entry wins
		os.MkdirAll(filepath.Join(dirB, "x", "y", "z"), 0o755)
		os.WriteFile(filepath.Join(dirB, "x", "y", "f"), []byte("deep"), 0o644) // base only, no ancestor in the overlay yet
		os.WriteFile(filepath.Join(dirB, "x", "y", "z", "g"), []byte("deeper"), 0o644)
		os.WriteFile(filepath.Join(dirB, "x", "y", "h"), []byte("mode"), 0o644)
		var base afero.Fs = afero.NewBasePathFs(afero.NewOsFs(), dirB)
		if roBase {
			base = afero.NewReadOnlyFs(base)
		}
		u := afero.NewCopyOnWriteFs(base, afero.NewBasePathFs(afero.NewOsFs(), dirL))
		bad := func(sig, format string, a ...any) {
			c.Oracle("FAIL osovl2-%d-%v %s %s (base and overlay on the OS, read-only base wrapper: %v)", m, roBase, sig, fmt.Sprintf(format, a...), roBase)
		}
		m++
		c.Count("osoverlay.modify")
		if err := afero.WriteFile(u, "/a/b", []byte("new"), 0o644); err != nil {
			bad("modify:os-overlay:create-below-overlay-dir", "WriteFile(/a/b): %v; /a is a directory in the view (overlay), a file only in the base", err)
		} else if b, err := afero.ReadFile(u, "/a/b"); err != nil || string(b) != "new" {
			bad("view-differs:os-overlay:content", "ReadFile(/a/b) = %q, %v after writing \"new\"", b, err)
		}
		if _, err := u.Stat("/a/nope"); err == nil {
			bad("view-differs:os-overlay:absent", "Stat(/a/nope) succeeds, neither layer has it")
		}
		m++
		c.Count("osoverlay.modify")
		if f, err := u.OpenFile("/x/y/f", os.O_WRONLY|os.O_APPEND, 0); err != nil {
			bad("modify:os-overlay:copy-up-nested", "OpenFile(/x/y/f, O_WRONLY|O_APPEND): %v; the file exists in the base", err)
		} else {
			f.Write([]byte("!"))
			f.Close()
			if b, err := afero.ReadFile(u, "/x/y/f"); err != nil || string(b) != "deep!" {
				bad("view-differs:os-overlay:content", "ReadFile(/x/y/f) = %q, %v after appending to \"deep\"", b, err)
			}
		}
		m++
		c.Count("osoverlay.modify")
		if err := u.Chmod("/x/y/z/g", 0o600); err != nil {
			bad("modify:os-overlay:copy-up-nested", "Chmod(/x/y/z/g): %v; the file exists in the base", err)
		} else if fi, err := u.Stat("/x/y/z/g"); err != nil || fi.Mode().Perm() != 0o600 {
			bad("view-differs:os-overlay:mode", "Stat(/x/y/z/g) after Chmod 0600: %v, %v", fi, err)
		}
		m++
		c.Count("osoverlay.modify")
		tm := time.Unix(1234567890, 0)
		if err := u.Chtimes("/x/y/h", tm, tm); err != nil {
			bad("modify:os-overlay:copy-up-nested", "Chtimes(/x/y/h): %v; the file exists in the base", err)
		} else if fi, err := u.Stat("/x/y/h"); err != nil || !fi.ModTime().Equal(tm) {
			bad("view-differs:os-overlay:mtime", "Stat(/x/y/h) after Chtimes: %v, %v", fi, err)
		}
		// a DIRECTORY that only the base has: whatever a modifying call on it answers (the copy-up reads
		// the directory's handle, which the OS refuses), it stays the directory it was in the view
		os.MkdirAll(filepath.Join(dirB, "q", "r"), 0o755)
		os.WriteFile(filepath.Join(dirB, "q", "k"), []byte("kept"), 0o644)
		for ci, call := range []func() error{
			func() error { return u.Chtimes("/q", tm, tm) },
			func() error { return u.Chmod("/q/r", 0o700) },
			func() error { return u.Chown("/q", os.Getuid(), os.Getgid()) },
			func() error {
				f, err := u.OpenFile("/q/r", os.O_WRONLY, 0)
				if err == nil {
					f.Close()
				}
				return err
			},
		} {
			m++
			c.Count("osoverlay.modify-base-dir")
			err := call()
			for _, d := range []string{"/q", "/q/r"} {
				if fi, serr := u.Stat(d); serr != nil || !fi.IsDir() {
					bad("view-differs:os-overlay:base-dir-lost", "after modifying call %d (result %v) on a directory only the base has, Stat(%s) = %v, %v: no longer a directory in the view", ci, err, d, fi, serr)
				}
			}
			if b, rerr := afero.ReadFile(u, "/q/k"); rerr != nil || string(b) != "kept" {
				bad("view-differs:os-overlay:base-dir-lost", "after modifying call %d (result %v) ReadFile(/q/k) = %q, %v", ci, err, b, rerr)
			}
		}
		for name, want := range map[string]string{"a": "base-a", "x/y/f": "deep", "x/y/z/g": "deeper", "x/y/h": "mode"} {
			if b, err := os.ReadFile(filepath.Join(dirB, name)); err != nil || string(b) != want {
				bad("base-changed:os-overlay", "the base's %s now holds %q, %v; want %q", name, b, err, want)
			}
		}
		os.RemoveAll(dirB)
		os.RemoveAll(dirL)
	}
	// an overlay that HIDES an entry it physically holds (RegexpFs: its Stat answers a bare ENOENT):
	// "the overlay has no entry", so every call shows the base's file
	{
		store, base := afero.NewMemMapFs(), afero.NewMemMapFs()
		afero.WriteFile(store, "/h.dat", []byte("physically there, hidden"), 0o644)
		afero.WriteFile(store, "/v.txt", []byte("overlay"), 0o644)
		afero.WriteFile(base, "/h.dat", []byte("base"), 0o644)
		afero.WriteFile(base, "/v.txt", []byte("base version"), 0o644)
		u := afero.NewCopyOnWriteFs(base, afero.NewRegexpFs(store, regexp.MustCompile(`\.txt$`)))
		for name, want := range map[string]string{"/h.dat": "base", "/v.txt": "overlay"} {
			m++
			c.Count("osoverlay.hiding-overlay")
			b, rerr := afero.ReadFile(u, name)
			fi, serr := u.Stat(name)
			var lerr error
			if l, ok := u.(afero.Lstater); ok {
				_, _, lerr = l.LstatIfPossible(name)
			}
			if rerr != nil || string(b) != want || serr != nil || fi.Size() != int64(len(want)) || lerr != nil {
				c.Oracle("FAIL osovl3-%s view-differs:hiding-overlay union of a MemMapFs base and a RegexpFs overlay: %s ReadFile = %q, %v; Stat = %v, %v; Lstat err %v; the view holds %q", name, name, b, rerr, fi, serr, lerr, want)
			}
		}
		if err := u.Mkdir("/h.dat", 0o755); err == nil {
			c.Oracle("FAIL osovl3-mkdir view-differs:hiding-overlay:Mkdir Mkdir(/h.dat) succeeds although the view holds the base's file there")
		}
	}
	c.Extra["os_overlay"] = fmt.Sprintf("%d paths of a union MemMapFs base + BasePathFs(OsFs) overlay incl. a base file below an overlay regular file; %d modifying calls with base and overlay both on the OS (a name below an overlay directory that is a file in the base, copy-up of nested base-only files) (oracle only)", n, m)
}

// C10 with an operating-system cache LAYER (oracle only): MemMapFs.Create registers missing
// parent directories by itself, the OS does not; the first read of a nested file must create
// them in the layer and leave a byte-identical copy there.
func runOSCacheLayer(c *Ctx) {
	n := 0
	for _, dur := range []time.Duration{0, time.Hour} {
		dir, err := os.MkdirTemp("", "afoslayer-")
		if err != nil {
			panic(err)
		}
		base := afero.NewMemMapFs()
		files := map[string]string{"/g": "top", "/a/b/f.txt": "nested content", "/a/e": "", "/a/b/c/d/deep": "deep"}
		old := time.Unix(1000000000, 0)
		for p, content := range files {
			afero.WriteFile(base, p, []byte(content), 0o644)
			base.Chtimes(p, old, old)
		}
		u := afero.NewCacheOnReadFs(base, afero.NewBasePathFs(afero.NewOsFs(), dir), dur)
		for p, content := range files {
			n++
			c.Count("oslayer.read")
			got, err := afero.ReadFile(u, p)
			if err != nil || string(got) != content {
				c.Oracle("FAIL oslayer%d first-read:os-layer ReadFile(%q) through the cache over an OsFs layer (duration %v) = %q, %v; the base holds %q", n, p, dur, got, err, content)
				continue
			}
			onDisk, err := os.ReadFile(filepath.Join(dir, p))
			if err != nil || string(onDisk) != content {
				c.Oracle("FAIL oslayer%d cache-copy-differs:os-layer after reading %q the layer directory holds %q, %v; want a copy of %q", n, p, onDisk, err, content)
				continue
			}
			if fi, err := os.Stat(filepath.Join(dir, p)); err == nil && !fi.ModTime().Equal(old) {
				c.Oracle("FAIL oslayer%d cache-mtime-differs:os-layer copy of %q has mtime %v, the base %v", n, p, fi.ModTime().Unix(), old.Unix())
			}
			again, err := afero.ReadFile(u, p)
			if err != nil || string(again) != content {
				c.Oracle("FAIL oslayer%d second-read:os-layer ReadFile(%q) again = %q, %v", n, p, again, err)
			}
		}
		os.RemoveAll(dir)
	}
	// base AND layer on the OS (both honour O_TRUNC and friends on a read-only open, which MemMapFs
	// ignores): after any open through the cache, what the layer holds still equals the base
	for _, dur := range []time.Duration{0, time.Hour} {
		dirB, _ := os.MkdirTemp("", "afosbase2-")
		dirL, _ := os.MkdirTemp("", "afoslayer2-")
		base := afero.NewBasePathFs(afero.NewOsFs(), dirB)
		u := afero.NewCacheOnReadFs(base, afero.NewBasePathFs(afero.NewOsFs(), dirL), dur)
		for fi, fl := range []int{os.O_RDONLY | os.O_TRUNC, os.O_RDONLY | os.O_APPEND, os.O_RDONLY | os.O_EXCL, os.O_RDONLY | os.O_SYNC, os.O_RDONLY | os.O_TRUNC | os.O_APPEND} {
			p := fmt.Sprintf("/f%d", fi)
			afero.WriteFile(base, p, []byte("0123456789"), 0o644)
			afero.ReadFile(u, p) // cached now
			if h, err := u.OpenFile(p, fl, 0o644); err == nil && h != nil {
				h.Close()
			}
			inLayer, errL := os.ReadFile(filepath.Join(dirL, p))
			inBase, _ := os.ReadFile(filepath.Join(dirB, p))
			n++
			c.Count("oslayer.flagopen")
			if errL == nil && string(inLayer) != string(inBase) {
				c.Oracle("FAIL oslayer%d layers-diverge:os-layers after OpenFile(%q, %#x) through the cache (base and layer on the OS, duration %v) the layer holds %q, the base %q", n, p, fl, dur, inLayer, inBase)
			}
		}
		// a read-write handle through the cache, positioned beyond the end: a Read there reports the end
		// of the file without moving anything, and the following Write lands at the same offset in both
		{
			p := "/seek"
			afero.WriteFile(base, p, []byte("hello"), 0o644)
			afero.ReadFile(u, p)
			if h, err := u.OpenFile(p, os.O_RDWR, 0o644); err == nil {
				h.Seek(8, 0)
				h.Read(make([]byte, 4))
				h.Write([]byte("XY"))
				h.Seek(1, 0)
				h.Read(make([]byte, 0))
				h.Write([]byte("Z"))
				h.Close()
			}
			inLayer, errL := os.ReadFile(filepath.Join(dirL, p))
			inBase, _ := os.ReadFile(filepath.Join(dirB, p))
			n++
			c.Count("oslayer.seek-beyond-end")
			if errL == nil && string(inLayer) != string(inBase) {
				c.Oracle("FAIL oslayer%d layers-diverge:os-layers:seek-beyond-end after Seek(8), Read, Write(XY), Seek(1), Read(empty), Write(Z) through one read-write handle of the cache (base and layer on the OS, duration %v) the layer holds %q, the base %q", n, dur, inLayer, inBase)
			}
		}
		os.RemoveAll(dirB)
		os.RemoveAll(dirL)
	}
	c.Extra["os_layer"] = fmt.Sprintf("%d first reads through CacheOnReadFs(MemMapFs, BasePathFs(OsFs, temp dir)) incl. nested files (oracle only)", n)
}
