package main

// C05 / C07 with the operating-system filesystem underneath (oracle only, no model line).
// MemMapFs ignores O_TRUNC and O_APPEND on a handle without write access, so a weakened flag
// mask in ReadOnlyFs.OpenFile or CopyOnWriteFs.OpenFile changes nothing there; the OS
// truncates on O_RDONLY|O_TRUNC.  Here every combination of the 12 O_* bits (and the name
// taking mutators) goes through the wrapper onto a temp directory, and the directory is
// compared with what was put there.
import (
	"fmt"
	"os"
	"path/filepath"
	"sort"
	"strings"
	"time"

	"github.com/spf13/afero"
)

func osSnap(dir string) string {
	var out []string
	filepath.Walk(dir, func(p string, fi os.FileInfo, err error) error {
		if err != nil {
			out = append(out, p+":err")
			return nil
		}
		rel := strings.TrimPrefix(p, dir)
		if fi.IsDir() {
			out = append(out, fmt.Sprintf("%s/:%o", rel, fi.Mode().Perm()))
		} else {
			b, _ := os.ReadFile(p)
			out = append(out, fmt.Sprintf("%s=%x:%o:%d", rel, b, fi.Mode().Perm(), fi.ModTime().Unix()))
		}
		return nil
	})
	sort.Strings(out)
	return strings.Join(out, " ")
}

func runOSBase(c *Ctx, prop string) {
	dir, err := os.MkdirTemp("", "afosbase-")
	if err != nil {
		panic(err)
	}
	defer os.RemoveAll(dir)
	old := time.Unix(1000000000, 0)
	reset := func() {
		os.RemoveAll(dir)
		os.MkdirAll(filepath.Join(dir, "d"), 0o755)
		os.WriteFile(filepath.Join(dir, "f"), []byte("abc"), 0o644)
		os.WriteFile(filepath.Join(dir, "d", "g"), []byte("defg"), 0o644)
		for _, p := range []string{"f", "d/g", "d", ""} {
			os.Chtimes(filepath.Join(dir, p), old, old)
		}
	}
	mk := func() afero.Fs {
		base := afero.NewBasePathFs(afero.NewOsFs(), dir)
		if prop == "C07" {
			return afero.NewReadOnlyFs(base)
		}
		return afero.NewCopyOnWriteFs(base, afero.NewMemMapFs())
	}
	sig := "source-changed:os-base:"
	if prop == "C05" {
		sig = "base-changed:os-base:"
	}
	reset()
	want := osSnap(dir)
	n := 0
	check := func(id, what, call string) {
		n++
		c.Count("osbase." + what)
		if got := osSnap(dir); got != want {
			c.Oracle("FAIL %s %s%s after %s the directory under the wrapper is [%s], was [%s]", id, sig, what, call, got, want)
			reset()
		}
	}
	for m := 0; m < 1<<12; m++ {
		f := 0
		for i, b := range flagBits {
			if m&(1<<i) != 0 {
				f |= b
			}
		}
		for _, name := range []string{"/f", "/d/g", "/new", "/d"} {
			fs := mk()
			func() {
				defer func() { recover() }()
				h, err := fs.OpenFile(name, f, 0o644)
				if err == nil && h != nil {
					h.Write([]byte("zz"))
					h.WriteAt([]byte("y"), 0)
					h.WriteString("x")
					h.Truncate(1)
					h.Close()
				}
			}()
			check(fmt.Sprintf("os-fl%d", m), "OpenFile", fmt.Sprintf("OpenFile(%q, %#x) and writes through the handle", name, f))
		}
	}
	muts := []struct {
		what string
		do   func(fs afero.Fs)
	}{
		{"Create", func(fs afero.Fs) {
			if h, err := fs.Create("/f"); err == nil {
				h.Write([]byte("q"))
				h.Close()
			}
		}},
		{"Create-new", func(fs afero.Fs) {
			if h, err := fs.Create("/d/new"); err == nil {
				h.Close()
			}
		}},
		{"Remove", func(fs afero.Fs) { fs.Remove("/f") }},
		{"RemoveAll", func(fs afero.Fs) { fs.RemoveAll("/d") }},
		{"Rename", func(fs afero.Fs) { fs.Rename("/f", "/f2") }},
		{"Rename-dir", func(fs afero.Fs) { fs.Rename("/d", "/d2") }},
		{"Chmod", func(fs afero.Fs) { fs.Chmod("/f", 0o600) }},
		{"Chmod-dir", func(fs afero.Fs) { fs.Chmod("/d", 0o700) }},
		{"Chtimes", func(fs afero.Fs) { fs.Chtimes("/d/g", old.Add(5*time.Second), old.Add(5*time.Second)) }},
		{"Mkdir", func(fs afero.Fs) { fs.Mkdir("/m", 0o755) }},
		{"MkdirAll", func(fs afero.Fs) { fs.MkdirAll("/d/m/n", 0o755) }},
		{"Open-write", func(fs afero.Fs) {
			if h, err := fs.Open("/f"); err == nil {
				h.Write([]byte("w"))
				h.Truncate(0)
				h.Close()
			}
		}},
		{"WriteFile", func(fs afero.Fs) { afero.WriteFile(fs, "/d/g", []byte("new"), 0o644) }},
	}
	for i, mu := range muts {
		fs := mk()
		func() {
			defer func() { recover() }()
			mu.do(fs)
		}()
		check(fmt.Sprintf("os-mut%d", i), mu.what, mu.what)
	}
	c.Extra["os_base"] = fmt.Sprintf("%d calls through the wrapper over BasePathFs(OsFs, temp dir): all 4096 flag words x 4 names + %d mutators, directory snapshot compared (oracle only)", n, len(muts))
}
