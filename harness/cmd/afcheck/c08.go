package main

// C08 — confinement of BasePathFs (and httpDir, IOFS.Sub) to the root directory.
//   realpath <id> <base hex> <name hex>            BasePathFs.RealPath
//   httpdir  <id> <root hex> <name hex>            the path httpDir.Open hands to the source
//   case <id> bp:<root>(mem) ...                   op sequences; everything outside the root must stay untouched
import (
	"bytes"
	"regexp"
	"fmt"
	"os"
	"sort"
	"strings"

	"github.com/spf13/afero"
)

func init() { props["C08"] = runC08 }

// segment-wise "p is at or below b" for cleaned paths (independent of strings.HasPrefix on raw text)
func insideSegs(p, b string) bool {
	if b == "." || b == "" {
		// the root is the working directory of the source: inside = a relative name that does not climb
		cp := cleanGo(p)
		return !strings.HasPrefix(p, "/") && cp != ".." && !strings.HasPrefix(cp, "../")
	}
	ps := strings.Split(strings.Trim(p, "/"), "/")
	bs := strings.Split(strings.Trim(b, "/"), "/")
	if strings.Trim(b, "/") == "" {
		bs = nil
	}
	if strings.Trim(p, "/") == "" {
		ps = nil
	}
	if len(bs) > len(ps) {
		return false
	}
	for i := range bs {
		if ps[i] != bs[i] {
			return false
		}
	}
	return strings.HasPrefix(p, "/") == strings.HasPrefix(b, "/")
}

func realpathCase(c *Ctx, id string, base, name []byte) {
	bp := afero.NewBasePathFs(afero.NewMemMapFs(), string(base)).(*afero.BasePathFs)
	p, err := bp.RealPath(string(name))
	out := "err:" + errClass(err)
	if err == nil {
		out = "ok:" + hx([]byte(p))
		cb := cleanGo(string(base))
		if !insideSegs(p, cb) {
			c.Oracle("FAIL %s realpath-escape base=%q name=%q -> %q is outside the root", id, base, name, p)
		}
	}
	c.NCases++
	c.Case("realpath %s %s %s", id, hx(base), hx(name))
	c.Impl("%s %s", id, out)
	c.Count("realpath." + strings.SplitN(out, ":", 2)[0])
}

// recording filesystem: remembers every name handed to it
type recFs struct {
	afero.Fs
	names *[]string
}

func (r recFs) Open(name string) (afero.File, error) {
	*r.names = append(*r.names, name)
	return r.Fs.Open(name)
}

// linkRec: a source that supports links and records the names it is handed
type linkRec struct {
	afero.Fs
	sym   *[][2]string
	names *[]string
}

func (l linkRec) SymlinkIfPossible(o, n string) error {
	*l.sym = append(*l.sym, [2]string{o, n})
	return nil
}
func (l linkRec) ReadlinkIfPossible(n string) (string, error) {
	*l.names = append(*l.names, n)
	return "", os.ErrNotExist
}
func (l linkRec) LstatIfPossible(n string) (os.FileInfo, bool, error) {
	*l.names = append(*l.names, n)
	return nil, true, os.ErrNotExist
}

func symlinkCase(c *Ctx, id string, base, o, n []byte) {
	var sym [][2]string
	var names []string
	bp := afero.NewBasePathFs(linkRec{afero.NewMemMapFs(), &sym, &names}, string(base)).(*afero.BasePathFs)
	bp.SymlinkIfPossible(string(o), string(n))
	out := "refused"
	cb := cleanGo(string(base))
	if len(sym) > 0 {
		out = "ok:" + hx([]byte(sym[0][0])) + ":" + hx([]byte(sym[0][1]))
		for _, p := range sym[0] {
			if !insideSegs(cleanGo(p), cb) {
				c.Oracle("FAIL %s symlink-escape base=%q old=%q new=%q -> source called with %q", id, base, o, n, p)
			}
		}
	}
	c.NCases++
	c.Case("symlink %s %s %s %s", id, hx(base), hx(o), hx(n))
	c.Impl("%s %s", id, out)
	c.Count("symlink." + strings.SplitN(out, ":", 2)[0])
	// Lstat and Readlink of the link name
	names = nil
	bp.LstatIfPossible(string(o))
	bp.ReadlinkIfPossible(string(o))
	out = "refused"
	if len(names) == 2 {
		out = "ok:" + hx([]byte(names[0])) + ":" + hx([]byte(names[1]))
		for _, p := range names {
			if !insideSegs(cleanGo(p), cb) {
				c.Oracle("FAIL %s lstat-readlink-escape base=%q name=%q -> source called with %q", id, base, o, p)
			}
		}
	} else if len(names) != 0 {
		out = fmt.Sprintf("partial:%d", len(names))
	}
	c.NCases++
	c.Case("lname %sL %s %s", id, hx(base), hx(o))
	c.Impl("%sL %s", id, out)
}

func httpdirCase(c *Ctx, id string, root, name []byte) {
	var names []string
	h := afero.NewHttpFs(recFs{afero.NewMemMapFs(), &names})
	func() {
		defer func() { recover() }()
		f, err := h.Dir(string(root)).Open(string(name))
		if err == nil && f != nil {
			f.Close()
		}
	}()
	out := "none"
	if len(names) > 0 {
		out = "ok:" + hx([]byte(names[0]))
		r := string(root)
		if r == "" {
			r = "."
		}
		if !insideSegs(cleanGo(names[0]), cleanGo(r)) {
			c.Oracle("FAIL %s httpdir-escape root=%q name=%q -> %q is outside the root", id, root, name, names[0])
		}
	}
	c.NCases++
	c.Case("httpdir %s %s %s", id, hx(root), hx(name))
	c.Impl("%s %s", id, out)
	c.Count("httpdir." + strings.SplitN(out, ":", 2)[0])
}

// outsideSnap: deep snapshot of the entries of mem that are NOT at or below root
func outsideSnap(fs afero.Fs, root string) string {
	es := afero.VerifDump(fs)
	sort.Slice(es, func(i, j int) bool { return es[i].Path < es[j].Path })
	var b strings.Builder
	for _, e := range es {
		if e.Path == root || strings.HasPrefix(e.Path, strings.TrimSuffix(root, "/")+"/") {
			continue
		}
		kids := []string{}
		for _, k := range e.KidKeys {
			// the root's own registration in its parent may change (RemoveAll of the root itself)
			if k != root {
				kids = append(kids, k)
			}
		}
		sort.Strings(kids)
		// the parent chain of the root gets a new mtime only through its own entry; mtime of dirs is not touched by child ops
		fmt.Fprintf(&b, "%s|%v|%s|%d|%d|%s;", e.Path, e.Dir, hx(e.Data), uint32(e.Mode), e.ModTime.UnixNano(), strings.Join(kids, ","))
	}
	return b.String()
}

const outsideMarker = "OUTSIDE"

func c08Case(c *Ctx, id, stack string, items []string) {
	in := NewInterp(stack)
	src := in.Top.At(memTarget(stack)).Fs
	root := ""
	climbing := false
	if strings.Count(stack, "bp:") == 1 {
		root = cleanGo(string(unhx(strings.TrimSuffix(strings.TrimPrefix(stack, "bp:"), "(mem)"))))
	} else {
		// nested: bp:R2(bp:R1(mem)) confines to R1/R2
		parts := strings.Split(stack, "(")
		r2 := string(unhx(strings.TrimPrefix(parts[0], "bp:")))
		r1 := string(unhx(strings.TrimPrefix(parts[1], "bp:")))
		root = cleanGo(r1 + "/" + r2)
		climbing = strings.Contains(r2, "..")
		if !insideSegs(root, cleanGo(r1)) {
			// an outer root that climbs ("..") cannot widen the inner confinement
			root = cleanGo(r1)
		}
	}
	c.Case("case %s %s", id, stack)
	failed := false
	viaWrapper := map[string]bool{}
	for i, it := range items {
		c.Case("%s", it)
		f := strings.Fields(it)
		through := f[0] == "." && len(f) > 2 && !handleOps[f[2]]
		if through && f[1] != "-" {
			viaWrapper[f[1]] = true
		}
		if len(f) > 3 && handleOps[f[2]] && viaWrapper[f[3]] {
			through = true
		}
		before := ""
		if through {
			before = outsideSnap(src, root)
		}
		out := in.Exec(it)
		c.Impl("%s#%d %s", id, i, out)
		c.Count("op." + opName(it))
		c.Count("res." + strings.SplitN(out, ":", 2)[0])
		if out == "panic" {
			break
		}
		if failed || !through {
			continue
		}
		if after := outsideSnap(src, root); after != before {
			failed = true
			c.Oracle("FAIL %s outside-changed:%s step %d (%s) changed something outside %s: before=%s after=%s", id, opName(it), i, it, root, before, after)
		}
		// names with the marker exist only outside, unless an outer root that collapses to "/" lets the
		// program create such names INSIDE the inner root; then only the marker CONTENT counts
		leakPat := hx([]byte(outsideMarker))
		if climbing {
			leakPat = hx([]byte(outsideMarker + "-"))
		}
		if strings.Contains(out, leakPat) {
			failed = true
			c.Oracle("FAIL %s outside-leaked:%s step %d (%s) returned outside content or names: %s", id, opName(it), i, it, out)
		}
	}
	c.Case("end")
	c.NCases++
}

func cleanGo(p string) string { return pathClean(p) }

func genC08(r *Rng, stack, memTgt, root string) []string {
	var items []string
	e := func(format string, a ...any) { items = append(items, fmt.Sprintf(format, a...)) }
	// an underlying tree with siblings whose names start with the root's name
	slot := 0
	mk := func(p string) { e("%s - MkdirAll %s 493", memTgt, hx([]byte(p))) }
	file := func(p, content string) {
		e("%s %d Create %s", memTgt, slot, hx([]byte(p)))
		e("%s - HWrite %d %s", memTgt, slot, hx([]byte(content)))
		e("%s - HClose %d", memTgt, slot)
		slot++
	}
	mk(root)
	mk(root + "/in")
	file(root+"/f.txt", "inside")
	file(root+"/in/g.txt", "inside2")
	sib := []string{root + "2", root + "ment", parentOf(root) + "/zz"}
	if parentOf(root) == "/" {
		sib[2] = "/zz"
	}
	// a sibling that differs from the root only in letter case
	upper := strings.TrimSuffix(parentOf(root), "/") + "/" + strings.ToUpper(root[strings.LastIndex(root, "/")+1:])
	sib = append(sib, upper)
	for _, s := range sib {
		mk(s)
		file(s+"/"+outsideMarker+".txt", outsideMarker+"-secret")
	}
	file("/"+outsideMarker+"top.txt", outsideMarker+"-top")
	for i, p := range []string{root, root + "/in", root + "/f.txt", sib[0], sib[1], sib[2], sib[0] + "/" + outsideMarker + ".txt", "/"} {
		e("%s - Chtimes %s %d", memTgt, hx([]byte(p)), 1000000000+1000*(i%3))
	}
	base := strings.Split(strings.Trim(root, "/"), "/")
	last := base[len(base)-1]
	// names: inside ones and escaping spellings
	names := []string{"f.txt", "/f.txt", "in/g.txt", "in", "", "/", ".", "new", "in/new",
		"../" + last + "2/" + outsideMarker + ".txt", "../" + last + "2", "../" + last + "ment/" + outsideMarker + ".txt", "..", "../..", "../zz",
		"in/../../" + last + "2/" + outsideMarker + ".txt", "/../" + last + "2", "../" + last + "/f.txt", "../" + last, "//in//..//../" + last + "2",
		"../" + outsideMarker + "top.txt", "../../" + outsideMarker + "top.txt", "./../" + last + "2/x",
		"../" + strings.ToUpper(last) + "/" + outsideMarker + ".txt", "../" + strings.ToUpper(last), "../" + strings.ToUpper(last) + "/planted"}
	w := &WrapGen{r: r, Paths: names, Next: slot, Tgt: "."}
	for i := r.Range(6, 30); i > 0; i-- {
		w.Step()
	}
	items = append(items, w.Items...)
	items = append(items, "snap "+memTgt)
	return items
}

func runC08(c *Ctx) {
	if c.From != nil {
		for _, cs := range c.From {
			t := strings.Fields(cs[0])
			switch t[0] {
			case "realpath":
				realpathCase(c, t[1], unhx(t[2]), unhx(t[3]))
			case "httpdir":
				httpdirCase(c, t[1], unhx(t[2]), unhx(t[3]))
			case "symlink":
				symlinkCase(c, t[1], unhx(t[2]), unhx(t[3]), unhx(t[4]))
			case "lname":
				// produced together with its symlink case
			case "case":
				c08Case(c, t[1], t[2], cs[1:len(cs)-1])
			}
		}
		return
	}
	maxLen, n := 5, 500
	if c.Tier == "thorough" {
		maxLen, n = 7, 20000
	}
	// (1) RealPath / httpDir: exhaustive over short names
	names := allStrings([]byte{'a', 'b', '.', '/'}, maxLen)
	roots := []string{"/", "/a", "/a/", "/ab", "a", "./a", "/a/b", "/a/../b", "//a", "/A", "/b/A", "", "."}
	k := 0
	for _, rt := range roots {
		for _, nm := range names {
			realpathCase(c, fmt.Sprintf("rp%d", k), []byte(rt), nm)
			k++
		}
	}
	// names with backslashes (a name byte here): the string that is CHECKED against the root is the
	// string that is used — a sibling called `a\x` is not below the root /a
	for _, rt := range []string{"/a", "/a/b", "/a/"} {
		for _, nm := range allStrings([]byte{'a', '.', '/', '\\'}, 5) {
			if bytes.IndexByte(nm, '\\') >= 0 {
				realpathCase(c, fmt.Sprintf("rq%d", k), []byte(rt), nm)
				k++
			}
		}
		for _, nm := range []string{"../a\\x/s", "..\\a", "../a\\", "../a/b\\x", "x/../../a\\x", "../a\\x/../a\\x/s", "..\\..\\s", "../a/../a\\/s"} {
			realpathCase(c, fmt.Sprintf("rq%d", k), []byte(rt), []byte(nm))
			k++
		}
	}
	for _, rt := range []string{"/", "/a", "/a/b", "a", "", "."} {
		for _, nm := range names {
			httpdirCase(c, fmt.Sprintf("hd%d", k), []byte(rt), nm)
			k++
		}
	}
	// httpDir: names with percent escapes (an escaped dot or separator stays what it is: a name byte)
	// and with backslashes, which are name bytes as well here (not separators)
	toks := []string{"a", ".", "/", "%2e", "%2f", "..", "%2E%2E", "%", "\\"}
	var rec func(prefix string, d int)
	rec = func(prefix string, d int) {
		if prefix != "" {
			for _, rt := range []string{"/a", "/a/b"} {
				httpdirCase(c, fmt.Sprintf("hp%d", k), []byte(rt), []byte(prefix))
				k++
			}
		}
		if d == 0 {
			return
		}
		for _, t := range toks {
			if strings.ContainsAny(t, "%\\") || strings.ContainsAny(prefix, "%\\") || d == 4 {
				rec(prefix+t, d-1)
			}
		}
	}
	rec("", 4)
	// symlinks: every pair of short names (relative and absolute targets) for two roots
	short := allStrings([]byte{'a', '.', '/'}, 4)
	for _, rt := range []string{"/a", "/a/b"} {
		for i, o := range short {
			n := short[(i*7+3)%len(short)]
			symlinkCase(c, fmt.Sprintf("sl%d", k), []byte(rt), o, n)
			k++
			symlinkCase(c, fmt.Sprintf("sl%d", k), []byte(rt), n, []byte("door"))
			k++
		}
	}
	c.Extra["exhaustive"] = fmt.Sprintf("every name of length<=%d over {a,b,.,/} x %d roots (RealPath) and x 6 roots (httpDir): %d cases", maxLen, len(roots), k)
	runC08LstatFallback(c)
	// (2) op sequences
	for i := 0; i < n; i++ {
		r := c.Rng.Fork()
		root := Pick(r, []string{"/base", "/d/base", "/b"})
		stack := fmt.Sprintf("bp:%s(mem)", hx([]byte(root)))
		tgt := "0"
		if r.Chance(1, 5) {
			// nested base paths; sometimes with an outer root that tries to climb out of the inner one
			outer := "/in"
			if r.Chance(1, 2) {
				outer = Pick(r, []string{"..", "../..", "/..", "in/../..", ".", "../" + root[strings.LastIndex(root, "/")+1:] + "2"})
			}
			stack = fmt.Sprintf("bp:%s(bp:%s(mem))", hx([]byte(outer)), hx([]byte(root)))
			tgt = "00"
		}
		items := genC08(r, stack, tgt, root)
		c08Case(c, fmt.Sprintf("s%d", i), stack, items)
		if i < 2 {
			c.Sample("case " + stack + ": " + strings.Join(items, " ; "))
		}
	}
	_ = os.ErrNotExist
}

// LstatIfPossible through a BasePathFs whose source is NOT an Lstater (RegexpFs, CacheOnReadFs,
// a plain wrapper): the fallback Stat must use the translated name too (oracle only).  A file of
// the same name exists outside the root with a different size: describing it is a leak.
type plainFs struct{ afero.Fs } // hides every optional interface of the wrapped filesystem

func runC08LstatFallback(c *Ctx) {
	mem := afero.NewMemMapFs()
	afero.WriteFile(mem, "/base/both.txt", []byte("in"), 0o644)
	afero.WriteFile(mem, "/both.txt", []byte("outside-content-is-longer"), 0o644)
	afero.WriteFile(mem, "/secret.txt", []byte(outsideMarker), 0o644)
	afero.WriteFile(mem, "/base/in/g.txt", []byte("g"), 0o644)
	n := 0
	srcs := map[string]afero.Fs{
		"plain":  plainFs{mem},
		"regexp": afero.NewRegexpFs(mem, regexp.MustCompile(`.`)),
		"cache":  afero.NewCacheOnReadFs(mem, afero.NewMemMapFs(), 0),
		"mem":    mem,
	}
	for kind, src := range srcs {
		bp := afero.NewBasePathFs(src, "/base").(*afero.BasePathFs)
		for _, name := range []string{"/both.txt", "both.txt", "/secret.txt", "/in/g.txt", "/nope", "/../secret.txt", "/in/../both.txt"} {
			n++
			c.Count("lstat-fallback." + kind)
			fi, _, err := bp.LstatIfPossible(name)
			st, serr := bp.Stat(name)
			switch {
			case (err == nil) != (serr == nil):
				c.Oracle("FAIL lf%d outside-leaked:LstatIfPossible source=%s name=%q: LstatIfPossible err=%v, Stat err=%v", n, kind, name, err, serr)
			case err == nil && (fi.Size() != st.Size() || fi.IsDir() != st.IsDir()):
				c.Oracle("FAIL lf%d outside-leaked:LstatIfPossible source=%s name=%q: LstatIfPossible describes a %d-byte entry, Stat a %d-byte one (the entry of that name OUTSIDE the root has %d bytes)", n, kind, name, fi.Size(), st.Size(), len("outside-content-is-longer"))
			}
		}
		// the same through Walk, which uses LstatIfPossible
		afero.Walk(bp, "/", func(p string, fi os.FileInfo, err error) error {
			if err == nil && fi != nil && !fi.IsDir() {
				if st, e := bp.Stat(p); e == nil && st.Size() != fi.Size() {
					c.Oracle("FAIL lf-walk outside-leaked:Walk source=%s path=%q: Walk reports %d bytes, Stat %d", kind, p, fi.Size(), st.Size())
				}
			}
			return nil
		})
	}
	c.Extra["lstat_fallback"] = fmt.Sprintf("%d LstatIfPossible calls through BasePathFs over sources with and without Lstat (oracle only)", n)
}
