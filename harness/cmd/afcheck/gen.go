package main

// gen.go — structured generator of filesystem op sequences over a tracked abstract state.
// Well-formed ops respect the POSIX preconditions of property C01; a separate malformed
// stream (missing parents, file/dir confusion, closed handles, odd flags) is counted apart.

import (
	"fmt"
	"sort"
	"strings"
)

type absNode struct {
	dir          bool
	permExplicit bool
}

type absHandle struct {
	path   string
	dir    bool
	stale  bool // directory handle whose directory changed since it was opened: listing it is not portable
	canR   bool
	canW   bool
	closed bool
}

type Gen struct {
	r       *Rng
	nodes   map[string]*absNode // canonical absolute paths; "/" always present
	handles map[int]*absHandle
	next    int
	names   []string
	maxDep  int
	Items   []string
	Target  string
	// knobs
	Spell     bool // use alternative spellings of paths
	Malformed int  // per-mille probability of a malformed op
	NMal      int
	BelowFile int  // per-mille probability of a creating call below a regular file (refused: ENOTDIR)
	ReadOnlyHandlesOnly bool
	NoPaging  bool
	Times     []int
}

func NewGen(r *Rng) *Gen {
	return &Gen{r: r, nodes: map[string]*absNode{"/": {dir: true}}, handles: map[int]*absHandle{}, names: []string{"a", "b", "c"},
		maxDep: 3, Target: ".", Spell: true, Times: []int{1000000000, 1000001000, 1000002000, 1000003000}}
}

// touch marks directory handles stale after a change in (or removal of) directory d
func (g *Gen) touch(d string) {
	for _, h := range g.handles {
		if h.dir && (h.path == d || strings.HasPrefix(h.path, d+"/")) {
			h.stale = true
		}
	}
}

func (g *Gen) emit(slot int, format string, a ...any) {
	s := "-"
	if slot >= 0 {
		s = fmt.Sprint(slot)
	}
	g.Items = append(g.Items, g.Target+" "+s+" "+fmt.Sprintf(format, a...))
}

func parentOf(p string) string {
	i := strings.LastIndex(p, "/")
	if i <= 0 {
		return "/"
	}
	return p[:i]
}

func (g *Gen) sorted() []string {
	out := make([]string, 0, len(g.nodes))
	for p := range g.nodes {
		out = append(out, p)
	}
	sort.Strings(out)
	return out
}

func (g *Gen) pick(pred func(p string, n *absNode) bool) (string, bool) {
	var c []string
	for _, p := range g.sorted() {
		if pred(p, g.nodes[p]) {
			c = append(c, p)
		}
	}
	if len(c) == 0 {
		return "", false
	}
	return Pick(g.r, c), true
}

func (g *Gen) depth(p string) int {
	if p == "/" {
		return 0
	}
	return strings.Count(p, "/")
}

// a free name directly under an existing directory
func (g *Gen) freeName() (string, bool) {
	d, ok := g.pick(func(p string, n *absNode) bool { return n.dir && g.depth(p) < g.maxDep })
	if !ok {
		return "", false
	}
	for try := 0; try < 6; try++ {
		n := Pick(g.r, g.names)
		p := d + "/" + n
		if d == "/" {
			p = "/" + n
		}
		if _, ex := g.nodes[p]; !ex {
			return p, true
		}
	}
	return "", false
}

func (g *Gen) children(d string) []string {
	var out []string
	for _, p := range g.sorted() {
		if p != "/" && parentOf(p) == d {
			out = append(out, p)
		}
	}
	return out
}

func (g *Gen) subtree(d string) []string {
	var out []string
	for _, p := range g.sorted() {
		if p == d || strings.HasPrefix(p, d+"/") {
			out = append(out, p)
		}
	}
	return out
}

// spell returns an alternative spelling of a canonical path that denotes the same file for
// the OS as well (".." only after an existing directory, trailing "/" only on directories).
func (g *Gen) spell(p string) string {
	if !g.Spell || g.r.Chance(3, 5) {
		return p
	}
	segs := strings.Split(strings.TrimPrefix(p, "/"), "/")
	if p == "/" {
		return Pick(g.r, []string{"/", "//", "/.", "/./"})
	}
	var b strings.Builder
	cur := ""
	for i, s := range segs {
		switch g.r.Intn(6) {
		case 0:
			b.WriteString("//")
		case 1:
			b.WriteString("/./")
		default:
			b.WriteString("/")
		}
		b.WriteString(s)
		cur += "/" + s
		if n, ok := g.nodes[cur]; ok && n.dir && g.r.Chance(1, 6) {
			// step into the directory and back
			b.WriteString("/../" + s)
		}
		_ = i
	}
	if n, ok := g.nodes[p]; ok && n.dir && g.r.Chance(1, 6) {
		b.WriteString("/")
	}
	return b.String()
}

func (g *Gen) hxp(p string) string { return hx([]byte(g.spell(p))) }

var accessFlags = []int{0, 1, 2}

const (
	oCREATE = 0x40
	oEXCL   = 0x80
	oTRUNC  = 0x200
	oAPPEND = 0x400
	oSYNC   = 0x101000
)

func (g *Gen) newSlot() int { g.next++; return g.next - 1 }

// Step appends one well-formed op (or, rarely, a malformed one).
func (g *Gen) Step() {
	if g.Malformed > 0 && g.r.Intn(1000) < g.Malformed {
		g.malformed()
		return
	}
	r := g.r
	if g.BelowFile > 0 && r.Intn(1000) < g.BelowFile && g.belowFile() {
		return
	}
	for try := 0; try < 20; try++ {
		switch r.Intn(22) {
		case 0, 1: // Mkdir
			if p, ok := g.freeName(); ok {
				perm := Pick(r, []int{0o755, 0o700, 0o777, 0o750})
				g.emit(-1, "Mkdir %s %d", g.hxp(p), perm)
				g.nodes[p] = &absNode{dir: true, permExplicit: true}
				g.touch(parentOf(p))
				return
			}
		case 2: // Mkdir on an existing name -> EEXIST
			if p, ok := g.pick(func(p string, n *absNode) bool { return p != "/" }); ok {
				g.emit(-1, "Mkdir %s %d", g.hxp(p), 0o755)
				return
			}
		case 3: // MkdirAll (creates a chain)
			d, ok := g.pick(func(p string, n *absNode) bool { return n.dir && g.depth(p) < g.maxDep-1 })
			if ok {
				p := d
				for k := r.Range(1, 2); k > 0 && g.depth(p) < g.maxDep; k-- {
					nm := Pick(r, g.names)
					np := p + "/" + nm
					if p == "/" {
						np = "/" + nm
					}
					if n, ex := g.nodes[np]; ex && !n.dir {
						break
					}
					p = np
				}
				if p != d {
					perm := Pick(r, []int{0o755, 0o700})
					g.emit(-1, "MkdirAll %s %d", hx([]byte(p)), perm)
					for q := p; q != "/" && q != d; q = parentOf(q) {
						if _, ex := g.nodes[q]; !ex {
							g.nodes[q] = &absNode{dir: true, permExplicit: true}
							g.touch(parentOf(q))
						}
					}
					return
				}
			}
		case 4, 5: // Create
			if r.Bool() {
				if p, ok := g.freeName(); ok {
					s := g.newSlot()
					g.emit(s, "Create %s", g.hxp(p))
					g.nodes[p] = &absNode{}
					g.touch(parentOf(p))
					g.handles[s] = &absHandle{path: p, canR: true, canW: true}
					return
				}
			} else if p, ok := g.pick(func(p string, n *absNode) bool { return !n.dir }); ok {
				s := g.newSlot()
				g.emit(s, "Create %s", g.hxp(p))
				g.handles[s] = &absHandle{path: p, canR: true, canW: true}
				return
			}
		case 6, 7, 8: // OpenFile on a file (existing or to be created)
			acc := Pick(r, accessFlags)
			flag := acc
			create := r.Chance(1, 2)
			if create {
				flag |= oCREATE
				if r.Chance(1, 3) {
					flag |= oEXCL
				}
			}
			if acc != 0 && r.Chance(1, 3) {
				flag |= oTRUNC
			}
			var p string
			var ok bool
			exists := r.Chance(2, 3)
			if exists {
				p, ok = g.pick(func(p string, n *absNode) bool { return !n.dir })
			} else {
				p, ok = g.freeName()
			}
			if !ok {
				continue
			}
			perm := Pick(r, []int{0o644, 0o600, 0o666, 0o640})
			s := g.newSlot()
			g.emit(s, "OpenFile %s %d %d", g.hxp(p), flag, perm)
			if exists {
				if !(create && flag&oEXCL != 0) {
					g.handles[s] = &absHandle{path: p, canR: acc != 1, canW: acc != 0}
				}
			} else if create {
				g.nodes[p] = &absNode{permExplicit: true}
				g.touch(parentOf(p))
				g.handles[s] = &absHandle{path: p, canR: acc != 1, canW: acc != 0}
			}
			return
		case 9: // Open (file, dir or missing)
			if r.Chance(1, 5) {
				if p, ok := g.freeName(); ok {
					g.emit(g.newSlot(), "Open %s", g.hxp(p))
					return
				}
			}
			if p, ok := g.pick(func(p string, n *absNode) bool { return true }); ok {
				s := g.newSlot()
				g.emit(s, "Open %s", g.hxp(p))
				g.handles[s] = &absHandle{path: p, dir: g.nodes[p].dir, canR: true}
				return
			}
		case 10: // Remove file / empty dir / missing
			if r.Chance(1, 5) {
				if p, ok := g.freeName(); ok {
					g.emit(-1, "Remove %s", g.hxp(p))
					return
				}
			}
			if p, ok := g.pick(func(p string, n *absNode) bool { return p != "/" && (!n.dir || len(g.children(p)) == 0) }); ok {
				g.emit(-1, "Remove %s", g.hxp(p))
				delete(g.nodes, p)
				g.touch(parentOf(p))
				g.touch(p)
				return
			}
		case 11: // RemoveAll
			if r.Chance(1, 4) {
				if p, ok := g.freeName(); ok {
					g.emit(-1, "RemoveAll %s", g.hxp(p))
					return
				}
			}
			if p, ok := g.pick(func(p string, n *absNode) bool { return p != "/" }); ok {
				g.emit(-1, "RemoveAll %s", g.hxp(p))
				for _, q := range g.subtree(p) {
					delete(g.nodes, q)
				}
				g.touch(parentOf(p))
				g.touch(p)
				return
			}
		case 12, 13: // Rename
			if r.Chance(1, 6) {
				p, ok1 := g.freeName()
				q, ok2 := g.freeName()
				if ok1 && ok2 {
					g.emit(-1, "Rename %s %s", g.hxp(p), g.hxp(q))
					return
				}
			}
			p, ok := g.pick(func(p string, n *absNode) bool { return p != "/" })
			if !ok {
				continue
			}
			n := g.nodes[p]
			var q string
			if !n.dir && r.Chance(1, 3) {
				q, ok = g.pick(func(q string, m *absNode) bool { return !m.dir && q != p })
			} else {
				q, ok = g.freeName()
				if ok && n.dir && (q == p || strings.HasPrefix(q, p+"/")) {
					ok = false
				}
				// keep the depth bound for moved subtrees
				if ok && n.dir {
					deepest := 0
					for _, x := range g.subtree(p) {
						if d := g.depth(x) - g.depth(p); d > deepest {
							deepest = d
						}
					}
					if g.depth(q)+deepest > g.maxDep+1 {
						ok = false
					}
				}
			}
			if !ok {
				continue
			}
			g.emit(-1, "Rename %s %s", g.hxp(p), g.hxp(q))
			g.touch(parentOf(p))
			g.touch(parentOf(q))
			g.touch(p)
			moved := g.subtree(p)
			tmp := map[string]*absNode{}
			for _, x := range moved {
				tmp[q+x[len(p):]] = g.nodes[x]
				delete(g.nodes, x)
			}
			for k, v := range tmp {
				g.nodes[k] = v
			}
			for _, h := range g.handles {
				if h.path == p || strings.HasPrefix(h.path, p+"/") {
					h.path = q + h.path[len(p):]
				}
			}
			return
		case 14: // Stat
			if r.Chance(1, 5) {
				if p, ok := g.freeName(); ok {
					g.emit(-1, "Stat %s", g.hxp(p))
					return
				}
			}
			if p, ok := g.pick(func(p string, n *absNode) bool { return true }); ok {
				g.emit(-1, "Stat %s", g.hxp(p))
				return
			}
		case 15: // Chmod
			if p, ok := g.pick(func(p string, n *absNode) bool { return p != "/" }); ok {
				n := g.nodes[p]
				perm := Pick(r, []int{0o600, 0o644, 0o666, 0o640})
				if n.dir {
					perm = Pick(r, []int{0o700, 0o755, 0o777, 0o711})
				}
				if n.dir && r.Chance(1, 4) {
					// the sticky bit (Go's encoding 1<<20) of a directory: set by one Chmod, it is gone after
					// the next one that does not name it (setgid is inherited by new sub-directories on Linux and
					// setuid/setgid of files are cleared by writes: not portable, not generated)
					perm |= 1 << 20
				}
				g.emit(-1, "Chmod %s %d", g.hxp(p), perm)
				n.permExplicit = true
				return
			}
		case 16: // Chtimes
			if p, ok := g.pick(func(p string, n *absNode) bool { return p != "/" }); ok {
				g.emit(-1, "Chtimes %s %d", g.hxp(p), Pick(r, g.Times))
				return
			}
		default: // handle ops
			if g.handleOp() {
				return
			}
		}
	}
	g.emit(-1, "Stat 2f")
}

func (g *Gen) liveHandles() []int {
	var hs []int
	for s := range g.handles {
		hs = append(hs, s)
	}
	sort.Ints(hs)
	return hs
}

func (g *Gen) handleOp() bool {
	r := g.r
	hs := g.liveHandles()
	if len(hs) == 0 {
		return false
	}
	s := Pick(r, hs)
	h := g.handles[s]
	if h.closed {
		// any op on a closed handle: closed class
		switch r.Intn(4) {
		case 0:
			g.emit(-1, Pick(r, []string{"HRead %d 3", "HRead %d 0", "HReadAt %d 2 0"}), s)
		case 1:
			if h.dir {
				return false
			}
			// the empty payload too: "closed" is decided before the bytes are looked at
			g.emit(-1, Pick(r, []string{"HWrite %d 6161", "HWrite %d -", "HWriteString %d -", "HWriteString %d 62"}), s)
		case 2:
			g.emit(-1, "HSeek %d 0 0", s)
		default:
			g.emit(-1, "HClose %d", s)
		}
		return true
	}
	if h.dir && h.stale {
		if r.Bool() {
			g.emit(-1, "HStat %d", s)
		} else {
			g.emit(-1, "HClose %d", s)
			h.closed = true
		}
		return true
	}
	if h.dir {
		switch r.Intn(5) {
		case 0, 1:
			if g.NoPaging {
				g.emit(-1, "HReaddir %d %d", s, Pick(r, []int{-1, 0, 100}))
			} else {
				g.emit(-1, "HReaddir %d %d", s, Pick(r, []int{-1, 0, 1, 2, 3, 7}))
			}
		case 2:
			if g.NoPaging {
				g.emit(-1, "HReaddirnames %d %d", s, Pick(r, []int{-1, 0, 100}))
			} else {
				g.emit(-1, "HReaddirnames %d %d", s, Pick(r, []int{-1, 0, 1, 2, 3, 7}))
			}
		case 3:
			g.emit(-1, "HStat %d", s)
		default:
			g.emit(-1, "HClose %d", s)
			h.closed = true
		}
		return true
	}
	pay := Pick(r, c02Payloads)
	switch r.Intn(12) {
	case 0, 1:
		if !h.canR {
			return false
		}
		g.emit(-1, "HRead %d %d", s, r.Range(0, 7))
	case 2:
		if !h.canR {
			return false
		}
		g.emit(-1, "HReadAt %d %d %d", s, r.Range(0, 7), r.Range(0, 12))
	case 3, 4, 5:
		if !h.canW {
			// refused by a read-only handle, the empty payload included (write(2) checks the
			// descriptor's mode before the count)
			if !h.canR || !r.Chance(1, 3) {
				return false
			}
			g.emit(-1, "HWrite %d %s", s, hx(pay))
			g.emit(-1, "HSeek %d 0 1", s)
			return true
		}
		g.emit(-1, "HWrite %d %s", s, hx(pay))
	case 6:
		if !h.canW {
			// a write refused by a read-only handle changes nothing, the handle's offset included
			// (with a non-empty payload: os.File.WriteAt loops over the bytes and so never asks the
			// kernel about an empty one, which then "succeeds" on a read-only descriptor)
			if !h.canR || len(pay) == 0 || !r.Chance(1, 2) {
				return false
			}
			g.emit(-1, "HWriteAt %d %s %d", s, hx(pay), r.Range(0, 12))
			g.emit(-1, "HSeek %d 0 1", s)
			return true
		}
		g.emit(-1, "HWriteAt %d %s %d", s, hx(pay), r.Range(0, 12))
	case 7:
		if !h.canW {
			return false
		}
		g.emit(-1, "HWriteString %d %s", s, hx(pay))
	case 8:
		wh := r.Intn(3)
		o := r.Range(0, 10)
		if wh == 2 {
			o = r.Range(-3, 3)
		} else if wh == 1 {
			o = r.Range(-2, 4)
		}
		g.emit(-1, "HSeek %d %d %d", s, o, wh)
	case 9:
		if !h.canW {
			return false
		}
		if r.Chance(1, 3) { // shrink, then grow again: the bytes cut off must come back as zeros
			a := r.Range(0, 4)
			g.emit(-1, "HTruncate %d %d", s, a)
			g.emit(-1, "HTruncate %d %d", s, a+r.Range(1, 8))
			if h.canR && r.Chance(1, 2) {
				g.emit(-1, "HReadAt %d 12 0", s)
			}
		} else {
			g.emit(-1, "HTruncate %d %d", s, r.Range(0, 12))
		}
	case 10:
		g.emit(-1, "HStat %d", s)
	default:
		g.emit(-1, "HClose %d", s)
		h.closed = true
	}
	return true
}

// belowFile appends a creating call whose nearest existing ancestor is a REGULAR FILE: the name
// directly below the file, or one missing level further down.  The operating system answers
// ENOTDIR and changes nothing; so does MemMapFs since it looks the ancestors up before creating
// (it used to create the entry and turn the regular file into a directory).  Well-formed in the
// sense of the OS comparison: same error class on both sides, the tracked tree is unchanged.
func (g *Gen) belowFile() bool {
	r := g.r
	f, ok := g.pick(func(p string, n *absNode) bool { return !n.dir })
	if !ok {
		return false
	}
	p := f + "/" + Pick(r, g.names)
	if r.Chance(1, 3) {
		p += "/" + Pick(r, g.names)
	}
	switch r.Intn(5) {
	case 0:
		g.emit(g.newSlot(), "Create %s", g.hxp(p))
	case 1:
		g.emit(-1, "Mkdir %s %d", g.hxp(p), 0o755)
	case 2:
		// plain spelling, as for the other MkdirAll calls: os.MkdirAll splits the name itself and
		// answers EEXIST instead of ENOTDIR for "/f//x" (its own quirk, not the kernel's)
		g.emit(-1, "MkdirAll %s %d", hx([]byte(p)), 0o755)
	case 3:
		flag := Pick(r, accessFlags) | oCREATE
		if r.Chance(1, 3) {
			flag |= oEXCL
		}
		g.emit(g.newSlot(), "OpenFile %s %d %d", g.hxp(p), flag, 0o644)
	default:
		// Rename of an existing file or directory to a name below the regular file (not of an
		// ancestor of that file: the kernel's answer for a move into the own subtree is EINVAL,
		// another class of the comparison)
		if r.Chance(1, 4) {
			// a MISSING source in an existing directory: rename(2) resolves the directory of the
			// source, then the directory of the target, before it looks for the source: ENOTDIR
			if d, ok := g.pick(func(q string, n *absNode) bool { return n.dir }); ok {
				src := d + "/" + Pick(r, g.names)
				if d == "/" {
					src = src[1:]
				}
				if _, ex := g.nodes[src]; !ex {
					g.emit(-1, "Rename %s %s", g.hxp(src), g.hxp(p))
					return true
				}
			}
		}
		q, ok := g.pick(func(q string, n *absNode) bool { return q != "/" && q != f && !strings.HasPrefix(f, q+"/") })
		if !ok {
			g.emit(-1, "Mkdir %s %d", g.hxp(p), 0o755)
			return true
		}
		g.emit(-1, "Rename %s %s", g.hxp(q), g.hxp(p))
	}
	return true
}

// malformed: ops outside the POSIX preconditions (model-vs-implementation only)
func (g *Gen) malformed() {
	r := g.r
	g.NMal++
	anyName := func() string {
		d := r.Range(1, 3)
		p := ""
		for i := 0; i < d; i++ {
			p += "/" + Pick(r, g.names)
		}
		return p
	}
	switch r.Intn(12) {
	case 0:
		g.emit(g.newSlot(), "Create %s", hx([]byte(anyName()))) // missing parents, over directories
	case 1:
		g.emit(-1, "Mkdir %s %d", hx([]byte(anyName())), 0o755)
	case 2:
		g.emit(-1, "Remove %s", hx([]byte(anyName()))) // non-empty directories
	case 3:
		a, b := anyName(), anyName()
		if a != b && (strings.HasPrefix(a+"/", b+"/") || strings.HasPrefix(b+"/", a+"/")) {
			g.emit(-1, "Stat %s", hx([]byte(a))) // ancestor/descendant renames: outcome depends on Go map order
		} else {
			g.emit(-1, "Rename %s %s", hx([]byte(a)), hx([]byte(b)))
		}
	case 4:
		g.emit(g.newSlot(), "OpenFile %s %d %d", hx([]byte(anyName())), Pick(r, []int{oAPPEND | 1, oAPPEND | 2, oSYNC, oTRUNC, oEXCL, oEXCL | 2, oCREATE | oEXCL | oTRUNC | 1, oAPPEND | oCREATE | 2, 3, 0x42 | oAPPEND}), 0o644)
	case 5:
		hs := g.liveHandles()
		if len(hs) > 0 {
			s := Pick(r, hs)
			g.emit(-1, Pick(r, []string{"HRead %d 4", "HWrite %d 7a7a", "HReaddir %d 2", "HReaddirnames %d -1", "HTruncate %d 2", "HSeek %d -5 0", "HReadAt %d 3 -1", "HWriteAt %d 61 -1", "HTruncate %d -1", "HName %d", "HSync %d", "HWrite %d -", "HWriteString %d -", "HRead %d 0"}), s)
			return
		}
		g.emit(-1, "Stat 2f")
	case 6:
		g.emit(-1, "RemoveAll %s", hx([]byte(anyName())))
	case 7:
		g.emit(-1, "Chmod %s %d", hx([]byte(Pick(r, []string{"/a/", "//a", "/a/.", "a", "./a", "/a/../b", "b/c"}))), 0o600)
	case 8:
		g.emit(g.newSlot(), "Open %s", hx([]byte(Pick(r, []string{"a", "./a", "b/c", "", ".", "..", "/..", "a/../b"}))))
	case 9:
		g.emit(g.newSlot(), "Create %s", hx([]byte(Pick(r, []string{"a", "./b", "b/c", "c/"}))))
	case 10:
		g.emit(-1, "MkdirAll %s %d", hx([]byte(anyName())), 0o700)
	default:
		g.emit(-1, "Chown %s %d %d", hx([]byte(anyName())), r.Range(0, 5), r.Range(0, 5))
	}
	// malformed ops can change the tree in ways the abstract state does not follow: resync is
	// not attempted; sequences with malformed ops are excluded from the POSIX oracle.
}
