package main

// C09 — BasePathFs is a faithful re-rooting: results and effects through bp:D(src) equal the
// same calls on a twin filesystem with D prepended; names are relative to D; stacking equals
// one BasePathFs on the joined roots; FullBaseFsPath returns the joined path.
//   case <id> bp:D(mem) | bp:D2(bp:D1(mem))
//   fullpath <id> <b1 hex> <b2 hex> <rel hex>
import (
	"os"
	"fmt"
	"encoding/hex"
	"path/filepath"
	"strings"

	"github.com/spf13/afero"
)

func init() { props["C09"] = runC09 }

// rewrite the path arguments of an item line with f
func mapItemPaths(it string, f func(string) string) string {
	t := strings.Fields(it)
	if len(t) < 4 || handleOps[t[2]] {
		return it
	}
	t[3] = hx([]byte(f(string(unhx(t[3])))))
	if t[2] == "Rename" {
		t[4] = hx([]byte(f(string(unhx(t[4])))))
	}
	return strings.Join(t, " ")
}

func c09Case(c *Ctx, id, stack string, roots []string, items []string) {
	in := NewInterp(stack)
	memTgt := memTarget(stack)
	joined := ""
	for _, r := range roots { // outermost first
		joined = filepath.Join(joined, r)
	}
	twin := NewInterp("mem")
	c.Case("case %s %s", id, stack)
	failed := false
	for i, it := range items {
		c.Case("%s", it)
		out := in.Exec(it)
		c.Impl("%s#%d %s", id, i, out)
		c.Count("op." + opName(it))
		c.Count("res." + strings.SplitN(out, ":", 2)[0])
		if out == "panic" {
			failed = true // a panic may leave locks held: no further calls on this filesystem
			break
		}
		f := strings.Fields(it)
		if f[0] == "snap" || f[0] == "index" || failed {
			continue
		}
		// twin: setup ops (on the source) unchanged; wrapper ops with the joined root prepended
		tw := it
		if f[0] == "." {
			tw = mapItemPaths(it, func(p string) string { return filepath.Join(joined, p) })
		}
		tw = ". " + strings.Join(strings.Fields(tw)[1:], " ")
		escapes := false
		if f[0] == "." && len(f) > 3 && !handleOps[f[2]] {
			for _, a := range f[3:] {
				if len(a) >= 2 && len(a)%2 == 0 && !strings.ContainsAny(a, "ghijklmnopqrstuvwxyz") {
					if b, err := hexDecode(a); err == nil && !insideSegs(filepath.Join(joined, string(b)), filepath.Clean(joined)) {
						escapes = true
					}
				}
			}
		}
		if escapes {
			// not an in-root name: C08's business (reported as not existing), no twin call
			continue
		}
		want := twin.Exec(tw)
		if want == "panic" {
			failed = true
			break
		}
		if len(f) > 2 && f[2] == "HName" && strings.HasPrefix(want, "name:") && f[0] == "." {
			// names are reported relative to D (only for handles obtained through the wrapper)
		}
		got := out
		if len(f) > 2 && f[2] == "HName" && strings.HasPrefix(got, "name:") && strings.HasPrefix(want, "name:") {
			gn, wn := string(unhx(strings.TrimPrefix(got, "name:"))), string(unhx(strings.TrimPrefix(want, "name:")))
			if viaTop(items, f[3]) {
				if filepath.Join(joined, gn) != filepath.Clean(wn) {
					failed = true
					c.Oracle("FAIL %s name-not-relative step %d (%s): Name()=%q, source name %q, root %q", id, i, it, gn, wn, joined)
				}
				continue
			}
		}
		if got != want {
			failed = true
			c.Oracle("FAIL %s differs-from-twin:%s step %d (%s): through wrapper=%s twin with joined paths=%s", id, opName(it), i, it, got, want)
		}
	}
	c.Case("end")
	c.NCases++
	if !failed {
		a, b := snapS(afero.VerifDump(in.Top.At(memTgt).Fs)), snapS(afero.VerifDump(twin.Top.Fs))
		if a != b {
			c.Oracle("FAIL %s final-snapshot-differs underlying=%s twin=%s", id, a, b)
		}
	}
}

// was slot s bound by an op addressed to the top of the stack?
func viaTop(items []string, slot string) bool {
	for _, it := range items {
		f := strings.Fields(it)
		if len(f) > 2 && f[1] == slot && !handleOps[f[2]] {
			return f[0] == "."
		}
	}
	return false
}

func fullpathCase(c *Ctx, id string, b1, b2, rel string) {
	mem := afero.NewMemMapFs()
	outer := afero.NewBasePathFs(mem, b1)
	inner := afero.NewBasePathFs(outer, b2).(*afero.BasePathFs)
	got := afero.FullBaseFsPath(inner, rel)
	c.NCases++
	c.Case("fullpath %s %s %s %s", id, hx([]byte(b1)), hx([]byte(b2)), hx([]byte(rel)))
	c.Impl("%s ok:%s", id, hx([]byte(got)))
	want := filepath.Join(filepath.Join(b1, b2), rel)
	noUp := func(s string) bool { return !strings.Contains(s, "..") }
	if noUp(b2) && noUp(rel) && got != want {
		c.Oracle("FAIL %s fullpath b1=%q b2=%q rel=%q: got %q want %q", id, b1, b2, rel, got, want)
	}
	c.Count("fullpath")
}

func genC09(r *Rng, stack string, roots []string) []string {
	memTgt := memTarget(stack)
	joined := ""
	for _, rt := range roots {
		joined = filepath.Join(joined, rt)
	}
	items := []string{fmt.Sprintf("%s - MkdirAll %s 493", memTgt, hx([]byte(joined)))}
	g := NewGen(r)
	g.Target = "."
	g.Malformed = 60 // a few ops outside the POSIX preconditions too: the wrapper must still commute
	for i := r.Range(5, 30); i > 0; i-- {
		g.Step()
		if r.Chance(1, 8) {
			hs := g.liveHandles()
			if len(hs) > 0 {
				g.emit(-1, "HName %d", Pick(r, hs))
			}
		}
	}
	items = append(items, g.Items...)
	items = append(items, "snap "+memTgt)
	return items
}

func runC09(c *Ctx) {
	if c.From != nil {
		for _, cs := range c.From {
			t := strings.Fields(cs[0])
			switch t[0] {
			case "realpath":
				realpathCase(c, t[1], unhx(t[2]), unhx(t[3]))
			case "fullpath":
				fullpathCase(c, t[1], string(unhx(t[2])), string(unhx(t[3])), string(unhx(t[4])))
			case "case":
				c09Case(c, t[1], t[2], stackRoots(t[2]), cs[1:len(cs)-1])
			}
		}
		return
	}
	n := 500
	if c.Tier == "thorough" {
		n = 20000
	}
	rootsets := [][]string{{"/d"}, {"/d/"}, {"/"}, {"/d/e"}, {"/x", "/in"}, {"/x/", "/in/"}, {"/", "/in"}, {"//d//e/"},
		{"//"}, {"/."}, {"/./"}, {"/d", "//"}, {"/.", "/d"}} // roots that clean to "/" without being spelled "/"
	for i := 0; i < n; i++ {
		r := c.Rng.Fork()
		roots := rootsets[i%len(rootsets)]
		stack := "mem"
		for _, rt := range roots { // outermost first = innermost in the descriptor
			stack = fmt.Sprintf("bp:%s(%s)", hx([]byte(rt)), stack)
		}
		items := genC09(r, stack, roots)
		c09Case(c, fmt.Sprintf("t%d", i), stack, roots, items)
		if i < 2 {
			c.Sample("case " + stack + ": " + strings.Join(items, " ; "))
		}
	}
	mixedStackCases(c, []string{"bp:2f64(cow(mem,mem))", "bp:2f64(ro(mem))", "bp:2f64(re:0(mem))", "bp:2f(cow(bp:2f64(mem),mem))"}, map[bool]int{false: 120, true: 4000}[c.Tier == "thorough"], "ux")
	runC09OverUnion(c)
	// RealPath of in-root names = Join(root, name), also for names that repeat the root's own
	// segments (root /a, name /a/b -> /a/a/b); escaping names are C08's business
	rk := 0
	for _, rt := range []string{"/a", "/a/b", "/ab", "/"} {
		for _, nm := range allStrings([]byte{'a', 'b', '/'}, 5) {
			id := fmt.Sprintf("rq%d", rk)
			rk++
			realpathCase(c, id, []byte(rt), nm)
			bp := afero.NewBasePathFs(afero.NewMemMapFs(), rt).(*afero.BasePathFs)
			if got, err := bp.RealPath(string(nm)); err != nil || got != filepath.Join(rt, string(nm)) {
				c.Oracle("FAIL %s realpath-not-join root=%q name=%q: got %q, %v; want %q", id, rt, nm, got, err, filepath.Join(rt, string(nm)))
			}
		}
	}
	// ... and names made of dots: an element that merely BEGINS with ".." ("..a", "...") is an
	// ordinary in-root name.  In-root = the joined path stays at or below the root.
	for _, rt := range []string{"/a", "/a/b", "/"} {
		for _, nm := range allStrings([]byte{'a', '.', '/'}, 5) {
			joined := filepath.Join(rt, string(nm))
			if !(joined == rt || rt == "/" || strings.HasPrefix(joined, rt+"/")) || !strings.Contains(string(nm), ".") {
				continue
			}
			if rt == "/" && strings.HasPrefix(filepath.Clean(string(nm)), "..") {
				continue // a relative name that climbs above "/": C08's business
			}
			id := fmt.Sprintf("rd%d", rk)
			rk++
			realpathCase(c, id, []byte(rt), nm)
			bp := afero.NewBasePathFs(afero.NewMemMapFs(), rt).(*afero.BasePathFs)
			if got, err := bp.RealPath(string(nm)); err != nil || got != joined {
				c.Oracle("FAIL %s realpath-not-join:dots root=%q name=%q: got %q, %v; want %q", id, rt, nm, got, err, joined)
			}
		}
	}
	k := 0
	parts := []string{"/", "/a", "a", "/a/b", "a/", "./a", "//a/", ".", "a/../b"}
	rels := []string{"f", "/f", "d/f", "", ".", "x/../f", "//d//f", "../f"}
	for _, b1 := range parts {
		for _, b2 := range parts {
			for _, rel := range rels {
				fullpathCase(c, fmt.Sprintf("fp%d", k), b1, b2, rel)
				k++
			}
		}
	}
}

// roots of a bp stack descriptor, outermost (closest to mem) first
func stackRoots(stack string) []string {
	var roots []string
	for _, p := range strings.Split(stack, "(") {
		if strings.HasPrefix(p, "bp:") {
			roots = append([]string{string(unhx(strings.TrimPrefix(p, "bp:")))}, roots...)
		}
	}
	return roots
}

func hexDecode(s string) ([]byte, error) { return hex.DecodeString(s) }

// BasePathFs over a source whose Open and OpenFile(O_RDONLY) are different code paths (a
// CopyOnWriteFs with a directory present in both layers): every read through the wrapper equals
// the same read on the source under the joined path (oracle only; the twin machinery above is for
// MemMapFs sources)
func runC09OverUnion(c *Ctx) {
	base, layer := afero.NewMemMapFs(), afero.NewMemMapFs()
	afero.WriteFile(base, "/d/x/from-base.txt", []byte("B"), 0o644)
	afero.WriteFile(base, "/d/x/both.txt", []byte("base version"), 0o644)
	afero.WriteFile(base, "/d/only-base/f", []byte("ob"), 0o644)
	afero.WriteFile(layer, "/d/x/from-layer.txt", []byte("L"), 0o644)
	afero.WriteFile(layer, "/d/x/both.txt", []byte("layer"), 0o644)
	afero.WriteFile(layer, "/d/only-layer/g", []byte("ol"), 0o644)
	src := afero.NewCopyOnWriteFs(base, layer)
	n := 0
	for _, roots := range [][]string{{"/d"}, {"/", "/d"}, {"/d", "/"}, {"/d/x"}} {
		var w afero.Fs = src
		joined := "/"
		for _, r := range roots {
			w = afero.NewBasePathFs(w, r)
			joined = filepath.Join(joined, r)
		}
		listing := func(fs afero.Fs, p string, how int) string {
			var f afero.File
			var err error
			if how == 0 {
				f, err = fs.Open(p)
			} else {
				f, err = fs.OpenFile(p, os.O_RDONLY, 0)
			}
			if err != nil {
				return "err:" + errClass(err)
			}
			defer f.Close()
			if how == 2 {
				fis, err := f.Readdir(-1)
				return listRes("infos", fisS(fis), len(fis), err)
			}
			names, err := f.Readdirnames(-1)
			return listRes("names", namesS(names), len(names), err)
		}
		for _, p := range []string{"/", "/x", "/x/both.txt", "/only-base", "/only-layer", "/nope", "x", "./x/"} {
			jp := filepath.Join(joined, p)
			for how := 0; how < 3; how++ {
				n++
				c.Count("overunion.listing")
				if got, want := listing(w, p, how), listing(src, jp, how); got != want {
					c.Oracle("FAIL ou%d differs-from-twin:over-union:listing roots=%v name=%q how=%d (0 Open+Readdirnames, 1 OpenFile(O_RDONLY)+Readdirnames, 2 OpenFile+Readdir): through the wrapper %s, on the source at %q %s", n, roots, p, how, got, jp, want)
				}
			}
			gs, ge := w.Stat(p)
			ws, we := src.Stat(jp)
			if (ge == nil) != (we == nil) || (ge == nil && (gs.IsDir() != ws.IsDir() || gs.Size() != ws.Size())) {
				c.Oracle("FAIL ou%d differs-from-twin:over-union:Stat roots=%v name=%q: %v/%v vs %v/%v", n, roots, p, gs, ge, ws, we)
			}
			gb, ge2 := afero.ReadFile(w, p)
			wb, we2 := afero.ReadFile(src, jp)
			if string(gb) != string(wb) || errClass(ge2) != errClass(we2) {
				c.Oracle("FAIL ou%d differs-from-twin:over-union:ReadFile roots=%v name=%q: %q,%v vs %q,%v", n, roots, p, gb, ge2, wb, we2)
			}
		}
	}
	c.Extra["over_union"] = fmt.Sprintf("%d listings/stats/reads through BasePathFs stacks over a CopyOnWriteFs with a directory in both layers (oracle only)", n)
}
