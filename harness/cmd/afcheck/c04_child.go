package main

// c04_child.go — the parent side of the scheduled phase: instrument the CURRENT sources of
// /repo, build afcheck-sched with the overlay, run it as a child on its own output directory
// and merge what it wrote (cases, impl lines; the oracles are re-evaluated by the parent).

import (
	"bufio"
	"encoding/json"
	"fmt"
	"os"
	"os/exec"
	"path/filepath"
	"strings"
	"time"
)

func c04RunSchedChild(s *c04State) string {
	c := s.c
	if os.Getenv("C04_NOSCHED") != "" {
		return "skipped (C04_NOSCHED)"
	}
	t0 := time.Now()
	bin, note, err := c04BuildSched(c.Out)
	if err != nil {
		return "FAILED to build the instrumented binary: " + err.Error()
	}
	build := time.Since(t0)
	dir := filepath.Join(c.Out, "sched")
	os.RemoveAll(dir)
	args := []string{"run", "-prop", "C04", "-tier", c.Tier, "-seed", fmt.Sprint(c.Seed), "-out", dir}
	if c.From != nil {
		// hand the scheduled cases of the replay file to the child
		f := filepath.Join(c.Out, "sched-from.txt")
		var b strings.Builder
		for _, lines := range c.From {
			if _, p, sched := c04ParseCase(lines); p != nil && sched != "" {
				b.WriteString(strings.Join(lines, "\n") + "\n")
			}
		}
		if b.Len() == 0 {
			return note + "; no scheduled case to replay"
		}
		os.WriteFile(f, []byte(b.String()), 0o644)
		args = append(args, "-from", f)
	}
	cmd := exec.Command(bin, args...)
	cmd.Env = append(os.Environ(), "C04_CHILD=1")
	alive := c04KeepAlive(c)
	out, err := cmd.CombinedOutput()
	alive()
	if err != nil {
		return fmt.Sprintf("FAILED to run %s: %v: %s", bin, err, out)
	}
	// merge: re-emit the child's histories through this Ctx
	counts := map[string]int{}
	if b, err := os.ReadFile(filepath.Join(dir, "counts.txt")); err == nil {
		for _, l := range strings.Split(string(b), "\n") {
			if f := strings.Fields(l); len(f) == 2 {
				counts[f[0]] = atoi(f[1])
			}
		}
	}
	n := 0
	for _, lines := range readCaseFile(filepath.Join(dir, "cases.txt")) {
		id, p, sched := c04ParseCase(lines)
		if p == nil {
			continue
		}
		h := &c04Hist{Sched: sched, LockAware: p.LockAware}
		for _, f := range strings.Fields(lines[0])[3:] {
			if strings.HasPrefix(f, "deadlock=") {
				h.Deadlock = f[9:]
			}
		}
		for _, l := range lines[1:] {
			t := strings.SplitN(l, " ", 6)
			switch t[0] {
			case "s":
				h.SetupRes = append(h.SetupRes, t[1])
			case "c":
				h.Calls = append(h.Calls, c04Call{G: atoi(t[1]), Inv: int64(atoi(t[2])), Resp: int64(atoi(t[3])), Res: t[4], Item: t[5]})
			case "f":
				h.Final = t[1]
			}
		}
		// call indexes within each goroutine, as the oracles expect
		cnt := map[int]int{}
		for i := range h.Calls {
			h.Calls[i].I = cnt[h.Calls[i].G]
			cnt[h.Calls[i].G]++
		}
		hd := strings.Fields(lines[0])
		if p.Focus == "replay" { // no focus= token in the header
			p.Focus = "sched"
		}
		cnt1 := counts[id]
		if cnt1 < 1 {
			cnt1 = 1
		}
		s.emit(id, p, h, hd[3], cnt1)
		n++
	}
	// child statistics (schedules explored per program etc.)
	var st struct {
		Distribution map[string]int `json:"distribution"`
		Extra        map[string]any `json:"extra"`
	}
	if b, err := os.ReadFile(filepath.Join(dir, "stats.json")); err == nil && json.Unmarshal(b, &st) == nil {
		for k, v := range st.Distribution {
			if strings.HasPrefix(k, "sched.") {
				c.Add(k, v)
			}
		}
		for k, v := range st.Extra {
			c.Extra["child."+k] = v
		}
	}
	_ = bufio.NewReader
	return fmt.Sprintf("%s; build %.1fs, run %.1fs, %d distinct scheduled histories", note, build.Seconds(), time.Since(t0).Seconds()-build.Seconds(), n)
}
