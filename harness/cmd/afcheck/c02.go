package main

// C02 — in-memory file contents vs a flat byte array.
//   fcase <id> <content hex> <handles: w|r|wc|rc,...>   one mem.FileData, k handles made with
//         mem.NewFileHandle / mem.NewReadOnlyFileHandle (c = closed before the first op)
//   case <id> mem                                        the same through MemMapFs.Create/Open/OpenFile
import (
	"strconv"
	"fmt"
	"strings"

	"github.com/spf13/afero"
	"github.com/spf13/afero/mem"
)

func init() { props["C02"] = runC02 }

func projImpl(opname string, n int, canon string) string {
	cls := func(c string) string {
		switch c {
		case "Closed":
			return "1"
		case "ReadOnlyHandle":
			return "2"
		case "Invalid", "OutOfRange":
			return "3"
		}
		return "0"
	}
	parts := strings.Split(canon, ":")
	switch parts[0] {
	case "noslot", "ok":
		return canon
	case "panic":
		return "err:99"
	case "err":
		return "err:" + cls(parts[1])
	case "data":
		switch parts[2] {
		case "-":
			return "bytes:" + parts[1] + ":-"
		case "EOF", "UnexpectedEOF":
			if n > 0 {
				return "bytes:" + parts[1] + ":eof"
			}
			return "bytes:" + parts[1] + ":-"
		}
		return "err:" + cls(parts[2])
	case "count", "pos":
		if parts[2] == "-" {
			return parts[0] + ":" + parts[1]
		}
		return "err:" + cls(parts[2])
	case "info":
		f := strings.Split(parts[1], "|")
		return "size:" + f[2]
	}
	return "err:99"
}

func execFcase(c *Ctx, id, content, hspec string, items []string) {
	fd := mem.CreateFile("f")
	w := mem.NewFileHandle(fd)
	w.Write(unhx(content))
	var hs []afero.File
	for _, h := range strings.Split(hspec, ",") {
		var f *mem.File
		if strings.HasPrefix(h, "r") {
			f = mem.NewReadOnlyFileHandle(fd)
		} else {
			f = mem.NewFileHandle(fd)
		}
		if strings.HasSuffix(h, "c") {
			f.Close()
		}
		hs = append(hs, f)
	}
	c.Case("fcase %s %s %s", id, content, hspec)
	for i, it := range items {
		c.Case("%s", it)
		t := strings.Fields(it)
		name, a := t[2], t[3:]
		hi := atoi(a[0])
		var out string
		if hi >= len(hs) {
			out = "noslot"
		} else {
			func() {
				defer func() {
					if r := recover(); r != nil {
						out = "panic"
					}
				}()
				out = execHandle(hs[hi], name, a[1:])
			}()
		}
		if strings.HasPrefix(out, "info:") {
			f := strings.Split(out[5:], "|")
			out = fmt.Sprintf("info:-|f|%s|0|0", f[2])
		}
		n := 0
		if name == "HRead" || name == "HReadAt" {
			n = atoi(a[1])
		}
		c.Impl("%s#%d %s", id, i, out)
		c.Impl("%s#%d/p %s", id, i, projImpl(name, n, out))
		c.Count("op." + name)
		c.Count("res." + strings.SplitN(out, ":", 2)[0])
		if out == "panic" {
			c.Oracle("FAIL %s panic:%s a call panicked: %s", id, name, it)
		}
	}
	c.Case("end")
	c.NCases++
}

var c02Payloads = [][]byte{{}, {0}, {1}, {'a'}, {'a', 'b'}, {0, 'a', 1}, {'x', 'y', 'z', 'w'}, {1, 1, 1, 1, 1, 1}}

// offsets and sizes around the block sizes an implementation may use internally
var c02Thresholds = []int{4095, 4096, 4097, 8192, 8193, 12288, 32768}

// c02Big: the case being generated may use the thresholds (one case in twelve: contents of
// tens of kilobytes make the model's digest slow)
var c02Big bool

func genHandleOp(r *Rng, h int, size int) string {
	off := func() int {
		if c02Big && r.Chance(1, 12) {
			return Pick(r, c02Thresholds) + Pick(r, []int{0, 0, size, size - 4, -1, 1})
		}
		return r.Range(-3, size+6)
	}
	switch r.Intn(14) {
	case 0, 1:
		return fmt.Sprintf(". - HRead %d %d", h, r.Range(0, 7))
	case 2, 3:
		return fmt.Sprintf(". - HReadAt %d %d %d", h, r.Range(0, 7), off())
	case 4, 5:
		return fmt.Sprintf(". - HWrite %d %s", h, hx(Pick(r, c02Payloads)))
	case 6, 7:
		return fmt.Sprintf(". - HWriteAt %d %s %d", h, hx(Pick(r, c02Payloads)), off())
	case 8:
		return fmt.Sprintf(". - HWriteString %d %s", h, hx(Pick(r, c02Payloads)))
	case 9, 10:
		wh := r.Intn(3)
		o := off()
		if wh == 2 {
			o = r.Range(-size-3, 6)
		} else if wh == 1 {
			o = r.Range(-6, 6)
		}
		return fmt.Sprintf(". - HSeek %d %d %d", h, o, wh)
	case 11:
		if r.Chance(1, 20) {
			return fmt.Sprintf(". - HTruncate %d %d", h, off())
		}
		return fmt.Sprintf(". - HTruncate %d %d", h, r.Range(-2, size+6))
	case 12:
		if r.Chance(1, 4) {
			return fmt.Sprintf(". - HClose %d", h)
		}
		return fmt.Sprintf(". - HStat %d", h)
	}
	return fmt.Sprintf(". - HStat %d", h)
}

func runC02(c *Ctx) {
	if c.From != nil {
		for _, cs := range c.From {
			t := strings.Fields(cs[0])
			switch t[0] {
			case "fcase":
				execFcase(c, t[1], t[2], t[3], cs[1:len(cs)-1])
			case "case":
				RunCase(c, t[1], t[2], cs[1:len(cs)-1])
			}
		}
		return
	}
	r := c.Rng
	nRandom, nFs := 2500, 800
	exLen := 2
	if c.Tier == "thorough" {
		nRandom, nFs, exLen = 60000, 20000, 3
	}
	// (1) exhaustive: all sequences of length <= exLen over a fixed template set, on "ab" with one rw handle
	templates := []string{
		". - HRead 0 0", ". - HRead 0 1", ". - HRead 0 3", ". - HReadAt 0 2 1", ". - HReadAt 0 2 5", ". - HReadAt 0 1 -1",
		". - HWrite 0 58", ". - HWrite 0 -", ". - HWriteAt 0 5859 4", ". - HWriteAt 0 58 0", ". - HSeek 0 -1 0", ". - HSeek 0 5 0",
		". - HSeek 0 -1 2", ". - HSeek 0 1 1", ". - HTruncate 0 1", ". - HTruncate 0 4", ". - HStat 0",
	}
	k := 0
	var rec func(prefix []string, depth int)
	rec = func(prefix []string, depth int) {
		if len(prefix) > 0 {
			items := append(append([]string{}, prefix...), ". - HRead 0 0", ". - HSeek 0 0 0", ". - HRead 0 9")
			execFcase(c, fmt.Sprintf("e%d", k), "6162", "w", items)
			k++
		}
		if depth == 0 {
			return
		}
		for _, t := range templates {
			rec(append(prefix, t), depth-1)
		}
	}
	rec(nil, exLen)
	c.Extra["exhaustive"] = fmt.Sprintf("all sequences of length<=%d over %d op templates on content 'ab': %d cases", exLen, len(templates), k)
	// (1b) a first write of 64 KiB and more (a whole-buffer write is where an implementation is
	// tempted to keep the caller's slice), then small writes and reads around its ends
	for bi, n := range []int{65535, 65536, 70000, 131072} {
		pay := make([]byte, n)
		for q := range pay {
			pay[q] = byte('A' + q%23)
		}
		for vi, first := range []string{". - HWrite 0 " + hx(pay), ". - HWriteAt 0 " + hx(pay) + " 0"} {
			items := []string{first, ". - HStat 0", ". - HReadAt 1 16 0", fmt.Sprintf(". - HReadAt 1 16 %d", n-8), ". - HWriteAt 0 7a7a 3", ". - HReadAt 1 8 0",
				". - HSeek 1 -4 2", ". - HRead 1 16", ". - HTruncate 0 10", ". - HReadAt 1 16 0", ". - HStat 1"}
			execFcase(c, fmt.Sprintf("b%d_%d", bi, vi), "-", "w,r", items)
		}
	}
	runC02Huge(c)
	// (2) random: 1-4 handles (rw / ro / closed), <= 40 ops
	for i := 0; i < nRandom; i++ {
		c02Big = i%12 == 0
		nh := r.Range(1, 4)
		var hs []string
		for j := 0; j < nh; j++ {
			hs = append(hs, Pick(r, []string{"w", "w", "w", "r", "wc", "rc"}))
		}
		size := r.Range(0, 8)
		content := make([]byte, size)
		for q := range content {
			content[q] = Pick(r, []byte{0, 1, 'a', 'b'})
		}
		nops := r.Range(1, 40)
		items := make([]string, 0, nops+2)
		for j := 0; j < nops; j++ {
			items = append(items, genHandleOp(r, r.Intn(nh), size+4))
		}
		items = append(items, ". - HStat 0", ". - HReadAt 0 64 0")
		execFcase(c, fmt.Sprintf("f%d", i), hx(content), strings.Join(hs, ","), items)
		if i < 3 {
			c.Sample(fmt.Sprintf("fcase content=%s handles=%s ops=%s", hx(content), strings.Join(hs, ","), strings.Join(items, " ; ")))
		}
	}
	// (3) the same through files obtained from MemMapFs.Create/Open/OpenFile
	flagsets := []int{0, 1, 2, 0x40, 0x42, 0x242, 0x201, 0x402, 0x401, 0x1000, 0x101000, 0x80, 0xc2}
	for i := 0; i < nFs; i++ {
		c02Big = i%12 == 0
		var items []string
		items = append(items, ". 0 Create 2f66")
		size := r.Range(0, 6)
		if size > 0 {
			content := make([]byte, size)
			for q := range content {
				content[q] = Pick(r, []byte{0, 'a', 'b'})
			}
			items = append(items, ". - HWrite 0 "+hx(content))
		}
		nh := r.Range(1, 3)
		for j := 1; j <= nh; j++ {
			// every spelling names the same file: all handles share its bytes
			sp := hx([]byte(Pick(r, []string{"/f", "/f", "/f", "//f", "/./f", "/f/", "/x/../f"})))
			switch r.Intn(3) {
			case 0:
				items = append(items, fmt.Sprintf(". %d Open %s", j, sp))
			default:
				items = append(items, fmt.Sprintf(". %d OpenFile %s %d 420", j, sp, Pick(r, flagsets)))
			}
		}
		nops := r.Range(1, 25)
		for j := 0; j < nops; j++ {
			op := genHandleOp(r, r.Intn(nh+1), size+4)
			if t := strings.Split(op, " "); len(t) == 5 && t[2] == "HTruncate" {
				// a truncation is framed by the size before and the bytes after: what a growing
				// truncation adds is zeros, whatever the file held earlier (judged below)
				items = append(items, ". - HStat "+t[3], op, ". - HReadAt "+t[3]+" 64 0")
				continue
			}
			items = append(items, op)
		}
		items = append(items, ". - Stat 2f66", "snap .")
		// final sweep: every handle that is still usable shows the same bytes and the same size
		first := len(items)
		for j := 0; j <= nh; j++ {
			items = append(items, fmt.Sprintf(". - HStat %d", j), fmt.Sprintf(". - HReadAt %d 70000 0", j))
		}
		id := fmt.Sprintf("m%d", i)
		outs := RunCase(c, id, "mem", items)
		if len(outs) == len(items) {
			for k := 1; k+1 < first; k++ {
				t := strings.Split(items[k], " ")
				if len(t) != 5 || t[2] != "HTruncate" || outs[k] != "ok" || !strings.HasPrefix(outs[k-1], "info:") || !strings.HasPrefix(outs[k+1], "data:") {
					continue
				}
				before, _ := strconv.Atoi(strings.Split(outs[k-1][5:], "|")[2])
				to, _ := strconv.Atoi(t[4])
				d := strings.Split(outs[k+1], ":")[1]
				if d == "-" {
					d = ""
				}
				c.Count("oracle.truncate-framed")
				for q := before; q < to && 2*q+2 <= len(d); q++ {
					if d[2*q:2*q+2] != "00" {
						c.Oracle("FAIL %s truncate:grown-part-not-zero step %d (%s): the file had %d bytes, after the truncation it reads %s: byte %d is not zero", id, k, items[k], before, d, q)
						break
					}
				}
			}
			size, data := "", ""
			for k := first; k < len(outs); k++ {
				o := outs[k]
				switch {
				case strings.HasPrefix(o, "info:"):
					f := strings.Split(o[5:], "|")
					if size == "" {
						size = f[2]
					} else if f[2] != size {
						c.Oracle("FAIL %s shared:handles-disagree:size step %d (%s): size %s, an earlier handle of the same file said %s", id, k, items[k], f[2], size)
					}
				case strings.HasPrefix(o, "data:") && (strings.HasSuffix(o, ":EOF") || strings.HasSuffix(o, ":-")):
					d := strings.Split(o, ":")[1]
					if data == "" {
						data = "=" + d
					} else if "="+d != data {
						c.Oracle("FAIL %s shared:handles-disagree:bytes step %d (%s): %s, an earlier handle of the same file read %s", id, k, items[k], o, data[1:])
					}
				}
			}
		}
	}
}

// positional reads at offsets where off+len overflows int64 (oracle only: the byte-array
// specification indexes with unary naturals).  No allocation is involved in a read, so the call
// must answer "nothing, an error" without panicking, and must not move the handle.
func runC02Huge(c *Ctx) {
	n := 0
	for _, content := range []string{"", "abcdef"} {
		for _, off := range []int64{1<<63 - 1, 1<<63 - 4, 1<<63 - 8, 1 << 62, 1 << 40} {
			for _, blen := range []int{1, 8, 100} {
				n++
				fd := mem.CreateFile("f")
				w := mem.NewFileHandle(fd)
				w.Write([]byte(content))
				h := mem.NewFileHandle(fd)
				h.Seek(2, 0)
				func() {
					defer func() {
						if r := recover(); r != nil {
							c.Oracle("FAIL huge%d panic:HReadAt ReadAt(%d bytes, %d) on a %d-byte file panicked: %v", n, blen, off, len(content), r)
						}
					}()
					buf := make([]byte, blen)
					k, err := h.ReadAt(buf, off)
					if k != 0 || err == nil {
						c.Oracle("FAIL huge%d bytefile:HReadAt:huge-offset ReadAt(%d bytes, %d) on a %d-byte file = %d, %v; want 0 and an error", n, blen, off, len(content), k, err)
					}
					if pos, _ := h.Seek(0, 1); pos != 2 {
						c.Oracle("FAIL huge%d bytefile:HReadAt:moved-offset after ReadAt(%d bytes, %d) the handle is at %d, was at 2", n, blen, off, pos)
					}
				}()
				c.Count("huge.readat")
			}
		}
	}
	c.Extra["huge_offsets"] = fmt.Sprintf("%d positional reads at offsets up to 2^63-1 (oracle only)", n)
}
