package main

// C17 — FileContainsBytes / FileContainsAnyBytes over readers that split the bytes in every way
// io.Reader permits.  The `contains` case line gets an optional fifth token, the CHUNKING:
//   contains <id> <content hex> <needle,needle,...> <chunking>
//   <chunking> = "-" (no entries) | <c>[e],<c>[e],...
// Entry k describes the k-th call of Read(p) on the file that FileContainsAnyBytes opens:
//   c = 0: the call returns (0, nil);  c > 0: it delivers min(c, len p, bytes left) bytes;
//   (0, io.EOF) when nothing was left; when the input ends with the bytes of this call io.EOF comes
//   together with them if the entry carries "e", on the following call otherwise.
// Calls beyond the list fill their buffer.  This is Model/SearchChunked.v reader_read; the model
// runner prints, besides the answer, the number of Read calls and the bytes left unread
// (`<id>#t reads=<n> left=<m>`), and so does this file from the wrapper's counters.
import (
	"fmt"
	"io"
	"os"
	"strconv"
	"strings"

	"github.com/spf13/afero"
)

type rcall struct {
	c int
	e bool
}

func parseChunking(s string) []rcall {
	if s == "-" || s == "" {
		return []rcall{}
	}
	var out []rcall
	for _, t := range strings.Split(s, ",") {
		e := strings.HasSuffix(t, "e")
		n, err := strconv.Atoi(strings.TrimSuffix(t, "e"))
		if err != nil || n < 0 {
			panic("bad chunking " + s)
		}
		out = append(out, rcall{n, e})
	}
	return out
}

func chunkingStr(calls []rcall) string {
	if len(calls) == 0 {
		return "-"
	}
	parts := make([]string, len(calls))
	for i, rc := range calls {
		parts[i] = strconv.Itoa(rc.c)
		if rc.e {
			parts[i] += "e"
		}
	}
	return strings.Join(parts, ",")
}

// chunkFs: files opened for reading deliver their bytes as the oracle says
type chunkStats struct {
	reads int
	left  int64
	opens int
}

type chunkFs struct {
	afero.Fs
	calls []rcall
	st    *chunkStats
}

type chunkFile struct {
	afero.File
	calls []rcall
	k     int
	left  int64
	st    *chunkStats
}

func (s chunkFs) wrap(f afero.File, err error) (afero.File, error) {
	if err != nil {
		return nil, err
	}
	fi, err := f.Stat()
	if err != nil {
		panic(err)
	}
	s.st.opens++
	s.st.left = fi.Size()
	return &chunkFile{File: f, calls: s.calls, left: fi.Size(), st: s.st}, nil
}

func (s chunkFs) Open(name string) (afero.File, error) { return s.wrap(s.Fs.Open(name)) }

func (s chunkFs) OpenFile(name string, flag int, perm os.FileMode) (afero.File, error) {
	return s.wrap(s.Fs.OpenFile(name, flag, perm))
}

func (f *chunkFile) Read(p []byte) (int, error) {
	f.st.reads++
	c, e := len(p), false
	if f.k < len(f.calls) {
		c, e = f.calls[f.k].c, f.calls[f.k].e
		f.k++
	}
	if c == 0 {
		return 0, nil
	}
	q := p
	if len(q) > c {
		q = q[:c]
	}
	n, err := f.File.Read(q)
	if err != nil && err != io.EOF {
		panic(err)
	}
	f.left -= int64(n)
	f.st.left = f.left
	if f.left == 0 && (n == 0 || e) {
		return n, io.EOF
	}
	return n, nil
}

// one random oracle for a search with half window h (= 2 * longest needle) over `size` bytes
func genChunking(r *Rng, h, size int) []rcall {
	pool := []int{1, 1, 2, h - 1, h, h + 1, 2 * h, 2*h + 1, 3}
	one := func(v int) rcall {
		if v < 0 {
			v = 0
		}
		return rcall{v, r.Chance(1, 3)}
	}
	var out []rcall
	mode := r.Range(0, 9)
	n := r.Range(0, size+3)
	switch mode {
	case 0: // one byte per call, all the way
		for i := 0; i < size+2; i++ {
			out = append(out, one(1))
		}
	case 1, 2, 3, 4: // always halflen-1 / halflen / halflen+1 / the whole buffer
		v := []int{h - 1, h, h + 1, 2 * h}[mode-1]
		if v < 1 {
			v = 1
		}
		for i := 0; i < size+2; i++ {
			out = append(out, one(v))
		}
	case 5: // a few entries, then full buffers
		for i, m := 0, r.Range(0, 3); i < m; i++ {
			out = append(out, one(Pick(r, pool)))
		}
	case 6: // reads that return (0, nil) in between
		for i := 0; i < n; i++ {
			if r.Chance(1, 3) {
				out = append(out, rcall{0, r.Chance(1, 2)})
			} else {
				out = append(out, one(Pick(r, pool)))
			}
		}
	default: // mixtures
		for i := 0; i < n; i++ {
			if r.Chance(1, 10) {
				out = append(out, one(0))
			} else if r.Chance(1, 4) {
				out = append(out, one(r.Range(1, 2*h+1)))
			} else {
				out = append(out, one(Pick(r, pool)))
			}
		}
	}
	return out
}

func allChunkings(entries []rcall, maxLen int) [][]rcall {
	out := [][]rcall{{}}
	prev := [][]rcall{{}}
	for l := 1; l <= maxLen; l++ {
		var cur [][]rcall
		for _, p := range prev {
			for _, e := range entries {
				cur = append(cur, append(append([]rcall{}, p...), e))
			}
		}
		out = append(out, cur...)
		prev = cur
	}
	return out
}

func genC17Chunked(c *Ctx, fs afero.Fs) {
	r := c.Rng
	// (5a) small-scope exhaustive over oracles: needles of 2 bytes (halflen 4, buffer 8), every oracle of up to
	// 3 (quick) / 4 (thorough) entries over c in {0,1,2,3,4,5} x {EOF with the data, EOF afterwards}
	var entries []rcall
	for _, v := range []int{0, 1, 2, 3, 4, 5} {
		entries = append(entries, rcall{v, false}, rcall{v, true})
	}
	maxLen := 3
	if c.Tier == "thorough" {
		maxLen = 4
	}
	oracles := allChunkings(entries, maxLen)
	small := []struct{ content, needle string }{
		{"aaaxyaaaa", "xy"},    // across the end of the first half window
		{"aaaaaaaxya", "xy"},   // across the end of the second
		{"abcdefghiX", "Xg"},   // absent; present only in a window that keeps stale bytes (D6)
		{"aaaaaaaaaaax", "xy"}, // absent; the content ends inside a window
		{"xaaaaaay", "yx"},     // absent; a wrap-around of the buffer would find it
	}
	k := 0
	for _, sc := range small {
		for _, o := range oracles {
			containsCaseChunked(c, fs, fmt.Sprintf("e%d", k), []byte(sc.content), [][]byte{[]byte(sc.needle)}, o)
			k++
		}
	}
	c.Extra["exhaustive_chunkings"] = fmt.Sprintf("%d contents x every oracle of <=%d entries over c in 0..5 x {e,-}: %d cases", len(small), maxLen, k)
	// (5b) random contents, needles planted around the window boundaries, random oracles
	nRandom := 2000
	if c.Tier == "thorough" {
		nRandom = 40000
	}
	for i := 0; i < nRandom; i++ {
		L := r.Range(1, 6)
		nNeedles := r.Range(1, 3)
		nd := make([][]byte, 0, nNeedles)
		for j := 0; j < nNeedles; j++ {
			l := L
			if j > 0 {
				l = r.Range(0, L)
			}
			n := make([]byte, l)
			for q := range n {
				n[q] = Pick(r, []byte{0, 'x', 'y', 'z'})
			}
			nd = append(nd, n)
		}
		r.shuffle(nd)
		size := r.Range(0, 14*L)
		content := make([]byte, size)
		for q := range content {
			content[q] = Pick(r, []byte{0, 'a', 'b', 'x'})
		}
		h := 2 * L
		if r.Chance(2, 3) && size >= L {
			pos := r.Range(0, size/h+1)*h + r.Range(-L-1, 2)
			if pos < 0 {
				pos = 0
			}
			big := nd[0]
			for _, n := range nd {
				if len(n) > len(big) {
					big = n
				}
			}
			if pos+len(big) > size {
				pos = size - len(big)
			}
			if pos >= 0 {
				copy(content[pos:], big)
			}
		}
		containsCaseChunked(c, fs, fmt.Sprintf("c%d", i), content, nd, genChunking(r, h, size))
	}
	// (5c) long files read in pieces: 1 byte, 511/512/4096 bytes, halflen+-1
	nLong := 24
	if c.Tier == "thorough" {
		nLong = 400
	}
	for i := 0; i < nLong; i++ {
		L := Pick(r, []int{2, 5, 17, 300})
		size := Pick(r, []int{1000, 4095, 4097, 8200}) + r.Range(0, 3)
		content := make([]byte, size)
		for q := range content {
			content[q] = Pick(r, []byte{'a', 'b', 0, 'x'})
		}
		needle := make([]byte, L)
		for q := range needle {
			needle[q] = Pick(r, []byte{'x', 'y', 'z', 0})
		}
		needle[0] = 'y'
		h := 2 * L
		if r.Chance(3, 4) {
			pos := r.Range(0, size/h)*h + r.Range(-L-1, 1)
			if pos < 0 {
				pos = 0
			}
			if pos+L > size {
				pos = size - L
			}
			copy(content[pos:], needle)
		}
		v := Pick(r, []int{1, 7, 511, 512, 4096, h - 1, h + 1, h})
		cnt := size/v + 2
		if cnt > 3000 {
			cnt = 3000 // then full buffers
		}
		calls := make([]rcall, cnt)
		for q := range calls {
			calls[q] = rcall{v, r.Chance(1, 2)}
		}
		containsCaseChunked(c, fs, fmt.Sprintf("lc%d", i), content, [][]byte{needle}, calls)
	}
}
