package main

// C17 — content helpers.  Case kinds written to cases.txt:
//   contains <id> <content hex> <needle,needle,...>      (FileContainsAnyBytes / FileContainsBytes)
import (
	"bytes"
	"fmt"
	"strings"

	"github.com/spf13/afero"
)

func init() { props["C17"] = runC17 }

func needlesHex(nd [][]byte) string {
	parts := make([]string, len(nd))
	for i, n := range nd {
		parts[i] = hx(n)
	}
	return strings.Join(parts, ",")
}

func containsCase(c *Ctx, fs afero.Fs, id string, content []byte, nd [][]byte) {
	single := len(nd) == 1
	name := "/d/f.bin"
	if err := afero.WriteFile(fs, name, content, 0o644); err != nil {
		panic(err)
	}
	var got bool
	var err error
	if single && len(nd) == 1 {
		got, err = afero.FileContainsBytes(fs, name, nd[0])
	} else {
		got, err = afero.FileContainsAnyBytes(fs, name, nd)
	}
	if err != nil {
		panic(err)
	}
	want := false
	for _, n := range nd {
		if len(n) > 0 && bytes.Contains(content, n) {
			want = true
		}
	}
	c.NCases++
	c.Case("contains %s %s %s", id, hx(content), needlesHex(nd))
	c.Impl("%s %v", id, got)
	c.Count(fmt.Sprintf("contains.len_content<=%d", bucket(len(content))))
	c.Count(fmt.Sprintf("contains.result=%v", got))
	if got != want {
		c.Oracle("FAIL %s contains:%s content=%s needles=%s got=%v want=%v", id, sigContains(content, nd, got), hx(content), needlesHex(nd), got, want)
	}
	c.Sample(fmt.Sprintf("contains content=%s needles=%s -> %v", hx(content), needlesHex(nd), got))
}

func sigContains(content []byte, nd [][]byte, got bool) string {
	if got {
		return "false-positive"
	}
	return "false-negative"
}

func bucket(n int) int {
	b := 1
	for b < n {
		b *= 4
	}
	return b
}

func allStrings(alpha []byte, maxLen int) [][]byte {
	out := [][]byte{{}}
	prev := [][]byte{{}}
	for l := 1; l <= maxLen; l++ {
		var cur [][]byte
		for _, p := range prev {
			for _, a := range alpha {
				s := append(append([]byte{}, p...), a)
				cur = append(cur, s)
			}
		}
		out = append(out, cur...)
		prev = cur
	}
	return out
}

func runC17(c *Ctx) {
	fs := afero.NewMemMapFs()
	if c.From != nil {
		for _, cs := range c.From {
			t := strings.Fields(cs[0])
			switch t[0] {
			case "contains":
				var nd [][]byte
				for _, n := range strings.Split(t[3], ",") {
					nd = append(nd, unhx(n))
				}
				containsCase(c, fs, t[1], unhx(t[2]), nd)
			case "wfile", "wreader", "swreader":
				runIOLine(c, t) // c17b.go
			}
		}
		return
	}
	alpha := []byte{0, 'a', 'b'}
	maxC, maxN := 6, 2
	nRandom := 1500
	if c.Tier == "thorough" {
		maxC, maxN = 8, 3
		nRandom = 40000
	}
	// (1) small-scope exhaustive: every content of length <= maxC over {0,a,b} x every needle of length 1..maxN
	contents := allStrings(alpha, maxC)
	needles := allStrings(alpha, maxN)[1:]
	k := 0
	for _, ct := range contents {
		for _, n := range needles {
			containsCase(c, fs, fmt.Sprintf("x%d", k), ct, [][]byte{n})
			k++
		}
	}
	c.Extra["exhaustive_small_scope"] = fmt.Sprintf("contents<=%d x needles 1..%d over {00,61,62}: %d cases", maxC, maxN, k)
	// (2) random long contents with a needle planted around every window boundary (window = 2*L, 4*L ...)
	r := c.Rng
	for i := 0; i < nRandom; i++ {
		L := r.Range(1, 6)
		nNeedles := r.Range(1, 3)
		nd := make([][]byte, 0, nNeedles)
		for j := 0; j < nNeedles; j++ {
			l := L
			if j > 0 {
				l = r.Range(0, L) // includes empty needles
			}
			n := make([]byte, l)
			for q := range n {
				n[q] = Pick(r, []byte{0, 'x', 'y', 'z'})
			}
			nd = append(nd, n)
		}
		r.shuffle(nd)
		size := r.Range(0, 14*L)
		content := make([]byte, size)
		for q := range content {
			content[q] = Pick(r, []byte{0, 'a', 'b', 'x'})
		}
		if r.Chance(2, 3) && size >= L {
			// plant needle 0 at a boundary of the half window +-2
			h := 2 * L
			kk := r.Range(0, size/h+1)
			pos := kk*h + r.Range(-L-1, 2)
			if pos < 0 {
				pos = 0
			}
			big := nd[0]
			for _, n := range nd {
				if len(n) > len(big) {
					big = n
				}
			}
			if pos+len(big) > size {
				pos = size - len(big)
			}
			if pos >= 0 {
				copy(content[pos:], big)
			}
		}
		containsCase(c, fs, fmt.Sprintf("r%d", i), content, nd)
	}
	genC17b(c)
	runC17OS(c) // WriteFile / WriteReader / SafeWriteReader + ReadFile (c17b.go)
}

func (r *Rng) shuffle(xs [][]byte) {
	for i := len(xs) - 1; i > 0; i-- {
		j := r.Intn(i + 1)
		xs[i], xs[j] = xs[j], xs[i]
	}
}
