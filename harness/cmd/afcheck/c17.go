package main

// C17 — content helpers.  Case kinds written to cases.txt:
//   contains <id> <content hex> <needle,needle,...> [<chunking>]     (FileContainsAnyBytes / FileContainsBytes;
//     <chunking>: how the opened file's Read splits the bytes, see c17c.go)
import (
	"os"
	"bytes"
	"fmt"
	"strings"

	"github.com/spf13/afero"
)

func init() { props["C17"] = runC17 }

func needlesHex(nd [][]byte) string {
	parts := make([]string, len(nd))
	for i, n := range nd {
		parts[i] = hx(n)
	}
	return strings.Join(parts, ",")
}

func containsCase(c *Ctx, fs afero.Fs, id string, content []byte, nd [][]byte) {
	containsCaseOpt(c, fs, id, content, nd, nil)
}

func containsCaseChunked(c *Ctx, fs afero.Fs, id string, content []byte, nd [][]byte, calls []rcall) {
	if calls == nil {
		calls = []rcall{}
	}
	containsCaseOpt(c, fs, id, content, nd, calls)
}

// calls == nil: the file as the filesystem hands it out; otherwise its Read follows the oracle
func containsCaseOpt(c *Ctx, fs afero.Fs, id string, content []byte, nd [][]byte, calls []rcall) {
	single := len(nd) == 1
	name := "/d/f.bin"
	if err := afero.WriteFile(fs, name, content, 0o644); err != nil {
		panic(err)
	}
	var st *chunkStats
	if calls != nil {
		st = &chunkStats{}
		fs = chunkFs{fs, calls, st}
	}
	var got bool
	var err error
	viaMethod := fnvStr(id)%2 == 1 // the Afero methods and the package-level functions, half and half
	a := afero.Afero{Fs: fs}
	switch {
	case single && viaMethod:
		got, err = a.FileContainsBytes(name, nd[0])
	case single:
		got, err = afero.FileContainsBytes(fs, name, nd[0])
	case viaMethod:
		got, err = a.FileContainsAnyBytes(name, nd)
	default:
		got, err = afero.FileContainsAnyBytes(fs, name, nd)
	}
	if err != nil {
		panic(err)
	}
	want := false
	for _, n := range nd {
		if len(n) > 0 && bytes.Contains(content, n) {
			want = true
		}
	}
	c.NCases++
	if calls != nil {
		if st.opens != 1 {
			panic(fmt.Sprintf("contains %s: the file was opened %d times", id, st.opens))
		}
		c.Case("contains %s %s %s %s", id, hx(content), needlesHex(nd), chunkingStr(calls))
		c.Impl("%s %v", id, got)
		c.Impl("%s#t reads=%d left=%d", id, st.reads, st.left)
		c.Count("contains.chunked")
		c.Count(fmt.Sprintf("contains.chunked.reads<=%d", bucket(st.reads)))
	} else {
		c.Case("contains %s %s %s", id, hx(content), needlesHex(nd))
		c.Impl("%s %v", id, got)
	}
	c.Count(fmt.Sprintf("contains.len_content<=%d", bucket(len(content))))
	c.Count(fmt.Sprintf("contains.result=%v", got))
	if got != want {
		how := ""
		if calls != nil {
			how = " chunking=" + chunkingStr(calls)
		}
		c.Oracle("FAIL %s contains:%s content=%s needles=%s%s got=%v want=%v", id, sigContains(content, nd, got), hx(content), needlesHex(nd), how, got, want)
	}
	c.Sample(fmt.Sprintf("contains content=%s needles=%s -> %v", hx(content), needlesHex(nd), got))
}

func sigContains(content []byte, nd [][]byte, got bool) string {
	if got {
		return "false-positive"
	}
	return "false-negative"
}

func bucket(n int) int {
	b := 1
	for b < n {
		b *= 4
	}
	return b
}

func allStrings(alpha []byte, maxLen int) [][]byte {
	out := [][]byte{{}}
	prev := [][]byte{{}}
	for l := 1; l <= maxLen; l++ {
		var cur [][]byte
		for _, p := range prev {
			for _, a := range alpha {
				s := append(append([]byte{}, p...), a)
				cur = append(cur, s)
			}
		}
		out = append(out, cur...)
		prev = cur
	}
	return out
}

func runC17(c *Ctx) {
	fs := afero.NewMemMapFs()
	if c.From != nil {
		for _, cs := range c.From {
			t := strings.Fields(cs[0])
			switch t[0] {
			case "contains":
				var nd [][]byte
				for _, n := range strings.Split(t[3], ",") {
					nd = append(nd, unhx(n))
				}
				if len(t) > 4 {
					containsCaseChunked(c, fs, t[1], unhx(t[2]), nd, parseChunking(t[4]))
				} else {
					containsCase(c, fs, t[1], unhx(t[2]), nd)
				}
			case "wfile", "wreader", "swreader":
				runIOLine(c, t) // c17b.go
			}
		}
		return
	}
	alpha := []byte{0, 'a', 'b'}
	maxC, maxN := 6, 2
	nRandom := 1500
	if c.Tier == "thorough" {
		maxC, maxN = 8, 3
		nRandom = 40000
	}
	// (1) small-scope exhaustive: every content of length <= maxC over {0,a,b} x every needle of length 1..maxN
	contents := allStrings(alpha, maxC)
	needles := allStrings(alpha, maxN)[1:]
	k := 0
	for _, ct := range contents {
		for _, n := range needles {
			containsCase(c, fs, fmt.Sprintf("x%d", k), ct, [][]byte{n})
			k++
		}
	}
	c.Extra["exhaustive_small_scope"] = fmt.Sprintf("contents<=%d x needles 1..%d over {00,61,62}: %d cases", maxC, maxN, k)
	// (2) random long contents with a needle planted around every window boundary (window = 2*L, 4*L ...)
	r := c.Rng
	for i := 0; i < nRandom; i++ {
		L := r.Range(1, 6)
		nNeedles := r.Range(1, 3)
		nd := make([][]byte, 0, nNeedles)
		for j := 0; j < nNeedles; j++ {
			l := L
			if j > 0 {
				l = r.Range(0, L) // includes empty needles
			}
			n := make([]byte, l)
			for q := range n {
				n[q] = Pick(r, []byte{0, 'x', 'y', 'z'})
			}
			nd = append(nd, n)
		}
		r.shuffle(nd)
		size := r.Range(0, 14*L)
		content := make([]byte, size)
		for q := range content {
			content[q] = Pick(r, []byte{0, 'a', 'b', 'x'})
		}
		if r.Chance(2, 3) && size >= L {
			// plant needle 0 at a boundary of the half window +-2
			h := 2 * L
			kk := r.Range(0, size/h+1)
			pos := kk*h + r.Range(-L-1, 2)
			if pos < 0 {
				pos = 0
			}
			big := nd[0]
			for _, n := range nd {
				if len(n) > len(big) {
					big = n
				}
			}
			if pos+len(big) > size {
				pos = size - len(big)
			}
			if pos >= 0 {
				copy(content[pos:], big)
			}
		}
		containsCase(c, fs, fmt.Sprintf("r%d", i), content, nd)
	}
	// (3) long files: the reader works in blocks; needles planted across multiples of 4096 and of the
	// search window, and nowhere (a false positive needs stale bytes of an earlier window)
	nLong := 60
	if c.Tier == "thorough" {
		nLong = 1500
	}
	for i := 0; i < nLong; i++ {
		L := Pick(r, []int{1, 2, 2, 3, 5, 17, 600, 1024, 1500})
		size := Pick(r, []int{4095, 4096, 4097, 8191, 8192, 8200, 12288, 12300, 20000}) + r.Range(0, 3)
		content := make([]byte, size)
		for q := range content {
			content[q] = Pick(r, []byte{'a', 'b', 0, 'x'})
		}
		needle := make([]byte, L)
		for q := range needle {
			needle[q] = Pick(r, []byte{'x', 'y', 'z', 0})
		}
		needle[0] = 'y' // not in the content: found only where planted (or by mistake)
		if r.Chance(3, 4) && size > L+8 {
			pos := Pick(r, []int{4096, 8192, 12288, 2 * L, 4 * L, 4096 - 4096%max(2*L, 1)}) + r.Range(-L-1, 1)
			if pos < 0 {
				pos = 0
			}
			if pos+L > size {
				pos = size - L
			}
			copy(content[pos:], needle)
		}
		containsCase(c, fs, fmt.Sprintf("l%d", i), content, [][]byte{needle})
	}
	// (3b) needles of 64 KiB and more (the window is sized after the longest needle)
	for bi, L := range []int{65536, 100000} {
		for oi, pos := range []int{0, 1000, 70000, 131071} {
			content := make([]byte, 260000)
			for q := range content {
				content[q] = byte('a' + q%3)
			}
			needle := make([]byte, L)
			for q := range needle {
				needle[q] = byte('p' + (q*7)%5)
			}
			if oi != 1 { // offset 1000: the needle is absent
				copy(content[pos:], needle)
			}
			containsCase(c, fs, fmt.Sprintf("n%d_%d", bi, oi), content, [][]byte{needle})
		}
	}
	// (4) readers that deliver fewer bytes than asked (network files do): at most k bytes per Read
	for i := 0; i < nLong*3; i++ {
		kmax := r.Range(1, 9)
		L := r.Range(1, 6)
		size := r.Range(0, 14*L)
		content := make([]byte, size)
		for q := range content {
			content[q] = Pick(r, []byte{0, 'a', 'b', 'x'})
		}
		needle := make([]byte, L)
		for q := range needle {
			needle[q] = Pick(r, []byte{0, 'a', 'x'})
		}
		if r.Chance(1, 2) && size >= L {
			copy(content[r.Range(0, size-L):], needle)
		}
		containsCase(c, shortReadFs{fs, kmax}, fmt.Sprintf("k%d", i), content, [][]byte{needle})
	}
	genC17Chunked(c, fs) // (5) arbitrary io.Reader behaviour (c17c.go)
	runC17Huge(c)
	genC17b(c)
	runC17OS(c) // WriteFile / WriteReader / SafeWriteReader + ReadFile (c17b.go)
	runC17SizedReaders(c, afero.NewMemMapFs())
	runC17SizedReaders(c, afero.NewCopyOnWriteFs(afero.NewMemMapFs(), afero.NewMemMapFs()))
}

func (r *Rng) shuffle(xs [][]byte) {
	for i := len(xs) - 1; i > 0; i-- {
		j := r.Intn(i + 1)
		xs[i], xs[j] = xs[j], xs[i]
	}
}

// shortReadFs: files whose Read returns at most k bytes per call
type shortReadFs struct {
	afero.Fs
	k int
}

type shortReadFile struct {
	afero.File
	k int
}

func (s shortReadFs) Open(name string) (afero.File, error) {
	f, err := s.Fs.Open(name)
	if err != nil {
		return nil, err
	}
	return shortReadFile{f, s.k}, nil
}

func (s shortReadFs) OpenFile(name string, flag int, perm os.FileMode) (afero.File, error) {
	f, err := s.Fs.OpenFile(name, flag, perm)
	if err != nil {
		return nil, err
	}
	return shortReadFile{f, s.k}, nil
}

func (f shortReadFile) Read(p []byte) (int, error) {
	if len(p) > f.k {
		p = p[:f.k]
	}
	return f.File.Read(p)
}

// needles of half a megabyte and more (oracle only: the extracted model's byte lists are not made
// for megabytes): bytes.Contains is the reference
func runC17Huge(c *Ctx) {
	fs := afero.NewMemMapFs()
	n := 0
	content := make([]byte, 2<<20)
	for i := range content {
		content[i] = byte('a' + i%5)
	}
	for _, L := range []int{600000, 1<<20 + 7} {
		needle := make([]byte, L)
		for i := range needle {
			needle[i] = byte('p' + (i*3)%7)
		}
		for _, pos := range []int{-1, 0, 500000, len(content) - L} {
			n++
			data := append([]byte{}, content...)
			if pos >= 0 {
				copy(data[pos:], needle)
			}
			afero.WriteFile(fs, "/huge.bin", data, 0o644)
			got, err := afero.FileContainsBytes(fs, "/huge.bin", needle)
			want := bytes.Contains(data, needle)
			c.Count("huge-needle")
			if err != nil || got != want {
				sig := "false-negative"
				if got {
					sig = "false-positive"
				}
				c.Oracle("FAIL huge%d contains:%s:huge-needle a %d-byte needle at offset %d of a %d-byte file: FileContainsBytes = %v, %v; bytes.Contains = %v", n, sig, L, pos, len(data), got, err, want)
			}
		}
	}
	c.Extra["huge_needles"] = fmt.Sprintf("%d searches for needles of 600000 and 1048583 bytes in a 2 MiB file (oracle only)", n)
}
