package main

// C16 (Glob half) / C15 translator: looks at the CURRENT text of /repo/match.go and tells the Coq models
// (Model/Glob.v afero_glob, Model/IOFS.v io_glob_f) which of the two path/filepath behaviours are there.
//   glob_hasmeta_backslash    = 1 iff hasMeta's character set, as computed for a non-Windows GOOS,
//                                     is `*?[\` (path/filepath: magicChars = `*?[\` unless windows);
//                                 0 iff it is `*?[` (the tree as pinned)
//   glob_checks_pattern_first = 1 iff the FIRST statement of Glob is
//                                     `if _, err := <pkg>.Match(pattern, ""); err != nil { return nil, err }`
//                                     (as path/filepath.Glob and io/fs.Glob do);
//                                 0 iff Glob never calls Match(_, "")
// Any other shape is "pattern not recognised" (the tie is broken, not guessed).
// The correspondence run checks the answers: a wrong guess shows as model-vs-implementation mismatches.

import (
	"fmt"
	"go/ast"
	"go/token"
	"strconv"
)

func init() { extraConsts = append(extraConsts, globConsts) }

// `runtime.GOOS <op> "windows"` (either order): returns op
func goosWindowsCond(e ast.Expr) (token.Token, bool) {
	be, ok := e.(*ast.BinaryExpr)
	if !ok || (be.Op != token.NEQ && be.Op != token.EQL) {
		return 0, false
	}
	isGoos := func(x ast.Expr) bool {
		se, ok := x.(*ast.SelectorExpr)
		if !ok || se.Sel.Name != "GOOS" {
			return false
		}
		id, ok := se.X.(*ast.Ident)
		return ok && id.Name == "runtime"
	}
	isWin := func(x ast.Expr) bool {
		bl, ok := x.(*ast.BasicLit)
		return ok && bl.Kind == token.STRING && bl.Value == `"windows"`
	}
	if (isGoos(be.X) && isWin(be.Y)) || (isGoos(be.Y) && isWin(be.X)) {
		return be.Op, true
	}
	return 0, false
}

func strLit(e ast.Expr) (string, bool) {
	bl, ok := e.(*ast.BasicLit)
	if !ok || bl.Kind != token.STRING {
		return "", false
	}
	s, err := strconv.Unquote(bl.Value)
	return s, err == nil
}

// value of the string variable `name` at the end of the statement list, for a non-Windows GOOS:
// `name := "lit"`, `name = "lit"`, `var name = "lit"`, `if runtime.GOOS != "windows" { ... } [else { ... }]`
func strVarNonWindows(list []ast.Stmt, name string, cur string, known bool) (string, bool, error) {
	for _, st := range list {
		switch x := st.(type) {
		case *ast.AssignStmt:
			for i, l := range x.Lhs {
				if id, ok := l.(*ast.Ident); ok && id.Name == name {
					if len(x.Lhs) != len(x.Rhs) {
						return "", false, fmt.Errorf("assignment to %s not recognised", name)
					}
					s, ok := strLit(x.Rhs[i])
					if !ok {
						return "", false, fmt.Errorf("%s is assigned something that is not a string literal", name)
					}
					cur, known = s, true
				}
			}
		case *ast.DeclStmt:
			gd, ok := x.Decl.(*ast.GenDecl)
			if !ok {
				continue
			}
			for _, sp := range gd.Specs {
				vs, ok := sp.(*ast.ValueSpec)
				if !ok {
					continue
				}
				for i, id := range vs.Names {
					if id.Name != name {
						continue
					}
					if i >= len(vs.Values) { // `var name string`: the zero value
						cur, known = "", true
						continue
					}
					s, ok := strLit(vs.Values[i])
					if !ok {
						return "", false, fmt.Errorf("%s is declared with something that is not a string literal", name)
					}
					cur, known = s, true
				}
			}
		case *ast.IfStmt:
			op, ok := goosWindowsCond(x.Cond)
			if !ok || x.Init != nil {
				if mentionsIdent(x, name) {
					return "", false, fmt.Errorf("%s is set under a condition that is not a comparison of runtime.GOOS with \"windows\"", name)
				}
				continue
			}
			var err error
			if op == token.NEQ { // non-Windows takes the body
				cur, known, err = strVarNonWindows(x.Body.List, name, cur, known)
			} else if x.Else != nil { // non-Windows takes the else branch
				switch e := x.Else.(type) {
				case *ast.BlockStmt:
					cur, known, err = strVarNonWindows(e.List, name, cur, known)
				default:
					if mentionsIdent(e, name) {
						err = fmt.Errorf("else-if chain around %s not recognised", name)
					}
				}
			}
			if err != nil {
				return "", false, err
			}
		case *ast.ReturnStmt, *ast.ExprStmt:
			// no assignment possible
		default:
			if mentionsIdentAssigned(st, name) {
				return "", false, fmt.Errorf("%s is assigned inside a %T", name, st)
			}
		}
	}
	return cur, known, nil
}

func mentionsIdent(n ast.Node, name string) bool {
	found := false
	ast.Inspect(n, func(m ast.Node) bool {
		if id, ok := m.(*ast.Ident); ok && id.Name == name {
			found = true
		}
		return true
	})
	return found
}

func mentionsIdentAssigned(n ast.Node, name string) bool {
	found := false
	ast.Inspect(n, func(m ast.Node) bool {
		if as, ok := m.(*ast.AssignStmt); ok {
			for _, l := range as.Lhs {
				if id, ok := l.(*ast.Ident); ok && id.Name == name {
					found = true
				}
			}
		}
		return true
	})
	return found
}

// call `<anything>.Match(<ident param>, "")`
func isMatchEmptyCall(e ast.Expr, param string) bool {
	ce, ok := e.(*ast.CallExpr)
	if !ok || len(ce.Args) != 2 {
		return false
	}
	se, ok := ce.Fun.(*ast.SelectorExpr)
	if !ok || se.Sel.Name != "Match" {
		return false
	}
	id, ok := ce.Args[0].(*ast.Ident)
	if !ok || id.Name != param {
		return false
	}
	s, ok := strLit(ce.Args[1])
	return ok && s == ""
}

func globConsts(repo string, add func(string, int64, string)) error {
	p, err := parseSrc(repo, "match.go")
	if err != nil {
		return err
	}
	// ---- hasMeta
	hm := p.fn("", "hasMeta")
	if hm == nil || hm.Body == nil || hm.Type.Params == nil || len(hm.Type.Params.List) != 1 || len(hm.Type.Params.List[0].Names) != 1 {
		return fmt.Errorf("match.go: func hasMeta(path string) not found")
	}
	arg := hm.Type.Params.List[0].Names[0].Name
	var call *ast.CallExpr
	ncalls := 0
	ast.Inspect(hm.Body, func(n ast.Node) bool {
		if ce, ok := n.(*ast.CallExpr); ok {
			if se, ok := ce.Fun.(*ast.SelectorExpr); ok && se.Sel.Name == "ContainsAny" && len(ce.Args) == 2 {
				call = ce
				ncalls++
			}
		}
		return true
	})
	if ncalls != 1 {
		return fmt.Errorf("match.go: hasMeta: expected exactly one strings.ContainsAny call, found %d", ncalls)
	}
	if id, ok := call.Args[0].(*ast.Ident); !ok || id.Name != arg {
		return fmt.Errorf("match.go: hasMeta: ContainsAny is not applied to the parameter")
	}
	last, ok := hm.Body.List[len(hm.Body.List)-1].(*ast.ReturnStmt)
	if !ok || len(last.Results) != 1 || last.Results[0] != ast.Expr(call) {
		return fmt.Errorf("match.go: hasMeta: the last statement is not `return strings.ContainsAny(...)`")
	}
	var set string
	switch a := call.Args[1].(type) {
	case *ast.BasicLit:
		s, ok := strLit(a)
		if !ok {
			return fmt.Errorf("match.go: hasMeta: character set is not a string literal")
		}
		set = s
	case *ast.Ident:
		s, known, err := strVarNonWindows(hm.Body.List, a.Name, "", false)
		if err != nil {
			return fmt.Errorf("match.go: hasMeta: %v", err)
		}
		if !known {
			return fmt.Errorf("match.go: hasMeta: no value found for %s", a.Name)
		}
		set = s
	default:
		return fmt.Errorf("match.go: hasMeta: character set expression %T not recognised", call.Args[1])
	}
	var bs int64
	switch set {
	case "*?[":
		bs = 0
	case "*?[\\":
		bs = 1
	default:
		return fmt.Errorf("match.go: hasMeta: character set %q is neither `*?[` nor `*?[\\` (the model knows these two)", set)
	}
	add("glob_hasmeta_backslash", bs, "match.go hasMeta: 1 iff the backslash is a meta character on a non-Windows GOOS (magic characters `*?[\\` as in path/filepath; 0: `*?[`)")

	// ---- Glob
	gf := p.fn("", "Glob")
	if gf == nil || gf.Body == nil || len(gf.Body.List) == 0 {
		return fmt.Errorf("match.go: func Glob not found")
	}
	if p.fn("", "glob") == nil {
		return fmt.Errorf("match.go: func glob not found")
	}
	if gf.Type.Params == nil || len(gf.Type.Params.List) != 2 || len(gf.Type.Params.List[1].Names) != 1 {
		return fmt.Errorf("match.go: Glob(fs Fs, pattern string) signature not recognised")
	}
	pat := gf.Type.Params.List[1].Names[0].Name
	nmatch := 0
	ast.Inspect(gf.Body, func(n ast.Node) bool {
		if e, ok := n.(ast.Expr); ok && isMatchEmptyCall(e, pat) {
			nmatch++
		}
		return true
	})
	first := false
	if is, ok := gf.Body.List[0].(*ast.IfStmt); ok && is.Else == nil {
		if as, ok := is.Init.(*ast.AssignStmt); ok && len(as.Lhs) == 2 && len(as.Rhs) == 1 && isMatchEmptyCall(as.Rhs[0], pat) {
			errName := ""
			if id, ok := as.Lhs[1].(*ast.Ident); ok {
				errName = id.Name
			}
			cond, ok := is.Cond.(*ast.BinaryExpr)
			condOK := ok && cond.Op == token.NEQ
			if condOK {
				x, ok1 := cond.X.(*ast.Ident)
				y, ok2 := cond.Y.(*ast.Ident)
				condOK = ok1 && ok2 && x.Name == errName && y.Name == "nil" && errName != "_" && errName != ""
			}
			retOK := false
			if len(is.Body.List) == 1 {
				if rs, ok := is.Body.List[0].(*ast.ReturnStmt); ok && len(rs.Results) == 2 {
					a, ok1 := rs.Results[0].(*ast.Ident)
					b, ok2 := rs.Results[1].(*ast.Ident)
					retOK = ok1 && ok2 && a.Name == "nil" && b.Name == errName
				}
			}
			first = condOK && retOK
		}
	}
	var chk int64
	switch {
	case first && nmatch == 1:
		chk = 1
	case !first && nmatch == 0:
		chk = 0
	default:
		return fmt.Errorf("match.go: Glob: %d call(s) of Match(%s, \"\") but the first statement is not exactly `if _, err := Match(%s, \"\"); err != nil { return nil, err }` — not recognised", nmatch, pat, pat)
	}
	add("glob_checks_pattern_first", chk, "match.go Glob: 1 iff it starts with the pattern check of path/filepath.Glob (Match(pattern, \"\") error -> nil, ErrBadPattern before anything is looked up)")
	return nil
}
