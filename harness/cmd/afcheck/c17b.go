package main

// C17, second part — WriteFile / WriteReader / SafeWriteReader followed by ReadFile.
// Case kinds (single lines):
//   wfile    <id> <stack> <setup> <path hex> <payload> <perm>
//   wreader  <id> <stack> <setup> <path hex> <payload> <chunking>
//   swreader <id> <stack> <setup> <path hex> <payload> <chunking>
// setup    ::= "-" | item{,item}    item ::= d=<path hex>            MkdirAll(path, 0755)
//                                          | f=<path hex>=<payload>  WriteFile(path, payload, 0644)
// payload  ::= hex:<hex> | rep:<byte>:<n> | seq:<seed>:<n>      (seq: byte i = (seed + 31*i + i/256) mod 256)
// chunking ::= c:<k>   chunks of k bytes (k = 0: one chunk holding everything)
//            | l:<n1>.<n2>...  chunks of these lengths (zero = a Read returning (0, nil)), the rest last
// Results:  <id>#w  ok | err:<class> | panic         the write call
//           <id>#r  data:<digest>:<err> | err:<class> afero.ReadFile afterwards
//           <id>#s<layer> snapshot of every MemMapFs layer (data as digest)
// digest of bytes: hex when <= 32 bytes, else n<len>:<fnv1a-32 hex>.
import (
	"bytes"
	"fmt"
	"io"
	"os"
	"sort"
	"strconv"
	"strings"

	"github.com/spf13/afero"
)

func payloadOf(spec string) []byte {
	t := strings.Split(spec, ":")
	switch t[0] {
	case "hex":
		return unhx(t[1])
	case "rep":
		return bytes.Repeat([]byte{byte(atoi(t[1]))}, atoi(t[2]))
	case "seq":
		seed, n := atoi(t[1]), atoi(t[2])
		b := make([]byte, n)
		for i := range b {
			b[i] = byte((seed + 31*i + i/256) % 256)
		}
		return b
	}
	panic("bad payload spec " + spec)
}

func fnv1a(b []byte) uint32 {
	h := uint32(2166136261)
	for _, c := range b {
		h ^= uint32(c)
		h *= 16777619
	}
	return h
}

func digest(b []byte) string {
	if len(b) <= 32 {
		return hx(b)
	}
	return fmt.Sprintf("n%d:%08x", len(b), fnv1a(b))
}

// an io.Reader (and nothing else: no WriterTo) that hands out the given chunks, one per Read
type chunkReader struct {
	chunks [][]byte
}

func (r *chunkReader) Read(p []byte) (int, error) {
	if len(r.chunks) == 0 {
		return 0, io.EOF
	}
	c := r.chunks[0]
	n := copy(p, c)
	if n < len(c) {
		r.chunks[0] = c[n:]
	} else {
		r.chunks = r.chunks[1:]
	}
	return n, nil
}

func chunksOf(data []byte, spec string) [][]byte {
	var out [][]byte
	switch {
	case strings.HasPrefix(spec, "c:"):
		k := atoi(spec[2:])
		if k <= 0 {
			return [][]byte{data}
		}
		for len(data) > k {
			out = append(out, data[:k])
			data = data[k:]
		}
		return append(out, data)
	case strings.HasPrefix(spec, "l:"):
		for _, s := range strings.Split(spec[2:], ".") {
			k := atoi(s)
			if k > len(data) {
				k = len(data)
			}
			out = append(out, data[:k])
			data = data[k:]
		}
		return append(out, data)
	}
	panic("bad chunking " + spec)
}

// the MemMapFs layers of a stack, with the target strings the model uses
func memLayers(l *Layer, tgt string, out *[][2]any) {
	if l.Kind == "mem" {
		t := tgt
		if t == "" {
			t = "."
		}
		*out = append(*out, [2]any{t, l.Fs})
		return
	}
	for i, k := range l.Kids {
		memLayers(k, tgt+strconv.Itoa(i), out)
	}
}

func snapDigest(es []afero.VerifEntry) string {
	sort.Slice(es, func(i, j int) bool { return es[i].Path < es[j].Path })
	parts := make([]string, len(es))
	for i, e := range es {
		d := "f"
		if e.Dir {
			d = "d"
		}
		parts[i] = fmt.Sprintf("%s|%s|%s|%d", hx([]byte(e.Path)), d, digest(e.Data), uint32(e.Mode))
	}
	return "snap:" + strings.Join(parts, ";")
}

func errRes(err error) string {
	if err != nil {
		return "err:" + errClass(err)
	}
	return "ok"
}

func runSetup(fs afero.Fs, setup string) {
	if setup == "-" {
		return
	}
	for _, it := range strings.Split(setup, ",") {
		f := strings.Split(it, "=")
		switch f[0] {
		case "d":
			fs.MkdirAll(string(unhx(f[1])), 0o755) // errors are part of the scenario (the model ignores them too)
		case "f":
			afero.WriteFile(fs, string(unhx(f[1])), payloadOf(f[2]), 0o644)
		default:
			panic("bad setup item " + it)
		}
	}
}

func deepAll(top *Layer) string {
	var ls [][2]any
	memLayers(top, "", &ls)
	var b strings.Builder
	for _, l := range ls {
		b.WriteString(l[0].(string) + "=" + deepSnap(l[1].(afero.Fs)) + "\n")
	}
	return b.String()
}

func ioCase(c *Ctx, kind, id, stack, setup, pathHex, payload, last string) {
	top := parseStack(stack)
	fs := top.Fs
	runSetup(fs, setup)
	path := string(unhx(pathHex))
	data := payloadOf(payload)
	c.Case("%s %s %s %s %s %s %s", kind, id, stack, setup, pathHex, payload, last)
	c.NCases++
	existed := false
	if _, err := fs.Stat(path); err == nil {
		existed = true
	}
	before := ""
	if kind == "swreader" && existed {
		before = deepAll(top)
	}
	var werr error
	wres := func() (out string) {
		defer func() {
			if r := recover(); r != nil {
				out = "panic"
			}
		}()
		// every helper exists twice: package level, and as a method of afero.Afero; half of the cases
		// (by the digest of the id) go through the method
		viaMethod := fnvStr(id)%2 == 1
		a := afero.Afero{Fs: fs}
		if viaMethod {
			c.Count(kind + ".via-method")
		}
		switch {
		case kind == "wfile" && viaMethod:
			werr = a.WriteFile(path, data, os.FileMode(atoi(last)))
		case kind == "wfile":
			werr = afero.WriteFile(fs, path, data, os.FileMode(atoi(last)))
		case kind == "wreader" && viaMethod:
			werr = a.WriteReader(path, &chunkReader{chunksOf(data, last)})
		case kind == "wreader":
			werr = afero.WriteReader(fs, path, &chunkReader{chunksOf(data, last)})
		case kind == "swreader" && viaMethod:
			werr = a.SafeWriteReader(path, &chunkReader{chunksOf(data, last)})
		case kind == "swreader":
			werr = afero.SafeWriteReader(fs, path, &chunkReader{chunksOf(data, last)})
		}
		return errRes(werr)
	}()
	c.Impl("%s#w %s", id, wres)
	c.Count(kind + ".write=" + wres)
	c.Count(fmt.Sprintf("%s.size<=%d", kind, bucket(len(data))))
	c.Count(kind + ".stack=" + stack)
	if kind == "swreader" && existed {
		c.Count("swreader.preexisting")
		if wres == "ok" {
			c.Oracle("FAIL %s swreader:overwrote SafeWriteReader(%q) returned nil although the path existed", id, path)
		}
		if after := deepAll(top); after != before {
			c.Oracle("FAIL %s swreader:altered-existing SafeWriteReader(%q) on an existing path changed the filesystem: before=%s after=%s", id, path, before, after)
		}
	}
	var got []byte
	var rerr error
	rres := func() (out string) {
		defer func() {
			if r := recover(); r != nil {
				out = "panic"
			}
		}()
		if fnvStr(id)%4 >= 2 {
			got, rerr = afero.Afero{Fs: fs}.ReadFile(path)
		} else {
			got, rerr = afero.ReadFile(fs, path)
		}
		if rerr != nil && got == nil {
			return "err:" + errClass(rerr)
		}
		return fmt.Sprintf("data:%s:%s", digest(got), errClass(rerr))
	}()
	c.Impl("%s#r %s", id, rres)
	if wres == "ok" {
		// the property: a successful write followed by ReadFile returns exactly the bytes given
		if rres == "panic" || rerr != nil || !bytes.Equal(got, data) {
			c.Oracle("FAIL %s %s:readback after a successful %s of %d bytes to %q ReadFile returned %d bytes (%s), err=%v", id, kind, kind, len(data), path, len(got), digest(got), rerr)
		}
		if kind != "wfile" {
			dir, base := splitPath(path)
			if dir != "" && base != "" && base != "." && base != ".." {
				if fi, err := fs.Stat(dir); err != nil || !fi.IsDir() {
					c.Oracle("FAIL %s %s:parent-missing after %s(%q) the directory %q is not a directory (err=%v)", id, kind, kind, path, dir, err)
				}
			}
		}
	}
	var ls [][2]any
	memLayers(top, "", &ls)
	for _, l := range ls {
		c.Impl("%s#s%s %s", id, l[0].(string), snapDigest(afero.VerifDump(l[1].(afero.Fs))))
	}
	if len(c.Samples) < 5 && len(data) > 0 {
		c.Sample(fmt.Sprintf("%s stack=%s setup=%s path=%q payload=%s %s -> %s, readback %s", kind, stack, setup, path, payload, last, wres, digest(got)))
	}
}

func splitPath(p string) (string, string) {
	i := strings.LastIndex(p, "/")
	return p[:i+1], p[i+1:]
}

func runIOLine(c *Ctx, t []string) {
	if len(t) != 7 {
		panic("bad " + t[0] + " line")
	}
	ioCase(c, t[0], t[1], t[2], t[3], t[4], t[5], t[6])
}

var ioStacks = []string{"mem", "bp:" + hx([]byte("/d")) + "(mem)", "cow(mem,mem)", "cache:0(mem,mem)"}
var c17bSizes = []int{0, 1, 511, 512, 513, 4096, 40000, 70000}

func hp(s string) string { return hx([]byte(s)) }

func genC17b(c *Ctx) {
	r := c.Rng
	n := 0
	id := func(p string) string { n++; return fmt.Sprintf("%s%d", p, n) }
	payload := func(size int) string {
		switch {
		case size <= 8 && r.Bool():
			b := make([]byte, size)
			for i := range b {
				b[i] = byte(r.Intn(256))
			}
			return "hex:" + hx(b)
		case r.Bool():
			return fmt.Sprintf("rep:%d:%d", r.Intn(256), size)
		}
		return fmt.Sprintf("seq:%d:%d", r.Intn(256), size)
	}
	chunking := func(size int) string {
		switch r.Intn(4) {
		case 0:
			return "c:0"
		case 1:
			return fmt.Sprintf("c:%d", Pick(r, []int{1, 7, 512, 4096, 32768, 32769, 50000}))
		case 2:
			return fmt.Sprintf("l:%d.0.%d", r.Intn(size+1), r.Intn(size+1))
		}
		return fmt.Sprintf("c:%d", 1+r.Intn(size+1))
	}
	// tiny chunks of a big payload cost one Write each: keep those cases few
	cheap := func(size int, ch string) string {
		if size > 4096 && (ch == "c:1" || ch == "c:7") {
			return "c:4096"
		}
		return ch
	}
	// (1) the grid: every stack x every size x the three calls, parent present / missing
	for _, st := range ioStacks {
		for _, size := range c17bSizes {
			for _, missing := range []bool{false, true} {
				setup, path := "d="+hp("/a"), "/a/f.bin"
				if missing {
					setup, path = "-", "/m/n/f.bin"
				}
				ioCase(c, "wfile", id("g"), st, setup, hp(path), payload(size), Pick(r, []string{"420", "384", "511"}))
				ioCase(c, "wreader", id("g"), st, setup, hp(path), payload(size), cheap(size, chunking(size)))
				ioCase(c, "swreader", id("g"), st, setup, hp(path), payload(size), cheap(size, chunking(size)))
			}
			// pre-existing file: WriteFile / WriteReader replace it, SafeWriteReader must refuse
			old := payload(Pick(r, []int{0, 3, 600, 70001}))
			setup := "f=" + hp("/a/f.bin") + "=" + old
			ioCase(c, "wfile", id("p"), st, setup, hp("/a/f.bin"), payload(size), "420")
			ioCase(c, "wreader", id("p"), st, setup, hp("/a/f.bin"), payload(size), cheap(size, chunking(size)))
			ioCase(c, "swreader", id("p"), st, setup, hp("/a/f.bin"), payload(size), cheap(size, chunking(size)))
		}
	}
	// (2) path spellings, relative names, the path is a directory, the parent is a file
	odd := []struct{ setup, path string }{
		{"-", "f"}, {"-", "/f"}, {"-", "a//b/../c.txt"}, {"-", "/a/b/"}, {"d=" + hp("/x"), "/x"},
		{"f=" + hp("/x") + "=hex:01", "/x/y"}, {"d=" + hp("/x/y"), "/x/y/../z"}, {"-", "./q"}, {"-", "/"},
		{"f=" + hp("/k/old") + "=rep:7:9", "/k/new"}, {"-", ""},
	}
	for _, st := range ioStacks {
		for _, o := range odd {
			size := Pick(r, []int{0, 1, 5, 700})
			ioCase(c, "wfile", id("o"), st, o.setup, hp(o.path), payload(size), "420")
			ioCase(c, "wreader", id("o"), st, o.setup, hp(o.path), payload(size), chunking(size))
			ioCase(c, "swreader", id("o"), st, o.setup, hp(o.path), payload(size), chunking(size))
		}
	}
	// (3) random
	nr := 150
	if c.Tier == "thorough" {
		nr = 4000
	}
	names := []string{"/a/f.bin", "/a/b/c/g", "h", "/t/u", "/a/z"}
	for i := 0; i < nr; i++ {
		st := Pick(r, ioStacks)
		size := Pick(r, []int{0, 1, 2, 100, 511, 512, 513, 1000, 5000})
		if r.Chance(1, 12) {
			size = Pick(r, []int{32768, 40000, 65536, 70000})
		}
		var items []string
		for j := r.Intn(3); j > 0; j-- {
			if r.Bool() {
				items = append(items, "d="+hp(Pick(r, []string{"/a", "/a/b", "/t"})))
			} else {
				items = append(items, "f="+hp(Pick(r, names))+"="+payload(Pick(r, []int{0, 4, 900})))
			}
		}
		setup := "-"
		if len(items) > 0 {
			setup = strings.Join(items, ",")
		}
		kind := Pick(r, []string{"wfile", "wreader", "swreader"})
		last := "420"
		if kind != "wfile" {
			last = cheap(size, chunking(size))
		}
		ioCase(c, kind, id("r"), st, setup, hp(Pick(r, names)), payload(size), last)
	}
	c.Extra["c17b_grid"] = fmt.Sprintf("stacks %v x sizes %v x {wfile,wreader,swreader} x {parent present, parent missing, path pre-existing}", ioStacks, c17bSizes)
}

func fnvStr(s string) uint32 {
	h := uint32(2166136261)
	for i := 0; i < len(s); i++ {
		h ^= uint32(s[i])
		h *= 16777619
	}
	return h
}
