package main

// C14 — zipfs and tarfs expose archive contents faithfully and immutably.
//
//   arc <id> <zip|tar> <entries> <program>
//     entries  "-" or ";"-joined  <name hex>:<kind>:<content>
//              kind   f = file (zip: Store)   z = file (zip: Deflate)   d = directory
//              content  - | <hex> | rep~<byte hex>~<n> | seq~<seed>~<n>
//     program  ";"-joined ops, arguments joined by ","; the op names are those of Lib/Ops.v.
//              Open and Stat carry one extra trailing argument: which entry the generator expects
//              the name to resolve to — an index into <entries>, "r" (the root), "x" (nothing),
//              "?" (no expectation: implicit directories, duplicate names).
//              Successful Opens number the handles 0,1,2,...
//
// The archive is written into memory with archive/zip or archive/tar, opened with
// zipfs.New(zip.NewReader(..)) / tarfs.New(tar.NewReader(..)) and the program is run on it.
// The oracle knows only the entry list.

import (
	"testing/iotest"
	"archive/tar"
	"archive/zip"
	"bytes"
	"fmt"
	"io"
	"os"
	"path"
	"sort"
	"strconv"
	"strings"

	"github.com/spf13/afero"
	"github.com/spf13/afero/tarfs"
	"github.com/spf13/afero/zipfs"
)

func init() { props["C14"] = runC14 }

type aEntry struct {
	Name string
	Kind byte // 'f', 'z', 'd'
	Spec string
	data []byte
}

func contentOf(spec string) []byte {
	if spec == "-" || spec == "" {
		return []byte{}
	}
	if strings.HasPrefix(spec, "rep~") {
		t := strings.Split(spec, "~")
		b := unhx(t[1])[0]
		return bytes.Repeat([]byte{b}, atoi(t[2]))
	}
	if strings.HasPrefix(spec, "seq~") {
		t := strings.Split(spec, "~")
		seed, n := atoi(t[1]), atoi(t[2])
		out := make([]byte, n)
		for i := range out {
			out[i] = byte((seed + i*7 + i/256) % 256)
		}
		return out
	}
	return unhx(spec)
}

func parseEntries(s string) []aEntry {
	if s == "-" {
		return nil
	}
	var out []aEntry
	for _, p := range strings.Split(s, ";") {
		t := strings.Split(p, ":")
		out = append(out, aEntry{Name: string(unhx(t[0])), Kind: t[1][0], Spec: t[2], data: contentOf(t[2])})
	}
	return out
}

func encodeEntries(es []aEntry) string {
	if len(es) == 0 {
		return "-"
	}
	parts := make([]string, len(es))
	for i, e := range es {
		parts[i] = fmt.Sprintf("%s:%c:%s", hx([]byte(e.Name)), e.Kind, e.Spec)
	}
	return strings.Join(parts, ";")
}

func buildZip(es []aEntry) ([]byte, error) {
	var buf bytes.Buffer
	w := zip.NewWriter(&buf)
	for _, e := range es {
		fh := &zip.FileHeader{Name: e.Name, Method: zip.Store}
		if e.Kind == 'z' {
			fh.Method = zip.Deflate
		}
		if e.Kind == 'd' && !strings.HasSuffix(e.Name, "/") {
			fh.SetMode(os.ModeDir | 0o755)
		}
		wr, err := w.CreateHeader(fh)
		if err != nil {
			return nil, err
		}
		if e.Kind != 'd' {
			if _, err := wr.Write(e.data); err != nil {
				return nil, err
			}
		}
	}
	if err := w.Close(); err != nil {
		return nil, err
	}
	return buf.Bytes(), nil
}

func buildTar(es []aEntry) ([]byte, error) {
	var buf bytes.Buffer
	w := tar.NewWriter(&buf)
	for _, e := range es {
		h := &tar.Header{Name: e.Name, Mode: 0o644, Size: int64(len(e.data)), Typeflag: tar.TypeReg}
		if e.Kind == 'd' {
			h.Typeflag, h.Mode, h.Size = tar.TypeDir, 0o755, 0
		}
		if e.Kind == 'z' {
			// the other data-carrying entry type of the format (a "contiguous file"): a regular file to a reader
			h.Typeflag = tar.TypeCont
		}
		if err := w.WriteHeader(h); err != nil {
			return nil, err
		}
		if e.Kind != 'd' {
			if _, err := w.Write(e.data); err != nil {
				return nil, err
			}
		}
	}
	if err := w.Close(); err != nil {
		return nil, err
	}
	return buf.Bytes(), nil
}

// errArchiveNew: the archive was written and is well formed (the standard library reads it), but
// zipfs.New / tarfs.New failed on it
type errArchiveNew struct{ what string }

func (e errArchiveNew) Error() string { return e.what }

func openArchive(kind string, es []aEntry) (fs afero.Fs, err error) {
	built := false
	defer func() {
		if r := recover(); r != nil {
			fs, err = nil, fmt.Errorf("panic: %v", r)
			if built {
				err = errArchiveNew{fmt.Sprintf("%sfs.New panicked: %v", kind, r)}
			}
		}
	}()
	if kind == "zip" {
		b, err := buildZip(es)
		if err != nil {
			return nil, err
		}
		zr, err := zip.NewReader(bytes.NewReader(b), int64(len(b)))
		if err != nil {
			return nil, err
		}
		built = true
		return zipfs.New(zr), nil
	}
	b, err := buildTar(es)
	if err != nil {
		return nil, err
	}
	built = true
	// the tar stream comes from a source that delivers short reads (a pipe, a gzip stream) for half
	// of the archives, by the digest of their bytes
	var src io.Reader = bytes.NewReader(b)
	if fnv64(b)%2 == 1 {
		src = iotest.HalfReader(iotest.OneByteReader(bytes.NewReader(b)))
		if fnv64(b)%4 == 1 {
			src = iotest.HalfReader(bytes.NewReader(b))
		}
	}
	t := tarfs.New(tar.NewReader(src))
	if t == nil {
		return nil, errArchiveNew{"tarfs.New returned nil"}
	}
	return t, nil
}

// ---------------------------------------------------------------- canonical forms

func fnv64(b []byte) uint64 {
	h := uint64(0xcbf29ce484222325)
	for _, x := range b {
		h ^= uint64(x)
		h *= 0x100000001b3
	}
	return h
}

// long byte strings print as #<length>.<FNV-1a 64>
func dhx(b []byte) string {
	if len(b) <= 48 {
		return hx(b)
	}
	return fmt.Sprintf("#%d.%016x", len(b), fnv64(b))
}

func errClass14(err error) string {
	if err == afero.ErrOutOfRange {
		return "OutOfRange"
	}
	return errClass(err)
}

func fi14(fi os.FileInfo) string {
	if fi.IsDir() {
		return hx([]byte(fi.Name())) + "|d|-"
	}
	return fmt.Sprintf("%s|f|%d", hx([]byte(fi.Name())), fi.Size())
}

func cls14(c string) string {
	switch c {
	case "Closed":
		return "1"
	case "ReadOnlyHandle":
		return "2"
	case "Invalid", "OutOfRange":
		return "3"
	}
	return "0"
}

// Go-side twin of Archive.proj14 on canonical text
func projImpl14(name string, a []string, canon string) string {
	parts := strings.Split(canon, ":")
	switch parts[0] {
	case "noslot":
		return "noslot"
	case "panic":
		return "err:99"
	}
	switch name {
	case "Open":
		if parts[0] == "handle" {
			return "ok"
		}
		return "err:" + cls14(parts[1])
	case "HClose":
		return "ok"
	case "HSeek":
		if parts[2] == "-" {
			return "pos:" + parts[1]
		}
		if wh := atoi(a[2]); (wh < 0 || wh > 2) && cls14(parts[2]) != "1" {
			return "err:3"
		}
		return "err:" + cls14(parts[2])
	case "HRead", "HReadAt":
		n := atoi(a[1])
		switch parts[2] {
		case "-":
			return "bytes:" + parts[1] + ":-"
		case "EOF", "UnexpectedEOF":
			if name == "HRead" && parts[1] != "-" {
				return "bytes:" + parts[1] + ":-"
			}
			if n > 0 {
				return "bytes:" + parts[1] + ":eof"
			}
			return "bytes:" + parts[1] + ":-"
		}
		return "err:" + cls14(parts[2])
	}
	return "err:99"
}

// ---------------------------------------------------------------- reference (oracle) helpers

func refSplit(name string) (string, string) {
	d, f := path.Split(path.Clean("/" + name))
	return path.Clean(d), f
}

type refHandle struct {
	entry  int // index into the entry list, -1 root, -2 unknown
	pos    int64
	closed bool
	nth    int // how many handles were opened on this entry before this one
}

type arcRun struct {
	c       *Ctx
	id      string
	kind    string
	es      []aEntry
	fs      afero.Fs
	files   []afero.File
	refs    []refHandle
	opened  map[int]int
	mutated bool
	checked bool // oracle active (false for streams without expectations)
}

func (r *arcRun) fail(sig, format string, a ...any) {
	r.c.Oracle("FAIL %s %s:%s %s", r.id, r.kind, sig, fmt.Sprintf(format, a...))
	r.c.Count("fail." + r.kind + ":" + sig)
}

// position-dependent failures on a tar entry that has been opened more than once are one finding
func (r *arcRun) shared(ref *refHandle, sig string) string {
	if r.kind == "tar" && r.opened[ref.entry] > 1 {
		return "handles-share-offset"
	}
	return sig
}

func (r *arcRun) children(dir string) []int {
	var out []int
	for i, e := range r.es {
		d, f := refSplit(e.Name)
		if d == dir && f != "" {
			out = append(out, i)
		}
	}
	return out
}

func (r *arcRun) kindSize(i int) string {
	if r.es[i].Kind == 'd' {
		return "d"
	}
	return fmt.Sprintf("f:%d", len(r.es[i].data))
}

func expectIdx(s string) int {
	switch s {
	case "r":
		return -1
	case "?":
		return -2
	case "x":
		return -3
	}
	return atoi(s)
}

// one op; returns canonical result and the lines of extra projections (suffix -> text)
func (r *arcRun) exec(step int, name string, a []string) (out string, extra map[string]string) {
	extra = map[string]string{}
	p := func(i int) string { return string(unhx(a[i])) }
	e := func(err error) string {
		if err != nil {
			return "err:" + errClass14(err)
		}
		return "ok"
	}
	fs := r.fs
	switch name {
	case "Open", "OpenFile":
		var f afero.File
		var err error
		exp := -2
		if name == "Open" {
			f, err = fs.Open(p(0))
			exp = expectIdx(a[1])
		} else {
			f, err = fs.OpenFile(p(0), atoi(a[1]), os.FileMode(atoi(a[2])))
			if atoi(a[1]) != os.O_RDONLY {
				if err == nil {
					r.fail("mutator-succeeded", "OpenFile(%q, %d) succeeded", p(0), atoi(a[1]))
				}
				r.mutated = true
			}
		}
		if err != nil {
			out = "err:" + errClass14(err)
			if r.checked && exp >= -1 {
				r.fail("open-missing", "Open(%q) of entry %d failed: %v", p(0), exp, err)
			}
		} else {
			out = fmt.Sprintf("handle:%d", len(r.files))
			r.files = append(r.files, f)
			r.refs = append(r.refs, refHandle{entry: exp, nth: r.opened[exp]})
			r.opened[exp]++
			if r.checked && exp == -3 {
				r.fail("open-phantom", "Open(%q) succeeded but no entry has that path", p(0))
			}
		}
		if name == "Open" && exp >= 0 && r.es[exp].Kind != 'd' {
			extra["/p"] = projImpl14(name, a, out)
		}
		return
	case "Stat":
		fi, err := fs.Stat(p(0))
		exp := expectIdx(a[1])
		if err != nil {
			out = "err:" + errClass14(err)
			if r.checked && exp >= -1 {
				r.fail("stat-missing", "Stat(%q) of entry %d failed: %v", p(0), exp, err)
			}
			if r.checked && exp == -3 && errClass14(err) != "NotExist" {
				r.fail("stat-error-class", "Stat(%q) of a missing name: %v", p(0), err)
			}
		} else {
			out = "info:" + fi14(fi)
			ks := "d"
			if !fi.IsDir() {
				ks = fmt.Sprintf("f:%d", fi.Size())
			}
			if exp >= 0 {
				extra["/s"] = ks
				if r.checked && ks != r.kindSize(exp) {
					r.fail("stat-wrong", "Stat(%q) = %s, the archive says %s", p(0), ks, r.kindSize(exp))
				}
			}
			if r.checked && exp == -1 && !fi.IsDir() {
				r.fail("stat-wrong", "Stat(%q): the root is not a directory", p(0))
			}
			if r.checked && exp == -3 {
				r.fail("stat-phantom", "Stat(%q) succeeded but no entry has that path", p(0))
			}
		}
		return
	case "Create":
		_, err := fs.Create(p(0))
		return r.mut(name, err), extra
	case "Mkdir":
		return r.mut(name, fs.Mkdir(p(0), os.FileMode(atoi(a[1])))), extra
	case "MkdirAll":
		return r.mut(name, fs.MkdirAll(p(0), os.FileMode(atoi(a[1])))), extra
	case "Remove":
		return r.mut(name, fs.Remove(p(0))), extra
	case "RemoveAll":
		return r.mut(name, fs.RemoveAll(p(0))), extra
	case "Rename":
		return r.mut(name, fs.Rename(p(0), p(1))), extra
	case "Chmod":
		return r.mut(name, fs.Chmod(p(0), os.FileMode(atoi(a[1])))), extra
	case "Chown":
		return r.mut(name, fs.Chown(p(0), atoi(a[1]), atoi(a[2]))), extra
	case "Chtimes":
		return r.mut(name, fs.Chtimes(p(0), tm(atoi(a[1])), tm(atoi(a[1])))), extra
	}
	// handle ops
	hi := atoi(a[0])
	if hi < 0 || hi >= len(r.files) {
		return "noslot", extra
	}
	f, ref := r.files[hi], &r.refs[hi]
	var content []byte
	isFile := ref.entry >= 0 && r.es[ref.entry].Kind != 'd'
	if isFile {
		content = r.es[ref.entry].data
	}
	size := int64(len(content))
	switch name {
	case "HRead":
		n := atoi(a[1])
		buf := make([]byte, n)
		k, err := f.Read(buf)
		if k < 0 || k > n {
			return fmt.Sprintf("badcount:%d", k), extra
		}
		out = fmt.Sprintf("data:%s:%s", dhx(buf[:k]), errClass14(err))
		if isFile && r.checked {
			if ref.closed {
				if err == nil || k != 0 {
					r.fail("read-after-close", "Read on a closed handle returned %d bytes, err=%v", k, err)
				}
			} else {
				lo := min64(ref.pos, size)
				up := min64(lo+int64(n), size)
				want := content[lo:up]
				switch {
				case !bytes.Equal(buf[:k], want):
					sig := "read-wrong-bytes"
					if r.kind == "tar" && r.opened[ref.entry] > 1 {
						sig = "second-open-empty"
					}
					r.fail(sig, "handle %d (open #%d of entry %d) at offset %d: Read(%d) = %s, want %s", hi, ref.nth, ref.entry, ref.pos, n, dhx(buf[:k]), dhx(want))
				case err != nil && err != io.EOF:
					r.fail(r.shared(ref, "read-error"), "Read(%d) at %d of %d: %v", n, ref.pos, size, err)
				case err == io.EOF && ref.pos+int64(k) < size:
					r.fail(r.shared(ref, "read-early-eof"), "Read(%d) at %d of %d reported EOF", n, ref.pos, size)
				case err == nil && k == 0 && n > 0:
					r.fail(r.shared(ref, "read-no-eof"), "Read(%d) at %d of %d returned 0, nil", n, ref.pos, size)
				}
				ref.pos += int64(len(want))
			}
		}
	case "HReadAt":
		n, off := atoi(a[1]), int64(atoi(a[2]))
		buf := make([]byte, n)
		k, err := f.ReadAt(buf, off)
		if k < 0 || k > n {
			return fmt.Sprintf("badcount:%d", k), extra
		}
		out = fmt.Sprintf("data:%s:%s", dhx(buf[:k]), errClass14(err))
		if isFile && r.checked {
			switch {
			case ref.closed || off < 0:
				if err == nil || k != 0 {
					r.fail("readat-no-error", "ReadAt(%d, %d) closed=%v returned %d bytes, err=%v", n, off, ref.closed, k, err)
				}
			default:
				lo := min64(off, size)
				up := min64(lo+int64(n), size)
				want := content[lo:up]
				switch {
				case !bytes.Equal(buf[:k], want):
					r.fail("readat-wrong-bytes", "ReadAt(%d, %d) of %d = %s, want %s", n, off, size, dhx(buf[:k]), dhx(want))
				case err != nil && err != io.EOF:
					r.fail("readat-error", "ReadAt(%d, %d) of %d: %v", n, off, size, err)
				case err == nil && k < n:
					r.fail("readat-no-eof", "ReadAt(%d, %d) of %d returned %d, nil", n, off, size, k)
				case err == io.EOF && k == n && n > 0:
					r.fail("readat-early-eof", "ReadAt(%d, %d) of %d filled the buffer and reported EOF", n, off, size)
				}
			}
		}
	case "HSeek":
		off, wh := int64(atoi(a[1])), atoi(a[2])
		k, err := f.Seek(off, wh)
		out = fmt.Sprintf("pos:%d:%s", k, errClass14(err))
		if isFile && r.checked {
			var target int64
			switch wh {
			case 0:
				target = off
			case 1:
				target = ref.pos + off
			case 2:
				target = size + off
			}
			switch {
			case ref.closed || wh < 0 || wh > 2 || target < 0:
				if err == nil {
					r.fail(r.shared(ref, "seek-no-error"), "Seek(%d, %d) closed=%v at %d of %d succeeded: %d", off, wh, ref.closed, ref.pos, size, k)
				}
			case err != nil && target <= size:
				r.fail(r.shared(ref, "seek-error"), "Seek(%d, %d) at %d of %d: %v", off, wh, ref.pos, size, err)
			case err == nil && k != target:
				r.fail(r.shared(ref, "seek-wrong-pos"), "Seek(%d, %d) at %d of %d = %d, want %d", off, wh, ref.pos, size, k, target)
			}
			if err == nil {
				ref.pos = k
			}
		}
	case "HClose":
		out = e(f.Close())
		ref.closed = true
	case "HReaddir", "HReaddirnames":
		count := atoi(a[1])
		var kinds, names []string
		var err error
		if name == "HReaddir" {
			var l []os.FileInfo
			l, err = f.Readdir(count)
			for _, fi := range l {
				kinds = append(kinds, fi14(fi))
				names = append(names, fi.Name())
			}
		} else {
			names, err = f.Readdirnames(count)
			for _, n := range names {
				kinds = append(kinds, hx([]byte(n)))
			}
		}
		tag := "infos"
		if name == "HReaddirnames" {
			tag = "names"
		}
		if err != nil && len(names) == 0 {
			out = "err:" + errClass14(err)
		} else if r.kind == "zip" && count > 0 {
			// Go map order: only the size of the answer is canonical; membership is checked below
			out = fmt.Sprintf("%s-sub:%d:%s", tag, len(names), errClass14(err))
		} else {
			shown := append([]string{}, kinds...)
			if r.kind == "zip" {
				sort.Strings(shown)
			}
			out = fmt.Sprintf("%s:%s:%s", tag, strings.Join(shown, ","), errClass14(err))
		}
		isDir := ref.entry == -1 || (ref.entry >= 0 && r.es[ref.entry].Kind == 'd')
		if isDir && !ref.closed {
			dir := "/"
			what := "root"
			if ref.entry >= 0 {
				d, f := refSplit(r.es[ref.entry].Name)
				dir = path.Join(d, f)
				what = "dir"
			}
			kids := r.children(dir)
			if name == "HReaddir" && count <= 0 && err == nil {
				var ks []string
				for i := 0; i < len(kinds); i++ {
					ks = append(ks, kinds[i][strings.IndexByte(kinds[i], '|')+1:])
				}
				sort.Strings(ks)
				extra["/l"] = strings.Join(ks, ",")
			}
			if r.checked {
				if err != nil {
					r.fail("listing-error-"+what, "%s(%d) of %q (%d children in the archive): %v", name[1:], count, dir, len(kids), err)
				} else {
					r.checkListing(name, count, dir, kids, kinds, names)
				}
			}
		}
	case "HStat":
		fi, err := f.Stat()
		if err != nil {
			return "err:" + errClass14(err), extra
		}
		out = "info:" + fi14(fi)
		if r.checked && ref.entry >= 0 && !ref.closed {
			ks := "d"
			if !fi.IsDir() {
				ks = fmt.Sprintf("f:%d", fi.Size())
			}
			if ks != r.kindSize(ref.entry) {
				r.fail("stat-wrong", "File.Stat of entry %d = %s, the archive says %s", ref.entry, ks, r.kindSize(ref.entry))
			}
		}
	case "HName":
		out = "name:" + hx([]byte(f.Name()))
	case "HSync":
		out = e(f.Sync())
	case "HWrite":
		k, err := f.Write(unhx(a[1]))
		out = fmt.Sprintf("count:%d:%s", k, errClass14(err))
		r.hmut(name, k, err)
	case "HWriteString":
		k, err := f.WriteString(string(unhx(a[1])))
		out = fmt.Sprintf("count:%d:%s", k, errClass14(err))
		r.hmut(name, k, err)
	case "HWriteAt":
		k, err := f.WriteAt(unhx(a[1]), int64(atoi(a[2])))
		out = fmt.Sprintf("count:%d:%s", k, errClass14(err))
		r.hmut(name, k, err)
	case "HTruncate":
		err := f.Truncate(int64(atoi(a[1])))
		out = e(err)
		r.hmut(name, 0, err)
	default:
		panic("unknown op " + name)
	}
	if isFile && (name == "HRead" || name == "HReadAt" || name == "HSeek" || name == "HClose") {
		extra["/p"] = projImpl14(name, a, out)
	}
	return
}

func min64(a, b int64) int64 {
	if a < b {
		return a
	}
	return b
}

func (r *arcRun) mut(name string, err error) string {
	r.mutated = true
	if err == nil {
		r.fail("mutator-succeeded", "%s returned nil", name)
		return "ok"
	}
	return "err:" + errClass14(err)
}

func (r *arcRun) hmut(name string, k int, err error) {
	r.mutated = true
	if err == nil || k != 0 {
		r.fail("mutator-succeeded", "%s returned %d, %v", name[1:], k, err)
	}
}

func (r *arcRun) checkListing(name string, count int, dir string, kids []int, kinds, names []string) {
	total := len(kids)
	want := total
	if count > 0 && count < total {
		want = count
	}
	if len(names) != want {
		r.fail("listing-wrong", "%s(%d) of %q returned %d entries, the archive has %d", name[1:], count, dir, len(names), total)
		return
	}
	// every returned item must be a distinct child; for Readdir compare kind and size
	used := map[int]bool{}
	for j := range names {
		found := -1
		for _, i := range kids {
			if used[i] {
				continue
			}
			_, f := refSplit(r.es[i].Name)
			base := path.Base(r.es[i].Name)
			if r.es[i].Kind == 'd' {
				base = path.Base(path.Clean(r.es[i].Name))
			}
			if names[j] != f && names[j] != base {
				continue
			}
			if name == "HReaddir" {
				ks := kinds[j][strings.IndexByte(kinds[j], '|')+1:]
				w := "d|-"
				if r.es[i].Kind != 'd' {
					w = fmt.Sprintf("f|%d", len(r.es[i].data))
				}
				if ks != w {
					continue
				}
			}
			found = i
			break
		}
		if found < 0 {
			r.fail("listing-wrong", "%s(%d) of %q returned %q (%s) which is not a child in the archive", name[1:], count, dir, names[j], kinds[j])
			return
		}
		used[found] = true
	}
}

// after a program with mutating calls: every entry still there, same kind, size and bytes
func (r *arcRun) checkView() {
	for i, e := range r.es {
		d, f := refSplit(e.Name)
		if f == "" {
			continue
		}
		p := path.Join(d, f)
		func() {
			defer func() {
				if x := recover(); x != nil {
					r.fail("view-changed", "panic while re-reading %q: %v", p, x)
				}
			}()
			fi, err := r.fs.Stat(p)
			if err != nil {
				r.fail("view-changed", "after the mutating calls Stat(%q) fails: %v", p, err)
				return
			}
			ks := "d"
			if !fi.IsDir() {
				ks = fmt.Sprintf("f:%d", fi.Size())
			}
			if ks != r.kindSize(i) {
				r.fail("view-changed", "after the mutating calls Stat(%q) = %s, want %s", p, ks, r.kindSize(i))
				return
			}
			if e.Kind == 'd' {
				return
			}
			fh, err := r.fs.Open(p)
			if err != nil {
				r.fail("view-changed", "after the mutating calls Open(%q) fails: %v", p, err)
				return
			}
			buf := make([]byte, len(e.data)+1)
			k, _ := fh.ReadAt(buf, 0)
			if !bytes.Equal(buf[:k], e.data) {
				r.fail("view-changed", "after the mutating calls %q reads %s, want %s", p, dhx(buf[:k]), dhx(e.data))
			}
		}()
	}
}

func execArc(c *Ctx, id, kind, entries, prog string, checked bool) {
	es := parseEntries(entries)
	fs, err := openArchive(kind, es)
	if e, ok := err.(errArchiveNew); ok {
		c.Oracle("FAIL %s %s:new-failed a well-formed archive (%s) could not be opened: %s", id, kind, entries, e.what)
		return
	}
	if err != nil {
		c.Count("skipped.archive-not-built")
		c.Extra["last-build-error"] = err.Error()
		return
	}
	c.Case("arc %s %s %s %s", id, kind, entries, prog)
	r := &arcRun{c: c, id: id, kind: kind, es: es, fs: fs, opened: map[int]int{}, checked: checked}
	c.Count("archive." + kind)
	c.Count(fmt.Sprintf("archive.entries.%02d", len(es)))
	for _, e := range es {
		c.Count("entry.kind." + string(e.Kind))
		switch {
		case e.Kind == 'd':
		case len(e.data) == 0:
			c.Count("entry.size.0")
		case len(e.data) < 100:
			c.Count("entry.size.<100")
		case len(e.data) < 10000:
			c.Count("entry.size.<10000")
		default:
			c.Count("entry.size.large")
		}
	}
	for i, it := range strings.Split(prog, ";") {
		t := strings.Split(it, ",")
		name, a := t[0], t[1:]
		var out string
		var extra map[string]string
		func() {
			defer func() {
				if x := recover(); x != nil {
					out, extra = "panic", map[string]string{}
					lastPanic = fmt.Sprint(x)
					sig := strings.ToLower(strings.TrimPrefix(name, "H")) + "-panic"
					if name == "HReadAt" && atoi(a[2]) < 0 {
						sig = "readat-negative-panic"
					}
					r.fail(sig, "%s panicked: %v", it, x)
					if name == "HRead" || name == "HReadAt" || name == "HSeek" {
						extra["/p"] = "err:99"
					}
				}
			}()
			out, extra = r.exec(i, name, a)
		}()
		c.Impl("%s#%d %s", id, i, out)
		keys := make([]string, 0, len(extra))
		for k := range extra {
			keys = append(keys, k)
		}
		sort.Strings(keys)
		for _, k := range keys {
			c.Impl("%s#%d%s %s", id, i, k, extra[k])
		}
		c.Count("op." + name)
		c.Count("res." + strings.SplitN(out, ":", 2)[0])
	}
	if r.mutated && checked {
		r.checkView()
	}
	c.NCases++
}

// ---------------------------------------------------------------- generators

var c14Comps = []string{"a", "b", "c", "d1", "x.txt", "y"}

type genEntry struct {
	clean string // cleaned absolute path
	raw   string
	kind  byte
	spec  string
	size  int
}

func c14Content(r *Rng, allowLarge bool) (string, int) {
	switch r.Intn(12) {
	case 0, 1, 2:
		return "-", 0
	case 3, 4:
		return hx([]byte{Pick(r, []byte{0, 'a', 0xff})}), 1
	case 5:
		n := r.Range(2, 9)
		b := make([]byte, n)
		for i := range b {
			b[i] = Pick(r, []byte{0, 'a', 'b', 'c', '\n'})
		}
		return hx(b), n
	case 6, 7, 8:
		return fmt.Sprintf("seq~%d~100", r.Intn(256)), 100
	case 9:
		return fmt.Sprintf("rep~%02x~100", r.Intn(256)), 100
	default:
		if allowLarge {
			if r.Bool() {
				return fmt.Sprintf("seq~%d~70000", r.Intn(256)), 70000
			}
			return fmt.Sprintf("rep~%02x~70000", r.Intn(256)), 70000
		}
		return fmt.Sprintf("seq~%d~100", r.Intn(256)), 100
	}
}

// a raw header name that cleans to the given absolute path
func c14Raw(r *Rng, clean string, dir bool) string {
	rel := strings.TrimPrefix(clean, "/")
	comps := strings.Split(rel, "/")
	var raw string
	switch r.Intn(10) {
	case 0:
		raw = "./" + rel
	case 1:
		raw = "/" + rel
	case 2:
		raw = strings.Join(comps, "//")
	case 3:
		raw = strings.Join(comps, "/./")
	case 4:
		if len(comps) > 1 {
			raw = comps[0] + "/zz/../" + strings.Join(comps[1:], "/")
		} else {
			raw = "zz/../" + rel
		}
	default:
		raw = rel
	}
	if dir && r.Chance(4, 5) {
		raw += "/"
	}
	return raw
}

// entry list with pairwise different cleaned paths, no file used as a directory
func c14Archive(r *Rng, n int, allowLarge bool) []genEntry {
	var out []genEntry
	used := map[string]byte{}
	large := false
	for tries := 0; len(out) < n && tries < 200; tries++ {
		depth := r.Range(1, 3)
		comps := make([]string, depth)
		for i := range comps {
			comps[i] = Pick(r, c14Comps)
		}
		clean := "/" + strings.Join(comps, "/")
		if _, ok := used[clean]; ok {
			continue
		}
		bad := false
		for i := 1; i < depth; i++ {
			if k, ok := used["/"+strings.Join(comps[:i], "/")]; ok && k != 'd' {
				bad = true
			}
		}
		if bad {
			continue
		}
		dir := r.Chance(1, 4)
		if !dir {
			for p := range used {
				if strings.HasPrefix(p, clean+"/") {
					dir = true
				}
			}
		}
		// sometimes make the parents explicit first
		if depth > 1 && r.Chance(1, 2) {
			for i := 1; i < depth && len(out) < n-1; i++ {
				pc := "/" + strings.Join(comps[:i], "/")
				if _, ok := used[pc]; !ok {
					used[pc] = 'd'
					out = append(out, genEntry{clean: pc, raw: c14Raw(r, pc, true), kind: 'd', spec: "-"})
				}
			}
		}
		if dir {
			used[clean] = 'd'
			out = append(out, genEntry{clean: clean, raw: c14Raw(r, clean, true), kind: 'd', spec: "-"})
			continue
		}
		spec, size := c14Content(r, allowLarge && !large)
		if size > 10000 {
			large = true
		}
		kind := byte('f')
		if r.Bool() {
			kind = 'z'
		}
		used[clean] = kind
		out = append(out, genEntry{clean: clean, raw: c14Raw(r, clean, false), kind: kind, spec: spec, size: size})
	}
	// explicit directories may also come after their members
	if r.Chance(1, 3) {
		r2 := r.Fork()
		for i := len(out) - 1; i > 0; i-- {
			j := r2.Intn(i + 1)
			out[i], out[j] = out[j], out[i]
		}
	}
	return out
}

func c14Encode(es []genEntry) string {
	a := make([]aEntry, len(es))
	for i, e := range es {
		a[i] = aEntry{Name: e.raw, Kind: e.kind, Spec: e.spec}
	}
	return encodeEntries(a)
}

// a name under which the entry should be found
func c14Query(r *Rng, e genEntry) string {
	rel := strings.TrimPrefix(e.clean, "/")
	switch r.Intn(8) {
	case 0:
		return e.clean
	case 1:
		return e.raw
	case 2:
		return "./" + rel
	case 3:
		return rel + "/"
	case 4:
		return "/" + strings.ReplaceAll(rel, "/", "//")
	}
	return rel
}

func hxs(s string) string { return hx([]byte(s)) }

var c14Chunks = []int{0, 1, 1, 2, 3, 7, 64, 100, 101, 4096, 70001}

func c14ReadOp(r *Rng, h int, size int, pos *int) string {
	switch r.Intn(10) {
	case 0, 1, 2, 3:
		n := Pick(r, c14Chunks)
		return fmt.Sprintf("HRead,%d,%d", h, n)
	case 4, 5, 6:
		n := Pick(r, c14Chunks)
		off := r.Range(-2, size+5)
		if size > 1000 && r.Bool() {
			off = Pick(r, []int{0, size - 1, size, size + 1, size - 100, size / 2})
		}
		return fmt.Sprintf("HReadAt,%d,%d,%d", h, n, off)
	case 7, 8:
		wh := Pick(r, []int{0, 0, 1, 1, 2, 2, 3, -1})
		var off int
		switch wh {
		case 0:
			off = r.Range(-2, size+5)
		case 1:
			off = r.Range(-size-2, size+5)
			if r.Bool() {
				off = r.Range(-3, 3)
			}
		default:
			off = r.Range(-size-2, 5)
		}
		return fmt.Sprintf("HSeek,%d,%d,%d", h, off, wh)
	}
	if r.Chance(1, 3) {
		return fmt.Sprintf("HClose,%d", h)
	}
	return fmt.Sprintf("HRead,%d,%d", h, Pick(r, c14Chunks))
}

func runC14(c *Ctx) {
	if c.From == nil {
		runC14Big(c)
	}
	if c.From != nil {
		for _, cs := range c.From {
			t := strings.Fields(cs[0])
			if t[0] == "arc" && len(t) == 5 {
				execArc(c, t[1], t[2], t[3], t[4], !strings.HasPrefix(t[1], "u"))
			}
		}
		return
	}
	r := c.Rng
	exLen, nArch, nDup := 2, 260, 120
	if c.Tier == "thorough" {
		exLen, nArch, nDup = 3, 3000, 1500
	}
	kinds := []string{"zip", "tar"}

	// (A) small scope, exhaustive: one 3-byte file, two handles, every op sequence up to exLen
	templates := []string{
		"HRead,0,0", "HRead,0,2", "HRead,0,5", "HRead,1,1", "HRead,1,4",
		"HReadAt,0,2,-1", "HReadAt,0,2,0", "HReadAt,0,2,2", "HReadAt,0,2,3", "HReadAt,0,1,4", "HReadAt,0,0,9", "HReadAt,1,3,1",
		"HSeek,0,-1,0", "HSeek,0,2,0", "HSeek,0,4,0", "HSeek,0,1,1", "HSeek,0,-1,1", "HSeek,0,-1,2", "HSeek,0,1,2", "HSeek,0,0,3", "HSeek,1,3,0",
		"HClose,0", "Open,66,0",
	}
	k := 0
	var rec func(prefix []string, depth int)
	rec = func(prefix []string, depth int) {
		if len(prefix) > 0 {
			prog := "Open,66,0;Open,2f2e2f66,0;" + strings.Join(prefix, ";") + ";HRead,0,9;HRead,1,9;HRead,2,9"
			for _, kd := range kinds {
				for _, ek := range []string{"f", "z"} {
					if kd == "tar" && ek == "z" {
						continue
					}
					execArc(c, fmt.Sprintf("e%d%s%s", k, kd[:1], ek), kd, "66:"+ek+":616263", prog, true)
				}
			}
			k++
		}
		if depth == 0 {
			return
		}
		for _, t := range templates {
			rec(append(prefix, t), depth-1)
		}
	}
	rec(nil, exLen)
	c.Extra["exhaustive"] = fmt.Sprintf("every sequence of length<=%d over %d op templates on a 3-byte file with two (three) handles, zip Store/Deflate and tar: %d programs", exLen, len(templates), k)

	// (B) structured archives: unique cleaned paths
	for i := 0; i < nArch; i++ {
		n := r.Range(0, 12)
		if r.Chance(1, 3) {
			n = r.Range(0, 4)
		}
		es := c14Archive(r, n, r.Chance(1, 8))
		enc := c14Encode(es)
		if i < 2 {
			c.Sample("arc " + enc)
		}
		var files, dirs []int
		for j, e := range es {
			if e.kind == 'd' {
				dirs = append(dirs, j)
			} else {
				files = append(files, j)
			}
		}
		for _, kd := range kinds {
			// B1: Stat / Open of every entry and of missing names; listings
			var ops []string
			for j, e := range es {
				ops = append(ops, fmt.Sprintf("Stat,%s,%d", hxs(c14Query(r, e)), j))
			}
			for _, m := range []string{"nope", "a/nope", "zz/a", "x.txt/q"} {
				used := false
				for _, e := range es {
					if e.clean == "/"+m || strings.HasPrefix(e.clean, "/"+m+"/") {
						used = true
					}
				}
				if !used {
					ops = append(ops, fmt.Sprintf("Stat,%s,x", hxs(m)), fmt.Sprintf("Open,%s,x", hxs(m)))
				}
			}
			ops = append(ops, "Stat,2f,r", "Stat,-,r", "Stat,2e,r")
			h := 0
			openDir := func(name string, exp string) {
				ops = append(ops, fmt.Sprintf("Open,%s,%s", hxs(name), exp))
				for _, cnt := range []int{-1, 0, 1, 2, 100} {
					ops = append(ops, fmt.Sprintf("HReaddir,%d,%d", h, cnt))
				}
				for _, cnt := range []int{-1, 1, 3} {
					ops = append(ops, fmt.Sprintf("HReaddirnames,%d,%d", h, cnt))
				}
				ops = append(ops, fmt.Sprintf("HStat,%d", h), fmt.Sprintf("HName,%d", h), fmt.Sprintf("HRead,%d,4", h),
					fmt.Sprintf("HReadAt,%d,4,0", h), fmt.Sprintf("HSeek,%d,0,0", h))
				h++
			}
			openDir(Pick(r, []string{"/", "", ".", "//"}), "r")
			for _, j := range dirs {
				openDir(c14Query(r, es[j]), fmt.Sprint(j))
			}
			for _, j := range files {
				if r.Chance(1, 3) {
					ops = append(ops, fmt.Sprintf("Open,%s,%d", hxs(c14Query(r, es[j])), j),
						fmt.Sprintf("HReaddir,%d,-1", h), fmt.Sprintf("HReaddirnames,%d,-1", h), fmt.Sprintf("HStat,%d", h), fmt.Sprintf("HName,%d", h))
					h++
				}
			}
			execArc(c, fmt.Sprintf("s%d%s", i, kd[:1]), kd, enc, strings.Join(ops, ";"), true)

			// B2: read programs over several handles, repeated and interleaved opens
			if len(files) > 0 {
				for rep := 0; rep < 2; rep++ {
					ops = nil
					type hh struct{ entry, size int }
					var hs []hh
					open := func(j int) {
						ops = append(ops, fmt.Sprintf("Open,%s,%d", hxs(c14Query(r, es[j])), j))
						hs = append(hs, hh{j, es[j].size})
					}
					main := Pick(r, files)
					open(main)
					nops := r.Range(4, 30)
					for q := 0; q < nops; q++ {
						if len(hs) < 5 && r.Chance(1, 5) {
							if r.Chance(2, 3) {
								open(main)
							} else {
								open(Pick(r, files))
							}
							continue
						}
						hi := r.Intn(len(hs))
						pos := 0
						ops = append(ops, c14ReadOp(r, hi, hs[hi].size, &pos))
					}
					// successive handles: read everything, close, open again, read everything
					j := main
					if r.Chance(1, 3) {
						j = Pick(r, files)
					}
					for round := 0; round < 2; round++ {
						open(j)
						hi := len(hs) - 1
						chunk := Pick(r, []int{1, 3, 64, 100, 4096, 70001})
						if es[j].size > 1000 && chunk < 4096 {
							chunk = 4096
						}
						for got := 0; got <= es[j].size; got += chunk {
							ops = append(ops, fmt.Sprintf("HRead,%d,%d", hi, chunk))
						}
						ops = append(ops, fmt.Sprintf("HRead,%d,%d", hi, chunk))
						if round == 0 || r.Bool() {
							ops = append(ops, fmt.Sprintf("HClose,%d", hi), fmt.Sprintf("HRead,%d,1", hi), fmt.Sprintf("HSeek,%d,0,0", hi), fmt.Sprintf("HReadAt,%d,1,0", hi))
						}
					}
					execArc(c, fmt.Sprintf("r%d_%d%s", i, rep, kd[:1]), kd, enc, strings.Join(ops, ";"), true)
				}
			}

			// B3: every mutating call, then the view again
			if i%2 == 0 {
				tgt := "new"
				if len(es) > 0 {
					tgt = strings.TrimPrefix(Pick(r, es).clean, "/")
				}
				t := hxs(tgt)
				ops = []string{"Create," + t, "Mkdir," + t + ",493", "MkdirAll," + t + ",493", "Remove," + t, "RemoveAll," + t,
					"Rename," + t + "," + hxs("other"), "Chmod," + t + ",420", "Chown," + t + ",1,1", "Chtimes," + t + ",1000",
					"OpenFile," + t + ",1,420", "OpenFile," + t + ",2,420", "OpenFile," + t + ",66,420", "OpenFile," + t + ",577,420",
					"Create," + hxs("brand/new"), "RemoveAll,2f", "Remove,2f"}
				if len(files) > 0 {
					j := Pick(r, files)
					ops = append(ops, fmt.Sprintf("OpenFile,%s,0,0", hxs(strings.TrimPrefix(es[j].clean, "/"))),
						"HWrite,0,5858", "HWriteString,0,5858", "HWriteAt,0,5858,0", "HTruncate,0,0", "HSync,0", "HRead,0,5",
						fmt.Sprintf("Stat,%s,%d", hxs(es[j].clean), j))
				}
				execArc(c, fmt.Sprintf("m%d%s", i, kd[:1]), kd, enc, strings.Join(ops, ";"), true)
			}
		}
	}

	// (C) archives outside the property's reading: duplicate cleaned names, entries named like the
	// root, files used as directories.  No expectations except: no panic; model and code agree.
	for i := 0; i < nDup; i++ {
		es := c14Archive(r, r.Range(1, 6), false)
		extra := r.Range(1, 3)
		for q := 0; q < extra; q++ {
			switch r.Intn(4) {
			case 0, 1: // duplicate of an existing cleaned path, possibly of another kind
				e := Pick(r, es)
				d := genEntry{clean: e.clean, kind: Pick(r, []byte{'f', 'z', 'd'}), spec: "-"}
				if d.kind != 'd' {
					d.spec, d.size = c14Content(r, false)
				}
				d.raw = c14Raw(r, e.clean, d.kind == 'd')
				if d.kind != 'd' {
					d.raw = strings.TrimSuffix(d.raw, "/")
				}
				es = append(es, d)
			case 2: // named like the root
				kind := Pick(r, []byte{'f', 'd'})
				raw := Pick(r, []string{".", "/", "./", "a/.."})
				if kind == 'f' {
					raw = Pick(r, []string{".", "a/..", "./."})
				}
				es = append(es, genEntry{clean: "/", raw: raw, kind: kind, spec: "-"})
			case 3: // a member below a file
				var fl []genEntry
				for _, e := range es {
					if e.kind != 'd' {
						fl = append(fl, e)
					}
				}
				if len(fl) > 0 {
					e := Pick(r, fl)
					es = append(es, genEntry{clean: e.clean + "/sub", raw: strings.TrimPrefix(e.clean, "/") + "/sub", kind: 'f', spec: "6162", size: 2})
				}
			}
		}
		enc := c14Encode(es)
		var ops []string
		h := 0
		ops = append(ops, "Open,2f,?", "HReaddir,0,-1", "HReaddirnames,0,-1", "HStat,0", "HName,0")
		h++
		for _, e := range es {
			q := hxs(strings.TrimPrefix(e.clean, "/"))
			ops = append(ops, "Stat,"+q+",?", "Open,"+q+",?")
			// the handle exists in both worlds or in neither; ops on a missing slot say "noslot"
			ops = append(ops, fmt.Sprintf("HStat,%d", h), fmt.Sprintf("HName,%d", h), fmt.Sprintf("HRead,%d,3", h), fmt.Sprintf("HReadAt,%d,2,1", h),
				fmt.Sprintf("HReaddir,%d,0", h), fmt.Sprintf("HReaddirnames,%d,2", h), fmt.Sprintf("HRead,%d,200", h))
			h++
		}
		for _, kd := range kinds {
			execArc(c, fmt.Sprintf("u%d%s", i, kd[:1]), kd, enc, strings.Join(ops, ";"), false)
		}
	}
	_ = strconv.Itoa
}

// entries larger than any internal buffer cap (oracle only; the model's byte lists are not made
// for tens of megabytes): whole-file reads, positional reads far into a fresh handle, Seek + Read
func runC14Big(c *Ctx) {
	const size = 17<<20 + 12345
	data := make([]byte, size)
	for i := range data {
		data[i] = byte(i*7 + i>>11)
	}
	n := 0
	check := func(kind string, fs afero.Fs, name string) {
		fail := func(sig, format string, a ...any) {
			c.Oracle("FAIL big-%s %s:big-entry %s", kind, sig, fmt.Sprintf(format, a...))
		}
		func() {
			defer func() {
				if r := recover(); r != nil {
					fail(kind+":panic", "a read of the %d-byte entry panicked: %v", size, r)
				}
			}()
			n++
			got, err := afero.ReadFile(fs, name)
			if err != nil || !bytes.Equal(got, data) {
				fail(kind+":content", "ReadFile of the %d-byte entry returned %d bytes, %v", size, len(got), err)
			}
			f, err := fs.Open(name)
			if err != nil {
				fail(kind+":open", "%v", err)
				return
			}
			defer f.Close()
			buf := make([]byte, 100)
			for _, off := range []int64{16<<20 + 5, size - 100, 3} {
				k, err := f.ReadAt(buf, off)
				if k != 100 || (err != nil && err != io.EOF) || !bytes.Equal(buf, data[off:off+100]) {
					fail(kind+":content", "ReadAt(100, %d) on a fresh handle = %d, %v", off, k, err)
				}
			}
			if pos, err := f.Seek(16<<20+77, io.SeekStart); err != nil || pos != 16<<20+77 {
				fail(kind+":seek", "Seek = %d, %v", pos, err)
			}
			k, err := io.ReadFull(f, buf)
			if k != 100 || err != nil || !bytes.Equal(buf, data[16<<20+77:16<<20+177]) {
				fail(kind+":content", "Read after Seek(16 MiB + 77) = %d, %v", k, err)
			}
		}()
	}
	var zb bytes.Buffer
	zw := zip.NewWriter(&zb)
	for _, m := range []struct {
		name   string
		method uint16
	}{{"stored.bin", zip.Store}, {"deflated.bin", zip.Deflate}} {
		w, _ := zw.CreateHeader(&zip.FileHeader{Name: m.name, Method: m.method})
		w.Write(data)
	}
	zw.Close()
	if zr, err := zip.NewReader(bytes.NewReader(zb.Bytes()), int64(zb.Len())); err == nil {
		zfs := zipfs.New(zr)
		check("zip", zfs, "/stored.bin")
		check("zip", zfs, "/deflated.bin")
	}
	var tb bytes.Buffer
	tw := tar.NewWriter(&tb)
	tw.WriteHeader(&tar.Header{Name: "big.bin", Mode: 0o644, Size: size, Typeflag: tar.TypeReg})
	tw.Write(data)
	tw.Close()
	func() {
		defer func() {
			if r := recover(); r != nil {
				c.Oracle("FAIL big-tar tar:panic:big-entry tarfs.New panicked: %v", r)
			}
		}()
		check("tar", tarfs.New(tar.NewReader(bytes.NewReader(tb.Bytes()))), "/big.bin")
	}()
	c.Extra["big_entries"] = fmt.Sprintf("%d entries of %d bytes (zip stored, zip deflated, tar): whole reads, positional reads, Seek+Read (oracle only)", n, size)
}
