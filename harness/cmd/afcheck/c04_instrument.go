package main

// c04_instrument.go — `afcheck instrument -repo /repo -out <dir>`: copies the CURRENT
// memmap.go and mem/file.go, replaces (go/ast) every statement x.Lock() / x.RLock() by
// verifsched.Lock("<func>:<n>+", x.TryLock, x.Unlock, x.Lock) (TryRLock / RUnlock / RLock for
// a read lock) — an acquisition under the control of the scheduler — and inserts
// verifsched.Point("<func>:<n>-") after every Unlock()/RUnlock() (deferred unlocks are wrapped
// in a func literal, the release Point runs inside the deferred call), writes the copies and
// the package verifsched (a cooperative scheduler: plain blocking locks unless a run is active)
// into <dir>, and emits an overlay json that maps the originals to the copies.  Nothing of this exists in the normal
// harness binary; `afcheck run -prop C04` builds a second binary with the overlay
// (tags verif,verifsched) from the working tree of /repo on every run.

import (
	"bytes"
	"encoding/json"
	"flag"
	"fmt"
	"go/ast"
	"go/format"
	"go/parser"
	"go/token"
	"os"
	"os/exec"
	"path/filepath"
	"strconv"
	"strings"
)

// `afcheck instrument ...` without touching main.go: handled before main runs
func init() {
	if len(os.Args) >= 2 && os.Args[1] == "instrument" {
		fs := flag.NewFlagSet("instrument", flag.ExitOnError)
		repo := fs.String("repo", c04Repo(), "afero tree")
		out := fs.String("out", "", "output directory")
		fs.Parse(os.Args[2:])
		ov, n, err := c04Instrument(*repo, *out, nil)
		if err != nil {
			fmt.Fprintln(os.Stderr, "instrument:", err)
			os.Exit(3)
		}
		fmt.Printf("%d yield points; overlay %s\n", n, ov)
		os.Exit(0)
	}
}

func c04Repo() string {
	if v := os.Getenv("VERIF_REPO"); v != "" {
		return v
	}
	return "/repo"
}

const verifschedImport = "github.com/spf13/afero/verifsched"

func isLockCall(e ast.Expr) (string, bool) {
	ce, ok := e.(*ast.CallExpr)
	if !ok || len(ce.Args) != 0 {
		return "", false
	}
	se, ok := ce.Fun.(*ast.SelectorExpr)
	if !ok {
		return "", false
	}
	switch se.Sel.Name {
	case "Lock", "RLock", "Unlock", "RUnlock":
		return se.Sel.Name, true
	}
	return "", false
}

func pointStmt(label string) ast.Stmt {
	return &ast.ExprStmt{X: &ast.CallExpr{
		Fun:  &ast.SelectorExpr{X: ast.NewIdent("verifsched"), Sel: ast.NewIdent("Point")},
		Args: []ast.Expr{&ast.BasicLit{Kind: token.STRING, Value: strconv.Quote(label)}},
	}}
}

// x.Lock() -> verifsched.Lock(label, x.TryLock, x.Unlock, x.Lock); RLock: TryRLock, RUnlock, RLock.
// The receiver expression is a variable or a field selection (no side effects), so naming it
// three times is harmless.
func lockStmt(label string, call *ast.CallExpr, name string) ast.Stmt {
	recv := call.Fun.(*ast.SelectorExpr).X
	try, unlock := "TryLock", "Unlock"
	if name == "RLock" {
		try, unlock = "TryRLock", "RUnlock"
	}
	sel := func(m string) ast.Expr { return &ast.SelectorExpr{X: recv, Sel: ast.NewIdent(m)} }
	return &ast.ExprStmt{X: &ast.CallExpr{
		Fun: &ast.SelectorExpr{X: ast.NewIdent("verifsched"), Sel: ast.NewIdent("Lock")},
		Args: []ast.Expr{&ast.BasicLit{Kind: token.STRING, Value: strconv.Quote(label)},
			sel(try), sel(unlock), sel(name)},
	}}
}

type instr struct {
	fn string
	n  int
	pt int
}

func (in *instr) label(suffix string) string {
	in.n++
	in.pt++
	return fmt.Sprintf("%s:%d%s", in.fn, in.n, suffix)
}

func (in *instr) list(stmts []ast.Stmt) []ast.Stmt {
	var out []ast.Stmt
	for _, s := range stmts {
		in.stmt(s)
		switch x := s.(type) {
		case *ast.ExprStmt:
			if name, ok := isLockCall(x.X); ok {
				if name == "Lock" || name == "RLock" {
					out = append(out, lockStmt(in.label("+"), x.X.(*ast.CallExpr), name))
				} else {
					out = append(out, s, pointStmt(in.label("-")))
				}
				continue
			}
		case *ast.DeferStmt:
			if name, ok := isLockCall(x.Call); ok && (name == "Unlock" || name == "RUnlock") {
				body := &ast.BlockStmt{List: []ast.Stmt{&ast.ExprStmt{X: x.Call}, pointStmt(in.label("-"))}}
				out = append(out, &ast.DeferStmt{Call: &ast.CallExpr{Fun: &ast.FuncLit{
					Type: &ast.FuncType{Params: &ast.FieldList{}}, Body: body}}})
				continue
			}
		}
		out = append(out, s)
	}
	return out
}

// rewrites the statement lists nested in s
func (in *instr) stmt(s ast.Stmt) {
	switch x := s.(type) {
	case *ast.BlockStmt:
		x.List = in.list(x.List)
	case *ast.IfStmt:
		in.stmt(x.Body)
		if x.Else != nil {
			in.stmt(x.Else)
		}
	case *ast.ForStmt:
		in.stmt(x.Body)
	case *ast.RangeStmt:
		in.stmt(x.Body)
	case *ast.SwitchStmt:
		in.stmt(x.Body)
	case *ast.TypeSwitchStmt:
		in.stmt(x.Body)
	case *ast.SelectStmt:
		in.stmt(x.Body)
	case *ast.CaseClause:
		x.Body = in.list(x.Body)
	case *ast.CommClause:
		x.Body = in.list(x.Body)
	case *ast.LabeledStmt:
		in.stmt(x.Stmt)
	}
}

func instrumentFile(src string) ([]byte, int, error) {
	fset := token.NewFileSet()
	f, err := parser.ParseFile(fset, src, nil, 0) // comments dropped: positions of inserted nodes are free
	if err != nil {
		return nil, 0, err
	}
	total := 0
	for _, d := range f.Decls {
		fd, ok := d.(*ast.FuncDecl)
		if !ok || fd.Body == nil {
			continue
		}
		name := fd.Name.Name
		if fd.Recv != nil && len(fd.Recv.List) > 0 {
			t := fd.Recv.List[0].Type
			if st, ok := t.(*ast.StarExpr); ok {
				t = st.X
			}
			if id, ok := t.(*ast.Ident); ok {
				name = id.Name + "." + name
			}
		}
		in := &instr{fn: name}
		in.stmt(fd.Body)
		total += in.pt
	}
	if total > 0 {
		spec := &ast.ImportSpec{Path: &ast.BasicLit{Kind: token.STRING, Value: strconv.Quote(verifschedImport)}}
		done := false
		for _, d := range f.Decls {
			if gd, ok := d.(*ast.GenDecl); ok && gd.Tok == token.IMPORT {
				gd.Specs = append(gd.Specs, spec)
				if gd.Lparen == token.NoPos {
					gd.Lparen = gd.Pos()
					gd.Rparen = gd.End()
				}
				done = true
				break
			}
		}
		if !done {
			f.Decls = append([]ast.Decl{&ast.GenDecl{Tok: token.IMPORT, Specs: []ast.Spec{spec}}}, f.Decls...)
		}
		f.Imports = append(f.Imports, spec)
	}
	var buf bytes.Buffer
	if err := format.Node(&buf, fset, f); err != nil {
		return nil, 0, err
	}
	return buf.Bytes(), total, nil
}

// c04Instrument writes the instrumented copies, the scheduler package and overlay.json into
// out; base = overlay entries to keep (the harness' own add-only export files).
func c04Instrument(repo, out string, base map[string]string) (string, int, error) {
	if out == "" {
		return "", 0, fmt.Errorf("no output directory")
	}
	if err := os.MkdirAll(out, 0o755); err != nil {
		return "", 0, err
	}
	out, _ = filepath.Abs(out)
	ov := map[string]string{}
	for k, v := range base {
		ov[k] = v
	}
	total := 0
	for _, rel := range []string{"memmap.go", "mem/file.go"} {
		b, n, err := instrumentFile(filepath.Join(repo, rel))
		if err != nil {
			return "", 0, fmt.Errorf("%s: %v", rel, err)
		}
		if n == 0 {
			return "", 0, fmt.Errorf("%s: no lock operation found", rel)
		}
		dst := filepath.Join(out, strings.ReplaceAll(rel, "/", "_"))
		if err := os.WriteFile(dst, b, 0o644); err != nil {
			return "", 0, err
		}
		ov[filepath.Join(repo, rel)] = dst
		total += n
	}
	sched := filepath.Join(out, "verifsched.go")
	if err := os.WriteFile(sched, []byte(verifschedSrc), 0o644); err != nil {
		return "", 0, err
	}
	ov[filepath.Join(repo, "verifsched", "sched.go")] = sched
	raw := filepath.Join(out, "mem_verifsched_raw.go")
	if err := os.WriteFile(raw, []byte(memSchedRawSrc), 0o644); err != nil {
		return "", 0, err
	}
	ov[filepath.Join(repo, "mem", "zz_verifsched_raw.go")] = raw
	j, _ := json.MarshalIndent(map[string]any{"Replace": ov}, "", " ")
	ovp := filepath.Join(out, "overlay.json")
	if err := os.WriteFile(ovp, j, 0o644); err != nil {
		return "", 0, err
	}
	return ovp, total, nil
}

// the harness' standard overlay (written by ./check; reconstructed when absent)
func c04BaseOverlay(repo string) map[string]string {
	var ov struct{ Replace map[string]string }
	if b, err := os.ReadFile(filepath.Join("..", "work", "overlay-harness.json")); err == nil && json.Unmarshal(b, &ov) == nil && len(ov.Replace) > 0 {
		return ov.Replace
	}
	a, _ := filepath.Abs(filepath.Join("..", "overlay"))
	return map[string]string{
		filepath.Join(repo, "zz_verif_export.go"):     filepath.Join(a, "afero_export.go"),
		filepath.Join(repo, "mem/zz_verif_export.go"): filepath.Join(a, "mem_export.go"),
	}
}

// builds afcheck-sched (cwd must be the harness module) and returns its path
func c04BuildSched(outDir string) (string, string, error) {
	repo := c04Repo()
	ovp, n, err := c04Instrument(repo, filepath.Join(outDir, "sched-src"), c04BaseOverlay(repo))
	if err != nil {
		return "", "", err
	}
	bin, _ := filepath.Abs(filepath.Join(outDir, "afcheck-sched"))
	cmd := exec.Command("go", "build", "-tags", "verif verifsched", "-overlay", ovp, "-o", bin, "./cmd/afcheck")
	cmd.Env = append(os.Environ(), "GOFLAGS=-mod=mod", "GOPROXY=off", "GOSUMDB=off", "GOTOOLCHAIN=local")
	if b, err := cmd.CombinedOutput(); err != nil {
		return "", "", fmt.Errorf("go build: %v: %s", err, b)
	}
	return bin, fmt.Sprintf("%d yield points inserted", n), nil
}

