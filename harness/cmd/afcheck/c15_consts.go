package main

// C15 translator half: looks at the CURRENT text of /repo/iofs.go and tells the Coq model (Model/IOFS.v)
//   iofs_readdir_validates = 1 iff IOFS.ReadDir calls fs.ValidPath
//   iofs_stat_validates    = 1 iff IOFS has a Stat method of its own that calls fs.ValidPath
//   iofs_sub_validates     = 1 iff IOFS.Sub calls fs.ValidPath
//   iofs_sub_dot_self      = 1 iff IOFS.Sub compares its argument with "." (and returns the receiver)
//   fromiofs_openfile_mask = M  iff FromIOFS.OpenFile tests flag&M (M an |-expression of os.O_* names); 0 = no test
//   regexp_readdir_refills = 1 iff RegexpFile.Readdir loops over the source's pages (Model/Regexp.v re_readdir)
// The correspondence run checks the answers: a wrong guess shows as model-vs-implementation mismatches.

import (
	"fmt"
	"go/ast"
	"go/token"
	"os"
)

func init() { extraConsts = append(extraConsts, iofsConsts) }

func callsSelector(n ast.Node, name string) bool {
	found := false
	ast.Inspect(n, func(m ast.Node) bool {
		if ce, ok := m.(*ast.CallExpr); ok {
			if se, ok := ce.Fun.(*ast.SelectorExpr); ok && se.Sel.Name == name {
				found = true
			}
		}
		return true
	})
	return found
}

var osFlagValues = map[string]int64{"O_RDONLY": int64(os.O_RDONLY), "O_WRONLY": int64(os.O_WRONLY), "O_RDWR": int64(os.O_RDWR),
	"O_APPEND": int64(os.O_APPEND), "O_CREATE": int64(os.O_CREATE), "O_EXCL": int64(os.O_EXCL), "O_SYNC": int64(os.O_SYNC), "O_TRUNC": int64(os.O_TRUNC)}

// value of an expression built from os.O_* names, | and parentheses
func flagExpr(e ast.Expr) (int64, bool) {
	switch x := e.(type) {
	case *ast.ParenExpr:
		return flagExpr(x.X)
	case *ast.SelectorExpr:
		v, ok := osFlagValues[x.Sel.Name]
		return v, ok
	case *ast.BinaryExpr:
		if x.Op == token.OR {
			a, ok1 := flagExpr(x.X)
			b, ok2 := flagExpr(x.Y)
			return a | b, ok1 && ok2
		}
	}
	return 0, false
}

func iofsConsts(repo string, add func(string, int64, string)) error {
	p, err := parseSrc(repo, "iofs.go")
	if err != nil {
		return err
	}
	b2i := func(b bool) int64 {
		if b {
			return 1
		}
		return 0
	}
	for _, m := range []string{"Open", "ReadDir", "ReadFile", "Glob", "Sub"} {
		if p.fn("IOFS", m) == nil {
			return fmt.Errorf("iofs.go: method IOFS.%s not found", m)
		}
	}
	if fd := p.fn("IOFS", "Open"); !callsSelector(fd, "ValidPath") {
		return fmt.Errorf("iofs.go: IOFS.Open no longer calls fs.ValidPath (the model assumes it)")
	}
	if fd := p.fn("IOFS", "ReadFile"); !callsSelector(fd, "ValidPath") {
		return fmt.Errorf("iofs.go: IOFS.ReadFile no longer calls fs.ValidPath (the model assumes it)")
	}
	add("iofs_readdir_validates", b2i(callsSelector(p.fn("IOFS", "ReadDir"), "ValidPath")), "iofs.go IOFS.ReadDir: 1 iff it rejects names that are not fs.ValidPath")
	st := p.fn("IOFS", "Stat")
	add("iofs_stat_validates", b2i(st != nil && callsSelector(st, "ValidPath")), "iofs.go IOFS.Stat: 1 iff IOFS has its own Stat that rejects names that are not fs.ValidPath")
	sub := p.fn("IOFS", "Sub")
	add("iofs_sub_validates", b2i(callsSelector(sub, "ValidPath")), "iofs.go IOFS.Sub: 1 iff it rejects directories that are not fs.ValidPath")
	dot := false
	ast.Inspect(sub, func(n ast.Node) bool {
		if be, ok := n.(*ast.BinaryExpr); ok && be.Op == token.EQL {
			for _, e := range []ast.Expr{be.X, be.Y} {
				if bl, ok := e.(*ast.BasicLit); ok && bl.Value == `"."` {
					dot = true
				}
			}
		}
		return true
	})
	add("iofs_sub_dot_self", b2i(dot), `iofs.go IOFS.Sub: 1 iff Sub(".") returns the receiver itself`)
	of := p.fn("FromIOFS", "OpenFile")
	if of == nil {
		return fmt.Errorf("iofs.go: FromIOFS.OpenFile not found")
	}
	mask := int64(0)
	ast.Inspect(of, func(n ast.Node) bool {
		if be, ok := n.(*ast.BinaryExpr); ok && be.Op == token.AND {
			if v, ok := flagExpr(be.Y); ok {
				mask = v
			} else if v, ok := flagExpr(be.X); ok {
				mask = v
			}
		}
		return true
	})
	// regexpfs.go RegexpFile.Readdir: a `for` statement (not a range) that contains the call to the source's Readdir
	rp, err := parseSrc(repo, "regexpfs.go")
	if err != nil {
		return err
	}
	rd := rp.fn("RegexpFile", "Readdir")
	if rd == nil {
		return fmt.Errorf("regexpfs.go: RegexpFile.Readdir not found")
	}
	refills := false
	ast.Inspect(rd, func(n ast.Node) bool {
		if fs, ok := n.(*ast.ForStmt); ok && callsSelector(fs.Body, "Readdir") {
			refills = true
		}
		return true
	})
	add("regexp_readdir_refills", b2i(refills), "regexpfs.go RegexpFile.Readdir: 1 iff a page (n > 0) whose entries are all filtered out is replaced by the next one")
	add("fromiofs_openfile_mask", mask, "iofs.go FromIOFS.OpenFile: permission error iff flag&MASK != 0 (0 = the flag is ignored)")
	return nil
}
