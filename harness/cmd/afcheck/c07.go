package main

// C07 — ReadOnlyFs: every mutator fails with a permission error, nothing done through the
// wrapper or its handles changes the source, reads are transparent.
import (
	"bytes"
	"fmt"
	"os"
	"sort"
	"strings"
	"time"

	"github.com/spf13/afero"
)

func init() { props["C07"] = runC07 }

var c07Mutators = map[string]bool{"Create": true, "Mkdir": true, "MkdirAll": true, "Remove": true, "RemoveAll": true,
	"Rename": true, "Chmod": true, "Chown": true, "Chtimes": true}

// memTarget: address of the MemMapFs at the bottom of a unary stack
func memTarget(stack string) string {
	n := strings.Count(stack, "(")
	return strings.Repeat("0", n)
}

func c07Case(c *Ctx, id, stack string, items []string) {
	in := NewInterp(stack)
	src := in.Top.At(memTarget(stack)).Fs
	inner := in.Top.At("0") // the filesystem the read-only wrapper wraps
	c.Case("case %s %s", id, stack)
	failed := false
	viaWrapper := map[string]bool{} // slots bound by a call made through the wrapper
	for i, it := range items {
		c.Case("%s", it)
		f := strings.Fields(it)
		through := f[0] == "." && len(f) > 2 && !handleOps[f[2]]
		if through && f[1] != "-" {
			viaWrapper[f[1]] = true
		}
		if len(f) > 3 && handleOps[f[2]] && viaWrapper[f[3]] {
			through = true
		}
		before := ""
		if through {
			before = deepSnap(src)
		}
		// reads: the same call made directly on the wrapped filesystem
		direct := ""
		if f[0] == "." && len(f) > 2 && f[2] == "Stat" {
			fi, err := inner.Fs.Stat(string(unhx(f[3])))
			if err != nil {
				direct = "err:" + errClass(err)
			} else {
				direct = "info:" + fiS(fi)
			}
		}
		out := in.Exec(it)
		c.Impl("%s#%d %s", id, i, out)
		c.Count("op." + opName(it))
		c.Count("res." + strings.SplitN(out, ":", 2)[0])
		if out == "panic" {
			c.Oracle("FAIL %s panic:%s step %d panicked: %s", id, opName(it), i, it)
			failed = true
			break
		}
		if failed || before == "" {
			continue
		}
		if after := deepSnap(src); after != before {
			failed = true
			sig := opName(it)
			if sig == "OpenFile" {
				sig += ":flag"
			}
			c.Oracle("FAIL %s source-changed:%s step %d (%s) changed the source: before=%s after=%s", id, sig, i, it, before, after)
		}
		if f[0] == "." && c07Mutators[f[2]] && out != "err:Perm" {
			failed = true
			c.Oracle("FAIL %s mutator-not-eperm:%s step %d (%s) returned %s", id, f[2], i, it, out)
		}
		if direct != "" && direct != out {
			failed = true
			c.Oracle("FAIL %s read-not-transparent:Stat step %d (%s): through=%s direct=%s", id, i, it, out, direct)
		}
	}
	c.Case("end")
	c.NCases++
	// final transparency sweep: every path readable directly reads the same through the wrapper
	if !failed {
		a, b := sweepAll(in.Top.Fs), sweepAll(inner.Fs)
		if a != b {
			c.Oracle("FAIL %s read-not-transparent:sweep through=%s direct=%s", id, a, b)
		}
	}
}

func sweepAll(fs afero.Fs) string { return sweep(fs, map[string]bool{}) }

func genC07(r *Rng, stack string) []string {
	tgt := memTarget(stack)
	items, paths, next := populate(r.Fork(), tgt, r.Range(4, 14), 0)
	// basepath in the stack: name things relative to its root as well
	w := &WrapGen{r: r, Paths: append([]string{}, paths...), Next: next, Tgt: "."}
	if strings.Contains(stack, "bp:") {
		for _, p := range paths {
			if strings.HasPrefix(p, "/a/") {
				w.Paths = append(w.Paths, p[2:])
			}
		}
	}
	items = append(items, "snap "+tgt)
	for i := r.Range(5, 30); i > 0; i-- {
		w.Step()
	}
	items = append(items, w.Items...)
	items = append(items, "snap "+tgt)
	return items
}

func runC07(c *Ctx) {
	if c.From != nil {
		for _, cs := range c.From {
			t := strings.Fields(cs[0])
			c07Case(c, t[1], t[2], cs[1:len(cs)-1])
		}
		return
	}
	stacks := []string{"ro(mem)", "ro(mem)", "ro(bp:2f61(mem))", "ro(ro(mem))"}
	n := 700
	if c.Tier == "thorough" {
		n = 30000
	}
	// every single flag combination of the 12 O_* bits against one existing file
	k := 0
	step := 37
	if c.Tier == "thorough" {
		step = 1
	}
	for m := 0; m < 1<<12; m += step {
		f := 0
		for i, b := range flagBits {
			if m&(1<<i) != 0 {
				f |= b
			}
		}
		items := []string{"0 0 Create 2f66", "0 - HWrite 0 616263", "0 - HClose 0", "0 - Chtimes 2f66 1000000000", "0 - Chtimes 2f 1000000000",
			fmt.Sprintf(". 1 OpenFile 2f66 %d 420", f), ". - HWrite 1 7a7a", ". - HTruncate 1 1", ". - HWriteAt 1 79 0", ". - HWriteString 1 78", ". - HClose 1",
			fmt.Sprintf(". 2 OpenFile 2f6e6577 %d 420", f), "snap 0"}
		c07Case(c, fmt.Sprintf("fl%d", k), "ro(mem)", items)
		k++
	}
	c.Extra["flag_sweep"] = fmt.Sprintf("%d of 4096 combinations of 12 O_* bits (step %d)", k, step)
	mixedStackCases(c, []string{"ro(cow(mem,mem))", "ro(re:0(mem))", "ro(bp:2f64(cow(mem,mem)))", "ro(cow(ro(mem),mem))"}, map[bool]int{false: 120, true: 4000}[c.Tier == "thorough"], "ux")
	runOSBase(c, "C07")
	runC07OverUnion(c)
	runC07OddArguments(c)
	for i := 0; i < n; i++ {
		st := stacks[i%len(stacks)]
		items := genC07(c.Rng.Fork(), st)
		c07Case(c, fmt.Sprintf("r%d", i), st, items)
		if i < 2 {
			c.Sample("case " + st + ": " + strings.Join(items, " ; "))
		}
	}
}

// ReadOnlyFs over a source whose Open and OpenFile(O_RDONLY) are different code paths (a
// CopyOnWriteFs with a directory present in both layers): every read through the wrapper equals
// the same read on the source (oracle only)
func runC07OverUnion(c *Ctx) {
	base, layer := afero.NewMemMapFs(), afero.NewMemMapFs()
	afero.WriteFile(base, "/x/from-base.txt", []byte("B"), 0o644)
	afero.WriteFile(base, "/x/both.txt", []byte("base version"), 0o644)
	afero.WriteFile(layer, "/x/from-layer.txt", []byte("L"), 0o644)
	afero.WriteFile(layer, "/x/both.txt", []byte("layer"), 0o644)
	src := afero.NewCopyOnWriteFs(base, layer)
	n := 0
	for depth := 1; depth <= 2; depth++ {
		var w afero.Fs = src
		for i := 0; i < depth; i++ {
			w = afero.NewReadOnlyFs(w)
		}
		listing := func(fs afero.Fs, p string, how int) string {
			var f afero.File
			var err error
			if how == 0 {
				f, err = fs.Open(p)
			} else {
				f, err = fs.OpenFile(p, os.O_RDONLY, 0)
			}
			if err != nil {
				return "err:" + errClass(err)
			}
			defer f.Close()
			if how == 2 {
				fis, err := f.Readdir(-1)
				return listRes("infos", fisS(fis), len(fis), err)
			}
			names, err := f.Readdirnames(-1)
			return listRes("names", namesS(names), len(names), err)
		}
		for _, p := range []string{"/", "/x", "/x/both.txt", "/nope"} {
			for how := 0; how < 3; how++ {
				n++
				c.Count("overunion.listing")
				if got, want := listing(w, p, how), listing(src, p, how); got != want {
					c.Oracle("FAIL ou%d read-not-transparent:over-union name=%q how=%d (0 Open+Readdirnames, 1 OpenFile(O_RDONLY)+Readdirnames, 2 OpenFile+Readdir) depth=%d: through ReadOnlyFs %s, on the source %s", n, p, how, depth, got, want)
				}
			}
			gb, ge := afero.ReadFile(w, p)
			wb, we := afero.ReadFile(src, p)
			if string(gb) != string(wb) || errClass(ge) != errClass(we) {
				c.Oracle("FAIL ou%d read-not-transparent:over-union:ReadFile name=%q: %q,%v vs %q,%v", n, p, gb, ge, wb, we)
			}
		}
	}
	c.Extra["over_union"] = fmt.Sprintf("%d listings/reads through ReadOnlyFs over a CopyOnWriteFs with a directory in both layers (oracle only)", n)
}

// Modifying calls with arguments that are no-ops on some filesystems (zero times, mode 0, uid -1,
// empty names): through ReadOnlyFs every one of them is refused and the in-memory source,
// which stores whatever it is given, stays as it was (oracle only)
func runC07OddArguments(c *Ctx) {
	n := 0
	for depth := 1; depth <= 2; depth++ {
		src := afero.NewMemMapFs()
		afero.WriteFile(src, "/d/f", []byte("content"), 0o644)
		old := time.Unix(1000000000, 0)
		src.Chtimes("/d/f", old, old)
		src.Chtimes("/d", old, old)
		var w afero.Fs = src
		for i := 0; i < depth; i++ {
			w = afero.NewReadOnlyFs(w)
		}
		snap := func() string {
			es := afero.VerifDump(src)
			sort.Slice(es, func(i, j int) bool { return es[i].Path < es[j].Path })
			var b strings.Builder
			for _, e := range es {
				fmt.Fprintf(&b, "%s|%v|%x|%o|%d;", e.Path, e.Dir, e.Data, uint32(e.Mode), e.ModTime.UnixNano())
			}
			return b.String()
		}
		want := snap()
		calls := []struct {
			what string
			do   func() error
		}{
			{"Chtimes-zero", func() error { return w.Chtimes("/d/f", time.Time{}, time.Time{}) }},
			{"Chtimes-zero-dir", func() error { return w.Chtimes("/d", time.Time{}, time.Time{}) }},
			{"Chtimes-same", func() error { return w.Chtimes("/d/f", old, old) }},
			{"Chmod-zero", func() error { return w.Chmod("/d/f", 0) }},
			{"Chmod-same", func() error { return w.Chmod("/d/f", 0o644) }},
			{"Chown-minus-one", func() error { return w.Chown("/d/f", -1, -1) }},
			{"Rename-same", func() error { return w.Rename("/d/f", "/d/f") }},
			{"Remove-missing", func() error { return w.Remove("/nope") }},
			{"RemoveAll-missing", func() error { return w.RemoveAll("/nope") }},
			{"RemoveAll-empty-name", func() error { return w.RemoveAll("") }},
			{"MkdirAll-existing", func() error { return w.MkdirAll("/d", 0o755) }},
			{"Mkdir-existing", func() error { return w.Mkdir("/d", 0o755) }},
		}
		for _, cl := range calls {
			n++
			c.Count("oddargs." + cl.what)
			var err error
			func() {
				defer func() {
					if r := recover(); r != nil {
						err = fmt.Errorf("panic: %v", r)
					}
				}()
				err = cl.do()
			}()
			if err == nil {
				c.Oracle("FAIL oa%d modifier-succeeded:odd-arguments:%s %s through ReadOnlyFs (depth %d) returned nil", n, cl.what, cl.what, depth)
			}
			if got := snap(); got != want {
				c.Oracle("FAIL oa%d source-changed:odd-arguments:%s after %s through ReadOnlyFs (depth %d) the source is [%s], was [%s]", n, cl.what, cl.what, depth, got, want)
				want = got
			}
		}
	}
	// writes through handles from the wrapper, positioned where a write would "only" append (exactly at
	// the end of a file written once, whose buffer has spare capacity), in every spelling of a write
	for depth := 1; depth <= 2; depth++ {
		for _, size := range []int{0, 1, 5, 8, 9, 4096} {
			for _, open := range []string{"Open", "OpenFile"} {
				src := afero.NewMemMapFs()
				afero.WriteFile(src, "/f", bytes.Repeat([]byte("h"), size), 0o644)
				old := time.Unix(1000000000, 0)
				src.Chtimes("/f", old, old)
				var w afero.Fs = src
				for i := 0; i < depth; i++ {
					w = afero.NewReadOnlyFs(w)
				}
				var h afero.File
				var err error
				if open == "Open" {
					h, err = w.Open("/f")
				} else {
					h, err = w.OpenFile("/f", os.O_RDONLY, 0)
				}
				if err != nil {
					continue
				}
				for _, pos := range []int64{int64(size), 0, int64(size) / 2} {
					for wi, write := range []func() (int, error){
						func() (int, error) { h.Seek(pos, 0); return h.WriteString("ab") },
						func() (int, error) { h.Seek(pos, 0); return h.Write([]byte("ab")) },
						func() (int, error) { return h.WriteAt([]byte("ab"), pos) },
						func() (int, error) { h.Seek(pos, 0); return h.WriteString("a") },
						func() (int, error) { h.Seek(pos, 0); return 0, h.Truncate(int64(size)) },
					} {
						n++
						c.Count("oddargs.handle-write")
						k, werr := write()
						b, _ := afero.ReadFile(src, "/f")
						fi, _ := src.Stat("/f")
						if werr == nil || k != 0 || len(b) != size || fi == nil || !fi.ModTime().Equal(old) {
							c.Oracle("FAIL oa%d source-changed:handle-write-at-end write kind %d (0 WriteString 1 Write 2 WriteAt 3 WriteString of one byte 4 Truncate to the same size) at offset %d through a handle from ReadOnlyFs.%s (depth %d) over a %d-byte file: returned %d, %v; the source file now has %d bytes, mtime changed: %v", n, wi, pos, open, depth, size, k, werr, len(b), fi != nil && !fi.ModTime().Equal(old))
						}
					}
				}
				h.Close()
			}
		}
	}
	c.Extra["odd_arguments"] = fmt.Sprintf("%d modifying calls with no-op looking arguments (zero times, same values, missing names) through ReadOnlyFs over MemMapFs, and every spelling of a write through its handles at the end / start / middle of files of 0..4096 bytes: refused, source unchanged (oracle only)", n)
}
