package main

// consts: the translator half of the tie.  It parses the CURRENT sources of /repo and
// evaluates the integer constants the Coq theorems depend on, then (re)writes
// coq/Gen/Consts.v.  A pattern that is no longer found is an error (a broken tie).

import (
	"bytes"
	"fmt"
	"go/ast"
	"go/parser"
	"go/token"
	"os"
	"path/filepath"
	"strconv"
	"strings"
)

var osConsts = map[string]int64{
	"os.O_RDONLY": int64(os.O_RDONLY), "os.O_WRONLY": int64(os.O_WRONLY), "os.O_RDWR": int64(os.O_RDWR),
	"os.O_APPEND": int64(os.O_APPEND), "os.O_CREATE": int64(os.O_CREATE), "os.O_EXCL": int64(os.O_EXCL),
	"os.O_SYNC": int64(os.O_SYNC), "os.O_TRUNC": int64(os.O_TRUNC),
	"os.ModePerm": int64(os.ModePerm), "os.ModeSetuid": int64(os.ModeSetuid), "os.ModeSetgid": int64(os.ModeSetgid),
	"os.ModeSticky": int64(os.ModeSticky), "os.ModeDir": int64(os.ModeDir), "os.ModeTemporary": int64(os.ModeTemporary),
}

func evalConst(e ast.Expr) (int64, error) {
	switch x := e.(type) {
	case *ast.BasicLit:
		if x.Kind == token.INT {
			v, err := strconv.ParseInt(x.Value, 0, 64)
			return v, err
		}
		if x.Kind == token.FLOAT {
			f, err := strconv.ParseFloat(x.Value, 64)
			return int64(f), err
		}
	case *ast.ParenExpr:
		return evalConst(x.X)
	case *ast.SelectorExpr:
		if id, ok := x.X.(*ast.Ident); ok {
			if v, ok := osConsts[id.Name+"."+x.Sel.Name]; ok {
				return v, nil
			}
		}
	case *ast.BinaryExpr:
		a, err := evalConst(x.X)
		if err != nil {
			return 0, err
		}
		b, err := evalConst(x.Y)
		if err != nil {
			return 0, err
		}
		switch x.Op {
		case token.OR:
			return a | b, nil
		case token.AND:
			return a & b, nil
		case token.ADD:
			return a + b, nil
		case token.MUL:
			return a * b, nil
		case token.SUB:
			return a - b, nil
		}
	}
	return 0, fmt.Errorf("cannot evaluate constant expression %T", e)
}

type srcFile struct {
	fset *token.FileSet
	file *ast.File
}

func parseSrc(repo, rel string) (*srcFile, error) {
	fset := token.NewFileSet()
	f, err := parser.ParseFile(fset, filepath.Join(repo, rel), nil, 0)
	if err != nil {
		return nil, err
	}
	return &srcFile{fset, f}, nil
}

func (s *srcFile) fn(recv, name string) *ast.FuncDecl {
	for _, d := range s.file.Decls {
		fd, ok := d.(*ast.FuncDecl)
		if !ok || fd.Name.Name != name {
			continue
		}
		r := ""
		if fd.Recv != nil && len(fd.Recv.List) == 1 {
			switch t := fd.Recv.List[0].Type.(type) {
			case *ast.StarExpr:
				if id, ok := t.X.(*ast.Ident); ok {
					r = id.Name
				}
			case *ast.Ident:
				r = t.Name
			}
		}
		if r == recv {
			return fd
		}
	}
	return nil
}

// rhs of `name := <expr>` or `name = <expr>` inside fn
func assignRHS(fd *ast.FuncDecl, name string) ast.Expr {
	var out ast.Expr
	ast.Inspect(fd, func(n ast.Node) bool {
		if as, ok := n.(*ast.AssignStmt); ok && len(as.Lhs) == 1 && len(as.Rhs) == 1 {
			if id, ok := as.Lhs[0].(*ast.Ident); ok && id.Name == name && out == nil {
				out = as.Rhs[0]
			}
		}
		return true
	})
	return out
}

// the mask M of the first `flag&(M)` expression in fn
func flagMask(fd *ast.FuncDecl) ast.Expr {
	var out ast.Expr
	ast.Inspect(fd, func(n ast.Node) bool {
		if be, ok := n.(*ast.BinaryExpr); ok && be.Op == token.AND && out == nil {
			if id, ok := be.X.(*ast.Ident); ok && id.Name == "flag" {
				out = be.Y
			}
		}
		return true
	})
	return out
}

// second operand of  <ident> * <lit>  or <ident> / <lit>
func litOperand(e ast.Expr) (int64, error) {
	be, ok := e.(*ast.BinaryExpr)
	if !ok {
		return 0, fmt.Errorf("not a binary expression")
	}
	if v, err := evalConst(be.Y); err == nil {
		return v, nil
	}
	return evalConst(be.X)
}

type constEntry struct {
	name    string
	val     int64
	comment string
}

func genConsts(repo, out string) error {
	var cs []constEntry
	add := func(name string, v int64, comment string) { cs = append(cs, constEntry{name, v, comment}) }

	// util.go readerContainsAny: bufflen := largestSlice * F ; halflen := bufflen / D
	if u, err := parseSrc(repo, "util.go"); err != nil {
		return err
	} else {
		fd := u.fn("", "readerContainsAny")
		if fd == nil {
			return fmt.Errorf("util.go: func readerContainsAny not found")
		}
		bl := assignRHS(fd, "bufflen")
		hl := assignRHS(fd, "halflen")
		if bl == nil || hl == nil {
			return fmt.Errorf("util.go: bufflen/halflen assignments not found")
		}
		f, err := litOperand(bl)
		if err != nil {
			return fmt.Errorf("util.go: bufflen factor: %v", err)
		}
		d, err := litOperand(hl)
		if err != nil {
			return fmt.Errorf("util.go: halflen divisor: %v", err)
		}
		add("search_factor", f, "util.go readerContainsAny: bufflen := largestSlice * F")
		add("search_half_div", d, "util.go readerContainsAny: halflen := bufflen / D")
	}
	for _, extra := range extraConsts {
		if err := extra(repo, add); err != nil {
			return err
		}
	}

	var b bytes.Buffer
	b.WriteString("(* GENERATED from the current sources of /repo by `afcheck consts` — do not edit *)\n")
	b.WriteString("From Coq Require Import ZArith.\nLocal Open Scope Z_scope.\n")
	for _, c := range cs {
		v := strconv.FormatInt(c.val, 10)
		if c.val < 0 {
			v = "(" + v + ")"
		}
		fmt.Fprintf(&b, "(* %s *)\nDefinition %s : Z := %s.\n", strings.ReplaceAll(c.comment, "*)", "* )"), c.name, v)
	}
	old, _ := os.ReadFile(out)
	if bytes.Equal(old, b.Bytes()) {
		return nil
	}
	return os.WriteFile(out, b.Bytes(), 0o644)
}

// further extractors are registered by the files that need them
var extraConsts []func(repo string, add func(string, int64, string)) error
