package main

// consts: the translator half of the tie.  It parses the CURRENT sources of /repo and
// evaluates the integer constants the Coq theorems depend on, then (re)writes
// coq/Gen/Consts.v.  A pattern that is no longer found is an error (a broken tie).

import (
	"bytes"
	"fmt"
	"go/ast"
	"go/parser"
	"go/token"
	"os"
	"path/filepath"
	"strconv"
	"strings"
)

var osConsts = map[string]int64{
	"os.O_RDONLY": int64(os.O_RDONLY), "os.O_WRONLY": int64(os.O_WRONLY), "os.O_RDWR": int64(os.O_RDWR),
	"os.O_APPEND": int64(os.O_APPEND), "os.O_CREATE": int64(os.O_CREATE), "os.O_EXCL": int64(os.O_EXCL),
	"os.O_SYNC": int64(os.O_SYNC), "os.O_TRUNC": int64(os.O_TRUNC),
	"os.ModePerm": int64(os.ModePerm), "os.ModeSetuid": int64(os.ModeSetuid), "os.ModeSetgid": int64(os.ModeSetgid),
	"os.ModeSticky": int64(os.ModeSticky), "os.ModeDir": int64(os.ModeDir), "os.ModeTemporary": int64(os.ModeTemporary),
	"syscall.O_RDWR": int64(os.O_RDWR), "syscall.O_WRONLY": int64(os.O_WRONLY), "syscall.O_APPEND": int64(os.O_APPEND),
	"syscall.O_CREAT": int64(os.O_CREATE), "syscall.O_TRUNC": int64(os.O_TRUNC), "syscall.O_EXCL": int64(os.O_EXCL),
}

// package-level constants of the repository's root package (name -> defining expression), so
// that a mask moved into a named constant still evaluates (a harmless rewrite)
var pkgConsts = map[string]ast.Expr{}

func loadPkgConsts(repo string) {
	pkgConsts = map[string]ast.Expr{}
	files, _ := filepath.Glob(filepath.Join(repo, "*.go"))
	for _, f := range files {
		if strings.HasSuffix(f, "_test.go") {
			continue
		}
		af, err := parser.ParseFile(token.NewFileSet(), f, nil, 0)
		if err != nil {
			continue
		}
		for _, d := range af.Decls {
			gd, ok := d.(*ast.GenDecl)
			if !ok || gd.Tok != token.CONST {
				continue
			}
			for _, sp := range gd.Specs {
				vs := sp.(*ast.ValueSpec)
				for i, n := range vs.Names {
					if i < len(vs.Values) {
						pkgConsts[n.Name] = vs.Values[i]
					}
				}
			}
		}
	}
}

func evalConst(e ast.Expr) (int64, error) {
	switch x := e.(type) {
	case *ast.Ident:
		if def, ok := pkgConsts[x.Name]; ok {
			delete(pkgConsts, x.Name) // no cycles
			v, err := evalConst(def)
			pkgConsts[x.Name] = def
			return v, err
		}
	case *ast.CallExpr:
		// conversions such as os.FileMode(x) / int(x)
		if len(x.Args) == 1 {
			return evalConst(x.Args[0])
		}
	case *ast.BasicLit:
		if x.Kind == token.INT {
			v, err := strconv.ParseInt(x.Value, 0, 64)
			return v, err
		}
		if x.Kind == token.FLOAT {
			f, err := strconv.ParseFloat(x.Value, 64)
			return int64(f), err
		}
	case *ast.ParenExpr:
		return evalConst(x.X)
	case *ast.SelectorExpr:
		if id, ok := x.X.(*ast.Ident); ok {
			if v, ok := osConsts[id.Name+"."+x.Sel.Name]; ok {
				return v, nil
			}
		}
	case *ast.BinaryExpr:
		a, err := evalConst(x.X)
		if err != nil {
			return 0, err
		}
		b, err := evalConst(x.Y)
		if err != nil {
			return 0, err
		}
		switch x.Op {
		case token.OR:
			return a | b, nil
		case token.AND:
			return a & b, nil
		case token.ADD:
			return a + b, nil
		case token.MUL:
			return a * b, nil
		case token.SUB:
			return a - b, nil
		}
	}
	return 0, fmt.Errorf("cannot evaluate constant expression %T", e)
}

type srcFile struct {
	fset *token.FileSet
	file *ast.File
}

func parseSrc(repo, rel string) (*srcFile, error) {
	fset := token.NewFileSet()
	f, err := parser.ParseFile(fset, filepath.Join(repo, rel), nil, 0)
	if err != nil {
		return nil, err
	}
	return &srcFile{fset, f}, nil
}

func (s *srcFile) fn(recv, name string) *ast.FuncDecl {
	for _, d := range s.file.Decls {
		fd, ok := d.(*ast.FuncDecl)
		if !ok || fd.Name.Name != name {
			continue
		}
		r := ""
		if fd.Recv != nil && len(fd.Recv.List) == 1 {
			switch t := fd.Recv.List[0].Type.(type) {
			case *ast.StarExpr:
				if id, ok := t.X.(*ast.Ident); ok {
					r = id.Name
				}
			case *ast.Ident:
				r = t.Name
			}
		}
		if r == recv {
			return fd
		}
	}
	return nil
}

// rhs of `name := <expr>` or `name = <expr>` inside fn
func assignRHS(fd *ast.FuncDecl, name string) ast.Expr {
	var out ast.Expr
	ast.Inspect(fd, func(n ast.Node) bool {
		if as, ok := n.(*ast.AssignStmt); ok && len(as.Lhs) == 1 && len(as.Rhs) == 1 {
			if id, ok := as.Lhs[0].(*ast.Ident); ok && id.Name == name && out == nil {
				out = as.Rhs[0]
			}
		}
		return true
	})
	return out
}

// the mask M of the first `flag&(M)` expression in fn
func flagMask(fd *ast.FuncDecl) ast.Expr {
	var out ast.Expr
	ast.Inspect(fd, func(n ast.Node) bool {
		if be, ok := n.(*ast.BinaryExpr); ok && be.Op == token.AND && out == nil {
			if id, ok := be.X.(*ast.Ident); ok && id.Name == "flag" {
				out = be.Y
			}
		}
		return true
	})
	return out
}

// second operand of  <ident> * <lit>  or <ident> / <lit>
func litOperand(e ast.Expr) (int64, error) {
	be, ok := e.(*ast.BinaryExpr)
	if !ok {
		return 0, fmt.Errorf("not a binary expression")
	}
	if v, err := evalConst(be.Y); err == nil {
		return v, nil
	}
	return evalConst(be.X)
}

type constEntry struct {
	name    string
	val     int64
	comment string
}

func genConsts(repo, out string) error {
	loadPkgConsts(repo)
	var cs []constEntry
	add := func(name string, v int64, comment string) { cs = append(cs, constEntry{name, v, comment}) }

	// util.go readerContainsAny: bufflen := largestSlice * F ; halflen := bufflen / D
	if u, err := parseSrc(repo, "util.go"); err != nil {
		return err
	} else {
		fd := u.fn("", "readerContainsAny")
		if fd == nil {
			return fmt.Errorf("util.go: func readerContainsAny not found")
		}
		bl := assignRHS(fd, "bufflen")
		hl := assignRHS(fd, "halflen")
		if bl == nil || hl == nil {
			return fmt.Errorf("util.go: bufflen/halflen assignments not found")
		}
		f, err := litOperand(bl)
		if err != nil {
			return fmt.Errorf("util.go: bufflen factor: %v", err)
		}
		d, err := litOperand(hl)
		if err != nil {
			return fmt.Errorf("util.go: halflen divisor: %v", err)
		}
		add("search_factor", f, "util.go readerContainsAny: bufflen := largestSlice * F")
		add("search_half_div", d, "util.go readerContainsAny: halflen := bufflen / D")
	}
	for _, extra := range extraConsts {
		if err := extra(repo, add); err != nil {
			return err
		}
	}

	var b bytes.Buffer
	b.WriteString("(* GENERATED from the current sources of /repo by `afcheck consts` — do not edit *)\n")
	b.WriteString("From Coq Require Import ZArith.\nLocal Open Scope Z_scope.\n")
	for _, c := range cs {
		v := strconv.FormatInt(c.val, 10)
		if c.val < 0 {
			v = "(" + v + ")"
		}
		fmt.Fprintf(&b, "(* %s *)\nDefinition %s : Z := %s.\n", strings.ReplaceAll(c.comment, "*)", "* )"), c.name, v)
	}
	old, _ := os.ReadFile(out)
	if bytes.Equal(old, b.Bytes()) {
		return nil
	}
	return os.WriteFile(out, b.Bytes(), 0o644)
}

func init() { extraConsts = append(extraConsts, memfsConsts) }

// cond of the first `if <cond> { ... NewReadOnlyFileHandle ... }` in fn
func roHandleCond(fd *ast.FuncDecl) ast.Expr {
	var out ast.Expr
	ast.Inspect(fd, func(n ast.Node) bool {
		is, ok := n.(*ast.IfStmt)
		if !ok || out != nil {
			return true
		}
		found := false
		ast.Inspect(is.Body, func(m ast.Node) bool {
			if se, ok := m.(*ast.SelectorExpr); ok && se.Sel.Name == "NewReadOnlyFileHandle" {
				found = true
			}
			return true
		})
		if found {
			out = is.Cond
		}
		return true
	})
	return out
}

func memfsConsts(repo string, add func(string, int64, string)) error {
	for _, k := range []string{"O_RDONLY", "O_WRONLY", "O_RDWR", "O_APPEND", "O_CREATE", "O_EXCL", "O_SYNC", "O_TRUNC"} {
		add(strings.ToLower(k), osConsts["os."+k], "os."+k+" on the build platform")
	}
	add("mode_dir", osConsts["os.ModeDir"], "os.ModeDir")
	add("mode_temporary", osConsts["os.ModeTemporary"], "os.ModeTemporary")
	m, err := parseSrc(repo, "memmap.go")
	if err != nil {
		return err
	}
	// const chmodBits = ...
	found := false
	for _, d := range m.file.Decls {
		gd, ok := d.(*ast.GenDecl)
		if !ok || gd.Tok != token.CONST {
			continue
		}
		for _, sp := range gd.Specs {
			vs := sp.(*ast.ValueSpec)
			for i, n := range vs.Names {
				if n.Name == "chmodBits" && i < len(vs.Values) {
					v, err := evalConst(vs.Values[i])
					if err != nil {
						return fmt.Errorf("memmap.go: chmodBits: %v", err)
					}
					add("chmod_bits", v, "memmap.go const chmodBits")
					found = true
				}
			}
		}
	}
	if !found {
		return fmt.Errorf("memmap.go: const chmodBits not found")
	}
	// MemMapFs.OpenFile: the condition under which the handle is read-only.
	//   flag&(M) == 0          -> mask M
	//   flag == os.O_RDONLY    -> mask -1 (read-only only when no bit at all is set)
	fd := m.fn("MemMapFs", "OpenFile")
	if fd == nil {
		return fmt.Errorf("memmap.go: MemMapFs.OpenFile not found")
	}
	cond := roHandleCond(fd)
	be, ok := cond.(*ast.BinaryExpr)
	if cond == nil || !ok || be.Op != token.EQL {
		return fmt.Errorf("memmap.go: OpenFile: read-only handle condition not recognised")
	}
	if id, ok := be.X.(*ast.Ident); ok && id.Name == "flag" {
		if v, err := evalConst(be.Y); err == nil && v == 0 {
			add("memfs_access_mask", -1, "memmap.go OpenFile: read-only handle iff flag == os.O_RDONLY")
		} else {
			return fmt.Errorf("memmap.go: OpenFile: read-only handle condition not recognised")
		}
	} else if l, ok := be.X.(*ast.BinaryExpr); ok && l.Op == token.AND {
		v, err := evalConst(l.Y)
		z, err2 := evalConst(be.Y)
		if err != nil || err2 != nil || z != 0 {
			return fmt.Errorf("memmap.go: OpenFile: read-only handle condition not recognised")
		}
		add("memfs_access_mask", v, "memmap.go OpenFile: read-only handle iff flag&MASK == 0")
	} else {
		return fmt.Errorf("memmap.go: OpenFile: read-only handle condition not recognised")
	}
	// readonlyfs.go OpenFile write-flag mask
	if ro, err := parseSrc(repo, "readonlyfs.go"); err != nil {
		return err
	} else {
		fd := ro.fn("ReadOnlyFs", "OpenFile")
		if fd == nil {
			return fmt.Errorf("readonlyfs.go: ReadOnlyFs.OpenFile not found")
		}
		mk := flagMask(fd)
		if mk == nil {
			return fmt.Errorf("readonlyfs.go: OpenFile flag mask not found")
		}
		v, err := evalConst(mk)
		if err != nil {
			return fmt.Errorf("readonlyfs.go: OpenFile flag mask: %v", err)
		}
		add("readonly_mask", v, "readonlyfs.go OpenFile: EPERM iff flag&MASK != 0")
	}
	// mem/file.go FileInfo.Size: directory size literal
	f, err := parseSrc(repo, "mem/file.go")
	if err != nil {
		return err
	}
	sz := f.fn("FileInfo", "Size")
	if sz == nil {
		return fmt.Errorf("mem/file.go: FileInfo.Size not found")
	}
	var dirSize int64 = -1
	ast.Inspect(sz, func(n ast.Node) bool {
		if bl, ok := n.(*ast.BasicLit); ok && bl.Kind == token.INT && dirSize < 0 {
			dirSize, _ = strconv.ParseInt(bl.Value, 0, 64)
		}
		return true
	})
	if dirSize < 0 {
		return fmt.Errorf("mem/file.go: directory size literal not found")
	}
	add("dir_size", dirSize, "mem/file.go FileInfo.Size of a directory")
	return nil
}

// further extractors are registered by the files that need them
var extraConsts []func(repo string, add func(string, int64, string)) error
