package main

// constants for the TempFile/TempDir model (C18), read from the current sources of /repo/ioutil.go:
//   nextRandom:  r = r*MUL + ADD ;  strconv.Itoa(int(MOD + r%MOD))[1:]
//   TempFile / TempDir:  for i := 0; i < ATTEMPTS; i++ { ... if nconflict++; nconflict > AFTER { reseed } }
import (
	"fmt"
	"go/ast"
	"go/token"
)

func init() { extraConsts = append(extraConsts, tempConsts) }

func isIdent(e ast.Expr, name string) bool {
	id, ok := e.(*ast.Ident)
	return ok && id.Name == name
}

func tempLoopConsts(fd *ast.FuncDecl) (attempts, after int64, err error) {
	attempts, after = -1, -1
	ast.Inspect(fd, func(n ast.Node) bool {
		switch x := n.(type) {
		case *ast.ForStmt:
			if be, ok := x.Cond.(*ast.BinaryExpr); ok && be.Op == token.LSS && isIdent(be.X, "i") && attempts < 0 {
				if v, e := evalConst(be.Y); e == nil {
					attempts = v
				}
			}
		case *ast.IfStmt:
			if be, ok := x.Cond.(*ast.BinaryExpr); ok && be.Op == token.GTR && isIdent(be.X, "nconflict") && after < 0 {
				if _, ok := x.Init.(*ast.IncDecStmt); ok {
					if v, e := evalConst(be.Y); e == nil {
						after = v
					}
				}
			}
		}
		return true
	})
	if attempts < 0 || after < 0 {
		return 0, 0, fmt.Errorf("ioutil.go: %s: retry loop `for i := 0; i < N; i++ { ... if nconflict++; nconflict > K` not recognised", fd.Name.Name)
	}
	return attempts, after, nil
}

func tempConsts(repo string, add func(string, int64, string)) error {
	f, err := parseSrc(repo, "ioutil.go")
	if err != nil {
		return err
	}
	nr := f.fn("", "nextRandom")
	if nr == nil {
		return fmt.Errorf("ioutil.go: func nextRandom not found")
	}
	mul, inc, mod, base := int64(-1), int64(-1), int64(-1), int64(-1)
	ast.Inspect(nr, func(n ast.Node) bool {
		switch x := n.(type) {
		case *ast.AssignStmt:
			// r = r*MUL + ADD
			if len(x.Lhs) == 1 && len(x.Rhs) == 1 && isIdent(x.Lhs[0], "r") {
				if sum, ok := x.Rhs[0].(*ast.BinaryExpr); ok && sum.Op == token.ADD {
					if prod, ok := sum.X.(*ast.BinaryExpr); ok && prod.Op == token.MUL && isIdent(prod.X, "r") {
						m, e1 := evalConst(prod.Y)
						a, e2 := evalConst(sum.Y)
						if e1 == nil && e2 == nil {
							mul, inc = m, a
						}
					}
				}
			}
		case *ast.BinaryExpr:
			// MOD + r%MOD
			if x.Op == token.ADD {
				if rem, ok := x.Y.(*ast.BinaryExpr); ok && rem.Op == token.REM && isIdent(rem.X, "r") {
					b, e1 := evalConst(x.X)
					m, e2 := evalConst(rem.Y)
					if e1 == nil && e2 == nil {
						base, mod = b, m
					}
				}
			}
		}
		return true
	})
	if mul < 0 || inc < 0 {
		return fmt.Errorf("ioutil.go: nextRandom: `r = r*MUL + ADD` not recognised")
	}
	if mod < 0 || base != mod {
		return fmt.Errorf("ioutil.go: nextRandom: `MOD + r%%MOD` (same MOD twice) not recognised")
	}
	// the name must be a slice [1:] of an Itoa call
	sliced := false
	ast.Inspect(nr, func(n ast.Node) bool {
		if se, ok := n.(*ast.SliceExpr); ok && se.High == nil {
			if lo, e := evalConst(se.Low); e == nil && lo == 1 {
				if ce, ok := se.X.(*ast.CallExpr); ok {
					if fn, ok := ce.Fun.(*ast.SelectorExpr); ok && fn.Sel.Name == "Itoa" {
						sliced = true
					}
				}
			}
		}
		return true
	})
	if !sliced {
		return fmt.Errorf("ioutil.go: nextRandom: `strconv.Itoa(...)[1:]` not recognised")
	}
	add("temp_lcg_mul", mul, "ioutil.go nextRandom: r = r*MUL + ADD (uint32)")
	add("temp_lcg_add", inc, "ioutil.go nextRandom: r = r*MUL + ADD (uint32)")
	add("temp_mod", mod, "ioutil.go nextRandom: strconv.Itoa(int(MOD + r%MOD))[1:]")
	tf, td := f.fn("", "TempFile"), f.fn("", "TempDir")
	if tf == nil || td == nil {
		return fmt.Errorf("ioutil.go: TempFile / TempDir not found")
	}
	a1, k1, err := tempLoopConsts(tf)
	if err != nil {
		return err
	}
	a2, k2, err := tempLoopConsts(td)
	if err != nil {
		return err
	}
	if a1 != a2 || k1 != k2 {
		return fmt.Errorf("ioutil.go: TempFile and TempDir use different retry constants (%d/%d vs %d/%d): the model has one pair", a1, k1, a2, k2)
	}
	// does the function refuse a pattern that contains os.PathSeparator (as os.CreateTemp / os.MkdirTemp do)?
	mentionsSeparator := func(fd *ast.FuncDecl) bool {
		found := false
		ast.Inspect(fd, func(n ast.Node) bool {
			if se, ok := n.(*ast.SelectorExpr); ok && se.Sel.Name == "PathSeparator" {
				found = true
			}
			return true
		})
		return found
	}
	s1, s2 := mentionsSeparator(tf), mentionsSeparator(td)
	if s1 != s2 {
		return fmt.Errorf("ioutil.go: only one of TempFile / TempDir checks the pattern for os.PathSeparator: the model has one switch")
	}
	rej := int64(0)
	if s1 {
		rej = 1
	}
	add("temp_rejects_separator", rej, "ioutil.go TempFile/TempDir: 1 iff a pattern containing os.PathSeparator is refused before anything is created")
	add("temp_attempts", a1, "ioutil.go TempFile/TempDir: for i := 0; i < N; i++")
	add("temp_reseed_after", k1, "ioutil.go TempFile/TempDir: reseed when nconflict > K")
	return nil
}
