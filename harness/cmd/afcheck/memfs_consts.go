package main

// memfs_consts.go — behaviour switch memfs_refuses_below_file for coq/Model/MemFs.v, read from
// the CURRENT memmap.go: do Create, Mkdir, Rename and the creating path of OpenFile look up the
// nearest existing ancestor of the name first and answer ENOTDIR when it is a regular file?
// (Before that repair registerWithParent turned the regular file into a directory.)

import (
	"fmt"
	"go/ast"
	"go/token"
	"strings"
)

func init() { extraConsts = append(extraConsts, memfsBelowFileConsts) }

// position of the first call <x>.<method>(...) in fn for one of the given method names
func firstCallPos(fd *ast.FuncDecl, methods ...string) token.Pos {
	pos := token.NoPos
	ast.Inspect(fd, func(n ast.Node) bool {
		if ce, ok := n.(*ast.CallExpr); ok {
			if se, ok := ce.Fun.(*ast.SelectorExpr); ok {
				for _, m := range methods {
					if se.Sel.Name == m && (pos == token.NoPos || ce.Pos() < pos) {
						pos = ce.Pos()
					}
				}
			}
		}
		return true
	})
	return pos
}

func mentionsSelector(n ast.Node, name string) bool {
	found := false
	ast.Inspect(n, func(x ast.Node) bool {
		if se, ok := x.(*ast.SelectorExpr); ok && se.Sel.Name == name {
			found = true
		}
		return true
	})
	return found
}

// an ancestor walk: a method of MemMapFs returning bool whose body is a loop over filepath.Dir
// that looks the directory up and asks IsDir
func isAncestorWalk(h *ast.FuncDecl) bool {
	if h == nil || h.Type.Results == nil || len(h.Type.Results.List) != 1 {
		return false
	}
	if id, ok := h.Type.Results.List[0].Type.(*ast.Ident); !ok || id.Name != "bool" {
		return false
	}
	loop := false
	ast.Inspect(h, func(n ast.Node) bool {
		if _, ok := n.(*ast.ForStmt); ok {
			loop = true
		}
		return true
	})
	return loop && countMethodCalls(h, "Dir") > 0 && countMethodCalls(h, "IsDir") > 0 &&
		(countMethodCalls(h, "lockfreeOpen") > 0 || countMethodCalls(h, "getData") > 0)
}

// does fn hold, BEFORE its first call of one of `creators`,
//
//	if m.<walk>(..) { ... return ... ENOTDIR ... }
//
// with <walk> an ancestor walk of memmap.go?
func refusesBelowFile(m *srcFile, fd *ast.FuncDecl, creators ...string) bool {
	limit := firstCallPos(fd, creators...)
	if limit == token.NoPos {
		return false
	}
	found := false
	ast.Inspect(fd, func(n ast.Node) bool {
		is, ok := n.(*ast.IfStmt)
		if !ok || is.Pos() >= limit || is.Init != nil {
			return true
		}
		ce, ok := is.Cond.(*ast.CallExpr)
		if !ok {
			return true
		}
		se, ok := ce.Fun.(*ast.SelectorExpr)
		if !ok || !isAncestorWalk(m.fn("MemMapFs", se.Sel.Name)) {
			return true
		}
		for _, st := range is.Body.List {
			if rs, ok := st.(*ast.ReturnStmt); ok && mentionsSelector(rs, "ENOTDIR") {
				found = true
			}
		}
		return true
	})
	return found
}

func memfsBelowFileConsts(repo string, add func(string, int64, string)) error {
	m, err := parseSrc(repo, "memmap.go")
	if err != nil {
		return err
	}
	type site struct {
		method   string
		creators []string
	}
	sites := []site{
		{"Create", []string{"CreateFile"}},
		{"Mkdir", []string{"CreateDir"}},
		{"Rename", []string{"unRegisterWithParent", "ChangeFileName"}},
	}
	// the creating path of OpenFile: OpenFile itself or the method of MemMapFs it calls that
	// allocates the file (today openOrCreate); the old shape (a call of Create) is covered by Create
	of := m.fn("MemMapFs", "OpenFile")
	if of == nil {
		return fmt.Errorf("memmap.go: MemMapFs.OpenFile not found")
	}
	if countMethodCalls(of, "CreateFile") > 0 {
		sites = append(sites, site{"OpenFile", []string{"CreateFile"}})
	} else {
		helper := ""
		ast.Inspect(of, func(x ast.Node) bool {
			if ce, ok := x.(*ast.CallExpr); ok {
				if se, ok := ce.Fun.(*ast.SelectorExpr); ok {
					if h := m.fn("MemMapFs", se.Sel.Name); h != nil && h != of && se.Sel.Name != "Create" &&
						countMethodCalls(h, "CreateFile") > 0 {
						helper = se.Sel.Name
					}
				}
			}
			return true
		})
		if helper != "" {
			sites = append(sites, site{helper, []string{"CreateFile"}})
		} else if countMethodCalls(of, "Create") == 0 {
			return fmt.Errorf("memmap.go: OpenFile: the creating path (CreateFile, a helper allocating the file, or a call of Create) is not recognised")
		}
	}
	var with, without []string
	for _, s := range sites {
		fd := m.fn("MemMapFs", s.method)
		if fd == nil {
			return fmt.Errorf("memmap.go: MemMapFs.%s not found", s.method)
		}
		if firstCallPos(fd, s.creators...) == token.NoPos {
			return fmt.Errorf("memmap.go: %s: the creating call (%s) is not found; update Model/MemFs.v", s.method, strings.Join(s.creators, "/"))
		}
		if refusesBelowFile(m, fd, s.creators...) {
			with = append(with, s.method)
		} else {
			without = append(without, s.method)
		}
	}
	v := int64(0)
	if len(without) == 0 {
		v = 1
	}
	add("memfs_refuses_below_file", v, fmt.Sprintf(
		"memmap.go: 1 iff Create, Mkdir, Rename and the creating path of OpenFile all walk up to the nearest existing ancestor first and return ENOTDIR when it is a regular file (with the check: [%s]; without: [%s])",
		strings.Join(with, " "), strings.Join(without, " ")))
	return nil
}
