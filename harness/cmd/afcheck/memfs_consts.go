package main

// memfs_consts.go — behaviour switches memfs_refuses_below_file and
// memfs_rename_missing_source_enotdir (at the end of the file) for coq/Model/MemFs.v, read from
// the CURRENT memmap.go: do Create, Mkdir, Rename and the creating path of OpenFile look up the
// nearest existing ancestor of the name first and answer ENOTDIR when it is a regular file?
// (Before that repair registerWithParent turned the regular file into a directory.)

import (
	"fmt"
	"go/ast"
	"go/token"
	"strings"
)

func init() { extraConsts = append(extraConsts, memfsBelowFileConsts, memfsRenameMissingConsts) }

// position of the first call <x>.<method>(...) in fn for one of the given method names
func firstCallPos(fd *ast.FuncDecl, methods ...string) token.Pos {
	pos := token.NoPos
	ast.Inspect(fd, func(n ast.Node) bool {
		if ce, ok := n.(*ast.CallExpr); ok {
			if se, ok := ce.Fun.(*ast.SelectorExpr); ok {
				for _, m := range methods {
					if se.Sel.Name == m && (pos == token.NoPos || ce.Pos() < pos) {
						pos = ce.Pos()
					}
				}
			}
		}
		return true
	})
	return pos
}

func mentionsSelector(n ast.Node, name string) bool {
	found := false
	ast.Inspect(n, func(x ast.Node) bool {
		if se, ok := x.(*ast.SelectorExpr); ok && se.Sel.Name == name {
			found = true
		}
		return true
	})
	return found
}

// an ancestor walk: a method of MemMapFs returning bool whose body is a loop over filepath.Dir
// that looks the directory up and asks IsDir
func isAncestorWalk(h *ast.FuncDecl) bool {
	if h == nil || h.Type.Results == nil || len(h.Type.Results.List) != 1 {
		return false
	}
	if id, ok := h.Type.Results.List[0].Type.(*ast.Ident); !ok || id.Name != "bool" {
		return false
	}
	loop := false
	ast.Inspect(h, func(n ast.Node) bool {
		if _, ok := n.(*ast.ForStmt); ok {
			loop = true
		}
		return true
	})
	return loop && countMethodCalls(h, "Dir") > 0 && countMethodCalls(h, "IsDir") > 0 &&
		(countMethodCalls(h, "lockfreeOpen") > 0 || countMethodCalls(h, "getData") > 0)
}

// does fn hold, BEFORE its first call of one of `creators`,
//
//	if m.<walk>(..) { ... return ... ENOTDIR ... }
//
// with <walk> an ancestor walk of memmap.go?
func refusesBelowFile(m *srcFile, fd *ast.FuncDecl, creators ...string) bool {
	limit := firstCallPos(fd, creators...)
	if limit == token.NoPos {
		return false
	}
	found := false
	ast.Inspect(fd, func(n ast.Node) bool {
		is, ok := n.(*ast.IfStmt)
		if !ok || is.Pos() >= limit || is.Init != nil {
			return true
		}
		ce, ok := is.Cond.(*ast.CallExpr)
		if !ok {
			return true
		}
		se, ok := ce.Fun.(*ast.SelectorExpr)
		if !ok || !isAncestorWalk(m.fn("MemMapFs", se.Sel.Name)) {
			return true
		}
		for _, st := range is.Body.List {
			if rs, ok := st.(*ast.ReturnStmt); ok && mentionsSelector(rs, "ENOTDIR") {
				found = true
			}
		}
		return true
	})
	return found
}

func memfsBelowFileConsts(repo string, add func(string, int64, string)) error {
	m, err := parseSrc(repo, "memmap.go")
	if err != nil {
		return err
	}
	type site struct {
		method   string
		creators []string
	}
	sites := []site{
		{"Create", []string{"CreateFile"}},
		{"Mkdir", []string{"CreateDir"}},
		{"Rename", []string{"unRegisterWithParent", "ChangeFileName"}},
	}
	// the creating path of OpenFile: OpenFile itself or the method of MemMapFs it calls that
	// allocates the file (today openOrCreate); the old shape (a call of Create) is covered by Create
	of := m.fn("MemMapFs", "OpenFile")
	if of == nil {
		return fmt.Errorf("memmap.go: MemMapFs.OpenFile not found")
	}
	if countMethodCalls(of, "CreateFile") > 0 {
		sites = append(sites, site{"OpenFile", []string{"CreateFile"}})
	} else {
		helper := ""
		ast.Inspect(of, func(x ast.Node) bool {
			if ce, ok := x.(*ast.CallExpr); ok {
				if se, ok := ce.Fun.(*ast.SelectorExpr); ok {
					if h := m.fn("MemMapFs", se.Sel.Name); h != nil && h != of && se.Sel.Name != "Create" &&
						countMethodCalls(h, "CreateFile") > 0 {
						helper = se.Sel.Name
					}
				}
			}
			return true
		})
		if helper != "" {
			sites = append(sites, site{helper, []string{"CreateFile"}})
		} else if countMethodCalls(of, "Create") == 0 {
			return fmt.Errorf("memmap.go: OpenFile: the creating path (CreateFile, a helper allocating the file, or a call of Create) is not recognised")
		}
	}
	var with, without []string
	for _, s := range sites {
		fd := m.fn("MemMapFs", s.method)
		if fd == nil {
			return fmt.Errorf("memmap.go: MemMapFs.%s not found", s.method)
		}
		if firstCallPos(fd, s.creators...) == token.NoPos {
			return fmt.Errorf("memmap.go: %s: the creating call (%s) is not found; update Model/MemFs.v", s.method, strings.Join(s.creators, "/"))
		}
		if refusesBelowFile(m, fd, s.creators...) {
			with = append(with, s.method)
		} else {
			without = append(without, s.method)
		}
	}
	v := int64(0)
	if len(without) == 0 {
		v = 1
	}
	add("memfs_refuses_below_file", v, fmt.Sprintf(
		"memmap.go: 1 iff Create, Mkdir, Rename and the creating path of OpenFile all walk up to the nearest existing ancestor first and return ENOTDIR when it is a regular file (with the check: [%s]; without: [%s])",
		strings.Join(with, " "), strings.Join(without, " ")))
	return nil
}

// ---- memfs_rename_missing_source_enotdir ----
// Rename's branch for a MISSING source: the top-level
//
//	if _, ok := m.getData()[oldname]; ok { ... } else { <branch> }
//
// 0: <branch> = return ... ErrFileNotFound                                   (the code before the repair)
// 1: <branch> = if d, err := m.lockfreeOpen(filepath.Dir(oldname));
//	               err == nil && <..d..>.IsDir() && m.<ancestor walk>(newname) { return ... ENOTDIR }
//	           return ... ErrFileNotFound
// (the directory of the source is there and the target lies below a regular file: ENOTDIR, as
// rename(2) answers).  Every other shape is an error: update Model/MemFs.v m_rename.

func flattenAnd(e ast.Expr) []ast.Expr {
	if p, ok := e.(*ast.ParenExpr); ok {
		return flattenAnd(p.X)
	}
	if b, ok := e.(*ast.BinaryExpr); ok && b.Op == token.LAND {
		return append(flattenAnd(b.X), flattenAnd(b.Y)...)
	}
	return []ast.Expr{e}
}

func isCallOf(e ast.Expr, sel string) (*ast.CallExpr, bool) {
	ce, ok := e.(*ast.CallExpr)
	if !ok {
		return nil, false
	}
	se, ok := ce.Fun.(*ast.SelectorExpr)
	return ce, ok && se.Sel.Name == sel
}

func memfsRenameMissingConsts(repo string, add func(string, int64, string)) error {
	m, err := parseSrc(repo, "memmap.go")
	if err != nil {
		return err
	}
	fd := m.fn("MemMapFs", "Rename")
	if fd == nil || fd.Type.Params == nil || len(fd.Type.Params.List) == 0 {
		return fmt.Errorf("memmap.go: MemMapFs.Rename not found")
	}
	var params []string
	for _, f := range fd.Type.Params.List {
		for _, n := range f.Names {
			params = append(params, n.Name)
		}
	}
	if len(params) != 2 {
		return fmt.Errorf("memmap.go: Rename: two parameters expected")
	}
	oldname, newname := params[0], params[1]
	// the top-level lookup of the source
	var top *ast.IfStmt
	for _, st := range fd.Body.List {
		is, ok := st.(*ast.IfStmt)
		if !ok || is.Init == nil {
			continue
		}
		as, ok := is.Init.(*ast.AssignStmt)
		if !ok || len(as.Rhs) != 1 || len(as.Lhs) != 2 {
			continue
		}
		ix, ok := as.Rhs[0].(*ast.IndexExpr)
		if !ok || !mentionsIdent(ix.Index, oldname) {
			continue
		}
		if _, ok := isCallOf(ix.X, "getData"); !ok {
			continue
		}
		okName, ok := as.Lhs[1].(*ast.Ident)
		if c, ok2 := is.Cond.(*ast.Ident); !ok || !ok2 || c.Name != okName.Name {
			continue
		}
		if top != nil {
			return fmt.Errorf("memmap.go: Rename: more than one top-level lookup of the source")
		}
		top = is
	}
	if top == nil {
		return fmt.Errorf("memmap.go: Rename: the top-level `if _, ok := m.getData()[%s]; ok` is not found; update Model/MemFs.v m_rename", oldname)
	}
	els, ok := top.Else.(*ast.BlockStmt)
	if !ok || len(els.List) == 0 {
		return fmt.Errorf("memmap.go: Rename: the branch for a missing source is not a block; update Model/MemFs.v m_rename")
	}
	last, ok := els.List[len(els.List)-1].(*ast.ReturnStmt)
	if !ok || !mentionsIdent(last, "ErrFileNotFound") {
		return fmt.Errorf("memmap.go: Rename: the branch for a missing source does not end in `return ... ErrFileNotFound`; update Model/MemFs.v m_rename")
	}
	switch len(els.List) {
	case 1:
		add("memfs_rename_missing_source_enotdir", 0, "memmap.go: Rename of a missing source answers ErrFileNotFound whatever the target (1 = ENOTDIR when the directory of the source is a directory and the target lies below a regular file)")
		return nil
	case 2:
		is, ok := els.List[0].(*ast.IfStmt)
		bad := func(what string) error {
			return fmt.Errorf("memmap.go: Rename, missing source: %s; update Model/MemFs.v m_rename", what)
		}
		if !ok || is.Else != nil {
			return bad("the statement before the ErrFileNotFound return is not a plain if")
		}
		as, ok := is.Init.(*ast.AssignStmt)
		if !ok || len(as.Lhs) != 2 || len(as.Rhs) != 1 {
			return bad("the if has no `d, err := ...` initialiser")
		}
		dId, ok1 := as.Lhs[0].(*ast.Ident)
		eId, ok2 := as.Lhs[1].(*ast.Ident)
		open, ok3 := isCallOf(as.Rhs[0], "lockfreeOpen")
		if !ok1 || !ok2 || !ok3 || len(open.Args) != 1 {
			return bad("the initialiser is not `d, err := m.lockfreeOpen(...)`")
		}
		dir, ok := isCallOf(open.Args[0], "Dir")
		if !ok || len(dir.Args) != 1 {
			return bad("lockfreeOpen is not given filepath.Dir(" + oldname + ")")
		}
		if id, ok := dir.Args[0].(*ast.Ident); !ok || id.Name != oldname {
			return bad("lockfreeOpen is not given filepath.Dir(" + oldname + ")")
		}
		conj := flattenAnd(is.Cond)
		if len(conj) != 3 {
			return bad("the condition is not a conjunction of three tests")
		}
		var errNil, isDir, walk bool
		for _, c := range conj {
			if b, ok := c.(*ast.BinaryExpr); ok && b.Op == token.EQL {
				x, okx := b.X.(*ast.Ident)
				y, oky := b.Y.(*ast.Ident)
				if okx && oky && x.Name == eId.Name && y.Name == "nil" {
					errNil = true
				}
				continue
			}
			if ce, ok := isCallOf(c, "IsDir"); ok && len(ce.Args) == 0 && mentionsIdent(ce.Fun, dId.Name) {
				isDir = true
				continue
			}
			if ce, ok := c.(*ast.CallExpr); ok {
				if se, ok := ce.Fun.(*ast.SelectorExpr); ok && isAncestorWalk(m.fn("MemMapFs", se.Sel.Name)) && len(ce.Args) == 1 {
					if id, ok := ce.Args[0].(*ast.Ident); ok && id.Name == newname {
						walk = true
					}
				}
			}
		}
		if !errNil || !isDir || !walk {
			return bad(fmt.Sprintf("the condition is not `err == nil && <d>.IsDir() && m.<ancestor walk>(%s)` (err==nil:%v IsDir:%v walk:%v)", newname, errNil, isDir, walk))
		}
		if len(is.Body.List) != 1 {
			return bad("the body of the if is not a single return")
		}
		if rs, ok := is.Body.List[0].(*ast.ReturnStmt); !ok || !mentionsSelector(rs, "ENOTDIR") {
			return bad("the body of the if does not return ENOTDIR")
		}
		add("memfs_rename_missing_source_enotdir", 1, "memmap.go: Rename of a missing source answers ENOTDIR when the directory of the source is a directory and the target lies below a regular file (0 = ErrFileNotFound whatever the target)")
		return nil
	}
	return fmt.Errorf("memmap.go: Rename: the branch for a missing source has %d statements (1 or 2 expected); update Model/MemFs.v m_rename", len(els.List))
}
