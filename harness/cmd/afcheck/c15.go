package main

// C15 — io/fs adapters: afero.NewIOFS(x) passes the io/fs conformance rules, afero.FromIOFS shows the
// same tree and rejects every mutation.
//
// CONVENTION (how an afero filesystem becomes an io/fs filesystem).  io/fs names are unrooted ("a/b",
// root "."), afero's MemMapFs is rooted at "/" and has no working directory: the key "a" is not the key
// "/a".  The wrapped filesystem is therefore ALWAYS
//        afero.NewIOFS(afero.NewBasePathFs(x, "/"))          (== afero.NewIOFS(x).Sub("/"))
// BasePathFs joins the unrooted name onto its base the way the kernel joins it onto the working
// directory; "." becomes "/".  The stack descriptor of a case spells that out: bp:2f(<x>).  One extra
// stack kind, "memrel", is a bare MemMapFs whose tree was created under relative names (MemMapFs
// resolves their parents to "/"); it is the only way mem.File.ReadDir is reached without a wrapper.
//
// Case kind (block):
//   iocase <id> <stack> <tree>
//   <setup items in the item language of interp.go: "<target> <slot|-> <Op> <args>">
//   q <query>                       one result line "<id>#<n>" per query (n = index among the q lines)
//   end
//   tree  ::= F<size>[@w] | D[@w][<name hex>=<tree>,...]     w = b|l|x: on the base / the layer / both
//                                                             layers of the (single) CopyOnWriteFs
//   file content is a function of (visible path, size): ioContent; the copy on the base of a file that
//   is on both layers holds other bytes of another length.
//   query ::= fstest | open N | readdir N | page N <n,n,..> | readfile N | read N <chunk> | readat N <off> <n>
//           | seek N <pre> <off> <whence> <n> | stat N | glob P | sub D <open|readdir|readfile|stat|glob> N
//           | from <stat|open|readfile|readdir|names> N | from mut <Op> N | from hmut N <HOp>       (N, P, D hex)
// Canonical results: see the ioX functions.  Oracles (Go side, against the KNOWN tree and the generic
// io/fs helpers on a wrapper that hides every optional interface; never against the model):
//   fstest:<stack kind>:<first error line, normalised>      testing/fstest.TestFS
//   invalid-accepted:<Method>                               a name with !fs.ValidPath(name) is served
//   open:* readdir:* paging:* readfile:* read:* readat:* seek:* stat:* glob:* sub:*   direct clause checks
//   fromiofs:<what>                                         FromIOFS differs from x / lets a mutation through

import (
	"errors"
	"fmt"
	"io"
	"io/fs"
	"os"
	"path"
	"path/filepath"
	"regexp"
	"sort"
	"strconv"
	"strings"
	"testing/fstest"
	"time"

	"github.com/spf13/afero"
)

func init() { props["C15"] = runC15 }

// ---------------------------------------------------------------- trees
type ioTree struct {
	dir   bool
	size  int
	where byte // 0, 'b', 'l', 'x'; 'k' = directory in the layer over a regular file of the base
	kids  []ioKid
}
type ioKid struct {
	name string
	t    *ioTree
}

func (t *ioTree) enc(b *strings.Builder) {
	w := ""
	if t.where != 0 {
		w = "@" + string(t.where)
	}
	if !t.dir {
		fmt.Fprintf(b, "F%d%s", t.size, w)
		return
	}
	b.WriteString("D" + w + "[")
	for i, k := range t.kids {
		if i > 0 {
			b.WriteByte(',')
		}
		b.WriteString(hx([]byte(k.name)))
		b.WriteByte('=')
		k.t.enc(b)
	}
	b.WriteByte(']')
}
func (t *ioTree) String() string { var b strings.Builder; t.enc(&b); return b.String() }

func ioParseTree(s string) *ioTree {
	pos := 0
	where := func() byte {
		if pos < len(s) && s[pos] == '@' {
			pos += 2
			return s[pos-1]
		}
		return 0
	}
	var rec func() *ioTree
	rec = func() *ioTree {
		switch s[pos] {
		case 'F':
			pos++
			st := pos
			for pos < len(s) && s[pos] >= '0' && s[pos] <= '9' {
				pos++
			}
			t := &ioTree{size: atoi(s[st:pos])}
			t.where = where()
			return t
		case 'D':
			pos++
			t := &ioTree{dir: true}
			t.where = where()
			if s[pos] != '[' {
				panic("bad tree " + s)
			}
			pos++
			if s[pos] == ']' {
				pos++
				return t
			}
			for {
				st := pos
				for s[pos] != '=' {
					pos++
				}
				name := string(unhx(s[st:pos]))
				pos++
				t.kids = append(t.kids, ioKid{name, rec()})
				if s[pos] == ',' {
					pos++
					continue
				}
				if s[pos] != ']' {
					panic("bad tree " + s)
				}
				pos++
				return t
			}
		}
		panic("bad tree " + s)
	}
	t := rec()
	if pos != len(s) {
		panic("bad tree (trailing) " + s)
	}
	return t
}

// content of the visible file at io/fs path p
func ioContent(p string, size int) []byte {
	b := make([]byte, size)
	h := fnv(p)
	for i := range b {
		b[i] = byte((h + uint32(i)*7 + uint32(i/251)) % 251)
	}
	return b
}

// ---------------------------------------------------------------- the visible tree (what the property is judged against)
type ioEnt struct {
	dir  bool
	data []byte
	kids []string // sorted
}
type ioVis map[string]*ioEnt // io/fs path ("." = root) -> entry

func ioJoin(d, n string) string {
	if d == "." {
		return n
	}
	return d + "/" + n
}

// hidden(name) = a RegexpFs in the stack hides the file
func (t *ioTree) visible(p string, hidden func(string) bool, v ioVis) {
	if !t.dir {
		v[p] = &ioEnt{data: ioContent(p, t.size)}
		return
	}
	e := &ioEnt{dir: true}
	v[p] = e
	for _, k := range t.kids {
		if !k.t.dir && hidden(k.name) {
			continue
		}
		e.kids = append(e.kids, k.name)
		k.t.visible(ioJoin(p, k.name), hidden, v)
	}
	sort.Strings(e.kids)
}

func (v ioVis) sub(dir string) ioVis {
	out := ioVis{}
	for p, e := range v {
		switch {
		case dir == ".":
			out[p] = e
		case p == dir:
			out["."] = e
		case strings.HasPrefix(p, dir+"/"):
			out[p[len(dir)+1:]] = e
		}
	}
	return out
}

func (v ioVis) paths() []string {
	ps := make([]string, 0, len(v))
	for p := range v {
		ps = append(ps, p)
	}
	sort.Strings(ps)
	return ps
}

// ---------------------------------------------------------------- stacks
type ioLeaf struct {
	tgt    string
	prefix string // mem path of the visible root ("" = "/")
	role   byte   // 0 | 'b' | 'l'
	rel    bool   // memrel: relative names
}

type ioStackInfo struct {
	desc   string
	kind   string
	leaves []ioLeaf
	re     int // -1 = none
	cow    bool
}

func ioAnalyse(desc string) *ioStackInfo {
	si := &ioStackInfo{desc: desc, re: -1}
	top := parseStack(desc)
	var kinds []string
	var walk func(l *Layer, tgt, prefix string, role byte)
	walk = func(l *Layer, tgt, prefix string, role byte) {
		switch l.Kind {
		case "mem":
			t := tgt
			if t == "" {
				t = "."
			}
			si.leaves = append(si.leaves, ioLeaf{tgt: t, prefix: prefix, role: role})
		case "ro":
			kinds = append(kinds, "ro")
			walk(l.Kids[0], tgt+"0", prefix, role)
		case "re":
			kinds = append(kinds, "re")
			si.re = atoi(l.Arg)
			walk(l.Kids[0], tgt+"0", prefix, role)
		case "bp":
			base := path.Clean("/" + string(unhx(l.Arg)))
			if base != "/" {
				kinds = append(kinds, "bp")
				prefix = base + prefix
			}
			walk(l.Kids[0], tgt+"0", prefix, role)
		case "cow":
			if si.cow {
				panic("C15: one CopyOnWriteFs per stack")
			}
			si.cow = true
			kinds = append(kinds, "cow")
			walk(l.Kids[0], tgt+"0", prefix, 'b')
			walk(l.Kids[1], tgt+"1", prefix, 'l')
		default:
			panic("C15: stack element " + l.Kind)
		}
	}
	walk(top, "", "", 0)
	if desc == "mem" {
		si.kind = "memrel"
		si.leaves[0].rel = true
	} else if len(kinds) == 0 {
		si.kind = "mem"
	} else {
		si.kind = strings.Join(kinds, "-")
	}
	return si
}

var ioRegexps = []*regexp.Regexp{}

func (si *ioStackInfo) hidden(name string) bool {
	if si.re < 0 {
		return false
	}
	for len(ioRegexps) < len(RegexpPatterns) {
		ioRegexps = append(ioRegexps, regexp.MustCompile(RegexpPatterns[len(ioRegexps)]))
	}
	return !ioRegexps[si.re].MatchString(name)
}

// the setup items that create the tree on the leaves of the stack
func (si *ioStackInfo) setup(t *ioTree) []string {
	var items []string
	slot := 0
	emit := func(l ioLeaf, s string, f string, a ...any) {
		items = append(items, l.tgt+" "+s+" "+fmt.Sprintf(f, a...))
	}
	for _, l := range si.leaves {
		var rec func(t *ioTree, vp string)
		rec = func(t *ioTree, vp string) { // vp = io/fs path of the node
			on := l.role == 0 || t.where == 'x' || t.where == l.role || t.where == 0 || (t.where == 'k' && l.role == 'l')
			if t.where == 'k' && l.role == 'b' {
				on = true
			}
			if !on {
				return
			}
			mp := l.prefix
			if vp != "." {
				mp = l.prefix + "/" + vp
			}
			if mp == "" {
				mp = "/"
			}
			if l.rel {
				mp = vp
			}
			if !t.dir {
				data := ioContent(vp, t.size)
				if t.where == 'x' && l.role == 'b' {
					data = ioContent(vp+"#base", t.size+3)
				}
				emit(l, fmt.Sprint(slot), "OpenFile %s 578 420", hx([]byte(mp)))
				if len(data) > 0 {
					emit(l, "-", "HWrite %d %s", slot, hx(data))
				}
				emit(l, "-", "HClose %d", slot)
				slot++
				return
			}
			if t.where == 'k' && l.role == 'b' {
				emit(l, fmt.Sprint(slot), "OpenFile %s 578 420", hx([]byte(mp)))
				emit(l, "-", "HWrite %d %s", slot, hx([]byte("a file in the base")))
				emit(l, "-", "HClose %d", slot)
				slot++
				return
			}
			if !(l.rel && vp == ".") && mp != "/" {
				emit(l, "-", "MkdirAll %s 493", hx([]byte(mp)))
			}
			for _, k := range t.kids {
				rec(k.t, ioJoin(vp, k.name))
			}
		}
		rec(t, ".")
		if l.prefix != "" { // noise next to the base path: must stay invisible
			emit(l, fmt.Sprint(slot), "OpenFile %s 578 420", hx([]byte(l.prefix+"2/zz")))
			emit(l, "-", "HWrite %d %s", slot, hx([]byte("outside")))
			emit(l, "-", "HClose %d", slot)
			slot++
		}
	}
	return items
}

// ---------------------------------------------------------------- canonical pieces
func ioDatS(b []byte) string {
	if len(b) <= 16 {
		return hx(b)
	}
	h := uint32(2166136261)
	for _, c := range b {
		h = (h ^ uint32(c)) * 16777619
	}
	return fmt.Sprintf("#%d:%08x", len(b), h)
}

func ioErr(err error) string { return "err:" + errClass(err) }

func ioEntsS(l []fs.DirEntry) string {
	parts := make([]string, len(l))
	for i, e := range l {
		k := "f"
		if e.IsDir() {
			k = "d"
		}
		parts[i] = hx([]byte(e.Name())) + "|" + k
	}
	if len(parts) == 0 {
		return "-"
	}
	return strings.Join(parts, ",")
}

func ioInfoS(fi fs.FileInfo) string {
	k, size := "f", fmt.Sprint(fi.Size())
	if fi.IsDir() {
		k, size = "d", "-"
	}
	return fmt.Sprintf("info:%s|%s|%s|%d", hx([]byte(fi.Name())), k, size, uint32(fi.Mode()))
}

// hides every optional interface of an fs.FS: the generic helpers of io/fs take their fallback paths
type ioOnly struct{ f fs.FS }

func (o ioOnly) Open(name string) (fs.File, error) { return o.f.Open(name) }

// ---------------------------------------------------------------- one filesystem under test
type ioWorld struct {
	c      *Ctx
	id     string
	kind   string
	x      afero.Fs   // the afero filesystem IOFS wraps (incl. the bp:/ of the convention)
	io     afero.IOFS // afero.NewIOFS(x)
	gen    fs.FS      // generic reference: ioOnly{io}, or fs.Sub(ioOnly{io}, dir)
	vis    ioVis
	tag    string // "sub:" inside a Sub
	enc    string
	desc   string
	mute   bool // results only, no oracle (below an invalid Sub directory nothing is known)
	note   string
	noRoot bool // a Sub of a directory that does not exist
}

func (w *ioWorld) fail(sig, format string, a ...any) {
	if w.mute {
		return
	}
	tag := w.tag
	switch {
	case strings.HasPrefix(sig, "invalid-accepted:"):
		tag = "" // one signature per method, inside a Sub or not
	case tag == "sub-dot:":
		// IOFS.Sub(".") is one defect (the BasePathFs it builds rejects every name but "."): one signature
		tag, sig = "", "sub:dot-rejects-names"
	}
	w.c.Oracle("FAIL %s %s%s stack=%s tree=%s %s%s", w.id, tag, sig, w.desc, w.enc, w.note, fmt.Sprintf(format, a...))
}

func ioInvalidClassOK(err error) bool {
	cl := errClass(err)
	return cl == "Invalid" || cl == "NotExist"
}

func (w *ioWorld) qOpen(name string) string {
	f, err := w.io.Open(name)
	res := ""
	isDir := false
	if err != nil {
		res = ioErr(err)
	} else {
		fi, serr := f.Stat()
		if serr != nil {
			res = "ok:staterr"
		} else if isDir = fi.IsDir(); isDir {
			res = "ok:d"
		} else {
			res = "ok:f"
		}
		f.Close()
	}
	e, known := w.vis[name]
	switch {
	case !fs.ValidPath(name):
		if err == nil {
			w.fail("invalid-accepted:Open", "Open(%q) succeeded", name)
		} else if !ioInvalidClassOK(err) {
			w.fail("invalid-wrongclass:Open", "Open(%q) = %v", name, err)
		}
	case known && err != nil:
		w.fail("open:missing", "Open(%q) = %v, the tree has it", name, err)
	case known && e.dir != isDir:
		w.fail("open:kind", "Open(%q) isDir=%v, want %v", name, isDir, e.dir)
	case !known && err == nil:
		w.fail("open:ghost", "Open(%q) succeeded, not in the tree", name)
	case !known && errClass(err) != "NotExist" && errClass(err) != "NotDir":
		w.fail("open:errclass", "Open(%q) = %v, want not-exist", name, err)
	}
	return res
}

func (w *ioWorld) expectEnts(name string) (string, bool) {
	e, ok := w.vis[name]
	if !ok || !e.dir {
		return "", false
	}
	parts := make([]string, len(e.kids))
	for i, k := range e.kids {
		kk := "f"
		if w.vis[ioJoin(name, k)].dir {
			kk = "d"
		}
		parts[i] = hx([]byte(k)) + "|" + kk
	}
	if len(parts) == 0 {
		return "-", true
	}
	return strings.Join(parts, ","), true
}

func (w *ioWorld) qReadDir(name string) string {
	ents, err := w.io.ReadDir(name)
	res := ""
	if err != nil {
		res = ioErr(err)
	} else {
		res = "ents:" + ioEntsS(ents)
	}
	if !fs.ValidPath(name) {
		if err == nil {
			w.fail("invalid-accepted:ReadDir", "ReadDir(%q) succeeded: %s", name, res)
		}
		return res
	}
	want, isDir := w.expectEnts(name)
	if isDir {
		if err != nil {
			w.fail("readdir:error", "ReadDir(%q) = %v", name, err)
		} else if got := ioEntsS(ents); got != want {
			sorted := sort.SliceIsSorted(ents, func(i, j int) bool { return ents[i].Name() < ents[j].Name() })
			sig := "readdir:content"
			if !sorted {
				sig = "readdir:order"
			}
			w.fail(sig, "ReadDir(%q) = %s, want %s", name, got, want)
		}
	} else if err == nil {
		w.fail("readdir:not-a-dir", "ReadDir(%q) succeeded: %s", name, res)
	}
	if w.gen != nil {
		gl, gerr := fs.ReadDir(w.gen, name)
		if (gerr == nil) != (err == nil) || (err == nil && ioEntsS(gl) != ioEntsS(ents)) {
			w.fail("readdir:generic", "ReadDir(%q) = %s, fs.ReadDir over Open = %s %v", name, res, ioEntsS(gl), gerr)
		}
	}
	return res
}

func (w *ioWorld) qPage(name string, sizes []int) string {
	f, err := w.io.Open(name)
	if err != nil {
		return ioErr(err)
	}
	defer f.Close()
	rd, ok := f.(fs.ReadDirFile)
	if !ok {
		w.fail("paging:not-readdirfile", "Open(%q) is no fs.ReadDirFile", name)
		return "noreaddirfile"
	}
	e, known := w.vis[name]
	isDir := known && e.dir
	remaining := 0
	if isDir {
		remaining = len(e.kids)
	}
	seen := map[string]bool{}
	var pages, all []string
	bad := func(sig, format string, a ...any) {
		if isDir {
			w.fail(sig, "%s pages=%v: %s", name, sizes, fmt.Sprintf(format, a...))
			isDir = false // one signature per query
		}
	}
	for _, n := range sizes {
		ents, err := rd.ReadDir(n)
		pages = append(pages, fmt.Sprintf("%d/%s", len(ents), errClass(err)))
		for _, en := range ents {
			k := "f"
			if en.IsDir() {
				k = "d"
			}
			all = append(all, hx([]byte(en.Name()))+"|"+k)
			if seen[en.Name()] {
				bad("paging:duplicate", "%q handed out twice", en.Name())
			}
			seen[en.Name()] = true
			if isDir && (w.vis[ioJoin(name, en.Name())] == nil || w.vis[ioJoin(name, en.Name())].dir != en.IsDir()) {
				bad("paging:ghost", "%q is not a child (of that kind)", en.Name())
			}
		}
		switch {
		case n > 0 && len(ents) > n:
			bad("paging:too-many", "ReadDir(%d) returned %d entries", n, len(ents))
		case n > 0 && len(ents) == 0 && err == nil:
			bad("paging:empty-page-no-error", "%d left, ReadDir(%d) = 0 entries, nil", remaining, n)
		case n > 0 && remaining == 0 && (len(ents) != 0 || err != io.EOF):
			bad("paging:end-without-eof", "nothing left, ReadDir(%d) = %d entries, %v", n, len(ents), err)
		case n > 0 && remaining > 0 && err != nil:
			bad("paging:early-error", "%d left, ReadDir(%d) = %d entries, %v", remaining, n, len(ents), err)
		case n <= 0 && err != nil:
			bad("paging:rest-error", "ReadDir(%d) = %v", n, err)
		case n <= 0 && len(ents) != remaining:
			bad("paging:rest-incomplete", "%d left, ReadDir(%d) = %d entries", remaining, n, len(ents))
		}
		remaining -= len(ents)
		if remaining < 0 {
			remaining = 0
		}
	}
	sort.Strings(all)
	a := "-"
	if len(all) > 0 {
		a = strings.Join(all, ",")
	}
	return "pg:" + strings.Join(pages, ",") + ";all=" + a
}

func (w *ioWorld) qReadFile(name string) string {
	b, err := w.io.ReadFile(name)
	res := ""
	if err != nil {
		res = ioErr(err)
	} else {
		res = "data:" + ioDatS(b)
	}
	if !fs.ValidPath(name) {
		if err == nil {
			w.fail("invalid-accepted:ReadFile", "ReadFile(%q) succeeded", name)
		} else if !ioInvalidClassOK(err) {
			w.fail("invalid-wrongclass:ReadFile", "ReadFile(%q) = %v", name, err)
		}
		return res
	}
	e, known := w.vis[name]
	switch {
	case known && !e.dir && err != nil:
		w.fail("readfile:error", "ReadFile(%q) = %v", name, err)
	case known && !e.dir && string(b) != string(e.data):
		w.fail("readfile:content", "ReadFile(%q) = %s, want %s", name, ioDatS(b), ioDatS(e.data))
	case !known && err == nil:
		w.fail("readfile:ghost", "ReadFile(%q) succeeded", name)
	}
	if w.gen != nil {
		gb, gerr := fs.ReadFile(w.gen, name)
		if (gerr == nil) != (err == nil) || string(gb) != string(b) {
			w.fail("readfile:generic", "ReadFile(%q) = %s, fs.ReadFile over Open = %s %v", name, res, ioDatS(gb), gerr)
		}
	}
	return res
}

func (w *ioWorld) file(name string) (fs.File, *ioEnt, string) {
	f, err := w.io.Open(name)
	if err != nil {
		return nil, nil, ioErr(err)
	}
	e := w.vis[name]
	if e != nil && e.dir {
		e = nil
	}
	return f, e, ""
}

func (w *ioWorld) qRead(name string, chunk int) string {
	f, e, er := w.file(name)
	if f == nil {
		return er
	}
	defer f.Close()
	var data []byte
	reads := 0
	var err error
	for reads < 20000 {
		buf := make([]byte, chunk)
		var n int
		n, err = f.Read(buf)
		reads++
		if n < 0 || n > chunk {
			return fmt.Sprintf("badcount:%d", n)
		}
		data = append(data, buf[:n]...)
		if err != nil {
			break
		}
	}
	if e != nil {
		if string(data) != string(e.data) {
			w.fail("read:content", "%q by chunks of %d = %s, want %s", name, chunk, ioDatS(data), ioDatS(e.data))
		} else if err != io.EOF {
			w.fail("read:end", "%q by chunks of %d ended with %v", name, chunk, err)
		}
	}
	return fmt.Sprintf("data:%s:reads=%d:%s", ioDatS(data), reads, errClass(err))
}

func (w *ioWorld) qReadAt(name string, off, n int) string {
	f, e, er := w.file(name)
	if f == nil {
		return er
	}
	defer f.Close()
	ra, ok := f.(io.ReaderAt)
	if !ok {
		return "noreaderat"
	}
	buf := make([]byte, n)
	k, err := ra.ReadAt(buf, int64(off))
	if k < 0 || k > n {
		return fmt.Sprintf("badcount:%d", k)
	}
	if e != nil && off >= 0 {
		want := []byte{}
		if off < len(e.data) {
			want = e.data[off:min(off+n, len(e.data))]
		}
		switch {
		case string(buf[:k]) != string(want):
			w.fail("readat:content", "%q ReadAt(%d, %d) = %s, want %s", name, n, off, ioDatS(buf[:k]), ioDatS(want))
		case k < n && err == nil:
			w.fail("readat:short-without-error", "%q ReadAt(%d, %d) = %d, nil", name, n, off, k)
		case k == n && err != nil && err != io.EOF:
			w.fail("readat:full-with-error", "%q ReadAt(%d, %d) = %d, %v", name, n, off, k, err)
		case k < n && err != io.EOF:
			w.c.Count("readat.past-end-error=" + errClass(err))
		}
	}
	return fmt.Sprintf("data:%s:%s", ioDatS(buf[:k]), errClass(err))
}

// qMixed: on ONE handle, a sequential Read of k bytes, positional reads at and past the end (which fail
// with io.EOF), then the rest read sequentially: the positional reads must not move the offset, so the
// concatenation is what ReadFile yields and Seek(0, SeekCurrent) reports k in between.
func (w *ioWorld) qMixed(name string, k int) {
	f, e, _ := w.file(name)
	if f == nil {
		return
	}
	defer f.Close()
	ra, ok := f.(io.ReaderAt)
	if !ok || e == nil {
		return
	}
	size := len(e.data)
	head := make([]byte, k)
	n, _ := io.ReadFull(f, head)
	head = head[:n]
	for _, off := range []int{size, size + 3, max(size-1, 0)} {
		buf := make([]byte, 2)
		m, err := ra.ReadAt(buf, int64(off))
		if m < 2 && err == nil {
			w.fail("readat:short-without-error", "%q ReadAt(2, %d) after Read(%d) = %d, nil", name, off, k, m)
		}
	}
	if sk, ok := f.(io.Seeker); ok {
		if pos, err := sk.Seek(0, io.SeekCurrent); err == nil && pos != int64(n) {
			w.fail("readat:moved-offset", "%q after Read(%d) and positional reads at the end: offset %d, want %d", name, k, pos, n)
		}
	}
	rest, err := io.ReadAll(f)
	if err != nil {
		w.fail("read:end", "%q ReadAll after positional reads: %v", name, err)
	} else if string(head)+string(rest) != string(e.data) {
		w.fail("readat:moved-offset", "%q Read(%d)+positional reads+ReadAll = %s, want %s", name, k, ioDatS(append(head, rest...)), ioDatS(e.data))
	}
}

func (w *ioWorld) qSeek(name string, pre, off, whence, n int) string {
	f, e, er := w.file(name)
	if f == nil {
		return er
	}
	defer f.Close()
	sk, ok := f.(io.Seeker)
	if !ok {
		return "noseeker"
	}
	// move away from the start first, so that whence = 1 means something
	if pre > 0 {
		k, _ := f.Read(make([]byte, pre))
		pre = k
	}
	pos, serr := sk.Seek(int64(off), whence)
	buf := make([]byte, n)
	k, rerr := f.Read(buf)
	if k < 0 || k > n {
		return fmt.Sprintf("badcount:%d", k)
	}
	if e != nil {
		want := int64(off)
		switch whence {
		case 1:
			want += int64(pre)
		case 2:
			want += int64(len(e.data))
		}
		if want < 0 {
			if serr == nil {
				w.fail("seek:negative-accepted", "%q Seek(%d, %d) = %d, nil", name, off, whence, pos)
			}
		} else if serr != nil || pos != want {
			w.fail("seek:position", "%q Seek(%d, %d) = %d, %v, want %d", name, off, whence, pos, serr, want)
		} else {
			wd := []byte{}
			if want < int64(len(e.data)) {
				wd = e.data[want:min(int(want)+n, len(e.data))]
			}
			if string(buf[:k]) != string(wd) {
				w.fail("seek:read-after", "%q Seek(%d, %d) then Read(%d) = %s, want %s", name, off, whence, n, ioDatS(buf[:k]), ioDatS(wd))
			}
		}
	}
	return fmt.Sprintf("pos:%d:%s;data:%s:%s", pos, errClass(serr), ioDatS(buf[:k]), errClass(rerr))
}

func (w *ioWorld) qStat(name string) string {
	fi, err := w.io.Stat(name)
	res := ""
	if err != nil {
		res = ioErr(err)
	} else {
		res = ioInfoS(fi)
	}
	if !fs.ValidPath(name) {
		if err == nil {
			w.fail("invalid-accepted:Stat", "Stat(%q) succeeded: %s", name, res)
		}
		return res
	}
	e, known := w.vis[name]
	switch {
	case known && err != nil:
		w.fail("stat:missing", "Stat(%q) = %v", name, err)
	case known && (fi.IsDir() != e.dir || (!e.dir && fi.Size() != int64(len(e.data)))):
		w.fail("stat:info", "Stat(%q) = %s", name, res)
	case known && name != "." && fi.Name() != path.Base(name):
		w.fail("stat:name", "Stat(%q).Name() = %q", name, fi.Name())
	case !known && err == nil:
		w.fail("stat:ghost", "Stat(%q) succeeded", name)
	}
	if w.gen != nil {
		gfi, gerr := fs.Stat(w.gen, name)
		if (gerr == nil) != (err == nil) || (err == nil && ioInfoS(gfi) != res) {
			w.fail("stat:generic", "Stat(%q) = %s, fs.Stat over Open = %v %v", name, res, gfi, gerr)
		}
	}
	return res
}

func ioGlobS(m []string, err error) string {
	parts := make([]string, len(m))
	for i, p := range m {
		parts[i] = hx([]byte(p))
	}
	v := "-"
	if len(parts) > 0 {
		v = strings.Join(parts, ",")
	}
	r := "-"
	if err != nil {
		r = "Other"
		if errors.Is(err, path.ErrBadPattern) || errors.Is(err, filepath.ErrBadPattern) {
			r = "BadPattern"
		}
	}
	return fmt.Sprintf("m=%s;r=%s", v, r)
}

func (w *ioWorld) qGlob(pat string) string {
	m, err := w.io.Glob(pat)
	res := ioGlobS(m, err)
	// (the generic subFS answers Glob(".") with "." without looking: not compared below a missing directory)
	if w.gen != nil && !(w.noRoot && pat == ".") {
		gm, gerr := fs.Glob(w.gen, pat)
		if g := ioGlobS(gm, gerr); g != res {
			sig := "glob:matches"
			switch {
			case strings.Contains(pat, "\\"):
				sig = "glob:escape"
			case !c16WellFormed(pat):
				sig = "glob:malformed"
			case (err == nil) != (gerr == nil):
				sig = "glob:error"
			}
			w.fail(sig, "Glob(%q) = %s, fs.Glob over Open = %s", pat, res, g)
		}
	}
	// every match exists
	for _, p := range m {
		if _, ok := w.vis[path.Clean(p)]; !ok && fs.ValidPath(p) {
			w.fail("glob:ghost", "Glob(%q) reports %q", pat, p)
		}
	}
	return res
}

func (w *ioWorld) qSub(dir string, rest []string) string {
	s, err := w.io.Sub(dir)
	if err != nil {
		if fs.ValidPath(dir) {
			w.fail("sub:error", "Sub(%q) = %v", dir, err)
		}
		return ioErr(err)
	}
	sio, ok := s.(afero.IOFS)
	if !ok {
		return "sub:notiofs"
	}
	sw := &ioWorld{c: w.c, id: w.id, kind: w.kind, x: sio.Fs, io: sio, tag: "sub:", enc: w.enc, desc: w.desc, vis: ioVis{},
		note: fmt.Sprintf("Sub(%q): ", dir)}
	if !fs.ValidPath(dir) {
		w.fail("invalid-accepted:Sub", "Sub(%q) succeeded (fs.Sub rejects it)", dir)
		sw.mute = true
	} else {
		g, gerr := fs.Sub(ioOnly{w.io}, dir)
		if gerr != nil {
			panic(gerr)
		}
		sw.gen = g
		if dir == "." {
			sw.tag = "sub-dot:"
		}
		if _, ok := w.vis[dir]; !ok {
			sw.noRoot = true
		}
		if e, ok := w.vis[dir]; ok && e.dir {
			sw.vis = w.vis.sub(dir)
		} else if ok {
			sw.vis = ioVis{".": e}
		}
	}
	return sw.exec(rest)
}

// ---------------------------------------------------------------- FromIOFS
func (w *ioWorld) from() afero.FromIOFS { return afero.FromIOFS{FS: w.io} }

func ioOpenRes(f afero.File, err error) string {
	if err != nil {
		return ioErr(err)
	}
	defer f.Close()
	fi, serr := f.Stat()
	if serr != nil {
		return "ok:staterr"
	}
	if fi.IsDir() {
		return "ok:d"
	}
	return "ok:f"
}

func (w *ioWorld) qFrom(q []string) string {
	ff := w.from()
	name := ""
	if q[0] != "mut" && q[0] != "hmut" {
		name = string(unhx(q[1]))
	}
	valid := fs.ValidPath(name)
	cmp := func(what, got, want string) {
		if valid && got != want {
			w.fail("fromiofs:"+what, "FromIOFS %s(%q) = %s, the wrapped filesystem says %s", what, name, got, want)
		}
	}
	switch q[0] {
	case "stat":
		st := func(x afero.Fs) string {
			fi, err := x.Stat(name)
			if err != nil {
				return ioErr(err)
			}
			return ioInfoS(fi)
		}
		got := st(ff)
		cmp("Stat", got, st(w.x))
		return got
	case "open":
		got := ioOpenRes(ff.Open(name))
		cmp("Open", got, ioOpenRes(w.x.Open(name)))
		return got
	case "readfile":
		rf := func(x afero.Fs) string {
			b, err := afero.ReadFile(x, name)
			if err != nil {
				return ioErr(err)
			}
			return "data:" + ioDatS(b)
		}
		got := rf(ff)
		cmp("ReadFile", got, rf(w.x))
		if e, ok := w.vis[name]; ok && !e.dir && valid && got != "data:"+ioDatS(e.data) {
			w.fail("fromiofs:bytes", "FromIOFS ReadFile(%q) = %s, want %s", name, got, ioDatS(e.data))
		}
		return got
	case "readdir", "names":
		rd := func(x afero.Fs) string {
			f, err := x.Open(name)
			if err != nil {
				return ioErr(err)
			}
			defer f.Close()
			if q[0] == "names" {
				l, err := f.Readdirnames(-1)
				return listRes("names", namesS(l), len(l), err)
			}
			l, err := f.Readdir(-1)
			return listRes("infos", fisS(l), len(l), err)
		}
		got := rd(ff)
		cmp(map[string]string{"readdir": "Readdir", "names": "Readdirnames"}[q[0]], got, rd(w.x))
		return got
	case "mut":
		name = string(unhx(q[2]))
		before := w.snapshot()
		var err error
		var f afero.File
		switch q[1] {
		case "Create":
			f, err = ff.Create(name)
		case "Mkdir":
			err = ff.Mkdir(name, 0o755)
		case "MkdirAll":
			err = ff.MkdirAll(name, 0o755)
		case "OpenFile":
			f, err = ff.OpenFile(name, atoi(q[3]), 0o644)
		case "Remove":
			err = ff.Remove(name)
		case "RemoveAll":
			err = ff.RemoveAll(name)
		case "Rename":
			err = ff.Rename(name, name+"_r")
		case "Chmod":
			err = ff.Chmod(name, 0o600)
		case "Chown":
			err = ff.Chown(name, 1, 1)
		case "Chtimes":
			err = ff.Chtimes(name, time.Unix(1000, 0), time.Unix(1000, 0))
		default:
			panic("from mut " + q[1])
		}
		res := "ok"
		if err != nil {
			res = ioErr(err)
		} else if f != nil {
			res = "handle"
			f.Close()
		}
		what := q[1]
		if what == "OpenFile" {
			what = "OpenFile-write-flags"
			if atoi(q[3])&(os.O_WRONLY|os.O_RDWR|os.O_APPEND|os.O_CREATE|os.O_TRUNC) == 0 {
				what = "" // a plain read-only OpenFile is no mutator
			}
		}
		if what != "" && res != "err:Perm" {
			w.fail("fromiofs:"+what, "FromIOFS %s(%q) = %s, want a permission error", q[1], name, res)
		}
		if after := w.snapshot(); after != before {
			w.fail("fromiofs:changed:"+q[1], "FromIOFS %s(%q) changed the wrapped tree", q[1], name)
		}
		return res
	case "hmut":
		name = string(unhx(q[1]))
		f, err := ff.Open(name)
		if err != nil {
			return ioErr(err)
		}
		defer f.Close()
		before := w.snapshot()
		var n int
		switch q[2] {
		case "HWrite":
			n, err = f.Write([]byte("zz"))
		case "HWriteAt":
			n, err = f.WriteAt([]byte("zz"), 0)
		case "HWriteString":
			n, err = f.WriteString("zz")
		case "HTruncate":
			err = f.Truncate(0)
		default:
			panic("from hmut " + q[2])
		}
		res := fmt.Sprintf("count:%d:%s", n, errClass(err))
		if q[2] == "HTruncate" {
			res = "ok"
			if err != nil {
				res = ioErr(err)
			}
		}
		if errClass(err) != "Perm" {
			w.fail("fromiofs:"+q[2][1:], "FromIOFS file %s on %q = %s, want a permission error", q[2][1:], name, res)
		}
		if after := w.snapshot(); after != before {
			w.fail("fromiofs:changed:"+q[2][1:], "FromIOFS file %s on %q changed the wrapped tree", q[2][1:], name)
		}
		return res
	}
	panic("from " + q[0])
}

// everything x shows, through x itself
func (w *ioWorld) snapshot() string {
	var b strings.Builder
	afero.Walk(w.x, ".", func(p string, fi os.FileInfo, err error) error {
		if err != nil {
			fmt.Fprintf(&b, "%s!%s;", p, errClass(err))
			return nil
		}
		if fi.IsDir() {
			fmt.Fprintf(&b, "%s/;", p)
			return nil
		}
		d, _ := afero.ReadFile(w.x, p)
		fmt.Fprintf(&b, "%s=%s|%d;", p, ioDatS(d), uint32(fi.Mode()))
		return nil
	})
	return b.String()
}

// ---------------------------------------------------------------- fstest
var ioDigits = regexp.MustCompile(`[0-9]+`)
var ioQuoted = regexp.MustCompile(`"[^"]*"`)

// replaces tok where it stands alone (not inside a word or a longer path)
func ioReplaceToken(s, tok, repl string) string {
	if tok == "" {
		return s
	}
	isWord := func(c byte) bool {
		return c == '_' || c == '.' || c == '-' || c == '/' || (c >= '0' && c <= '9') || (c >= 'a' && c <= 'z') || (c >= 'A' && c <= 'Z')
	}
	var b strings.Builder
	for i := 0; i < len(s); {
		if strings.HasPrefix(s[i:], tok) && (i == 0 || !isWord(s[i-1])) && (i+len(tok) == len(s) || !isWord(s[i+len(tok)])) {
			b.WriteString(repl)
			i += len(tok)
			continue
		}
		b.WriteByte(s[i])
		i++
	}
	return b.String()
}

func ioNormalise(line string, names []string) string {
	// "<path>: <message>" -> message with the tree's paths replaced
	if i := strings.Index(line, ": "); i >= 0 {
		p := line[:i]
		line = ioReplaceToken(line[i+2:], p, "<p>")
	}
	line = ioQuoted.ReplaceAllString(line, `"<s>"`)
	sort.Slice(names, func(i, j int) bool { return len(names[i]) > len(names[j]) })
	for _, n := range names {
		line = ioReplaceToken(line, n, "<n>")
	}
	line = ioDigits.ReplaceAllString(line, "N")
	line = strings.Join(strings.Fields(line), "_")
	if len(line) > 90 {
		line = line[:90]
	}
	return line
}

func (w *ioWorld) qFstest() {
	var expected []string
	for _, p := range w.vis.paths() {
		if p != "." {
			expected = append(expected, p)
		}
	}
	err := fstest.TestFS(w.io, expected...)
	if err == nil {
		w.c.Count("fstest.pass:" + w.kind)
		return
	}
	w.c.Count("fstest.fail:" + w.kind)
	lines := strings.Split(err.Error(), "\n")
	first := lines[0]
	if len(lines) > 1 {
		first = lines[1]
		if strings.HasSuffix(first, ":") && len(lines) > 2 { // "failed TestReader:" + detail on the next line
			first += " " + strings.TrimSpace(lines[2])
		}
	}
	w.fail("fstest:"+w.kind+":"+ioNormalise(first, append([]string{}, expected...)), "%d error lines, first: %s", len(lines)-1, first)
}

// ---------------------------------------------------------------- query dispatch
func ioInts(s string) []int {
	var out []int
	for _, x := range strings.Split(s, ",") {
		v, err := strconv.Atoi(x)
		if err != nil {
			panic(err)
		}
		out = append(out, v)
	}
	return out
}

func (w *ioWorld) exec(q []string) (out string) {
	defer func() {
		if r := recover(); r != nil {
			out = "panic"
			w.fail("panic:"+q[0], "%v", r)
		}
	}()
	s := func(i int) string { return string(unhx(q[i])) }
	switch q[0] {
	case "open":
		return w.qOpen(s(1))
	case "readdir":
		return w.qReadDir(s(1))
	case "page":
		return w.qPage(s(1), ioInts(q[2]))
	case "readfile":
		return w.qReadFile(s(1))
	case "read":
		return w.qRead(s(1), atoi(q[2]))
	case "readat":
		return w.qReadAt(s(1), atoi(q[2]), atoi(q[3]))
	case "seek":
		return w.qSeek(s(1), atoi(q[2]), atoi(q[3]), atoi(q[4]), atoi(q[5]))
	case "stat":
		return w.qStat(s(1))
	case "glob":
		return w.qGlob(s(1))
	case "sub":
		return w.qSub(s(1), q[2:])
	case "from":
		return w.qFrom(q[1:])
	}
	panic("C15: unknown query " + q[0])
}

// ---------------------------------------------------------------- running one case
func (c *Ctx) ioCase(id, desc, enc string, setup, qs []string) {
	si := ioAnalyse(desc)
	t := ioParseTree(enc)
	c.Case("iocase %s %s %s", id, desc, enc)
	in := NewInterp(desc)
	for _, l := range setup {
		c.Case("%s", l)
		if out := in.Exec(l); strings.HasPrefix(out, "err") || out == "panic" || out == "noslot" {
			panic(fmt.Sprintf("C15 %s: setup item %q = %s", id, l, out))
		}
	}
	vis := ioVis{}
	t.visible(".", si.hidden, vis)
	x := in.Top.Fs
	iofs := afero.NewIOFS(x)
	w := &ioWorld{c: c, id: id, kind: si.kind, x: x, io: iofs, gen: ioOnly{iofs}, vis: vis, enc: enc, desc: desc}
	for i, q := range qs {
		c.Case("q %s", q)
		toks := strings.Fields(q)
		c.Count("query." + toks[0])
		if toks[0] == "fstest" {
			w.qFstest()
			continue
		}
		if toks[0] == "mixed" { // oracle only, like fstest: no model line
			k, _ := strconv.Atoi(toks[2])
			w.qMixed(string(unhx(toks[1])), k)
			continue
		}
		res := w.exec(toks)
		c.Impl("%s#%d %s", id, i, res)
		if strings.HasPrefix(res, "err:") {
			c.Count("errclass." + res[4:])
		}
	}
	c.Case("end")
	c.NCases++
	c.Count("stack." + si.kind)
	c.Count(fmt.Sprintf("tree.entries<=%d", bucket(len(vis))))
}

// ---------------------------------------------------------------- generators
var ioPoolDefault = []string{"a", "a.b", "a-b", "ab", "B", "b", "a0", "_", "c", "n.txt", "..rc", "...", "..a"}
var ioPoolRe = [][2][]string{ // matching, hidden
	{{"a.txt", "b.txt", "a-b.txt", "B.txt", "ab.txt", "a.b.txt"}, {"a", "h.go"}},
	{{"a", "b", "ab", "ba", "aab", "bb"}, {"c", "a.b"}},
	{{"a", "a.b", "a-b", "ab", "a0", "aB"}, {"b", "B"}},
}
var ioSizes = []int{0, 0, 0, 1, 1, 1, 10, 10, 10, 10, 10, 5000}

type ioGenOpt struct {
	re     int  // -1 none
	hidden bool // hidden files allowed
	cow    bool
}

func ioGenTree(r *Rng, depth int, budget *int, o ioGenOpt) *ioTree {
	t := &ioTree{dir: true}
	n := r.Range(0, 4)
	if depth == 0 {
		n = r.Range(1, 4)
	}
	files, dirs := ioPoolDefault, ioPoolDefault
	var hid []string
	if o.re >= 0 {
		files, hid = ioPoolRe[o.re][0], ioPoolRe[o.re][1]
		dirs = append(append([]string{}, ioPoolDefault...), files...)
	}
	used := map[string]bool{}
	name := func(pool []string) (string, bool) {
		for tries := 0; tries < 20; tries++ {
			s := Pick(r, pool)
			if !used[s] {
				used[s] = true
				return s, true
			}
		}
		return "", false
	}
	for i := 0; i < n && *budget > 0; i++ {
		*budget--
		if depth < 3 && r.Chance(7, 20) {
			if s, ok := name(dirs); ok {
				t.kids = append(t.kids, ioKid{s, ioGenTree(r, depth+1, budget, o)})
			}
			continue
		}
		pool := files
		if o.hidden && len(hid) > 0 && r.Chance(1, 4) {
			pool = hid
		}
		if s, ok := name(pool); ok {
			t.kids = append(t.kids, ioKid{s, &ioTree{size: Pick(r, ioSizes)}})
		}
	}
	return t
}

// placement on the two layers of a CopyOnWriteFs: leaves at random, a directory wherever a child is
func ioPlace(r *Rng, t *ioTree, root bool) {
	if !t.dir || len(t.kids) == 0 {
		t.where = "bbllx"[r.Intn(5)]
	} else {
		var b, l bool
		for _, k := range t.kids {
			ioPlace(r, k.t, false)
			b = b || k.t.where != 'l'
			l = l || k.t.where != 'b'
		}
		switch {
		case b && l, r.Chance(1, 4):
			t.where = 'x'
		case b:
			t.where = 'b'
		default:
			t.where = 'l'
		}
		if t.where == 'l' && !root && r.Chance(1, 3) {
			// kind conflict: the layers were filled separately and the base has a regular FILE of this
			// name; the overlay's directory is what the union shows
			t.where = 'k'
		}
	}
	if root {
		t.where = 'x'
	}
}

func ioRandStack(r *Rng) string {
	var gen func(depth int, re, cow *bool) string
	gen = func(depth int, re, cow *bool) string {
		if depth >= 3 {
			return "mem"
		}
		switch r.Intn(6) {
		case 0:
			return "ro(" + gen(depth+1, re, cow) + ")"
		case 1:
			return "bp:" + hx([]byte(Pick(r, []string{"/d", "/d/e", "/a.b", "/"}))) + "(" + gen(depth+1, re, cow) + ")"
		case 2:
			if !*re {
				*re = true
				return fmt.Sprintf("re:%d(%s)", r.Intn(3), gen(depth+1, re, cow))
			}
		case 3:
			if !*cow {
				*cow = true
				return "cow(" + gen(depth+1, re, cow) + "," + gen(depth+1, re, cow) + ")"
			}
		}
		return "mem"
	}
	var re, cow bool
	return "bp:2f(" + gen(0, &re, &cow) + ")"
}

var ioInvalidFixed = []string{"", "/a", "a/", "a//b", "./a", "a/../b", "..", "a/.", "/", "../a", "a/./b", "/.", "./", "a/..", "//a"}

func ioBadVariants(p string) []string {
	bad := []string{"/" + p, p + "/.", p + "/", "./" + p, p + "/.."}
	if i := strings.LastIndex(p, "/"); i >= 0 {
		bad = append(bad, p[:i]+"//"+p[i+1:], p[:i]+"/./"+p[i+1:], p+"/../"+p[i+1:], p[:i]+"/../"+p)
	}
	return bad
}

func ioGeneralise(r *Rng, name string) string {
	k := r.Intn(len(name))
	switch r.Intn(8) {
	case 0:
		return name
	case 1:
		return "*"
	case 2:
		return name[:k] + "*"
	case 3:
		return "*" + name[k:]
	case 4:
		return name[:k] + "?" + name[k+1:]
	case 5:
		if name[k] == '-' || name[k] == ']' || name[k] == '^' {
			return name[:k] + "?" + name[k+1:]
		}
		return name[:k] + "[" + name[k:k+1] + "]" + name[k+1:]
	case 6:
		return name[:k] + "[^z]" + "*"
	default:
		return name[:k] + "[!-~]" + name[k+1:]
	}
}

var ioOddPatterns = []string{"[", "a[", "[]", "[a-]", "[^]", "*[", "[a/b]", "a/[", "[/a", "\\a", "a\\*", "\\*", "[\\]]", "a\\b", "*/\\a"}

func ioGenPattern(r *Rng, paths []string) string {
	if len(paths) <= 1 || r.Chance(1, 10) {
		return Pick(r, []string{"*", "*/*", "?", "zz", "*/zz", ".", "*/*/*", "[ab]*", "a*"})
	}
	p := Pick(r, paths[1:]) // paths[0] == "."
	segs := strings.Split(p, "/")
	for i := range segs {
		if r.Chance(3, 5) {
			segs[i] = ioGeneralise(r, segs[i])
		}
	}
	if r.Chance(1, 6) {
		segs = append(segs, "*")
	}
	return strings.Join(segs, "/")
}

func ioQueries(r *Rng, vis ioVis, thorough bool) []string {
	var qs []string
	add := func(f string, a ...any) { qs = append(qs, fmt.Sprintf(f, a...)) }
	h := func(s string) string { return hx([]byte(s)) }
	paths := vis.paths() // "." first: '.' < every name used
	sort.Slice(paths, func(i, j int) bool { return paths[i] == "." || (paths[j] != "." && paths[i] < paths[j]) })
	sample := paths
	limit := 9
	if thorough {
		limit = 16
	}
	if len(sample) > limit {
		perm := r.Perm(len(paths) - 1)
		sample = []string{"."}
		for _, i := range perm[:limit-1] {
			sample = append(sample, paths[i+1])
		}
		sort.Strings(sample)
	}
	var files, dirs []string
	for _, p := range sample {
		if vis[p].dir {
			dirs = append(dirs, p)
		} else {
			files = append(files, p)
		}
	}
	add("fstest")
	for _, p := range sample {
		e := vis[p]
		add("open %s", h(p))
		add("stat %s", h(p))
		if e.dir {
			add("readdir %s", h(p))
			n := len(e.kids)
			rep := func(k, times int) string {
				s := make([]string, times)
				for i := range s {
					s[i] = fmt.Sprint(k)
				}
				return strings.Join(s, ",")
			}
			add("page %s %s", h(p), rep(1, n+2))
			add("page %s %s", h(p), rep(2, n/2+2))
			add("page %s %s", h(p), rep(3, n/3+2))
			add("page %s -1,-1", h(p))
			add("page %s 1,9223372036854775807,1", h(p)) // one entry, then "the rest" asked for with the largest count there is
			add("page %s %s", h(p), Pick(r, []string{"2,-1,-1,1", "1,0,0", "0,0,1", "1,2,3,4", "5,1", "-1,1,1", "1,-1,-1"}))
			if r.Chance(1, 4) {
				add("readfile %s", h(p))
				add("read %s 8", h(p))
			}
			continue
		}
		size := len(e.data)
		add("readfile %s", h(p))
		if size <= 10 {
			add("read %s 1", h(p))
		}
		add("read %s %d", h(p), Pick(r, []int{2, 3, 7, 512, 4096, 6000}))
		add("readat %s 0 %d", h(p), size)
		add("readat %s 0 %d", h(p), size+1)
		add("readat %s %d 1", h(p), size)
		add("readat %s %d 2", h(p), size+3)
		add("mixed %s %d", h(p), r.Range(0, size))
		if size > 1 {
			add("readat %s %d %d", h(p), r.Range(1, size-1), r.Range(1, size))
		}
		if r.Chance(1, 6) {
			add("readat %s -1 1", h(p))
		}
		add("seek %s 0 %d %d %d", h(p), r.Range(0, size+1), 0, r.Range(1, 4))
		add("seek %s %d %d %d %d", h(p), r.Range(0, 3), r.Range(-3, 3), 1, r.Range(1, 4))
		add("seek %s %d %d %d %d", h(p), r.Range(0, 2), -r.Range(0, size+1), 2, r.Range(1, 4))
		if r.Chance(1, 4) {
			add("readdir %s", h(p))
			add("page %s 1,-1", h(p))
		}
	}
	// missing names
	missing := []string{"zz"}
	if len(dirs) > 1 {
		missing = append(missing, Pick(r, dirs[1:])+"/zz")
	}
	if len(files) > 0 {
		missing = append(missing, Pick(r, files)+"/zz")
	}
	for _, m := range missing {
		add("open %s", h(m))
		add("stat %s", h(m))
		add("readfile %s", h(m))
		add("readdir %s", h(m))
	}
	// invalid io/fs paths
	inv := append([]string{}, ioInvalidFixed...)
	for _, p := range sample {
		if p != "." {
			inv = append(inv, ioBadVariants(p)...)
		}
	}
	ninv := 7
	if thorough {
		ninv = 16
	}
	perm := r.Perm(len(inv))
	for i := 0; i < ninv && i < len(inv); i++ {
		n := inv[perm[i]]
		add("open %s", h(n))
		add("readfile %s", h(n))
		add("readdir %s", h(n))
		add("stat %s", h(n))
	}
	// glob
	for i := 0; i < 6; i++ {
		add("glob %s", h(ioGenPattern(r, paths)))
	}
	if r.Chance(1, 3) {
		add("glob %s", h(Pick(r, ioOddPatterns)))
	}
	// sub
	subs := []string{"."}
	if len(dirs) > 1 {
		subs = append(subs, Pick(r, dirs[1:]), Pick(r, dirs[1:]))
	}
	if len(files) > 0 && r.Chance(1, 3) {
		subs = append(subs, Pick(r, files))
	}
	if r.Chance(1, 3) {
		subs = append(subs, "zz")
	}
	if r.Chance(1, 3) {
		subs = append(subs, Pick(r, inv))
	}
	for _, d := range subs {
		sv := vis.sub(d)
		if _, ok := vis[d]; !ok {
			sv = ioVis{}
		}
		names := []string{"."}
		for _, p := range sv.paths() {
			if p != "." && len(names) < 5 {
				names = append(names, p)
			}
		}
		names = append(names, "zz", Pick(r, ioInvalidFixed))
		for _, n := range names {
			add("sub %s open %s", h(d), h(n))
			add("sub %s stat %s", h(d), h(n))
			if e, ok := sv[n]; ok && e.dir {
				add("sub %s readdir %s", h(d), h(n))
			} else {
				add("sub %s readfile %s", h(d), h(n))
			}
		}
		add("sub %s glob %s", h(d), h(ioGenPattern(r, sv.paths())))
		add("sub %s glob %s", h(d), h("*"))
	}
	// FromIOFS
	for _, p := range sample {
		add("from stat %s", h(p))
		add("from open %s", h(p))
		if vis[p].dir {
			add("from readdir %s", h(p))
			add("from names %s", h(p))
		} else {
			add("from readfile %s", h(p))
		}
	}
	add("from stat %s", h("zz"))
	add("from open %s", h("zz"))
	add("from open %s", h(Pick(r, inv)))
	add("from stat %s", h(Pick(r, inv)))
	targets := []string{"zz"}
	if len(files) > 0 {
		targets = append(targets, Pick(r, files))
	}
	if len(dirs) > 1 {
		targets = append(targets, Pick(r, dirs[1:]))
	}
	for _, tg := range targets {
		for _, op := range []string{"Create", "Mkdir", "MkdirAll", "Remove", "RemoveAll", "Rename", "Chmod", "Chown", "Chtimes"} {
			add("from mut %s %s", op, h(tg))
		}
		for _, fl := range []int{0, os.O_RDWR, os.O_WRONLY | os.O_TRUNC, os.O_RDWR | os.O_CREATE | os.O_TRUNC, os.O_WRONLY | os.O_APPEND | os.O_CREATE} {
			add("from mut OpenFile %s %d", h(tg), fl)
		}
	}
	for _, f := range files {
		for _, op := range []string{"HWrite", "HWriteAt", "HWriteString", "HTruncate"} {
			add("from hmut %s %s", h(f), op)
		}
		break
	}
	return qs
}

// every tree over the names b, a (stored unsorted) where a name is absent, an empty / a 10-byte file,
// an empty directory, or a directory holding one file / one empty directory
func ioSmallTrees() []*ioTree {
	opts := func() []*ioTree {
		return []*ioTree{nil, {}, {size: 10}, {dir: true},
			{dir: true, kids: []ioKid{{"a", &ioTree{size: 1}}}},
			{dir: true, kids: []ioKid{{"B", &ioTree{dir: true}}, {"a-b", &ioTree{size: 0}}}}}
	}
	var out []*ioTree
	for _, x := range opts() {
		for _, y := range opts() {
			t := &ioTree{dir: true}
			if x != nil {
				t.kids = append(t.kids, ioKid{"b", x})
			}
			if y != nil {
				t.kids = append(t.kids, ioKid{"a", y})
			}
			out = append(out, t)
		}
	}
	return out
}

func (t *ioTree) clearPlace() {
	t.where = 0
	for _, k := range t.kids {
		k.t.clearPlace()
	}
}

func runC15(c *Ctx) {
	if c.From == nil {
		runC15OS(c)
	}
	if c.From != nil {
		for _, cs := range c.From {
			hd := strings.Fields(cs[0])
			if hd[0] != "iocase" {
				continue
			}
			var setup, qs []string
			for _, l := range cs[1:] {
				switch {
				case l == "end":
				case strings.HasPrefix(l, "q "):
					qs = append(qs, l[2:])
				default:
					setup = append(setup, l)
				}
			}
			c.ioCase(hd[1], hd[2], hd[3], setup, qs)
		}
		return
	}
	thorough := c.Tier == "thorough"
	r := c.Rng
	emit := func(id, desc string, t *ioTree) {
		si := ioAnalyse(desc)
		if si.cow {
			ioPlace(r, t, true)
		} else {
			t.clearPlace()
		}
		vis := ioVis{}
		t.visible(".", si.hidden, vis)
		c.ioCase(id, desc, t.String(), si.setup(t), ioQueries(r, vis, thorough))
		if len(vis) > 4 {
			c.Sample(fmt.Sprintf("iocase stack=%s tree=%s (%d visible entries)", desc, t.String(), len(vis)))
		}
	}
	// (1) small scope, exhaustive over the shapes above, on the plain, the relative and the union stack
	small := ioSmallTrees()
	for i, t := range small {
		emit(fmt.Sprintf("xs%d_mem", i), "bp:2f(mem)", t)
		emit(fmt.Sprintf("xs%d_rel", i), "mem", t)
		emit(fmt.Sprintf("xs%d_cow", i), "bp:2f(cow(mem,mem))", t)
		if thorough {
			emit(fmt.Sprintf("xs%d_cow2", i), "bp:2f(cow(mem,mem))", t)
			emit(fmt.Sprintf("xs%d_bp", i), "bp:2f(bp:2f64(mem))", t)
		}
	}
	c.Extra["small_scope"] = fmt.Sprintf("%d trees over {b,a} x {absent, F0, F10, D[], D[a=F1], D[B=D[],a-b=F0]} on mem, memrel, cow", len(small))
	// (2) generated trees on the fixed stacks and on random compositions
	nt := 45
	if thorough {
		nt = 900
	}
	for i := 0; i < nt; i++ {
		ren := r.Intn(3)
		stacks := []struct{ tag, desc string }{
			{"mem", "bp:2f(mem)"},
			{"bp", "bp:2f(bp:2f64(mem))"},
			{"ro", "bp:2f(ro(mem))"},
			{"re", fmt.Sprintf("bp:2f(re:%d(mem))", ren)},
			{"cow", "bp:2f(cow(mem,mem))"},
			{"bpcow", "bp:2f(bp:2f64(cow(mem,mem)))"},
			{"rel", "mem"},
			{"mix", ioRandStack(r)},
		}
		for _, s := range stacks {
			si := ioAnalyse(s.desc)
			budget := 14
			if r.Chance(1, 5) {
				budget = 30
			}
			o := ioGenOpt{re: si.re, cow: si.cow, hidden: si.re >= 0 && !si.cow && r.Chance(1, 2)}
			t := ioGenTree(r, 0, &budget, o)
			emit(fmt.Sprintf("g%d_%s", i, s.tag), s.desc, t)
		}
	}
}

// io/fs conformance over the operating system (oracle only): a temp dir with files, nested
// directories and symbolic links, seen through IOFS over BasePathFs(OsFs) and over a RegexpFs on
// top of it; testing/fstest.TestFS checks, among other rules, that DirEntry.Type() equals
// Info().Mode().Type() for every entry (the in-memory trees only ever have ModeDir).
func runC15OS(c *Ctx) {
	dir, err := os.MkdirTemp("", "afc15-")
	if err != nil {
		panic(err)
	}
	defer os.RemoveAll(dir)
	for _, p := range []string{"a.txt", "d/b.txt", "d/e/c.txt", "z.dat"} {
		os.MkdirAll(filepath.Join(dir, filepath.Dir(p)), 0o755)
		os.WriteFile(filepath.Join(dir, p), []byte("content of "+p), 0o644)
	}
	os.Symlink("a.txt", filepath.Join(dir, "ln.txt"))
	// (no link to a DIRECTORY: fstest reads every non-directory entry as a file, also over os.DirFS)
	n := 0
	for name, fsys := range map[string]afero.Fs{
		"bp(os)":     afero.NewBasePathFs(afero.NewOsFs(), dir),
		"re(bp(os))": afero.NewRegexpFs(afero.NewBasePathFs(afero.NewOsFs(), dir), regexp.MustCompile(`\.txt$`)),
		"ro(bp(os))": afero.NewReadOnlyFs(afero.NewBasePathFs(afero.NewOsFs(), dir)),
	} {
		n++
		c.Count("os-fstest")
		expected := []string{"a.txt", "d/b.txt", "d/e/c.txt"}
		if err := fstest.TestFS(afero.NewIOFS(fsys), expected...); err != nil {
			first := strings.SplitN(err.Error(), "\n", 3)
			msg := first[0]
			if len(first) > 1 {
				msg = first[1]
			}
			c.Oracle("FAIL osfs%d fstest:os:%s testing/fstest.TestFS over IOFS(%s) of a temp dir with symbolic links: %s", n, name, name, strings.Replace(msg, dir, "<dir>", -1))
		}
		// every listed entry: Type() is the type part of Info().Mode()
		iofs := afero.NewIOFS(fsys)
		if des, err := fs.ReadDir(iofs, "."); err == nil {
			for _, de := range des {
				if info, err := de.Info(); err == nil && de.Type() != info.Mode().Type() {
					c.Oracle("FAIL osfs%d direntry-type:os:%s entry %q: Type() = %v, Info().Mode().Type() = %v", n, name, de.Name(), de.Type(), info.Mode().Type())
				}
			}
		}
	}
	c.Extra["os_fstest"] = fmt.Sprintf("testing/fstest.TestFS over IOFS of %d stacks on a temp dir with symbolic links (oracle only)", n)
}
