package main

// c04.go — C04: linearizability of concurrent executions on one MemMapFs.
//
// The harness records call/return HISTORIES of 2-4 goroutines running tiny programs over a
// small shared name set and emits each distinct history as an `hcase` block; the model runner
// (ocaml/drv_c04.ml) searches a linearization against the extracted sequential model.
// Two ways of producing interleavings:
//   stress  — the real scheduler: tight start barrier, GOMAXPROCS >= 4, jitter, many repetitions;
//   sched   — a second binary built from an INSTRUMENTED copy of memmap.go / mem/file.go
//             (c04_instrument.go) whose lock operations are yield points of a cooperative
//             scheduler: schedules are enumerated (DFS) or sampled, and are replayable.
//             Two modes: depth-0 (switch only with no lock held) and lock-aware (every lock
//             acquisition is a switching point, acquisitions are try-locks under the control of the
//             scheduler, blocked goroutines, deadlock detection, preemption-bounded DFS).
// Go-side oracles (no model involved): two winners among concurrent Mkdir / O_CREATE|O_EXCL calls
// of one name, Mkdir / O_CREATE returning not-exist, torn reads, results changing on unrelated
// paths.  At the end the harness runs ../ocaml/modelrun on its own histories and turns every
// NOT-linearizable answer into an oracle FAIL line whose signature names the op kinds involved.

import (
	"fmt"
	"io"
	"log"
	"os"
	"os/exec"
	"path"
	"path/filepath"
	"runtime"
	"sort"
	"strings"
	"sync/atomic"
	"time"

	"github.com/spf13/afero"
)

func init() { props["C04"] = runC04 }

// ---------------------------------------------------------------- programs and histories

type c04Prog struct {
	Setup   []string   // item lines ". <slot|-> <Op> <args>" run sequentially first
	Threads [][]string // item lines per goroutine
	Focus   string
	Torn    []string // when set: every HReadAt result of the concurrent phase must be one of these
	// at most this many distinct histories of the program are emitted (0: 40)
	MaxDistinct int
	// scheduled cases read back from a case file: explored / to be replayed in lock-aware mode
	LockAware bool
	solo      [][]string
	soloFin []string
}

type c04Call struct {
	G, I      int
	Item      string
	Inv, Resp int64
	Res       string
}

type c04Hist struct {
	SetupRes []string
	Calls    []c04Call // in goroutine order, then program order
	Final    string
	Hung     bool
	Sched    string
	// lock-aware mode of the cooperative scheduler (header token yield=locks)
	LockAware bool
	// the scheduler found goroutines alive and none enabled: labels of the pending acquisitions
	Deadlock string
}

func c04Item(slot int, format string, a ...any) string {
	s := "-"
	if slot >= 0 {
		s = fmt.Sprint(slot)
	}
	return ". " + s + " " + fmt.Sprintf(format, a...)
}

func c04hx(p string) string { return hx([]byte(p)) }

// ---------------------------------------------------------------- execution of one item

// per-goroutine slots: file handles, and the FileInfo references returned by Stat
type c04Slots struct {
	files map[int]afero.File
	infos map[int]os.FileInfo
}

type c04Op func(fs afero.Fs, sl *c04Slots) string

// A FileInfo of MemMapFs is a LIVE view of the file (every accessor takes the file's mutex and
// reads the current value), so a Stat is recorded as what it is: the lookup (". <slot> Stat
// <p>", answer "handle" = a reference, or the error) and one call per accessor used by the
// canonical form (FName, FSize, FMode, FMtime on that slot).  The model answers the lookup
// with Open and every accessor with the corresponding field of HStat at that instant.
var c04InfoOps = map[string]bool{"FName": true, "FSize": true, "FMode": true, "FMtime": true}

func c04IsSlotOp(name string) bool { return handleOps[name] || c04InfoOps[name] }

// set by the scheduled binary (c04_sched.go): its own rendering of some handle operations
var c04HandleHook func(f afero.File, name string, a []string) (string, bool)

// c04Compile pre-parses an item line so that nothing but the call itself (and the canonical
// rendering of what it returned) happens between the two stamps.
func c04Compile(item string) c04Op {
	t := strings.Fields(item)
	slot := -1
	if t[1] != "-" {
		slot = atoi(t[1])
	}
	name, a := t[2], t[3:]
	if handleOps[name] {
		h := atoi(a[0])
		rest := a[1:]
		return func(fs afero.Fs, sl *c04Slots) string {
			f, ok := sl.files[h]
			if !ok {
				return "noslot"
			}
			if c04HandleHook != nil {
				if res, ok := c04HandleHook(f, name, rest); ok {
					return res
				}
			}
			return execHandle(f, name, rest)
		}
	}
	if c04InfoOps[name] {
		h := atoi(a[0])
		return func(fs afero.Fs, sl *c04Slots) string {
			fi, ok := sl.infos[h]
			if !ok {
				return "noslot"
			}
			switch name {
			case "FName":
				return "fname:" + hx([]byte(fi.Name()))
			case "FSize":
				if fi.IsDir() {
					return "fsize:-"
				}
				return fmt.Sprintf("fsize:%d", fi.Size())
			case "FMode":
				return fmt.Sprintf("fmode:%d", uint32(fi.Mode()))
			}
			return "fmtime:" + mtimeS(fi.ModTime())
		}
	}
	p0 := string(unhx(a[0]))
	bind := func(sl *c04Slots, f afero.File, err error) string {
		if err != nil {
			return "err:" + errClass(err)
		}
		if slot >= 0 {
			sl.files[slot] = f
		}
		return "handle"
	}
	e := func(err error) string {
		if err != nil {
			return "err:" + errClass(err)
		}
		return "ok"
	}
	switch name {
	case "Create":
		return func(fs afero.Fs, s *c04Slots) string { f, err := fs.Create(p0); return bind(s, f, err) }
	case "Mkdir":
		m := os.FileMode(atoi(a[1]))
		return func(fs afero.Fs, s *c04Slots) string { return e(fs.Mkdir(p0, m)) }
	case "MkdirAll":
		m := os.FileMode(atoi(a[1]))
		return func(fs afero.Fs, s *c04Slots) string { return e(fs.MkdirAll(p0, m)) }
	case "Open":
		return func(fs afero.Fs, s *c04Slots) string { f, err := fs.Open(p0); return bind(s, f, err) }
	case "OpenFile":
		fl, m := atoi(a[1]), os.FileMode(atoi(a[2]))
		return func(fs afero.Fs, s *c04Slots) string { f, err := fs.OpenFile(p0, fl, m); return bind(s, f, err) }
	case "Remove":
		return func(fs afero.Fs, s *c04Slots) string { return e(fs.Remove(p0)) }
	case "RemoveAll":
		return func(fs afero.Fs, s *c04Slots) string { return e(fs.RemoveAll(p0)) }
	case "Rename":
		p1 := string(unhx(a[1]))
		return func(fs afero.Fs, s *c04Slots) string { return e(fs.Rename(p0, p1)) }
	case "Stat":
		return func(fs afero.Fs, s *c04Slots) string {
			fi, err := fs.Stat(p0)
			if err != nil {
				return "err:" + errClass(err)
			}
			if slot >= 0 {
				s.infos[slot] = fi
				return "handle"
			}
			return "info:" + fiS(fi) // unexpanded form: reading the live FileInfo is part of the call
		}
	case "Chmod":
		m := os.FileMode(atoi(a[1]))
		return func(fs afero.Fs, s *c04Slots) string { return e(fs.Chmod(p0, m)) }
	case "Chtimes":
		tt := tm(atoi(a[1]))
		return func(fs afero.Fs, s *c04Slots) string { return e(fs.Chtimes(p0, tt, tt)) }
	}
	panic("c04: unknown op " + name)
}

func c04Safe(op c04Op, fs afero.Fs, slots *c04Slots) (out string) {
	defer func() {
		if r := recover(); r != nil {
			out = "panic"
		}
	}()
	return op(fs, slots)
}

// the body of goroutine g: every call is stamped immediately before and after
type c04Run struct {
	fs    afero.Fs
	ctr   int64
	stop  int32 // set by a call that panicked: a recovered panic may leave a mutex locked (memmap.go
	// unRegisterWithParent panics between parent.Lock and parent.Unlock), so nothing runs after it
	ops   [][]c04Op
	slots []*c04Slots
	calls [][]c04Call
}

func c04Prepare(p *c04Prog) (*c04Run, *c04Hist) {
	fs := afero.NewMemMapFs()
	h := &c04Hist{}
	setup := &c04Slots{files: map[int]afero.File{}, infos: map[int]os.FileInfo{}}
	for _, it := range p.Setup {
		h.SetupRes = append(h.SetupRes, c04Safe(c04Compile(it), fs, setup))
	}
	r := &c04Run{fs: fs}
	for g, th := range p.Threads {
		ops := make([]c04Op, len(th))
		cs := make([]c04Call, len(th))
		for i, it := range th {
			ops[i] = c04Compile(it)
			cs[i] = c04Call{G: g, I: i, Item: it}
		}
		sl := &c04Slots{files: make(map[int]afero.File, len(setup.files)), infos: map[int]os.FileInfo{}}
		for k, v := range setup.files {
			sl.files[k] = v
		}
		r.ops = append(r.ops, ops)
		r.calls = append(r.calls, cs)
		r.slots = append(r.slots, sl)
	}
	return r, h
}

func (r *c04Run) call(g, i int) {
	if atomic.LoadInt32(&r.stop) != 0 {
		return
	}
	op := r.ops[g][i]
	c := &r.calls[g][i]
	c.Inv = atomic.AddInt64(&r.ctr, 1)
	res := c04Safe(op, r.fs, r.slots[g])
	c.Resp = atomic.AddInt64(&r.ctr, 1)
	if res == "panic" {
		atomic.StoreInt32(&r.stop, 1)
	}
	c.Res = res
}

func (r *c04Run) finish(h *c04Hist) {
	for _, cs := range r.calls {
		for _, c := range cs {
			if c.Res != "" && c.Resp != 0 { // calls that were made and returned
				h.Calls = append(h.Calls, c)
			}
		}
	}
	switch {
	case h.Hung || h.Deadlock != "":
		h.Final = "hung"
	case atomic.LoadInt32(&r.stop) != 0:
		h.Final = "skip" // after a recovered panic the final state is not inspected (a mutex may be held)
	default:
		h.Final = snapS(afero.VerifDump(r.fs))
	}
}

// stress execution: all goroutines are released together by one store; jitter[g] iterations of
// an empty loop desynchronise them a little, yield[g] inserts runtime.Gosched between calls
func c04Stress(p *c04Prog, jitter []int, yield []bool) *c04Hist {
	r, h := c04Prepare(p)
	n := len(p.Threads)
	var ready int32
	var start int32
	fin := make(chan struct{}, n)
	for g := 0; g < n; g++ {
		go func(g int) {
			atomic.AddInt32(&ready, 1)
			for k := 0; atomic.LoadInt32(&start) == 0; k++ {
				if k > 1<<16 {
					runtime.Gosched()
				}
			}
			x := 0
			for k := 0; k < jitter[g]; k++ {
				x += k
			}
			_ = x
			for i := range r.ops[g] {
				r.call(g, i)
				if yield[g] {
					runtime.Gosched()
				}
			}
			fin <- struct{}{}
		}(g)
	}
	for k := 0; atomic.LoadInt32(&ready) < int32(n); k++ {
		if k > 1<<10 {
			runtime.Gosched()
		}
	}
	atomic.StoreInt32(&start, 1)
	timer := time.NewTimer(3 * time.Second)
	for got := 0; got < n && !h.Hung; {
		select {
		case <-fin:
			got++
		case <-timer.C:
			h.Hung = true
		}
	}
	timer.Stop()
	r.finish(h)
	return h
}

// ---------------------------------------------------------------- canonical form of a history

// stamps are replaced by their ranks: only the order of invocations and responses matters
func (h *c04Hist) normalise() {
	var st []int64
	for _, c := range h.Calls {
		st = append(st, c.Inv, c.Resp)
	}
	sort.Slice(st, func(i, j int) bool { return st[i] < st[j] })
	rank := make(map[int64]int64, len(st))
	for i, v := range st {
		rank[v] = int64(i + 1)
	}
	for i := range h.Calls {
		h.Calls[i].Inv = rank[h.Calls[i].Inv]
		h.Calls[i].Resp = rank[h.Calls[i].Resp]
	}
}

func (h *c04Hist) key() string {
	var b strings.Builder
	for _, r := range h.SetupRes {
		b.WriteString(r)
		b.WriteByte(' ')
	}
	for _, c := range h.Calls {
		fmt.Fprintf(&b, "%d %d %d %s|", c.G, c.Inv, c.Resp, c.Res)
	}
	b.WriteString(h.Final)
	return b.String()
}

type c04Emitted struct {
	id    string
	prog  *c04Prog
	hist  *c04Hist
	count int
	mode  string
	// the verdict line of the implementation side: "hung", "linearizable", or — once the model
	// runner has refused the history — the runner's own answer (see c04Finish)
	verdict string
}

type c04State struct {
	c       *Ctx
	emitted []*c04Emitted
	byID    map[string]*c04Emitted
	total   int // histories executed (with multiplicity)
}

func (s *c04State) emit(id string, p *c04Prog, h *c04Hist, mode string, count int) {
	c := s.c
	hd := fmt.Sprintf("hcase %s %d %s", id, len(p.Threads), mode)
	if h.Sched != "" {
		hd += " sched=" + h.Sched
		if h.LockAware {
			hd += " yield=locks"
		}
		if h.Deadlock != "" {
			hd += " deadlock=" + h.Deadlock
		}
		if p.Focus != "" && p.Focus != "replay" && p.Focus != "sched" {
			hd += " focus=" + p.Focus
		}
	}
	c.Case("%s", hd)
	for i, it := range p.Setup {
		c.Case("s %s %s", h.SetupRes[i], it)
		c.Impl("%s#s%d %s", id, i, h.SetupRes[i])
	}
	for _, cl := range h.Calls {
		c.Case("c %d %d %d %s %s", cl.G, cl.Inv, cl.Resp, cl.Res, cl.Item)
	}
	c.Case("f %s", h.Final)
	c.Case("end")
	c.NCases++
	e := &c04Emitted{id: id, prog: p, hist: h, count: count, mode: mode, verdict: "linearizable"}
	if h.Hung || h.Deadlock != "" {
		e.verdict = "hung"
	}
	s.emitted = append(s.emitted, e)
	s.byID[id] = e
}

// ---------------------------------------------------------------- Go-side oracles

type c04Parsed struct {
	name  string
	path  string // cleaned first path argument ("" for handle ops)
	path2 string
	flag  int
	slot  int // slot bound by an open, or the slot a handle op uses
}

func c04Parse(item string) c04Parsed {
	t := strings.Fields(item)
	q := c04Parsed{name: t[2], slot: -1}
	if t[1] != "-" {
		q.slot = atoi(t[1])
	}
	a := t[3:]
	if c04IsSlotOp(q.name) {
		q.slot = atoi(a[0])
		return q
	}
	q.path = path.Clean(string(unhx(a[0])))
	switch q.name {
	case "Rename":
		q.path2 = path.Clean(string(unhx(a[1])))
	case "OpenFile":
		q.flag = atoi(a[1])
	}
	return q
}

func c04Kind(item string) string {
	q := c04Parse(item)
	if q.name == "OpenFile" {
		switch {
		case q.flag&os.O_CREATE != 0 && q.flag&os.O_EXCL != 0:
			return "OpenFile(excl)"
		case q.flag&os.O_CREATE != 0:
			return "OpenFile(create)"
		case q.flag&os.O_TRUNC != 0:
			return "OpenFile(trunc)"
		}
	}
	return q.name
}

func c04Under(p, dir string) bool { return p == dir || dir == "/" || strings.HasPrefix(p, dir+"/") }

// can this call take the entry `name` away (so that a second creation of it may succeed)?
func c04MayUnlink(q c04Parsed, name string) bool {
	switch q.name {
	case "Remove", "RemoveAll":
		return c04Under(name, q.path)
	case "Rename":
		return c04Under(name, q.path) || c04Under(name, q.path2)
	}
	return false
}

func c04Top(p string) string {
	p = strings.TrimPrefix(p, "/")
	if i := strings.IndexByte(p, '/'); i >= 0 {
		return p[:i]
	}
	return p
}

// footprints: top-level path components every goroutine touches; nil if some op touches "/"
func c04Footprints(p *c04Prog) []map[string]bool {
	slotPath := map[int]string{}
	for _, it := range p.Setup {
		q := c04Parse(it)
		if !c04IsSlotOp(q.name) && q.slot >= 0 {
			slotPath[q.slot] = q.path
		}
	}
	out := make([]map[string]bool, len(p.Threads))
	for g, th := range p.Threads {
		fp := map[string]bool{}
		for _, it := range th {
			q := c04Parse(it)
			var ps []string
			if c04IsSlotOp(q.name) {
				sp, ok := slotPath[q.slot]
				if !ok {
					continue // a slot that was never bound: "noslot" whatever happens
				}
				ps = []string{sp}
			} else {
				ps = []string{q.path}
				if q.name == "Rename" {
					ps = append(ps, q.path2)
				}
				if q.slot >= 0 {
					slotPath[q.slot] = q.path
				}
			}
			for _, x := range ps {
				if x == "/" || x == "." {
					return nil
				}
				fp[c04Top(x)] = true
			}
		}
		out[g] = fp
	}
	for g := range out {
		for g2 := g + 1; g2 < len(out); g2++ {
			for k := range out[g] {
				if out[g2][k] {
					return nil
				}
			}
		}
	}
	return out
}

// entries of a canonical snapshot grouped by top-level component
func c04SnapParts(snap string) map[string]string {
	out := map[string]string{}
	for _, e := range strings.Split(strings.TrimPrefix(snap, "snap:"), ";") {
		if e == "" {
			continue
		}
		f := strings.SplitN(e, "|", 2)
		top := c04Top(string(unhx(f[0])))
		out[top] += e + ";"
	}
	return out
}

func (s *c04State) oracles(e *c04Emitted) {
	c, id, p, h := s.c, e.id, e.prog, e.hist
	if h.Hung || h.Deadlock != "" {
		var ks []string
		sig := "deadlock"
		if h.Deadlock != "" {
			sig = "deadlock:" + h.Deadlock // found by the lock-aware scheduler: every live goroutine blocked
		}
		for _, cl := range h.Calls {
			ks = append(ks, c04Kind(cl.Item))
			if cl.Res == "panic" {
				// a recovered panic left a mutex locked (e.g. unRegisterWithParent panics between
				// parent.Lock and parent.Unlock): the next call that needs it never returns
				sig = "deadlock:after-panic"
			}
		}
		if h.Deadlock != "" {
			c.Oracle("FAIL %s %s under the cooperative scheduler (schedule %s) every live goroutine waits for a lock held by another one; pending acquisitions %s; calls that did return: %s", id, sig, h.Sched, h.Deadlock, c04Sig(ks))
		} else {
			c.Oracle("FAIL %s %s a call did not return within 3s; calls that did return: %s", id, sig, c04Sig(ks))
		}
		c.Add("fail.deadlock", e.count)
		return
	}
	parsed := make([]c04Parsed, len(h.Calls))
	for i, cl := range h.Calls {
		parsed[i] = c04Parse(cl.Item)
	}
	// exactly one winner among creations of one name that nothing can unlink meanwhile
	type key struct{ kind, name string }
	wins := map[key]int{}
	for i, cl := range h.Calls {
		q := parsed[i]
		k := c04Kind(cl.Item)
		if (k == "OpenFile(excl)" && cl.Res == "handle") || (q.name == "Mkdir" && cl.Res == "ok") {
			wins[key{k, q.path}]++
		}
		if (q.name == "Mkdir" || q.name == "MkdirAll") && cl.Res == "err:NotExist" {
			c.Oracle("FAIL %s mkdir:not-exist %s of %s returned not-exist for its own name (goroutine %d)", id, q.name, q.path, cl.G)
			c.Add("fail.mkdir:not-exist", e.count)
		}
		if (k == "OpenFile(excl)" || k == "OpenFile(create)") && cl.Res == "err:NotExist" {
			c.Oracle("FAIL %s create:not-exist OpenFile with O_CREATE of %s returned not-exist (goroutine %d)", id, q.path, cl.G)
			c.Add("fail.create:not-exist", e.count)
		}
		if cl.Res == "panic" {
			c.Count("res.panic")
		}
	}
	for k, n := range wins {
		if n < 2 {
			continue
		}
		unlink := false
		for _, q := range parsed {
			if c04MayUnlink(q, k.name) {
				unlink = true
			}
		}
		if unlink {
			continue
		}
		sig := "mkdir:two-winners"
		if k.kind == "OpenFile(excl)" {
			sig = "excl-create:two-winners"
		}
		c.Oracle("FAIL %s %s %d concurrent %s calls of %s succeeded and nothing removes that name", id, sig, n, k.kind, k.name)
		c.Add("fail."+sig, e.count)
	}
	// torn reads
	if p.Torn != nil {
		for _, cl := range h.Calls {
			if !strings.HasPrefix(cl.Item, ". - HReadAt ") || !strings.HasPrefix(cl.Res, "data:") {
				continue
			}
			ok := false
			for _, t := range p.Torn {
				if cl.Res == "data:"+t+":-" {
					ok = true
				}
			}
			if !ok {
				c.Oracle("FAIL %s torn-read goroutine %d read %s, neither the old content nor one of the whole-buffer writes %v", id, cl.G, cl.Res, p.Torn)
				c.Add("fail.torn-read", e.count)
			}
		}
	}
	// unrelated paths: every goroutine must see exactly what it sees when it runs alone
	if fps := c04Footprints(p); fps != nil && len(p.Threads) > 1 {
		c.Add("oracle.unrelated.applicable", e.count)
		if p.solo == nil {
			for g := range p.Threads {
				q := &c04Prog{Setup: p.Setup, Threads: [][]string{p.Threads[g]}}
				r, sh := c04Prepare(q)
				for i := range r.ops[0] {
					r.call(0, i)
				}
				r.finish(sh)
				var res []string
				for _, cl := range sh.Calls {
					res = append(res, cl.Res)
				}
				p.solo = append(p.solo, res)
				p.soloFin = append(p.soloFin, sh.Final)
			}
		}
		bad := false
		for _, cl := range h.Calls {
			if cl.I >= len(p.solo[cl.G]) {
				continue
			}
			if want := p.solo[cl.G][cl.I]; want != cl.Res {
				c.Oracle("FAIL %s unrelated:result-changed goroutine %d call %d (%s) returned %s, alone it returns %s; the goroutines use disjoint subtrees",
					id, cl.G, cl.I, c04Kind(cl.Item), cl.Res, want)
				bad = true
			}
		}
		got := c04SnapParts(h.Final)
		for g, fp := range fps {
			if !strings.HasPrefix(h.Final, "snap:") || !strings.HasPrefix(p.soloFin[g], "snap:") {
				break
			}
			want := c04SnapParts(p.soloFin[g])
			for top := range fp {
				if got[top] != want[top] {
					c.Oracle("FAIL %s unrelated:state-changed subtree /%s ends as %s, with goroutine %d alone it ends as %s", id, top, got[top], g, want[top])
					bad = true
				}
			}
		}
		if bad {
			c.Add("fail.unrelated", e.count)
		}
	}
}

// The signature of a non-linearizable history names the kinds of its core that have more than
// one critical section in memmap.go (the possible culprits), at most three, most suspicious
// first; a core without any such kind is written out in full ("nonlin:?...": unexpected).
var c04MultiSection = []string{"OpenFile(excl)", "OpenFile(create)", "RemoveAll", "Mkdir", "MkdirAll", "Chmod", "Chtimes", "OpenFile(trunc)", "OpenFile"}

func c04Culprits(kinds []string) string {
	has := map[string]int{}
	for _, k := range kinds {
		has[k]++
	}
	var u []string
	for _, k := range c04MultiSection {
		if has[k] > 0 && len(u) < 3 {
			u = append(u, k)
			if has[k] > 1 && len(u) == 1 && (k == "OpenFile(excl)" || k == "OpenFile(create)" || k == "Mkdir") {
				u = append(u, k) // e.g. OpenFile(excl)||OpenFile(excl): the race of a method with itself
				break
			}
		}
	}
	if len(u) == 0 {
		return "?" + c04Sig(kinds)
	}
	return strings.Join(u, "||")
}

// a kind is written once, or twice when it occurs two or more times
func c04Sig(kinds []string) string {
	sort.Strings(kinds)
	var u []string
	for i, k := range kinds {
		if i == 0 || k != kinds[i-1] || (i == 1 || k != kinds[i-2]) {
			u = append(u, k)
		}
	}
	if len(u) > 6 {
		u = append(u[:6], "...")
	}
	return strings.Join(u, "||")
}

// ---------------------------------------------------------------- the model's verdicts

// runs ../ocaml/modelrun on the histories written so far and turns NOT-linearizable answers
// into oracle failures; returns a note when the runner is missing
func (s *c04State) judge() {
	c := s.c
	c.cases.Flush()
	mr, _ := filepath.Abs(filepath.Join("..", "ocaml", "modelrun"))
	if v := os.Getenv("C04_MODELRUN"); v != "" {
		mr = v
	}
	if _, err := os.Stat(mr); err != nil {
		c.Extra["modelrun"] = "missing (" + mr + "): non-linearizable histories are reported by the correspondence comparison only"
		return
	}
	t0 := time.Now()
	alive := c04KeepAlive(c)
	out, err := exec.Command(mr, filepath.Join(c.Out, "cases.txt")).Output()
	alive()
	if err != nil {
		c.Extra["modelrun"] = "failed: " + err.Error()
		return
	}
	c.Extra["modelrun_s"] = fmt.Sprintf("%.1f", time.Since(t0).Seconds())
	for _, line := range strings.Split(string(out), "\n") {
		t := strings.Fields(line)
		if len(t) < 3 || t[0] != "M" || t[2] != "NOT-linearizable" {
			continue
		}
		e := s.byID[t[1]]
		if e == nil {
			continue
		}
		// op kinds of the core: a small sub-history that is still not linearizable
		h := e.hist
		var ks []string
		for _, f := range t[3:] {
			if strings.HasPrefix(f, "core=") {
				for _, x := range strings.Split(f[5:], ",") {
					if x != "" {
						cl := h.Calls[atoi(x)]
						k := c04Kind(cl.Item)
						// the FileInfo returned by Stat is a live view: it may already carry another name
						if q := c04Parse(cl.Item); k == "Stat" && strings.HasPrefix(cl.Res, "info:") &&
							!strings.HasPrefix(cl.Res, "info:"+c04hx(path.Base(q.path))+"|") {
							k = "Stat(renamed)"
						}
						ks = append(ks, k)
					}
				}
			}
		}
		e.verdict = strings.Join(t[2:], " ")
		sig := "nonlin:" + c04Culprits(ks)
		if strings.HasPrefix(e.prog.Focus, "preempt-") {
			sig += "@" + e.prog.Focus // which window of real preemption (c04PreemptProgs)
		}
		if h.LockAware && strings.HasPrefix(e.prog.Focus, "window-") {
			sig += "@" + e.prog.Focus // which window program of the lock-aware cooperative scheduler
		}
		coreKinds := c04Sig(ks)
		c.Oracle("FAIL %s %s no order of the %d calls respects real time and reproduces the results and the final state on the sequential model (%s); core kinds %s; focus=%s mode=%s seen %d times",
			e.id, sig, len(h.Calls), strings.Join(t[3:], " "), coreKinds, e.prog.Focus, e.mode, e.count)
		c.Add("fail."+sig, e.count)
		c.Sample(fmt.Sprintf("%s %s: setup %v | calls %v | final %s", e.id, sig, e.prog.Setup, h.Calls, h.Final))
	}
}

// main.go's watchdog reads c.NCases every 30 s and reports a deadlock when it did not move; while
// the child binary or the model runner works for this process, keep it moving (and restore it)
func c04KeepAlive(c *Ctx) func() {
	stop := make(chan struct{})
	done := make(chan struct{})
	added := 0
	go func() {
		defer close(done)
		for {
			select {
			case <-stop:
				return
			case <-time.After(5 * time.Second):
				c.NCases++
				added++
			}
		}
	}()
	return func() { close(stop); <-done; c.NCases -= added }
}

// ---------------------------------------------------------------- driver

func runC04(c *Ctx) {
	log.SetOutput(io.Discard) // Remove's log.Panic on an orphan is a modelled outcome ("panic")
	if runtime.GOMAXPROCS(0) < 4 {
		runtime.GOMAXPROCS(4)
	}
	s := &c04State{c: c, byID: map[string]*c04Emitted{}}
	child := os.Getenv("C04_CHILD") != ""
	if child {
		c04SchedPhase(s)
		c04Finish(s, false)
		return
	}
	if c.From != nil {
		c04Replay(s)
	} else {
		c04StressPhase(s)
	}
	schedNote := c04RunSchedChild(s)
	c.Extra["sched"] = schedNote
	c04Finish(s, true)
	if strings.HasPrefix(schedNote, "FAILED") {
		c.Close()
		fmt.Fprintln(os.Stderr, "C04: instrumented scheduler build/run failed:", schedNote)
		os.Exit(5)
	}
}

func c04Finish(s *c04State, judge bool) {
	c := s.c
	for _, e := range s.emitted {
		s.oracles(e)
		c.Add("histories.distinct."+e.mode, 1)
		c.Add("histories.run."+e.mode, e.count)
		c.Add("focus."+e.prog.Focus, e.count)
		for _, cl := range e.hist.Calls {
			c.Add("op."+c04Kind(cl.Item), e.count)
			c.Add("res."+strings.SplitN(cl.Res, ":", 2)[0], e.count)
		}
		c.Add(fmt.Sprintf("goroutines.%d", len(e.prog.Threads)), e.count)
		c.Add(fmt.Sprintf("calls.%d", len(e.hist.Calls)), e.count)
		// how concurrent was it: number of pairs of calls of different goroutines that overlap
		ov := 0
		for i, a := range e.hist.Calls {
			for _, b := range e.hist.Calls[i+1:] {
				if a.G != b.G && !(a.Resp < b.Inv || b.Resp < a.Inv) {
					ov++
				}
			}
		}
		if ov > 0 {
			c.Add("histories.with-overlap."+e.mode, e.count)
		}
	}
	if judge {
		s.judge()
	}
	// The verdict line.  A history the model runner refuses is reported through the oracle (FAIL
	// <id> nonlin:... with the history as the failing input); its verdict line repeats the
	// runner's answer, so that the refusal is not counted a second time as a divergence between
	// implementation and model (the setup steps stay compared line by line).  Without a model
	// runner every verdict line says "linearizable" and a refusal shows up in that comparison.
	for _, e := range s.emitted {
		c.Impl("%s %s", e.id, e.verdict)
	}
	if !judge {
		// child: multiplicities for the parent
		var b strings.Builder
		for _, e := range s.emitted {
			fmt.Fprintf(&b, "%s %d\n", e.id, e.count)
		}
		os.WriteFile(filepath.Join(c.Out, "counts.txt"), []byte(b.String()), 0o644)
	}
}

// stress phase: every program is run `reps` times; distinct histories are emitted once
func c04StressPhase(s *c04State) {
	c := s.c
	nprog, reps := 260, 160
	if c.Tier == "thorough" {
		nprog, reps = 2000, 500
	}
	if v := os.Getenv("C04_PROGS"); v != "" {
		nprog = atoi(v)
	}
	if v := os.Getenv("C04_REPS"); v != "" {
		reps = atoi(v)
	}
	for pi := 0; pi < nprog; pi++ {
		p := c04GenProg(c.Rng, pi)
		s.stressProg(fmt.Sprintf("h%d", pi), p, reps)
	}
	// the windows only real preemption opens (after the generated programs: their random
	// streams stay what they were)
	if os.Getenv("C04_NOPREEMPT") == "" {
		t0 := time.Now()
		for wi, w := range c04PreemptProgs(c.Tier) {
			n0 := s.total
			s.stressProg(fmt.Sprintf("p%d", wi), w.prog, w.reps)
			c.Add("preempt."+w.prog.Focus+".rounds", s.total-n0)
		}
		c.Extra["preempt_s"] = fmt.Sprintf("%.1f", time.Since(t0).Seconds())
	}
}

func (s *c04State) stressProg(idp string, p *c04Prog, reps int) {
	c := s.c
	n := len(p.Threads)
	seen := map[string]*c04Emitted{}
	jit := make([]int, n)
	yl := make([]bool, n)
	k := 0
	for rep := 0; rep < reps; rep++ {
		for g := 0; g < n; g++ {
			jit[g] = 0
			if c.Rng.Chance(1, 2) {
				jit[g] = c.Rng.Intn(400)
			}
			yl[g] = c.Rng.Chance(1, 8)
		}
		h := c04Stress(p, jit, yl)
		h.normalise()
		s.total++
		key := h.key()
		if e, ok := seen[key]; ok {
			e.count++
			continue
		}
		maxd := 40
		if p.MaxDistinct > 0 {
			maxd = p.MaxDistinct
		}
		if len(seen) >= maxd { // bound the output per program; still counted
			c.Count("histories.dropped-over-40-distinct")
			continue
		}
		s.emit(fmt.Sprintf("%s.%d", idp, k), p, h, "stress", 1)
		seen[key] = s.emitted[len(s.emitted)-1]
		k++
		if h.Hung {
			return // the filesystem of this run is wedged; later runs start fresh, but stop this program
		}
	}
}

// replay: the given histories are re-run (their programs under stress, or their schedule in
// the scheduled binary); a violation shows again as a FAIL line
func c04Replay(s *c04State) {
	for _, lines := range s.c.From {
		id, p, sched := c04ParseCase(lines)
		if p == nil || sched != "" {
			continue // scheduled cases are replayed by the child
		}
		s.stressProg(id+"r", p, 3000)
	}
}

func c04ParseCase(lines []string) (string, *c04Prog, string) {
	hd := strings.Fields(lines[0])
	if hd[0] != "hcase" || len(hd) < 3 {
		return "", nil, ""
	}
	p := &c04Prog{Focus: "replay"}
	n := atoi(hd[2])
	p.Threads = make([][]string, n)
	sched := ""
	for _, f := range hd[3:] {
		switch {
		case strings.HasPrefix(f, "sched="):
			sched = f[6:]
		case f == "yield=locks":
			p.LockAware = true
		case strings.HasPrefix(f, "focus="):
			p.Focus = f[6:]
		}
	}
	type ci struct {
		inv  int
		item string
	}
	per := make([][]ci, n)
	for _, l := range lines[1:] {
		t := strings.SplitN(l, " ", 6)
		switch t[0] {
		case "s":
			p.Setup = append(p.Setup, strings.SplitN(l, " ", 3)[2])
		case "c":
			g := atoi(t[1])
			per[g] = append(per[g], ci{atoi(t[2]), t[5]})
		}
	}
	for g := range per {
		sort.Slice(per[g], func(i, j int) bool { return per[g][i].inv < per[g][j].inv })
		for _, x := range per[g] {
			p.Threads[g] = append(p.Threads[g], x.item)
		}
	}
	return hd[1], p, sched
}
