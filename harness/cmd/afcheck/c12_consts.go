package main

// C12 translator half: looks at the CURRENT text of /repo/unionFile.go `func copyFile` and tells
// the Coq model from which spelling of the name the parent directory is computed.
//   copyfile_cleans_name = 0 : filepath.Dir(name)            (the tree as pinned: for "/d/f/" that is "/d/f",
//                                                             so MkdirAll creates a DIRECTORY named like the file)
//   copyfile_cleans_name = 1 : copyFile calls filepath.Clean (Dir of the cleaned name: "/d")
// The correspondence run checks the answer: a wrong guess shows as model-vs-implementation mismatches
// on the trailing-separator cases of C12.

import "fmt"

func init() { extraConsts = append(extraConsts, copyFileConsts) }

func copyFileConsts(repo string, add func(string, int64, string)) error {
	p, err := parseSrc(repo, "unionFile.go")
	if err != nil {
		return err
	}
	fd := p.fn("", "copyFile")
	if fd == nil || fd.Body == nil {
		return fmt.Errorf("unionFile.go: func copyFile not found")
	}
	if !hasMethodCall(fd, "Dir") {
		return fmt.Errorf("unionFile.go: copyFile no longer calls filepath.Dir: the model of its parent-directory step needs a look")
	}
	v := int64(0)
	if hasMethodCall(fd, "Clean") {
		v = 1
	}
	add("copyfile_cleans_name", v, "unionFile.go copyFile: 1 iff the parent directory is computed from filepath.Clean(name)")
	return nil
}
