package main

// C12 translator half: looks at the CURRENT text of /repo/unionFile.go `func copyFile` and tells
// the Coq model from which spelling of the name the parent directory is computed.
//   copyfile_cleans_name = 0 : filepath.Dir(name)            (the tree as pinned: for "/d/f/" that is "/d/f",
//                                                             so MkdirAll creates a DIRECTORY named like the file)
//   copyfile_cleans_name = 1 : copyFile calls filepath.Clean (Dir of the cleaned name: "/d")
// The correspondence run checks the answer: a wrong guess shows as model-vs-implementation mismatches
// on the trailing-separator cases of C12.

import (
	"fmt"
	"go/ast"
	"go/token"
)

func init() { extraConsts = append(extraConsts, copyFileConsts, unionWriteConsts) }

// unionfile_write_checks_base_count: UnionFile.Write / WriteAt / WriteString write to the Layer handle and then
// to the Base handle.  Two shapes of the base call are known:
//
//	0 (the tree as pinned)   _, err = f.Base.M(...)                      the base's byte count is discarded: a base
//	                                                                     that takes fewer bytes and reports no error
//	                                                                     goes unnoticed (C12 partial-copy:*:D.HWrite)
//	1 (repaired)             nb, err = f.Base.M(...)
//	                         if err == nil && nb < n { n, err = nb, io.ErrShortWrite }
//
// The switch is 1 iff ALL THREE methods have the second shape, 0 iff all three have the first one.  A mixture, or
// any other shape of that statement, is an error (the model has one switch for the three methods: Model/Union.v
// union_write_result).
func unionWriteShape(fd *ast.FuncDecl, method string) (int64, error) {
	isBaseCall := func(e ast.Expr) bool {
		ce, ok := e.(*ast.CallExpr)
		if !ok {
			return false
		}
		se, ok := ce.Fun.(*ast.SelectorExpr)
		if !ok || se.Sel.Name != method {
			return false
		}
		in, ok := se.X.(*ast.SelectorExpr)
		return ok && in.Sel.Name == "Base"
	}
	isIdent := func(e ast.Expr, name string) bool {
		id, ok := e.(*ast.Ident)
		return ok && id.Name == name
	}
	isShortWrite := func(e ast.Expr) bool {
		se, ok := e.(*ast.SelectorExpr)
		return ok && se.Sel.Name == "ErrShortWrite" && isIdent(se.X, "io")
	}
	shape, seen := int64(-1), 0
	var bad error
	ast.Inspect(fd, func(n ast.Node) bool {
		blk, ok := n.(*ast.BlockStmt)
		if !ok {
			return true
		}
		for i, st := range blk.List {
			as, ok := st.(*ast.AssignStmt)
			if !ok || len(as.Rhs) != 1 || !isBaseCall(as.Rhs[0]) {
				continue
			}
			seen++
			if len(as.Lhs) != 2 || as.Tok != token.ASSIGN || !isIdent(as.Lhs[1], "err") {
				bad = fmt.Errorf("unionFile.go UnionFile.%s: the base call is not assigned to (count, err)", method)
				continue
			}
			cnt, ok := as.Lhs[0].(*ast.Ident)
			if !ok || cnt.Name == "n" {
				bad = fmt.Errorf("unionFile.go UnionFile.%s: unknown destination of the base call's count", method)
				continue
			}
			if cnt.Name == "_" {
				shape = 0
				continue
			}
			// the next statement must be: if err == nil && cnt < n { n, err = cnt, io.ErrShortWrite }
			found := false
			if i+1 < len(blk.List) {
				if is, ok := blk.List[i+1].(*ast.IfStmt); ok && is.Else == nil && is.Init == nil {
					if c, ok := is.Cond.(*ast.BinaryExpr); ok && c.Op == token.LAND {
						l, okl := c.X.(*ast.BinaryExpr)
						r, okr := c.Y.(*ast.BinaryExpr)
						if okl && okr && l.Op == token.EQL && isIdent(l.X, "err") && isIdent(l.Y, "nil") &&
							r.Op == token.LSS && isIdent(r.X, cnt.Name) && isIdent(r.Y, "n") && len(is.Body.List) == 1 {
							if b, ok := is.Body.List[0].(*ast.AssignStmt); ok && b.Tok == token.ASSIGN && len(b.Lhs) == 2 && len(b.Rhs) == 2 &&
								isIdent(b.Lhs[0], "n") && isIdent(b.Lhs[1], "err") && isIdent(b.Rhs[0], cnt.Name) && isShortWrite(b.Rhs[1]) {
								found = true
							}
						}
					}
				}
			}
			if !found {
				bad = fmt.Errorf("unionFile.go UnionFile.%s: the base call keeps its count in %s, but it is not followed by `if err == nil && %s < n { n, err = %s, io.ErrShortWrite }`", method, cnt.Name, cnt.Name, cnt.Name)
				continue
			}
			shape = 1
		}
		return true
	})
	if bad != nil {
		return 0, bad
	}
	if seen != 1 || shape < 0 {
		return 0, fmt.Errorf("unionFile.go UnionFile.%s: expected exactly one statement assigning f.Base.%s(...), found %d", method, method, seen)
	}
	if shape == 0 {
		// the old shape must not mention io.ErrShortWrite anywhere else
		mention := false
		ast.Inspect(fd, func(n ast.Node) bool {
			if e, ok := n.(ast.Expr); ok && isShortWrite(e) {
				mention = true
			}
			return true
		})
		if mention {
			return 0, fmt.Errorf("unionFile.go UnionFile.%s: discards the base's count but mentions io.ErrShortWrite: unknown shape", method)
		}
	}
	return shape, nil
}

func unionWriteConsts(repo string, add func(string, int64, string)) error {
	p, err := parseSrc(repo, "unionFile.go")
	if err != nil {
		return err
	}
	sum, txt := int64(0), ""
	for _, m := range []string{"Write", "WriteAt", "WriteString"} {
		fd := p.fn("UnionFile", m)
		if fd == nil || fd.Body == nil {
			return fmt.Errorf("unionFile.go: UnionFile.%s not found", m)
		}
		v, err := unionWriteShape(fd, m)
		if err != nil {
			return err
		}
		sum += v
		txt += fmt.Sprintf(" %s=%d", m, v)
	}
	if sum != 0 && sum != 3 {
		return fmt.Errorf("unionFile.go: UnionFile.Write/WriteAt/WriteString disagree on checking the base's byte count (%s ): the model has one switch for the three", txt)
	}
	add("unionfile_write_checks_base_count", sum/3, "unionFile.go UnionFile.Write/WriteAt/WriteString: 1 iff each compares the base handle's byte count with the layer's and returns (base count, io.ErrShortWrite) when it is smaller and no error was reported")
	return nil
}

func copyFileConsts(repo string, add func(string, int64, string)) error {
	p, err := parseSrc(repo, "unionFile.go")
	if err != nil {
		return err
	}
	fd := p.fn("", "copyFile")
	if fd == nil || fd.Body == nil {
		return fmt.Errorf("unionFile.go: func copyFile not found")
	}
	if !hasMethodCall(fd, "Dir") {
		return fmt.Errorf("unionFile.go: copyFile no longer calls filepath.Dir: the model of its parent-directory step needs a look")
	}
	v := int64(0)
	if hasMethodCall(fd, "Clean") {
		v = 1
	}
	add("copyfile_cleans_name", v, "unionFile.go copyFile: 1 iff the parent directory is computed from filepath.Clean(name)")
	rm, err := copyFileCreateBranch(fd)
	if err != nil {
		return err
	}
	add("copyfile_removes_after_failed_create", rm, "unionFile.go copyFile: 1 iff the error branch of `lfh, err := layer.Create(name)` calls layer.Remove(name) before returning the error")
	return nil
}

// copyfile_removes_after_failed_create: what copyFile does when `lfh, err := layer.Create(name)` fails.
//
//	0 (the tree as pinned)   if err != nil { return err }
//	1 (repaired)             if err != nil { layer.Remove(name); return err }
//
// The second shape matters when the layer is itself made of several filesystems: CacheOnReadFs.Create creates
// the file in ITS base, then in its layer, and when the second step fails the first one stays (an empty or
// truncated file that later reads take for a complete copy: C12 partial-copy:cache2*:L.Create).  Any other
// shape of that branch (another call in it, Remove of another name or on another receiver, a result that is
// used, a return of something else) is an error: the model (Model/Union.v copy_file) knows these two only.
func copyFileCreateBranch(fd *ast.FuncDecl) (int64, error) {
	if fd.Type.Params == nil || len(fd.Type.Params.List) < 3 {
		return 0, fmt.Errorf("unionFile.go copyFile: unexpected parameter list")
	}
	isIdent := func(e ast.Expr, name string) bool {
		id, ok := e.(*ast.Ident)
		return ok && id.Name == name
	}
	// layer.<method>(name) with exactly that receiver and that single argument
	isLayerCall := func(e ast.Expr, method string) bool {
		ce, ok := e.(*ast.CallExpr)
		if !ok || len(ce.Args) != 1 || !isIdent(ce.Args[0], "name") {
			return false
		}
		se, ok := ce.Fun.(*ast.SelectorExpr)
		return ok && se.Sel.Name == method && isIdent(se.X, "layer")
	}
	seen, shape := 0, int64(-1)
	var bad error
	ast.Inspect(fd, func(n ast.Node) bool {
		blk, ok := n.(*ast.BlockStmt)
		if !ok {
			return true
		}
		for i, st := range blk.List {
			as, ok := st.(*ast.AssignStmt)
			if !ok || len(as.Rhs) != 1 || !isLayerCall(as.Rhs[0], "Create") {
				continue
			}
			seen++
			if len(as.Lhs) != 2 || !isIdent(as.Lhs[1], "err") || isIdent(as.Lhs[0], "_") {
				bad = fmt.Errorf("unionFile.go copyFile: layer.Create(name) is not assigned to (handle, err)")
				continue
			}
			if i+1 >= len(blk.List) {
				bad = fmt.Errorf("unionFile.go copyFile: no statement after layer.Create(name)")
				continue
			}
			is, ok := blk.List[i+1].(*ast.IfStmt)
			if !ok || is.Init != nil || is.Else != nil {
				bad = fmt.Errorf("unionFile.go copyFile: layer.Create(name) is not followed by a plain `if err != nil { ... }`")
				continue
			}
			c, ok := is.Cond.(*ast.BinaryExpr)
			if !ok || c.Op != token.NEQ || !isIdent(c.X, "err") || !isIdent(c.Y, "nil") {
				bad = fmt.Errorf("unionFile.go copyFile: the test after layer.Create(name) is not `err != nil`")
				continue
			}
			body := is.Body.List
			isRetErr := func(s ast.Stmt) bool {
				r, ok := s.(*ast.ReturnStmt)
				return ok && len(r.Results) == 1 && isIdent(r.Results[0], "err")
			}
			switch {
			case len(body) == 1 && isRetErr(body[0]):
				shape = 0
			case len(body) == 2 && isRetErr(body[1]):
				es, ok := body[0].(*ast.ExprStmt)
				if !ok || !isLayerCall(es.X, "Remove") {
					bad = fmt.Errorf("unionFile.go copyFile: the error branch of layer.Create(name) has a statement before `return err` that is not `layer.Remove(name)`")
					continue
				}
				shape = 1
			default:
				bad = fmt.Errorf("unionFile.go copyFile: unknown shape of the error branch of layer.Create(name) (%d statements)", len(body))
			}
		}
		return true
	})
	if bad != nil {
		return 0, bad
	}
	if seen != 1 || shape < 0 {
		return 0, fmt.Errorf("unionFile.go copyFile: expected exactly one `lfh, err := layer.Create(name)`, found %d", seen)
	}
	// the parameters must really be called layer and name (otherwise the matches above are about something else)
	names := map[string]bool{}
	for _, f := range fd.Type.Params.List {
		for _, n := range f.Names {
			names[n.Name] = true
		}
	}
	if !names["layer"] || !names["name"] {
		return 0, fmt.Errorf("unionFile.go copyFile: parameters layer/name not found")
	}
	return shape, nil
}
