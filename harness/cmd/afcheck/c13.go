package main

// C13 — RegexpFs: a regular file whose base name does not match is never reported, created,
// opened, written, renamed, chmod-ed/chown-ed/chtimes-ed or individually removed through the
// filter; matching files are transparent; directories are never hidden.
//
//   case <id> <stack>         stacks re:<n>(mem), ro(re:0(mem)), re:0(bp:2f64(mem))
//   rematch <id> <n> <name>   re_match n name (Stack.v) against regexp.MatchString
//
// The oracle below never consults the model: it uses regexp.MustCompile(RegexpPatterns[n]) on base
// names and direct dumps of the MemMapFs at the bottom of the stack.
import (
	"fmt"
	"os"
	"path"
	"regexp"
	"sort"
	"strings"

	"github.com/spf13/afero"
)

func init() { props["C13"] = runC13 }

var c13Names = []string{"a", "ab", "b", "c", "a.txt", "n.txt", "x.dat"}

type c13Env struct {
	pat    int
	re     *regexp.Regexp
	more   []*regexp.Regexp // further filters of a stack of RegexpFs: a name shows only if all match
	prefix string // where the filter's root lives in the MemMapFs ("" or the BasePathFs root)
}

func c13EnvOf(stack string) c13Env {
	e := c13Env{}
	i := strings.Index(stack, "re:")
	j := i + 3
	for j < len(stack) && stack[j] >= '0' && stack[j] <= '9' {
		j++
	}
	e.pat = atoi(stack[i+3 : j])
	e.re = regexp.MustCompile(RegexpPatterns[e.pat])
	for rest := stack[j:]; strings.Contains(rest, "re:"); {
		k := strings.Index(rest, "re:") + 3
		l := k
		for l < len(rest) && rest[l] >= '0' && rest[l] <= '9' {
			l++
		}
		e.more = append(e.more, regexp.MustCompile(RegexpPatterns[atoi(rest[k:l])]))
		rest = rest[l:]
	}
	if k := strings.Index(stack, "bp:"); k >= 0 {
		l := strings.IndexByte(stack[k:], '(')
		e.prefix = path.Clean("/" + string(unhx(stack[k+3:k+l])))
		if e.prefix == "/" {
			e.prefix = ""
		}
	}
	return e
}

func (e c13Env) matches(p string) bool {
	for _, r := range e.more {
		if !r.MatchString(path.Base(p)) {
			return false
		}
	}
	return e.re.MatchString(path.Base(p))
}

// path of the MemMapFs entry behind a name used through the filter
func (e c13Env) memPath(p string) string { return path.Clean(e.prefix + path.Clean("/"+p)) }

type c13Entry struct {
	dir  bool
	deep string // bytes|mode|mtime ns
	data string
}

func c13Dump(fs afero.Fs) map[string]c13Entry {
	m := map[string]c13Entry{}
	for _, x := range afero.VerifDump(fs) {
		m[x.Path] = c13Entry{dir: x.Dir, deep: fmt.Sprintf("%s|%d|%d", hx(x.Data), uint32(x.Mode), x.ModTime.UnixNano()), data: string(x.Data)}
	}
	return m
}

func under(dir, p string) bool {
	return p == dir || dir == "/" || strings.HasPrefix(p, dir+"/")
}

func c13Safe(f func()) (ok bool) {
	defer func() {
		if r := recover(); r != nil {
			ok = false
		}
	}()
	f()
	return true
}

func fiExact(fi os.FileInfo) string {
	return fmt.Sprintf("%s|%v|%d|%d|%d", hx([]byte(fi.Name())), fi.IsDir(), fi.Size(), uint32(fi.Mode()), fi.ModTime().UnixNano())
}

var c13Rematch = map[string]bool{}

func c13EmitMatch(c *Ctx, pat int, name string) {
	key := fmt.Sprintf("%d %s", pat, hx([]byte(name)))
	if c13Rematch[key] {
		return
	}
	c13Rematch[key] = true
	id := fmt.Sprintf("m%d", len(c13Rematch))
	c13RunMatch(c, id, pat, hx([]byte(name)))
}

func c13RunMatch(c *Ctx, id string, pat int, nameHex string) {
	c.Case("rematch %s %d %s", id, pat, nameHex)
	c.Impl("%s %v", id, regexp.MustCompile(RegexpPatterns[pat]).MatchString(string(unhx(nameHex))))
	c.Count("rematch")
	c.NCases++
}

func c13Case(c *Ctx, id, stack string, items []string) {
	env := c13EnvOf(stack)
	in := NewInterp(stack)
	mem := in.Top.At(memTarget(stack)).Fs
	reL := in.Top
	for reL.Kind != "re" {
		reL = reL.Kids[0]
	}
	source := reL.Kids[0].Fs // the filesystem the filter wraps
	through := in.Top.Fs
	var pending [][2]string // names to compare with the model's matcher (emitted after the block)
	c.Case("case %s %s", id, stack)
	failed := false
	fail := func(sig, format string, a ...any) {
		if !failed {
			c.Oracle("FAIL %s %s %s", id, sig, fmt.Sprintf(format, a...))
		}
		failed = true
	}
	dead := false
	slotPath := map[string]string{} // slots bound by a call made through the filter -> cleaned name
	// ---- (c) as a closure: run after every step through the filter (listing through Open) and once
	// more at the end of the case (listing through OpenFile as well)
	sweepC := func(i int, it string, after map[string]c13Entry, hows []string) {
		snap0 := deepSnap(mem)
		// ---- (c) matching files are transparent, directories are visible and listable
		var srcPaths []string
		for p := range after {
			if env.prefix == "" {
				srcPaths = append(srcPaths, p)
			} else if p == env.prefix {
				srcPaths = append(srcPaths, "/")
			} else if strings.HasPrefix(p, env.prefix+"/") {
				srcPaths = append(srcPaths, p[len(env.prefix):])
			}
		}
		sort.Strings(srcPaths)
		okc := c13Safe(func() {
			for _, p := range srcPaths {
				e := after[env.memPath(p)]
				if !e.dir {
					if !env.matches(p) {
						// (b) again, for every hidden file: not stat-able, not openable
						if fi, err := through.Stat(p); err == nil {
							fail("hidden-reported:sweep-Stat", "after step %d (%s): Stat(%s) through the filter = %s", i, it, p, fiExact(fi))
						}
						if fh, err := through.Open(p); err == nil {
							fh.Close()
							fail("hidden-opened:sweep-Open", "after step %d (%s): Open(%s) through the filter succeeded", i, it, p)
						}
						// ... under every spelling the source cleans to the same file (reads only: Stat, a
						// read-only OpenFile)
						for _, sp := range []string{p + "/.", p + "/", "/." + p, p + "/x/.."} {
							if fi, err := through.Stat(sp); err == nil {
								fail("hidden-reported:sweep-Stat:spelling", "after step %d (%s): Stat(%s) through the filter = %s", i, it, sp, fiExact(fi))
							}
							if fh, err := through.OpenFile(sp, os.O_RDONLY, 0); err == nil {
								fh.Close()
								fail("hidden-opened:sweep-OpenFile:spelling", "after step %d (%s): OpenFile(%s, O_RDONLY) through the filter succeeded", i, it, sp)
							}
						}
						continue
					}
					a, errA := through.Stat(p)
					b, errB := source.Stat(p)
					if errB != nil {
						continue // the underlying filesystem itself does not show it (ill-formed tree)
					}
					if errA != nil || fiExact(a) != fiExact(b) {
						fail("matching-differs:Stat", "after step %d (%s): Stat(%s) through the filter = %v / %v, direct = %s", i, it, p, func() string {
							if a != nil {
								return fiExact(a)
							}
							return "-"
						}(), errA, fiExact(b))
						return
					}
					da, errA := afero.ReadFile(through, p)
					db, errB := afero.ReadFile(source, p)
					if errB == nil && (errA != nil || string(da) != string(db) || string(db) != e.data) {
						fail("matching-differs:ReadFile", "after step %d (%s): ReadFile(%s) through = %s (%v), direct = %s", i, it, p, hx(da), errA, hx(db))
						return
					}
					continue
				}
				if _, errB := source.Stat(p); errB != nil {
					continue
				}
				fi, err := through.Stat(p)
				if err != nil || !fi.IsDir() {
					fail("dir-hidden:Stat", "after step %d (%s): directory %s is not stat-able through the filter: %v", i, it, p, err)
					return
				}
				for _, how := range hows {
					var fh afero.File
					if how == "Open" {
						fh, err = through.Open(p)
					} else {
						fh, err = through.OpenFile(p, os.O_RDONLY, 0)
					}
					if err != nil {
						fail("dir-hidden:"+how, "after step %d (%s): directory %s cannot be opened through the filter: %v", i, it, p, err)
						return
					}
					names, err := fh.Readdirnames(-1)
					fh.Close()
					if err != nil {
						fail("dir-hidden:Readdirnames", "after step %d (%s): directory %s cannot be listed through the filter: %v", i, it, p, err)
						return
					}
					// reference: the underlying filesystem's own listing of that directory, minus the
					// non-matching regular files
					var want []string
					mp := env.memPath(p)
					dh, err := source.Open(p)
					if err != nil {
						continue
					}
					direct, err := dh.Readdir(-1)
					dh.Close()
					if err != nil {
						continue
					}
					for _, x := range direct {
						if x.IsDir() || env.re.MatchString(x.Name()) {
							want = append(want, x.Name())
						}
					}
					sort.Strings(want)
					sort.Strings(names)
					if strings.Join(names, "\x00") != strings.Join(want, "\x00") {
						sig := "listing-differs:" + how
						for _, n := range names {
							if ce, ok := after[path.Join(mp, n)]; ok && !ce.dir && !env.re.MatchString(n) {
								sig = "hidden-reported:sweep-" + how + "+Readdirnames"
							}
						}
						fail(sig, "after step %d (%s): %s(%s)+Readdirnames(-1) through the filter = %q, directories and matching files of the direct listing = %q", i, it, how, p, names, want)
						return
					}
					// ... and the same names when the directory is read one entry per call: however many
					// hidden entries lie between two visible ones, the visible ones all turn up before EOF
					if ph, err := through.Open(p); err == nil {
						var paged []string
						for k := 0; k < 5000; k++ {
							page, perr := ph.Readdirnames(1)
							paged = append(paged, page...)
							if perr != nil || len(page) == 0 {
								break
							}
						}
						ph.Close()
						sort.Strings(paged)
						if strings.Join(paged, "\x00") != strings.Join(want, "\x00") {
							fail("listing-differs:paged", "after step %d (%s): %s read one entry per call through the filter = %q, directories and matching files of the direct listing = %q", i, it, p, paged, want)
							return
						}
					}
				}
			}
		})
		if !okc {
			c.Count("oracle.sweep-panicked")
			failed = true // MemMapFs in a state where its own listing panics: not a statement of C13
			dead = true   // ... and possibly with its lock still held: nothing more can be executed
		}

		if !failed && deepSnap(mem) != snap0 {
			fail("oracle:sweep-changed-source", "the oracle's own reads changed the source")
		}
		// at the end of the case only (closing such a handle stamps the directory): a directory
		// opened with a WRITE access mode (MemMapFs allows it) lists no hidden file either
		if !failed && !dead && len(hows) > 1 {
			c13Safe(func() {
				for _, p := range srcPaths {
					if e := after[env.memPath(p)]; !e.dir {
						continue
					}
					for _, fl := range []int{os.O_RDWR, os.O_WRONLY} {
						fh, err := through.OpenFile(p, fl, 0)
						if err != nil {
							continue
						}
						c.Count("oracle.write-mode-dir-listing")
						var names []string
						if fl == os.O_RDWR {
							names, _ = fh.Readdirnames(-1)
						} else {
							fis, _ := fh.Readdir(-1)
							for _, x := range fis {
								names = append(names, x.Name())
							}
						}
						fh.Close()
						for _, n := range names {
							if ce, ok := after[path.Join(env.memPath(p), n)]; ok && !ce.dir && !env.re.MatchString(n) {
								fail("hidden-reported:sweep-OpenFile-write-mode+listing", "at the end: OpenFile(%s, %#x) + listing through the filter shows %q (listing %q)", p, fl, n, names)
								return
							}
						}
					}
				}
			})
		}
	}
	for i, it := range items {
		c.Case("%s", it)
		f := strings.Fields(it)
		isOp := len(f) > 2 && f[0] != "snap" && f[0] != "index"
		name := ""
		if isOp {
			name = f[2]
		}
		thr := isOp && f[0] == "." && !handleOps[name]
		viaSlot := ""
		if isOp && handleOps[name] {
			if _, ok := slotPath[f[3]]; ok {
				thr = true
				viaSlot = f[3]
			}
		}
		var before map[string]c13Entry
		if thr && !failed {
			before = c13Dump(mem)
		}
		if thr && !handleOps[name] {
			pending = append(pending, [2]string{fmt.Sprint(env.pat), f[3]})
			if name == "Rename" {
				pending = append(pending, [2]string{fmt.Sprint(env.pat), f[4]})
			}
		}
		out := in.Exec(it)
		c.Impl("%s#%d %s", id, i, out)
		c.Count("op." + opName(it))
		c.Count("res." + strings.SplitN(out, ":", 2)[0])
		if out == "panic" {
			// MemMapFs panics on some ill-formed programs: not a statement of C13; the case ends here
			c.Count("panic." + opName(it))
			failed = true
			dead = true // the MemMapFs lock may still be held
			break
		}
		if !thr {
			continue
		}
		if !handleOps[name] && f[1] != "-" && out == "handle" {
			slotPath[f[1]] = path.Clean("/" + string(unhx(f[3])))
		}
		if failed {
			continue
		}
		after := c13Dump(mem)
		// ---- (a) hidden regular files of the underlying filesystem are untouched
		// "individually": RemoveAll / Rename of something ABOVE a hidden file is not a statement of
		// C13 (normally a directory; on an ill-formed MemMapFs tree also a regular file that has
		// entries below it)
		exempt := func(p string) bool { return false }
		if name == "RemoveAll" || name == "Rename" {
			d := env.memPath(string(unhx(f[3])))
			if e, ok := before[d]; ok {
				d2 := ""
				if name == "Rename" {
					d2 = env.memPath(string(unhx(f[4])))
				}
				exempt = func(p string) bool {
					if under(d, p) && (e.dir || p != d) {
						return true
					}
					return d2 != "" && under(d2, p) && (e.dir || p != d2)
				}
			}
		}
		var ps []string
		for p := range before {
			ps = append(ps, p)
		}
		for p := range after {
			if _, ok := before[p]; !ok {
				ps = append(ps, p)
			}
		}
		sort.Strings(ps)
		for _, p := range ps {
			b, inB := before[p]
			a, inA := after[p]
			hb := inB && !b.dir && !env.matches(p)
			ha := inA && !a.dir && !env.matches(p)
			if exempt(p) {
				continue
			}
			if hb && (!inA || a.dir || a.deep != b.deep) {
				what := "changed"
				if !inA {
					what = "removed"
				} else if a.dir {
					what = "turned into a directory"
				}
				sig := "hidden-changed:" + name
				if inA && a.dir {
					sig = "hidden-became-dir:" + name
				}
				fail(sig, "step %d (%s -> %s) %s the non-matching file %s of the underlying filesystem: before=%s after=%s", i, it, out, what, p, b.deep, a.deep)
			} else if ha && !hb {
				fail("hidden-created:"+name, "step %d (%s -> %s): the non-matching regular file %s appeared in the underlying filesystem", i, it, out, p)
			}
		}
		// ---- (b) no result reports a non-matching regular file
		hiddenAt := func(d map[string]c13Entry, mp string) bool {
			e, ok := d[mp]
			return ok && !e.dir && !env.matches(mp)
		}
		switch {
		case name == "Stat" && strings.HasPrefix(out, "info:"):
			if mp := env.memPath(string(unhx(f[3]))); hiddenAt(before, mp) {
				fail("hidden-reported:Stat", "step %d (%s) reported the non-matching file %s: %s", i, it, mp, out)
			}
		case (name == "Open" || name == "OpenFile" || name == "Create") && out == "handle":
			if mp := env.memPath(string(unhx(f[3]))); hiddenAt(before, mp) || hiddenAt(after, mp) {
				fail("hidden-opened:"+name, "step %d (%s) returned a handle on the non-matching file %s", i, it, mp)
			}
		case name == "HReaddir" || name == "HReaddirnames":
			t := strings.SplitN(out, ":", 3)
			if len(t) == 3 && (t[0] == "infos" || t[0] == "names") && t[1] != "" {
				dirp := env.memPath(slotPath[viaSlot])
				for _, ent := range strings.Split(t[1], ",") {
					nm := string(unhx(strings.SplitN(ent, "|", 2)[0]))
					mp := path.Join(dirp, nm)
					e, known := before[mp]
					regular := known && !e.dir
					if !known && strings.HasSuffix(ent, "|f") {
						regular = true
					}
					if regular && !env.re.MatchString(nm) {
						fail("hidden-reported:"+name, "step %d (%s) on the handle of %s listed the non-matching file %q: %s", i, it, slotPath[viaSlot], nm, out)
					}
				}
			}
		case (name == "HStat") && strings.HasPrefix(out, "info:"):
			if mp := env.memPath(slotPath[viaSlot]); hiddenAt(before, mp) {
				fail("hidden-reported:HStat", "step %d (%s) reported the non-matching file %s", i, it, mp)
			}
		}
		if failed {
			continue
		}
		sweepC(i, it, after, []string{"Open"})
		if dead {
			break
		}
	}
	if !failed && !dead && len(items) > 0 {
		sweepC(len(items)-1, items[len(items)-1], c13Dump(mem), []string{"Open", "OpenFile"})
	}
	c.Case("end")
	c.NCases++
	// names handed to the real regexp in this case: the model's matcher must agree on each
	for p := range func() map[string]c13Entry {
		if dead {
			return nil
		}
		return c13Dump(mem)
	}() {
		pending = append(pending, [2]string{fmt.Sprint(env.pat), hx([]byte(path.Base(p)))})
		pending = append(pending, [2]string{fmt.Sprint(env.pat), hx([]byte(p))})
	}
	sort.Slice(pending, func(a, b int) bool { return pending[a][1] < pending[b][1] })
	if c.From == nil {
		for _, pn := range pending {
			c13EmitMatch(c, atoi(pn[0]), string(unhx(pn[1])))
		}
	}
}

// ---- generator

type c13Node struct {
	dir  bool
	data []byte
}

// an underlying tree mixing matching / non-matching files and directories of both kinds of names
func c13Tree(r *Rng, tgt, prefix string, slot int) (items []string, nodes map[string]*c13Node, next int) {
	nodes = map[string]*c13Node{"/": {dir: true}}
	dirs := []string{"/"}
	for i := r.Range(4, 13); i > 0; i-- {
		d := Pick(r, dirs)
		if strings.Count(d, "/") >= 3 && d != "/" {
			continue
		}
		p := path.Join(d, Pick(r, c13Names))
		if _, ex := nodes[p]; ex {
			continue
		}
		if r.Chance(1, 3) {
			nodes[p] = &c13Node{dir: true}
			dirs = append(dirs, p)
		} else {
			data := make([]byte, r.Range(0, 6))
			for k := range data {
				data[k] = Pick(r, []byte{'h', 'i', 0, 'z'})
			}
			nodes[p] = &c13Node{data: data}
		}
	}
	var ps []string
	for p := range nodes {
		ps = append(ps, p)
	}
	sort.Strings(ps)
	e := func(format string, a ...any) { items = append(items, tgt+" "+fmt.Sprintf(format, a...)) }
	real := func(p string) string { return hx([]byte(path.Clean(prefix + p))) }
	if prefix != "" {
		e("- MkdirAll %s 493", real("/"))
		// siblings of the root the filter never sees
		e("%d Create %s", slot, hx([]byte("/x.dat")))
		e("- HWrite %d %s", slot, hx([]byte("out")))
		e("- HClose %d", slot)
		slot++
	}
	for _, p := range ps {
		n := nodes[p]
		if p == "/" {
			continue
		}
		if n.dir {
			e("- Mkdir %s %d", real(p), Pick(r, []int{0o755, 0o700}))
			continue
		}
		e("%d Create %s", slot, real(p))
		if len(n.data) > 0 {
			e("- HWrite %d %s", slot, hx(n.data))
		}
		e("- HClose %d", slot)
		slot++
		if r.Chance(1, 3) {
			e("- Chmod %s %d", real(p), Pick(r, []int{0o600, 0o644, 0o444}))
		}
	}
	for i := len(ps) - 1; i >= 0; i-- { // children first: a parent's stamp is the last word
		e("- Chtimes %s %d", real(ps[i]), 1000000000+1000*(i%4))
	}
	if prefix != "" {
		e("- Chtimes %s 1000000000", hx([]byte("/x.dat")))
		e("- Chtimes 2f 1000000000")
	}
	return items, nodes, slot
}

func genC13(r *Rng, stack string) []string {
	env := c13EnvOf(stack)
	tgt := memTarget(stack)
	items, nodes, next := c13Tree(r.Fork(), tgt, env.prefix, 0)
	var all, dirs, match, hidden []string
	for p, n := range nodes {
		all = append(all, p)
		switch {
		case n.dir:
			dirs = append(dirs, p)
		case env.matches(p):
			match = append(match, p)
		default:
			hidden = append(hidden, p)
		}
	}
	sort.Strings(all)
	sort.Strings(dirs)
	sort.Strings(match)
	sort.Strings(hidden)
	// new names of both kinds under existing directories
	var newMatch, newHidden []string
	for k := 0; k < 8; k++ {
		p := path.Join(Pick(r, dirs), Pick(r, c13Names))
		if _, ex := nodes[p]; ex {
			continue
		}
		if env.matches(p) {
			newMatch = append(newMatch, p)
		} else {
			newHidden = append(newHidden, p)
		}
	}
	w := &WrapGen{r: r, Paths: append(append([]string{}, all...), append(newMatch, newHidden...)...), Next: next, Tgt: "."}
	pick := func(primary, fallback []string) string {
		if len(primary) > 0 && (len(fallback) == 0 || r.Chance(4, 5)) {
			p := Pick(r, primary)
			if r.Chance(1, 8) {
				p = strings.ReplaceAll(p, "/", Pick(r, []string{"//", "/./"}))
			}
			return p
		}
		if len(fallback) > 0 {
			return Pick(r, fallback)
		}
		return "/" + Pick(r, c13Names)
	}
	h := func(p string) string { return hx([]byte(p)) }
	hid := func() string { return pick(hidden, newHidden) }
	anyHidden := func() string {
		if r.Chance(1, 3) {
			return pick(newHidden, hidden)
		}
		return hid()
	}
	mat := func() string { return pick(match, newMatch) }
	pay := func() string { return hx(Pick(r, c02Payloads[1:])) }
	for i := r.Range(5, 30); i > 0; i-- {
		if r.Chance(1, 2) {
			w.Step()
			continue
		}
		switch r.Intn(16) {
		case 0, 1: // the directory listing through OpenFile
			s := w.newSlot()
			w.emit(s, "OpenFile %s %d 0", h(pick(dirs, nil)), Pick(r, []int{0, 0, 0x80000, 0x10000}))
			w.emit(-1, Pick(r, []string{"HReaddir %d %d", "HReaddirnames %d %d"}), s, Pick(r, []int{-1, 0, 1, 2, 100}))
			if r.Bool() {
				w.emit(-1, Pick(r, []string{"HReaddir %d %d", "HReaddirnames %d %d"}), s, Pick(r, []int{-1, 1}))
			}
		case 2: // ... and through Open
			s := w.newSlot()
			w.emit(s, "Open %s", h(pick(dirs, nil)))
			w.emit(-1, Pick(r, []string{"HReaddir %d %d", "HReaddirnames %d %d"}), s, Pick(r, []int{-1, 0, 1, 2, 100}))
		case 3, 4: // renames in the four match / non-match combinations
			var from, to string
			switch r.Intn(4) {
			case 0:
				from, to = mat(), pick(newMatch, match)
			case 1:
				from, to = mat(), anyHidden()
			case 2:
				from, to = hid(), pick(newMatch, match)
			default:
				from, to = hid(), anyHidden()
			}
			w.emit(-1, "Rename %s %s", h(from), h(to))
		case 5: // creating non-matching names
			s := w.newSlot()
			w.emit(s, "Create %s", h(anyHidden()))
			w.emit(-1, "HWrite %d %s", s, pay())
		case 6, 7:
			s := w.newSlot()
			w.emit(s, "OpenFile %s %d %d", h(anyHidden()), Pick(r, []int{0x42, 0x242, 0x41, 0x441, 0xc2, 2, 1, 0x202, 0x402}), 0o644)
			w.emit(-1, Pick(r, []string{"HWrite %d %s", "HWriteString %d %s"}), s, pay())
			if r.Bool() {
				w.emit(-1, "HTruncate %d 0", s)
			}
		case 8:
			w.emit(-1, "Chmod %s %d", h(hid()), Pick(r, []int{0o600, 0o755, 0o777}))
		case 9:
			w.emit(-1, "Chtimes %s %d", h(hid()), Pick(r, []int{1000005000, 1000006000}))
		case 10:
			w.emit(-1, "Chown %s %d %d", h(hid()), r.Range(0, 3), r.Range(0, 3))
		case 11:
			w.emit(-1, Pick(r, []string{"Remove %s", "RemoveAll %s"}), h(hid()))
		case 12: // reading a hidden file
			if r.Bool() {
				w.emit(-1, "Stat %s", h(hid()))
			} else {
				s := w.newSlot()
				w.emit(s, Pick(r, []string{"Open %s", "OpenFile %s 0 0"}), h(hid()))
				w.emit(-1, "HRead %d 4", s)
			}
		case 13: // successful work on matching files
			s := w.newSlot()
			w.emit(s, "OpenFile %s %d %d", h(mat()), Pick(r, []int{2, 1, 0x402, 0x202, 0x42}), 0o644)
			w.emit(-1, "HWrite %d %s", s, pay())
			w.emit(-1, "HClose %d", s)
		case 14:
			s := w.newSlot()
			if r.Chance(1, 3) { // a matching name BELOW a hidden regular file
				below := hid() + "/" + Pick(r, c13Names)
				switch r.Intn(4) {
				case 0:
					w.emit(s, "Create %s", h(below))
				case 1:
					w.emit(-1, Pick(r, []string{"Mkdir %s 493", "MkdirAll %s 493"}), h(below))
				case 2:
					w.emit(-1, "Rename %s %s", h(mat()), h(below))
				default:
					w.emit(s, "OpenFile %s %d 420", h(below), 0x42)
				}
				break
			}
			w.emit(s, "Create %s", h(pick(newMatch, match)))
			w.emit(-1, "HWrite %d %s", s, pay())
		default: // directories: whatever their names
			d := pick(dirs, nil)
			switch r.Intn(4) {
			case 0:
				w.emit(-1, "Stat %s", h(d))
			case 1:
				w.emit(-1, "Chmod %s %d", h(d), Pick(r, []int{0o700, 0o755}))
			case 2:
				w.emit(-1, "Rename %s %s", h(d), h(pick(append(newMatch, newHidden...), nil)))
			default:
				w.emit(-1, "RemoveAll %s", h(d))
			}
		}
	}
	items = append(items, "snap "+tgt)
	items = append(items, w.Items...)
	items = append(items, "snap "+tgt)
	return items
}

func runC13(c *Ctx) {
	if c.From != nil {
		for _, cs := range c.From {
			t := strings.Fields(cs[0])
			if t[0] == "rematch" {
				c13RunMatch(c, t[1], atoi(t[2]), t[3])
				continue
			}
			c13Case(c, t[1], t[2], cs[1:len(cs)-1])
		}
		return
	}
	n := 600
	if c.Tier == "thorough" {
		n = 25000
	}
	// small scope: every name of length <= 3 (quick) / 4 (thorough) over {a, b, c, ., /, t, x} against the three patterns
	alphabet := []byte{'a', 'b', 'c', '.', '/', 't', 'x'}
	maxLen := 3
	if c.Tier == "thorough" {
		maxLen = 4
	}
	var rec func(cur []byte)
	rec = func(cur []byte) {
		for pat := range RegexpPatterns {
			c13EmitMatch(c, pat, string(cur))
		}
		if len(cur) == maxLen {
			return
		}
		for _, ch := range alphabet {
			rec(append(append([]byte{}, cur...), ch))
		}
	}
	rec(nil)
	for _, nm := range []string{"/d/a.txt", "/d/.txt", "a.txt/", "/a.txt/b", "/ab/ba", "/ab/", "/b/ac", "/c/a", "/a/c", "/.a", "/d/a.txt.bak", "txt", ".txt", "/x.txt/", "/a\n", "a.txt\n"} {
		for pat := range RegexpPatterns {
			c13EmitMatch(c, pat, nm)
		}
	}
	// the directed case of the finding: a directory listed through OpenFile
	c13Case(c, "d0", "re:0(mem)", []string{"0 0 Create 2f782e646174", "0 - HClose 0", "0 1 Create 2f612e747874", "0 - HClose 1",
		"0 - Chtimes 2f782e646174 1000000000", "0 - Chtimes 2f612e747874 1000000000", "0 - Chtimes 2f 1000000000",
		". 2 OpenFile 2f 0 0", ". - HReaddirnames 2 -1", ". 3 Open 2f", ". - HReaddirnames 3 -1"})
	// directed: a name below a hidden regular file (MemMapFs adopts the file as a parent directory)
	below := []string{"0 0 Create 2f782e646174", "0 - HWrite 0 686964", "0 - HClose 0", "0 - Chtimes 2f782e646174 1000000000", "0 - Chtimes 2f 1000000000", "snap 0"}
	c13Case(c, "d1", "re:0(mem)", append(append([]string{}, below...), ". 1 Create 2f782e6461742f612e747874", "snap 0"))
	c13Case(c, "d2", "re:0(mem)", append(append([]string{}, below...), ". - Mkdir 2f782e6461742f63 493", "snap 0"))
	c13Case(c, "d3", "re:0(mem)", append(append([]string{}, below...), ". - MkdirAll 2f782e6461742f632f63 493", "snap 0"))
	c13Case(c, "d4", "re:0(mem)", append(append([]string{}, below...), ". 1 Create 2f612e747874", ". - HClose 1", ". - Rename 2f612e747874 2f782e6461742f612e747874", "snap 0"))
	// directed: a filter stacked on a filter, directory handles from OpenFile as well as Open
	for si, st := range []string{"re:0(re:2(mem))", "re:2(re:0(mem))"} {
		c13Case(c, fmt.Sprintf("d5_%d", si), st, []string{"00 0 Create 2f612e747874", "00 - HClose 0", "00 1 Create 2f6e2e747874", "00 - HClose 1", "00 2 Create 2f6162", "00 - HClose 2",
			"00 - Mkdir 2f61737562 493", "00 - Chtimes 2f612e747874 1000000000", "00 - Chtimes 2f6e2e747874 1000000000", "00 - Chtimes 2f6162 1000000000", "00 - Chtimes 2f61737562 1000000000", "00 - Chtimes 2f 1000000000",
			". 3 OpenFile 2f 0 0", ". - HReaddirnames 3 -1", ". 4 Open 2f", ". - HReaddir 4 -1", ". 5 OpenFile 2f 0 0", ". - HReaddir 5 1", ". - HReaddir 5 1", ". - HReaddir 5 1",
			". - Stat 2f6e2e747874", ". - Stat 2f6162", ". - Stat 2f612e747874", "snap 00"})
	}
	// directed: a long run of hidden entries before the visible ones, listed one entry per call
	{
		items := []string{}
		for q := 0; q < 200; q++ {
			nm := hx([]byte(fmt.Sprintf("/n%03d.dat", q)))
			items = append(items, fmt.Sprintf("0 %d Create %s", q, nm), fmt.Sprintf("0 - HClose %d", q), fmt.Sprintf("0 - Chtimes %s 1000000000", nm))
		}
		items = append(items, "0 300 Create 2f7a2e747874", "0 - HClose 300", "0 - Chtimes 2f7a2e747874 1000000000", "0 - Mkdir 2f7a737562 493", "0 - Chtimes 2f7a737562 1000000000", "0 - Chtimes 2f 1000000000",
			". 301 Open 2f", ". - HReaddir 301 1", ". - HReaddir 301 1", ". - HReaddir 301 1", ". - HReaddir 301 1",
			". 302 Open 2f", ". - HReaddirnames 302 3", ". - HReaddirnames 302 3")
		c13Case(c, "d6", "re:0(mem)", items)
	}
	mixedStackCases(c, []string{"re:0(cow(mem,mem))", "re:2(ro(mem))", "re:1(bp:2f64(cow(mem,mem)))"}, map[bool]int{false: 90, true: 3000}[c.Tier == "thorough"], "ux")
	runC13PartialListing(c)
	for i := 0; i < n; i++ {
		st := fmt.Sprintf("re:%d(mem)", i%3)
		if i%12 == 8 {
			st = Pick(c.Rng, []string{"re:0(re:2(mem))", "re:2(re:0(mem))", "re:1(re:2(mem))"})
		}
		switch i % 12 {
		case 9:
			st = "ro(re:0(mem))"
		case 10:
			st = "re:0(bp:2f64(mem))"
		case 11:
			st = "re:2(bp:2f64(mem))"
		}
		items := genC13(c.Rng.Fork(), st)
		c13Case(c, fmt.Sprintf("r%d", i), st, items)
		if i < 2 {
			c.Sample("case " + st + ": " + strings.Join(items, " ; "))
		}
	}
	c.Extra["rematch_names"] = len(c13Rematch)
}

// a source whose directory handles return entries TOGETHER WITH an error (os.File.Readdir
// documents that; gcsfs does it): whatever the filter does with the error, no name that does not
// match may appear among the entries it returns (oracle only)
type partialListFs struct{ afero.Fs }
type partialListFile struct{ afero.File }

func (p partialListFs) Open(name string) (afero.File, error) {
	f, err := p.Fs.Open(name)
	if err != nil {
		return nil, err
	}
	return partialListFile{f}, nil
}
func (p partialListFs) OpenFile(name string, flag int, perm os.FileMode) (afero.File, error) {
	f, err := p.Fs.OpenFile(name, flag, perm)
	if err != nil {
		return nil, err
	}
	return partialListFile{f}, nil
}
func (f partialListFile) Readdir(n int) ([]os.FileInfo, error) {
	l, err := f.File.Readdir(n)
	if err == nil {
		err = fmt.Errorf("injected: listing interrupted")
	}
	return l, err
}
func (f partialListFile) Readdirnames(n int) ([]string, error) {
	l, err := f.File.Readdirnames(n)
	if err == nil {
		err = fmt.Errorf("injected: listing interrupted")
	}
	return l, err
}

func runC13PartialListing(c *Ctx) {
	mem := afero.NewMemMapFs()
	for _, n := range []string{"/a.txt", "/b.html", "/c.txt", "/secret.bin", "/sub/x.txt", "/sub/y.dat"} {
		afero.WriteFile(mem, n, []byte("x"), 0o644)
	}
	k := 0
	for pat := range RegexpPatterns {
		re := regexp.MustCompile(RegexpPatterns[pat])
		fs := afero.NewRegexpFs(partialListFs{mem}, re)
		for _, dir := range []string{"/", "/sub"} {
			for _, count := range []int{-1, 0, 1, 2, 100} {
				for how := 0; how < 2; how++ {
					k++
					var names []string
					func() {
						defer func() { recover() }()
						h, err := fs.Open(dir)
						if how == 1 {
							h, err = fs.OpenFile(dir, os.O_RDONLY, 0)
						}
						if err != nil {
							return
						}
						defer h.Close()
						if k%2 == 0 {
							fis, _ := h.Readdir(count)
							for _, fi := range fis {
								if !fi.IsDir() {
									names = append(names, fi.Name())
								}
							}
						} else {
							ns, _ := h.Readdirnames(count)
							for _, n := range ns {
								if fi, err := mem.Stat(path.Join(dir, n)); err == nil && !fi.IsDir() {
									names = append(names, n)
								}
							}
						}
					}()
					c.Count("partial-listing")
					for _, n := range names {
						if !re.MatchString(n) {
							c.Oracle("FAIL pl%d hidden-reported:partial-listing pattern %q dir %s count %d: the listing returned together with the source's error names %q, which does not match", k, RegexpPatterns[pat], dir, count, n)
						}
					}
				}
			}
		}
	}
	c.Extra["partial_listing"] = fmt.Sprintf("%d listings through RegexpFs over a source that returns entries together with an error (oracle only)", k)
}
