package main

// C11 — write handles that stay open while the cached copy of their file is REFRESHED.
//
// With a positive cache duration a copy that has expired and is older than the base copy is made
// again from the base by the next call through the union that names it (Open, OpenFile, Chmod,
// Chtimes, Chown, Rename).  A handle from CacheOnReadFs.Create / OpenFile opened before that refresh
// is a pair (base handle, layer handle); its later writes must still reach the file the cache
// serves, i.e. the refresh has to rewrite the cached FILE OBJECT in place.
//
// The passage of time is expressed the only way the item language (whole seconds, real clock on the
// Go side, BIG + 1000·i in the model) allows: modification times are set back directly on the two
// layers ("0 - Chtimes", "1 - Chtimes").  These direct items never touch a byte; they stand for
// "the clock has advanced past the cache duration":
//   layer only     the cached copy is old, the base copy has just been written through the handle
//   base T+d, layer T   both old; the base copy is the later one (a UnionFile writes the layer first)
//   base T, layer T     both old, same age: expired but not outdated (no refresh)
//   base T, layer T+d   the cached copy is the later one (no refresh)

import (
	"fmt"
	"os"
	"path/filepath"
	"strings"
	"time"

	"github.com/spf13/afero"
)

const c11T = 1000000000

// the four ways of ageing the two copies of one name (hex path p)
func c11AgeItems(kind int, p string, t, d int) []string {
	switch kind {
	case 0:
		return []string{fmt.Sprintf("1 - Chtimes %s %d", p, t)}
	case 1:
		return []string{fmt.Sprintf("0 - Chtimes %s %d", p, t+d), fmt.Sprintf("1 - Chtimes %s %d", p, t)}
	case 2:
		return []string{fmt.Sprintf("0 - Chtimes %s %d", p, t), fmt.Sprintf("1 - Chtimes %s %d", p, t)}
	default:
		return []string{fmt.Sprintf("0 - Chtimes %s %d", p, t), fmt.Sprintf("1 - Chtimes %s %d", p, t+d)}
	}
}

// small scope, exhaustive: /f = "hello world" (cached coherently or only in the base); a write handle
// through the union; a first write; the copies age; one call through the union that names the file
// (the refresh, when the copy is expired and outdated); a second write through the FIRST handle; a
// read through the union.
func c11RefreshSweep(c *Ctx) int {
	openers := []string{"Create 2f66", "OpenFile 2f66 2 0", "OpenFile 2f66 1025 420", "OpenFile 2f66 578 420"}
	first := []string{"HWrite 0 5859", "", "HWriteAt 0 51 1", "HSeek 0 0 2"}
	second := []string{"HWrite 0 7a7a7a", "HTruncate 0 3", "HWriteAt 0 51 0", "HWriteString 0 5a"}
	if c.Tier != "thorough" {
		first, second = first[:2], second[:2]
	}
	// the call in the middle; %s = nothing; a second handle gets slot 1
	refreshers := []string{"Open 2f66", "OpenFile 2f66 0 0", "OpenFile 2f66 2 0", "OpenFile 2f66 1 0", "OpenFile 2f66 514 0",
		"Chmod 2f66 384", "Chtimes 2f66 1000005000", "Rename 2f66 2f67", "Stat 2f66"}
	k := 0
	for _, stack := range []string{"cache:1000(mem,mem)", "cache:0(mem,mem)"} {
		ages := []int{-1, 0, 1, 2, 3}
		if strings.HasPrefix(stack, "cache:0(") {
			ages = []int{0, 1} // control: duration 0 never refreshes
		}
		for _, cached := range []bool{true, false} {
			for _, op := range openers {
				for _, w1 := range first {
					for _, age := range ages {
						for _, rf := range refreshers {
							for _, w2 := range second {
								items := []string{"0 9 Create 2f66", "0 - HWrite 9 68656c6c6f20776f726c64", "0 - HClose 9", "0 - Chtimes 2f66 1000000000", "0 - Chtimes 2f 1000000000"}
								if cached {
									items = append(items, "1 8 Create 2f66", "1 - HWrite 8 68656c6c6f20776f726c64", "1 - HClose 8", "1 - Chtimes 2f66 1000000000", "1 - Chtimes 2f 1000000000")
								}
								items = append(items, ". 0 "+op)
								if w1 != "" {
									items = append(items, ". - "+w1)
								}
								if age >= 0 {
									items = append(items, c11AgeItems(age, "2f66", c11T+2000, 1)...)
								}
								name := "2f66"
								switch {
								case strings.HasPrefix(rf, "Open"):
									items = append(items, ". 1 "+rf)
									if rf == "Open 2f66" || rf == "OpenFile 2f66 0 0" {
										items = append(items, ". - HRead 1 100", ". - HClose 1")
									}
								case strings.HasPrefix(rf, "Rename"):
									items = append(items, ". - "+rf)
									name = "2f67"
								default:
									items = append(items, ". - "+rf)
								}
								items = append(items, ". - "+w2)
								if strings.HasPrefix(rf, "OpenFile") && rf != "OpenFile 2f66 0 0" {
									// the second handle is a union handle as well: both go on writing
									items = append(items, ". - HWrite 1 71", ". - HWriteAt 0 52 2", ". - HClose 1")
								}
								items = append(items, ". 2 Open "+name, ". - HRead 2 100", ". - HClose 2", ". - HClose 0",
									". 3 Open "+name, ". - HRead 3 100", ". - HClose 3", "snap 0", "snap 1")
								c11Case(c, fmt.Sprintf("rf%d", k), stack, items)
								k++
							}
						}
					}
				}
			}
		}
	}
	return k
}

// ------------------------------------------------------------------ structured random histories

// write handles of regular files that are still open
func c11Writers(g *Gen) []int {
	var out []int
	for _, s := range g.liveHandles() {
		h := g.handles[s]
		if !h.closed && !h.dir && h.canW {
			if n, ok := g.nodes[h.path]; ok && !n.dir {
				out = append(out, s)
			}
		}
	}
	return out
}

func (g *Gen) emitAt(target string, format string, a ...any) {
	g.Items = append(g.Items, target+" - "+fmt.Sprintf(format, a...))
}

// the copies of one name age (direct Chtimes on the layers, see the head of the file); names with an
// open write handle first
func c11Age(g *Gen) bool {
	r := g.r
	var p string
	if ws := c11Writers(g); len(ws) > 0 && r.Chance(3, 4) {
		p = g.handles[Pick(r, ws)].path
	} else {
		var ok bool
		if p, ok = g.pick(func(p string, n *absNode) bool { return p != "/" && (!n.dir || r.Chance(1, 3)) }); !ok {
			return false
		}
	}
	for _, it := range c11AgeItems(Pick(r, []int{0, 0, 1, 1, 1, 2, 3}), hx([]byte(p)), Pick(r, g.Times), Pick(r, []int{1, 1000})) {
		g.Items = append(g.Items, it)
	}
	return true
}

// a write handle through the union on an existing file or a new name
func c11OpenWriter(g *Gen) bool {
	r := g.r
	p, ok := g.pick(func(p string, n *absNode) bool { return !n.dir })
	fresh := false
	if !ok || r.Chance(1, 4) {
		if p, ok = g.freeName(); !ok {
			return false
		}
		fresh = true
	}
	s := g.newSlot()
	if r.Chance(1, 3) {
		g.emit(s, "Create %s", g.hxp(p))
		g.handles[s] = &absHandle{path: p, canR: true, canW: true}
	} else {
		acc := Pick(r, []int{1, 2, 2})
		flag := acc
		if fresh || r.Chance(1, 3) {
			flag |= oCREATE
		}
		if r.Chance(1, 4) {
			flag |= oAPPEND
		}
		if r.Chance(1, 5) {
			flag |= oTRUNC
		}
		g.emit(s, "OpenFile %s %d %d", g.hxp(p), flag, Pick(r, []int{0o644, 0o600}))
		g.handles[s] = &absHandle{path: p, canR: acc != 1, canW: true}
	}
	if fresh {
		g.nodes[p] = &absNode{permExplicit: true}
		g.touch(parentOf(p))
	}
	return true
}

// one call through the union that names a file with an open write handle (what refreshes an expired,
// outdated copy): the file is opened again, or its attributes are set
func c11Touch(g *Gen) bool {
	r := g.r
	ws := c11Writers(g)
	if len(ws) == 0 {
		return false
	}
	p := g.handles[Pick(r, ws)].path
	switch r.Intn(8) {
	case 0, 1:
		s := g.newSlot()
		g.emit(s, "Open %s", g.hxp(p))
		g.handles[s] = &absHandle{path: p, canR: true}
	case 2:
		s := g.newSlot()
		g.emit(s, "OpenFile %s 0 0", g.hxp(p))
		g.handles[s] = &absHandle{path: p, canR: true}
	case 3, 4:
		s := g.newSlot()
		acc := Pick(r, []int{1, 2})
		g.emit(s, "OpenFile %s %d 0", g.hxp(p), acc)
		g.handles[s] = &absHandle{path: p, canR: acc != 1, canW: true}
	case 5:
		g.emit(-1, "Chmod %s %d", g.hxp(p), Pick(r, []int{0o600, 0o644, 0o666}))
		g.nodes[p].permExplicit = true
	case 6:
		g.emit(-1, "Chtimes %s %d", g.hxp(p), Pick(r, g.Times))
	default:
		g.emit(-1, "Stat %s", g.hxp(p))
	}
	return true
}

// a write (or truncation) through a write handle that is already open, the oldest ones first
func c11WriteOld(g *Gen) bool {
	r := g.r
	ws := c11Writers(g)
	if len(ws) == 0 {
		return false
	}
	s := ws[0]
	if r.Chance(1, 3) {
		s = Pick(r, ws)
	}
	pay := Pick(r, c02Payloads[1:])
	switch r.Intn(6) {
	case 0, 1, 2:
		g.emit(-1, "HWrite %d %s", s, hx(pay))
	case 3:
		g.emit(-1, "HWriteAt %d %s %d", s, hx(pay), r.Range(0, 12))
	case 4:
		g.emit(-1, "HWriteString %d %s", s, hx(pay))
	default:
		g.emit(-1, "HTruncate %d %d", s, r.Range(0, 12))
	}
	return true
}

// a coherent pair, then 8-30 steps: the usual well-formed operations through the union, mixed with
// write handles that are opened and kept, copies that age, calls that name a file with an open
// write handle, and further writes through the handles opened earlier
func genC11Refresh(r *Rng) []string {
	setup, nodes, next := genCoherentPair(r)
	g := NewGen(r)
	g.nodes = nodes
	g.next = next
	g.Target = "."
	g.NoPaging = true
	for i := r.Range(8, 30); i > 0; i-- {
		done := false
		switch r.Intn(12) {
		case 0, 1:
			done = c11OpenWriter(g)
		case 2, 3:
			done = c11Age(g)
		case 4, 5:
			done = c11Touch(g)
		case 6, 7, 8:
			done = c11WriteOld(g)
		}
		if !done {
			g.Step()
		}
	}
	// every file that is left is read through the union once more
	for _, p := range g.sorted() {
		if !g.nodes[p].dir {
			s := g.newSlot()
			g.emit(s, "Open %s", hx([]byte(p)))
			g.emit(-1, "HRead %d 100", s)
			g.emit(-1, "HClose %d", s)
		}
	}
	return append(append(setup, g.Items...), "snap 0", "snap 1")
}

// ------------------------------------------------------------------ the real clock (oracle only)

type c11Pair struct {
	what        string
	base, layer afero.Fs
	read        func(layer bool, p string) ([]byte, error) // direct read of one layer
	age         func(layer bool, p string, t time.Time)
	done        func()
}

func c11Pairs() []c11Pair {
	mb, ml := afero.NewMemMapFs(), afero.NewMemMapFs()
	pick := func(layer bool, a, b afero.Fs) afero.Fs {
		if layer {
			return b
		}
		return a
	}
	mem := c11Pair{what: "MemMapFs over MemMapFs", base: mb, layer: ml,
		read: func(layer bool, p string) ([]byte, error) { return afero.ReadFile(pick(layer, mb, ml), p) },
		age:  func(layer bool, p string, t time.Time) { pick(layer, mb, ml).Chtimes(p, t, t) },
		done: func() {}}
	dirB, _ := os.MkdirTemp("", "afc11b-")
	dirL, _ := os.MkdirTemp("", "afc11l-")
	ob, ol := afero.NewBasePathFs(afero.NewOsFs(), dirB), afero.NewBasePathFs(afero.NewOsFs(), dirL)
	dirOf := func(layer bool) string {
		if layer {
			return dirL
		}
		return dirB
	}
	osp := c11Pair{what: "base and layer on the OS", base: ob, layer: ol,
		read: func(layer bool, p string) ([]byte, error) { return os.ReadFile(filepath.Join(dirOf(layer), p)) },
		age:  func(layer bool, p string, t time.Time) { os.Chtimes(filepath.Join(dirOf(layer), p), t, t) },
		done: func() { os.RemoveAll(dirB); os.RemoveAll(dirL) }}
	return []c11Pair{mem, osp}
}

// duration one hour on the real clock: the cached copy is two hours old, the base copy thirty minutes
// (so the refreshed copy is served from the cache for another half hour); the handle opened BEFORE
// the refresh goes on writing; what the cache serves afterwards is what the base holds
func runC11RealClock(c *Ctx) {
	n := 0
	type scen struct {
		name    string
		refresh func(u afero.Fs, p string) error
	}
	scens := []scen{
		{"Open", func(u afero.Fs, p string) error {
			h, err := u.Open(p)
			if err == nil {
				h.Close()
			}
			return err
		}},
		{"OpenFile-rdwr", func(u afero.Fs, p string) error {
			h, err := u.OpenFile(p, os.O_RDWR, 0)
			if err == nil {
				h.Close()
			}
			return err
		}},
		{"ReadFile", func(u afero.Fs, p string) error { _, err := afero.ReadFile(u, p); return err }},
		{"Chmod", func(u afero.Fs, p string) error { return u.Chmod(p, 0o600) }},
	}
	for _, how := range []string{"Create", "OpenFile-append", "OpenFile-rdwr"} {
		for _, sc := range scens {
			for _, pr := range c11Pairs() {
				n++
				c.Count("c11.realclock")
				id := fmt.Sprintf("rc%d", n)
				u := afero.NewCacheOnReadFs(pr.base, pr.layer, time.Hour)
				p := "/d/f.txt"
				u.MkdirAll("/d", 0o755)
				var w afero.File
				var err error
				want := ""
				switch how {
				case "Create":
					w, err = u.Create(p)
				default:
					// the file is written to the base and cached by a read (write-only opens of names that are
					// not cached have their own scenarios: runC11OSWriteOnly)
					afero.WriteFile(pr.base, p, []byte("old."), 0o644)
					if got, err := afero.ReadFile(u, p); err != nil || string(got) != "old." {
						c.Oracle("FAIL %s read-differs-from-base:realclock:first-read (%s) ReadFile through the cache = %q, %v", id, pr.what, got, err)
					}
					want = "old."
					if how == "OpenFile-append" {
						w, err = u.OpenFile(p, os.O_WRONLY|os.O_APPEND, 0)
					} else {
						if w, err = u.OpenFile(p, os.O_RDWR, 0); err == nil {
							_, err = w.Seek(0, 2)
						}
					}
				}
				if err != nil {
					c.Oracle("FAIL %s call-fails-through-cache:realclock:%s the write handle (%s) through the cache (%s): %v", id, how, how, pr.what, err)
					pr.done()
					continue
				}
				w.WriteString("hello")
				want += "hello"
				now := time.Now()
				pr.age(true, p, now.Add(-2*time.Hour))
				pr.age(false, p, now.Add(-30*time.Minute))
				if err := sc.refresh(u, p); err != nil {
					c.Oracle("FAIL %s call-fails-through-cache:realclock:%s %s of the outdated copy through the cache (%s): %v", id, sc.name, sc.name, pr.what, err)
				}
				w.WriteString(" world")
				want += " world"
				check := func(when string) bool {
					b, errB := pr.read(false, p)
					l, errL := pr.read(true, p)
					got, errU := afero.ReadFile(u, p)
					switch {
					case errB != nil || string(b) != want:
						c.Oracle("FAIL %s write-lost-in-base:realclock:%s:%s %s (%s): the base holds %q, %v; written through the cache: %q", id, how, sc.name, when, pr.what, b, errB, want)
					case errL != nil || string(l) != string(b):
						c.Oracle("FAIL %s layers-diverge:write-after-refresh:%s %s (%s; handle from %s, written before and after %s refreshed the outdated copy): the cache layer holds %q, %v, the base %q", id, sc.name, when, pr.what, how, sc.name, l, errL, b)
					case errU != nil || string(got) != string(b):
						c.Oracle("FAIL %s read-differs-from-base:write-after-refresh:%s %s (%s): ReadFile through the cache = %q, %v, the base holds %q", id, sc.name, when, pr.what, got, errU, b)
					default:
						return true
					}
					return false
				}
				if check("after the write through the first handle") {
					w.Close()
					check("after Close of the first handle")
				} else {
					w.Close()
				}
				pr.done()
			}
		}
	}
	c.Extra["refresh_realclock"] = fmt.Sprintf("%d scenarios on the real clock (duration 1 h, copies aged directly; MemMapFs pair and OS pair): a write handle from Create / OpenFile stays open while Open / OpenFile / ReadFile / Chmod refresh the outdated copy, then writes again (oracle only)", n)
}

// ------------------------------------------------------------------ write-only opens over a base on the OS

// OpenFile with O_WRONLY (what afero.WriteFile uses) through the cache on a name that is not cached, or
// whose copy is outdated, copies the file into the layer first.  MemMapFs lets a write-only handle read;
// the operating system does not (EBADF): the copy has to read through a readable handle.  Base on the OS,
// layer on the OS or in memory; after every scenario the call has succeeded and both layers hold what a
// plain file would hold.
func runC11OSWriteOnly(c *Ctx) {
	n := 0
	type scen struct {
		name, start string // start: content of the file in the base ("" with new = no file)
		isNew, aged bool   // aged: cached by a read, then rewritten in the base directly, the copy two hours old
		flag        int
		write, want string
	}
	scens := []scen{
		{"WriteFile-new", "", true, false, -1, "hello", "hello"},
		{"WriteFile-uncached", "xyz12345", false, false, -1, "hello", "hello"},
		{"wronly", "xyz", false, false, os.O_WRONLY, "AB", "ABz"},
		{"wronly-append", "xyz", false, false, os.O_WRONLY | os.O_APPEND, "!", "xyz!"},
		{"wronly-trunc", "xyz", false, false, os.O_WRONLY | os.O_TRUNC, "q", "q"},
		{"wronly-create", "xyz", false, false, os.O_WRONLY | os.O_CREATE, "AB", "ABz"},
		{"wronly-create-new", "", true, false, os.O_WRONLY | os.O_CREATE, "AB", "AB"},
		{"wronly-create-excl-new", "", true, false, os.O_WRONLY | os.O_CREATE | os.O_EXCL, "AB", "AB"},
		{"wronly-outdated-copy", "newer", false, true, os.O_WRONLY, "X", "Xewer"},
		{"WriteFile-outdated-copy", "newer", false, true, -1, "hello", "hello"},
	}
	for _, dur := range []time.Duration{0, time.Hour} {
		for _, layerOnOS := range []bool{true, false} {
			for si, sc := range scens {
				if sc.aged && dur == 0 {
					continue
				}
				dirB, _ := os.MkdirTemp("", "afc11wb-")
				dirL, _ := os.MkdirTemp("", "afc11wl-")
				base := afero.NewBasePathFs(afero.NewOsFs(), dirB)
				var layer afero.Fs = afero.NewMemMapFs()
				what := "base on the OS, layer MemMapFs"
				if layerOnOS {
					layer = afero.NewBasePathFs(afero.NewOsFs(), dirL)
					what = "base and layer on the OS"
				}
				u := afero.NewCacheOnReadFs(base, layer, dur)
				n++
				c.Count("c11.os-wronly")
				id := fmt.Sprintf("ow%d", n)
				p := fmt.Sprintf("/w%d.txt", si)
				if sc.aged {
					os.WriteFile(filepath.Join(dirB, p), []byte("old"), 0o644)
					afero.ReadFile(u, p) // cached
					now := time.Now()
					os.WriteFile(filepath.Join(dirB, p), []byte(sc.start), 0o644)
					layer.Chtimes(p, now.Add(-2*time.Hour), now.Add(-2*time.Hour))
				} else if !sc.isNew {
					os.WriteFile(filepath.Join(dirB, p), []byte(sc.start), 0o644)
				}
				var err error
				if sc.flag < 0 {
					err = afero.WriteFile(u, p, []byte(sc.write), 0o644)
				} else {
					var h afero.File
					if h, err = u.OpenFile(p, sc.flag, 0o644); err == nil {
						if _, err = h.WriteString(sc.write); err == nil {
							err = h.Close()
						} else {
							h.Close()
						}
					}
				}
				inBase, errB := os.ReadFile(filepath.Join(dirB, p))
				inLayer, errL := afero.ReadFile(layer, p)
				through, errU := afero.ReadFile(u, p)
				switch {
				case err != nil:
					c.Oracle("FAIL %s call-fails-through-cache:OpenFile:os-base:%s (%s, duration %v) opening %q write-only through the cache and writing %q: %v; afterwards the base holds %q, %v, the layer %q, %v; on the base alone the call succeeds",
						id, sc.name, what, dur, p, sc.write, err, inBase, errB, inLayer, errL)
				case errB != nil || string(inBase) != sc.want:
					c.Oracle("FAIL %s write-lost-in-base:os-base:%s (%s, duration %v) the base holds %q, %v; a plain file would hold %q", id, sc.name, what, dur, inBase, errB, sc.want)
				case errL != nil || string(inLayer) != string(inBase):
					c.Oracle("FAIL %s layers-diverge:os-base:%s (%s, duration %v) the cache layer holds %q, %v, the base %q", id, sc.name, what, dur, inLayer, errL, inBase)
				case errU != nil || string(through) != string(inBase):
					c.Oracle("FAIL %s read-differs-from-base:os-base:%s (%s, duration %v) ReadFile through the cache = %q, %v, the base holds %q", id, sc.name, what, dur, through, errU, inBase)
				}
				os.RemoveAll(dirB)
				os.RemoveAll(dirL)
			}
		}
	}
	c.Extra["os_wronly"] = fmt.Sprintf("%d scenarios: WriteFile / OpenFile(O_WRONLY ...) through the cache on names that are new, not cached or cached with an outdated copy; base on the OS, layer on the OS / MemMapFs (oracle only)", n)
}
