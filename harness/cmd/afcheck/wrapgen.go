package main

// wrapgen.go — unconstrained op generator for wrapper properties (every Fs method, every
// handle method, wild flags) over a set of known paths, plus helpers shared by C05..C13.

import (
	"fmt"
	"sort"
	"strings"

	"github.com/spf13/afero"
)

var flagBits = []int{1, 2, 0x40, 0x80, 0x100, 0x200, 0x400, 0x800, 0x1000, 0x101000, 0x10000, 0x80000}

func randFlag(r *Rng) int {
	switch r.Intn(6) {
	case 0:
		return 0
	case 1: // any combination of the 12 bits
		f := 0
		for _, b := range flagBits {
			if r.Chance(1, 4) {
				f |= b
			}
		}
		return f
	case 2: // no write access requested, but other bits
		f := 0
		for _, b := range flagBits[2:] {
			if r.Chance(1, 3) {
				f |= b
			}
		}
		return f
	case 3: // a bit that is in no mask
		return Pick(r, []int{0x100, 0x800, 0x1000, 0x101000, 0x10000, 0x80000, 0x101000 | 0x80000})
	case 4:
		return int(r.U64() & 0x7fffffff)
	}
	return Pick(r, []int{0, 1, 2, 0x42, 0x242, 0x441, 0xc2, 0x402, 0x201})
}

type WrapGen struct {
	r     *Rng
	Paths []string // paths worth naming (existing ones and a few missing ones)
	Next  int      // next free slot
	Slots []int    // slots that may hold a handle
	Items []string
	Tgt   string
	NoPaging bool // union directory handles list in map order: only ask for everything at once
}

func (w *WrapGen) path() string {
	if w.r.Chance(1, 8) || len(w.Paths) == 0 {
		p := ""
		for i := w.r.Range(1, 3); i > 0; i-- {
			p += "/" + Pick(w.r, []string{"a", "b", "c", "n.txt", "x"})
		}
		return p
	}
	p := Pick(w.r, w.Paths)
	if w.r.Chance(1, 6) {
		p = strings.ReplaceAll(p, "/", Pick(w.r, []string{"//", "/./"}))
	}
	if w.r.Chance(1, 10) && p != "" && !strings.HasSuffix(p, "/") {
		p += "/" // trailing separator: the same file for every filepath.Clean-based filesystem
	}
	return p
}

func (w *WrapGen) emit(slot int, format string, a ...any) {
	s := "-"
	if slot >= 0 {
		s = fmt.Sprint(slot)
	}
	w.Items = append(w.Items, w.Tgt+" "+s+" "+fmt.Sprintf(format, a...))
}

func (w *WrapGen) newSlot() int {
	w.Next++
	w.Slots = append(w.Slots, w.Next-1)
	return w.Next - 1
}

func (w *WrapGen) Step() {
	r := w.r
	h := func() int {
		if len(w.Slots) == 0 {
			return 0
		}
		return Pick(r, w.Slots)
	}
	pay := hx(Pick(r, c02Payloads))
	switch r.Intn(30) {
	case 0:
		w.emit(w.newSlot(), "Create %s", hx([]byte(w.path())))
	case 1:
		w.emit(-1, "Mkdir %s %d", hx([]byte(w.path())), 0o755)
	case 2:
		w.emit(-1, "MkdirAll %s %d", hx([]byte(w.path())), 0o700)
	case 3, 4:
		w.emit(w.newSlot(), "Open %s", hx([]byte(w.path())))
	case 5, 6, 7, 8:
		w.emit(w.newSlot(), "OpenFile %s %d %d", hx([]byte(w.path())), randFlag(r), Pick(r, []int{0o644, 0o600, 0}))
	case 9:
		w.emit(-1, "Remove %s", hx([]byte(w.path())))
	case 10:
		w.emit(-1, "RemoveAll %s", hx([]byte(w.path())))
	case 11:
		// never a directory onto one of its own ancestors or descendants: MemMapFs then walks its
		// map in Go's random iteration order and the outcome (even whether it panics) varies
		a, b := w.path(), w.path()
		ca, cb := pathClean(a), pathClean(b)
		if ca != cb && (strings.HasPrefix(ca+"/", strings.TrimSuffix(cb, "/")+"/") || strings.HasPrefix(cb+"/", strings.TrimSuffix(ca, "/")+"/")) {
			w.emit(-1, "Stat %s", hx([]byte(a)))
		} else {
			w.emit(-1, "Rename %s %s", hx([]byte(a)), hx([]byte(b)))
		}
	case 12, 13:
		w.emit(-1, "Stat %s", hx([]byte(w.path())))
	case 14:
		w.emit(-1, "Chmod %s %d", hx([]byte(w.path())), Pick(r, []int{0o600, 0o755, 0o777}))
	case 15:
		w.emit(-1, "Chown %s %d %d", hx([]byte(w.path())), r.Range(0, 3), r.Range(0, 3))
	case 16:
		w.emit(-1, "Chtimes %s %d", hx([]byte(w.path())), Pick(r, []int{1000005000, 1000006000}))
	case 17, 18:
		w.emit(-1, "HRead %d %d", h(), r.Range(0, 6))
	case 19:
		w.emit(-1, "HReadAt %d %d %d", h(), r.Range(0, 6), r.Range(-1, 8))
	case 20, 21:
		w.emit(-1, "HWrite %d %s", h(), pay)
	case 22:
		w.emit(-1, "HWriteAt %d %s %d", h(), pay, r.Range(-1, 8))
	case 23:
		w.emit(-1, "HWriteString %d %s", h(), pay)
	case 24:
		w.emit(-1, "HSeek %d %d %d", h(), r.Range(-2, 8), r.Intn(3))
	case 25:
		w.emit(-1, "HTruncate %d %d", h(), r.Range(-1, 8))
	case 26:
		if r.Chance(1, 3) {
			w.emit(-1, "HClose %d", h())
		} else {
			w.emit(-1, "HStat %d", h())
		}
	case 27:
		if w.NoPaging {
			w.emit(-1, "HReaddir %d %d", h(), Pick(r, []int{-1, 0, 100}))
		} else {
			w.emit(-1, "HReaddir %d %d", h(), Pick(r, []int{-1, 0, 1, 2, 5}))
		}
	case 28:
		if w.NoPaging {
			w.emit(-1, "HReaddirnames %d %d", h(), Pick(r, []int{-1, 0, 100}))
		} else {
			w.emit(-1, "HReaddirnames %d %d", h(), Pick(r, []int{-1, 0, 1, 3}))
		}
	default:
		w.emit(-1, Pick(r, []string{"HName %d", "HSync %d"}), h())
	}
}

// populate builds a tree on the layer addressed by tgt with well-formed ops, closes every
// handle and stamps every entry with an explicit past modification time.  Returns the items
// and the canonical paths that exist.
func populate(r *Rng, tgt string, nops int, slotBase int) (items []string, paths []string, nextSlot int) {
	g := NewGen(r)
	g.Target = tgt
	g.Spell = false
	g.next = slotBase
	for i := 0; i < nops; i++ {
		g.Step()
	}
	for _, s := range g.liveHandles() {
		if !g.handles[s].closed {
			g.emit(-1, "HClose %d", s)
		}
	}
	ps := g.sorted()
	for i, p := range ps {
		g.emit(-1, "Chtimes %s %d", hx([]byte(p)), 1000000000+1000*(i%4))
	}
	return g.Items, ps, g.next
}

// deep snapshot of a MemMapFs layer with exact modification times (for "unchanged" oracles)
func deepSnap(fs afero.Fs) string {
	es := afero.VerifDump(fs)
	sort.Slice(es, func(i, j int) bool { return es[i].Path < es[j].Path })
	var b strings.Builder
	for _, e := range es {
		kids := append([]string{}, e.KidKeys...)
		sort.Strings(kids)
		fmt.Fprintf(&b, "%s|%v|%s|%d|%d|%s;", e.Path, e.Dir, hx(e.Data), uint32(e.Mode), e.ModTime.UnixNano(), strings.Join(kids, ","))
	}
	return b.String()
}

// memLeaves: the targets ("0", "10", ...) of the MemMapFs leaves of a stack description
func memLeaves(stack string) []string {
	var out []string
	var walk func(l *Layer, tgt string)
	walk = func(l *Layer, tgt string) {
		if l.Kind == "mem" {
			if tgt == "" {
				tgt = "."
			}
			out = append(out, tgt)
			return
		}
		for i, k := range l.Kids {
			walk(k, tgt+fmt.Sprint(i))
		}
	}
	walk(parseStack(stack), "")
	return out
}

// mixedStackCases: model-vs-implementation correspondence on wrappers stacked on wrappers (every
// leaf filled separately with a well-formed program, then unconstrained calls through the top).
// No oracle of a single property applies to such stacks; what is compared is the transcription.
func mixedStackCases(c *Ctx, stacks []string, n int, idPrefix string) {
	for i := 0; i < n; i++ {
		r := c.Rng.Fork()
		stack := stacks[i%len(stacks)]
		var items, paths []string
		slot := 0
		for _, leaf := range memLeaves(stack) {
			it, ps, next := populate(r.Fork(), leaf, r.Range(3, 14), slot)
			items = append(items, it...)
			paths = append(paths, ps...)
			slot = next
		}
		w := &WrapGen{r: r, Paths: paths, Next: slot, Tgt: ".", NoPaging: strings.Contains(stack, "cow") || strings.Contains(stack, "cache")}
		for k := r.Range(4, 25); k > 0; k-- {
			w.Step()
		}
		items = append(items, w.Items...)
		for _, leaf := range memLeaves(stack) {
			items = append(items, "snap "+leaf)
		}
		RunCase(c, fmt.Sprintf("%s%d", idPrefix, i), stack, items)
		c.Count("mixed-stack." + stack)
	}
	c.Extra["mixed_stacks"] = fmt.Sprintf("%d unconstrained cases over %v (model correspondence only)", n, stacks)
}
