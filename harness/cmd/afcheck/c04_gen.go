package main

// c04_gen.go — tiny concurrent programs over the shared names /d /d/x /d/y /f /g.
// Focused families aim at the windows between critical sections of the multi-section
// methods; "random" draws 2-4 goroutines x 1-4 ops from the whole mix.  Every handle slot is
// used by one goroutine only (slot = 10*(g+1)+k; setup opens the handles it hands out).

import (
	"bytes"
	"fmt"
	"os"
	"strings"
)

var c04Names = []string{"/d", "/d/x", "/d/y", "/f", "/g"}
var c04Files = []string{"/d/x", "/d/y", "/f", "/g"}

const (
	c04Excl   = os.O_RDWR | os.O_CREATE | os.O_EXCL
	c04Create = os.O_RDWR | os.O_CREATE
	c04Trunc  = os.O_RDWR | os.O_TRUNC
	c04CrTr   = os.O_WRONLY | os.O_CREATE | os.O_TRUNC
)

func oMkdir(p string, perm int) string    { return c04Item(-1, "Mkdir %s %d", c04hx(p), perm) }
func oMkdirAll(p string, perm int) string { return c04Item(-1, "MkdirAll %s %d", c04hx(p), perm) }
func oCreate(slot int, p string) string   { return c04Item(slot, "Create %s", c04hx(p)) }
func oOpen(slot int, p string) string     { return c04Item(slot, "Open %s", c04hx(p)) }
func oOpenFile(slot int, p string, flag, perm int) string {
	return c04Item(slot, "OpenFile %s %d %d", c04hx(p), flag, perm)
}
func oRemove(p string) string          { return c04Item(-1, "Remove %s", c04hx(p)) }
func oRemoveAll(p string) string       { return c04Item(-1, "RemoveAll %s", c04hx(p)) }
func oRename(p, q string) string       { return c04Item(-1, "Rename %s %s", c04hx(p), c04hx(q)) }
func oStat(p string) string            { return c04Item(-1, "Stat %s", c04hx(p)) }
func oChmod(p string, m int) string    { return c04Item(-1, "Chmod %s %d", c04hx(p), m) }
func oChtimes(p string, t int) string  { return c04Item(-1, "Chtimes %s %d", c04hx(p), t) }
func hRead(s, n int) string            { return c04Item(-1, "HRead %d %d", s, n) }
func hReadAt(s, n, off int) string     { return c04Item(-1, "HReadAt %d %d %d", s, n, off) }
func hWrite(s int, d string) string    { return c04Item(-1, "HWrite %d %s", s, c04hx(d)) }
func hWriteAt(s int, d string, off int) string {
	return c04Item(-1, "HWriteAt %d %s %d", s, c04hx(d), off)
}
func hTruncate(s, n int) string  { return c04Item(-1, "HTruncate %d %d", s, n) }
func hSeek(s, off, wh int) string { return c04Item(-1, "HSeek %d %d %d", s, off, wh) }
func hNames(s int) string        { return c04Item(-1, "HReaddirnames %d -1", s) }
func hClose(s int) string        { return c04Item(-1, "HClose %d", s) }

func c04Slot(g, k int) int { return 10*(g+1) + k }

// setup helpers: a file with content (handle closed), directories
func c04MkFile(p, content string) []string {
	out := []string{oOpenFile(1, p, c04Create, 0o644)}
	if content != "" {
		out = append(out, hWrite(1, content))
	}
	return append(out, hClose(1))
}

var c04Contents = []string{"", "ab", "abcd", "abcdefgh"}
var c04Data = []string{"X", "YY", "ZZZZ", "WWWWWWWW"}

func c04GenProg(r *Rng, pi int) *c04Prog { return c04ExpandStats(c04GenProgRaw(r, pi)) }

func c04GenProgRaw(r *Rng, pi int) *c04Prog {
	fams := []func(*Rng) *c04Prog{c04GenExcl, c04GenCreateRace, c04GenMkdir, c04GenMkdirRemove, c04GenRemoveAll,
		c04GenRename, c04GenTorn, c04GenRW, c04GenCreateIO, c04GenUnrelated, c04GenMeta, c04GenRandom, c04GenRandom, c04GenRandom}
	return fams[pi%len(fams)](r)
}

// every Stat of a goroutine becomes the lookup plus the four accessor calls on the returned
// (live) FileInfo; at most 56 calls per history
func c04ExpandStats(p *c04Prog) *c04Prog {
	total := 0
	for _, th := range p.Threads {
		total += len(th)
	}
	for g, th := range p.Threads {
		var out []string
		k := 0
		for _, it := range th {
			f := strings.Fields(it)
			if f[2] != "Stat" || f[1] != "-" {
				out = append(out, it)
				continue
			}
			if total+4 > 56 {
				total--
				continue
			}
			s := 50 + 12*g + k
			k++
			total += 4
			out = append(out, c04Item(s, "Stat %s", f[3]), c04Item(-1, "FName %d", s), c04Item(-1, "FSize %d", s),
				c04Item(-1, "FMode %d", s), c04Item(-1, "FMtime %d", s))
		}
		p.Threads[g] = out
	}
	return p
}

// k goroutines create the same free name exclusively, then use their handle
func c04GenExcl(r *Rng) *c04Prog {
	p := &c04Prog{Focus: "excl-create"}
	name := Pick(r, []string{"/f", "/d/x", "/g"})
	if r.Bool() {
		p.Setup = append(p.Setup, oMkdir("/d", 0o755))
	}
	n := r.Range(2, 4)
	for g := 0; g < n; g++ {
		s := c04Slot(g, 0)
		th := []string{oOpenFile(s, name, c04Excl, 0o600+g)}
		if r.Chance(1, 2) {
			th = append(th, hWrite(s, Pick(r, c04Data)))
			if r.Chance(1, 2) {
				th = append(th, hReadAt(s, 8, 0))
			}
		} else if r.Chance(1, 3) {
			th = append(th, oStat(name))
		}
		p.Threads = append(p.Threads, th)
	}
	return p
}

// O_CREATE without O_EXCL: the loser of the lookup race calls Create, which truncates
func c04GenCreateRace(r *Rng) *c04Prog {
	p := &c04Prog{Focus: "create-race"}
	name := Pick(r, []string{"/f", "/d/x"})
	if r.Bool() {
		p.Setup = append(p.Setup, oMkdir("/d", 0o755))
	}
	n := r.Range(2, 3)
	for g := 0; g < n; g++ {
		s := c04Slot(g, 0)
		th := []string{oOpenFile(s, name, c04Create, 0o640+g), hWrite(s, Pick(r, c04Data))}
		if r.Chance(1, 2) {
			th = append(th, hReadAt(s, 8, 0))
		}
		p.Threads = append(p.Threads, th)
	}
	if r.Chance(1, 3) {
		p.Threads = append(p.Threads, []string{oStat(name), oStat(name)})
	}
	return p
}

func c04GenMkdir(r *Rng) *c04Prog {
	p := &c04Prog{Focus: "mkdir"}
	name := Pick(r, []string{"/d", "/d/x", "/g"})
	n := r.Range(2, 4)
	for g := 0; g < n; g++ {
		var th []string
		if r.Chance(1, 4) {
			th = append(th, oMkdirAll(name, 0o700+g))
		} else {
			th = append(th, oMkdir(name, 0o700+g))
		}
		if r.Chance(1, 3) {
			th = append(th, oStat(name))
		}
		p.Threads = append(p.Threads, th)
	}
	return p
}

// Mkdir's trailing setFileMode looks the name up again: a Remove in between makes it fail
func c04GenMkdirRemove(r *Rng) *c04Prog {
	p := &c04Prog{Focus: "mkdir-remove"}
	name := Pick(r, []string{"/d", "/g"})
	if r.Chance(1, 3) {
		p.Setup = append(p.Setup, oMkdir(name, 0o755))
	}
	mk := []string{oMkdir(name, 0o750)}
	if r.Chance(1, 3) {
		mk = []string{oMkdirAll(name, 0o750)}
	}
	if r.Chance(1, 3) {
		mk = append(mk, oMkdir(name, 0o751))
	}
	p.Threads = append(p.Threads, mk)
	rm := []string{oRemove(name)}
	for k := r.Intn(3); k > 0; k-- {
		rm = append(rm, oRemove(name))
	}
	if r.Chance(1, 4) {
		rm = []string{oRemoveAll(name), oRemoveAll(name)}
	}
	if r.Chance(1, 4) {
		rm = []string{oRename(name, "/f"), oRename(name, "/f")}
	}
	p.Threads = append(p.Threads, rm)
	if r.Chance(1, 3) {
		p.Threads = append(p.Threads, []string{oStat(name), oMkdir(name, 0o700)})
	}
	return p
}

// a reader walks the subtree while RemoveAll takes it apart key by key
func c04GenRemoveAll(r *Rng) *c04Prog {
	p := &c04Prog{Focus: "removeall"}
	p.Setup = append(p.Setup, oMkdir("/d", 0o755))
	p.Setup = append(p.Setup, c04MkFile("/d/x", "ab")...)
	p.Setup = append(p.Setup, c04MkFile("/d/y", "cd")...)
	if r.Bool() {
		p.Setup = append(p.Setup, oOpen(c04Slot(1, 5), "/d"))
	}
	p.Threads = append(p.Threads, []string{oRemoveAll("/d")})
	var rd []string
	probes := []string{oStat("/d/x"), oStat("/d/y"), oStat("/d"), oOpen(c04Slot(1, 0), "/d/y"), hNames(c04Slot(1, 5))}
	for k := r.Range(2, 4); k > 0; k-- {
		rd = append(rd, Pick(r, probes))
	}
	p.Threads = append(p.Threads, rd)
	if r.Chance(1, 3) {
		p.Threads = append(p.Threads, []string{Pick(r, []string{oCreate(c04Slot(2, 0), "/d/x"), oMkdir("/d", 0o700), oStat("/d/y"), oRemove("/d/x")})})
	}
	return p
}

func c04GenRename(r *Rng) *c04Prog {
	p := &c04Prog{Focus: "rename"}
	p.Setup = append(p.Setup, oMkdir("/d", 0o755))
	p.Setup = append(p.Setup, c04MkFile("/d/x", "ab")...)
	if r.Bool() {
		p.Setup = append(p.Setup, c04MkFile("/f", "ff")...)
	}
	type pr struct{ a, b string }
	mv := Pick(r, []pr{{"/d/x", "/d/y"}, {"/d/x", "/f"}, {"/d", "/g"}, {"/f", "/d/y"}})
	th := []string{oRename(mv.a, mv.b)}
	if r.Chance(1, 3) {
		th = append(th, oRename(mv.b, mv.a))
	}
	p.Threads = append(p.Threads, th)
	var rd []string
	names := []string{mv.a, mv.b, "/d/x", "/d"}
	for k := r.Range(2, 4); k > 0; k-- {
		rd = append(rd, oStat(Pick(r, names)))
	}
	p.Threads = append(p.Threads, rd)
	if r.Chance(1, 2) {
		p.Threads = append(p.Threads, []string{Pick(r, []string{oRemove(mv.a), oRemove(mv.b), oRename(mv.a, "/g"), oCreate(c04Slot(2, 0), mv.b)})})
	}
	return p
}

// whole-buffer writes of equal length against whole-buffer reads: a read returns the old
// content or one of the written buffers, never a mixture
func c04GenTorn(r *Rng) *c04Prog {
	p := &c04Prog{Focus: "torn-read"}
	L := Pick(r, []int{2, 4, 8})
	old := "abcdefgh"[:L]
	p.Torn = []string{c04hx(old)}
	p.Setup = append(p.Setup, c04MkFile("/f", old)...)
	n := r.Range(2, 4)
	for g := 0; g < n; g++ {
		p.Setup = append(p.Setup, oOpenFile(c04Slot(g, 0), "/f", os.O_RDWR, 0))
	}
	writers := r.Range(1, n-1)
	for g := 0; g < n; g++ {
		s := c04Slot(g, 0)
		var th []string
		if g < writers {
			d := string([]byte("QRSTUVWX")[g:g+1])
			buf := ""
			for len(buf) < L {
				buf += d
			}
			p.Torn = append(p.Torn, c04hx(buf))
			th = append(th, hWriteAt(s, buf, 0))
			if r.Chance(1, 3) {
				th = append(th, hReadAt(s, L, 0))
			}
		} else {
			for k := r.Range(1, 3); k > 0; k-- {
				th = append(th, hReadAt(s, L, 0))
			}
		}
		p.Threads = append(p.Threads, th)
	}
	return p
}

// handle I/O of several goroutines on one file, every handle private
func c04GenRW(r *Rng) *c04Prog {
	p := &c04Prog{Focus: "handle-io"}
	p.Setup = append(p.Setup, c04MkFile("/f", Pick(r, c04Contents))...)
	n := r.Range(2, 4)
	for g := 0; g < n; g++ {
		fl := os.O_RDWR
		if r.Chance(1, 5) {
			fl = os.O_RDWR | os.O_APPEND
		}
		p.Setup = append(p.Setup, oOpenFile(c04Slot(g, 0), "/f", fl, 0))
	}
	for g := 0; g < n; g++ {
		s := c04Slot(g, 0)
		var th []string
		for k := r.Range(1, 4); k > 0; k-- {
			switch r.Intn(8) {
			case 0:
				th = append(th, hWrite(s, Pick(r, c04Data)))
			case 1:
				th = append(th, hWriteAt(s, Pick(r, c04Data), r.Intn(5)))
			case 2:
				th = append(th, hRead(s, r.Range(1, 8)))
			case 3:
				th = append(th, hReadAt(s, r.Range(1, 8), r.Intn(4)))
			case 4:
				th = append(th, hTruncate(s, r.Intn(6)))
			case 5:
				th = append(th, hSeek(s, r.Intn(4), Pick(r, []int{0, 1, 2})))
			case 6:
				th = append(th, oStat("/f"))
			case 7:
				th = append(th, hClose(s))
			}
		}
		p.Threads = append(p.Threads, th)
	}
	return p
}

// Create / O_TRUNC truncate in place under the file mutex while others use their handles
func c04GenCreateIO(r *Rng) *c04Prog {
	p := &c04Prog{Focus: "create-vs-io"}
	p.Setup = append(p.Setup, c04MkFile("/f", "abcd")...)
	p.Setup = append(p.Setup, oOpenFile(c04Slot(1, 0), "/f", os.O_RDWR, 0))
	p.Setup = append(p.Setup, oOpenFile(c04Slot(2, 0), "/f", os.O_RDONLY, 0))
	p.Threads = append(p.Threads, []string{Pick(r, []string{oCreate(c04Slot(0, 0), "/f"), oOpenFile(c04Slot(0, 0), "/f", c04Trunc, 0),
		oOpenFile(c04Slot(0, 0), "/f", c04CrTr, 0o600), oRemove("/f")}), hWrite(c04Slot(0, 0), "N")})
	p.Threads = append(p.Threads, []string{hWriteAt(c04Slot(1, 0), Pick(r, c04Data), r.Intn(3)), hReadAt(c04Slot(1, 0), 8, 0)})
	if r.Bool() {
		p.Threads = append(p.Threads, []string{hReadAt(c04Slot(2, 0), 8, 0), oStat("/f"), hReadAt(c04Slot(2, 0), 8, 0)})
	}
	return p
}

// goroutines confined to disjoint subtrees (/d..., /f, /g): nobody's results may change
func c04GenUnrelated(r *Rng) *c04Prog {
	p := &c04Prog{Focus: "unrelated"}
	if r.Bool() {
		p.Setup = append(p.Setup, oMkdir("/d", 0o755))
		p.Setup = append(p.Setup, c04MkFile("/d/x", "ab")...)
	}
	if r.Bool() {
		p.Setup = append(p.Setup, c04MkFile("/f", "ff")...)
	}
	zones := [][]string{{"/d", "/d/x", "/d/y"}, {"/f"}, {"/g"}}
	n := r.Range(2, 3)
	for g := 0; g < n; g++ {
		p.Threads = append(p.Threads, c04RandThread(r, g, zones[g], r.Range(1, 4), nil))
	}
	return p
}

func c04GenMeta(r *Rng) *c04Prog {
	p := &c04Prog{Focus: "metadata"}
	p.Setup = append(p.Setup, c04MkFile("/f", "ab")...)
	p.Threads = append(p.Threads, []string{Pick(r, []string{oChmod("/f", 0o600), oChtimes("/f", 1000000000)}), oStat("/f")})
	p.Threads = append(p.Threads, []string{Pick(r, []string{oStat("/f"), oChmod("/f", 0o444), oRemove("/f"), oRename("/f", "/g"), oCreate(c04Slot(1, 0), "/f")}),
		Pick(r, []string{oStat("/f"), oStat("/g"), oChtimes("/f", 1000001000)})})
	if r.Chance(1, 3) {
		p.Threads = append(p.Threads, []string{oStat("/f"), oStat("/f")})
	}
	return p
}

// one random goroutine program over the given names; own lists the slots it already holds
func c04RandThread(r *Rng, g int, names []string, n int, own map[int]bool) []string {
	var th []string
	have := []int{}
	dirs := map[int]bool{}
	for s := range own {
		have = append(have, s)
	}
	next := 0
	isDirName := func(p string) bool { return p == "/d" }
	for len(th) < n {
		name := Pick(r, names)
		switch k := r.Intn(20); {
		case k == 0:
			th = append(th, oMkdir(Pick(r, names), 0o700+r.Intn(8)))
		case k == 1:
			th = append(th, oMkdirAll(Pick(r, names), 0o750))
		case k == 2 && !isDirName(name):
			s := c04Slot(g, next)
			next++
			th = append(th, oCreate(s, name))
			have = append(have, s)
		case k == 3 || k == 4:
			if isDirName(name) {
				continue
			}
			s := c04Slot(g, next)
			next++
			th = append(th, oOpenFile(s, name, Pick(r, []int{c04Excl, c04Create, c04Trunc, c04CrTr, os.O_RDWR, os.O_RDONLY, os.O_RDWR | os.O_APPEND}), 0o600+r.Intn(64)))
			have = append(have, s)
		case k == 5:
			if isDirName(name) && r.Chance(2, 3) {
				continue // Remove of a non-empty directory orphans its children: rare on purpose
			}
			th = append(th, oRemove(name))
		case k == 6:
			if name == "/d/x" || name == "/d/y" {
				name = "/d"
			}
			th = append(th, oRemoveAll(name))
		case k == 7:
			to := Pick(r, names)
			if to == name || c04Under(to, name) || c04Under(name, to) {
				continue
			}
			th = append(th, oRename(name, to))
		case k == 8 || k == 9:
			th = append(th, oStat(name))
		case k == 10:
			s := c04Slot(g, next)
			next++
			th = append(th, oOpen(s, name))
			have = append(have, s)
			if isDirName(name) {
				dirs[s] = true
				if len(th) < n {
					th = append(th, hNames(s))
				}
			}
		case k == 11:
			th = append(th, oChmod(name, Pick(r, []int{0o600, 0o644, 0o400})))
		case k == 12:
			th = append(th, oChtimes(name, 1000000000+r.Intn(3)*1000))
		default:
			if len(have) == 0 {
				continue
			}
			s := Pick(r, have)
			if dirs[s] {
				th = append(th, hNames(s))
				continue
			}
			switch r.Intn(7) {
			case 0:
				th = append(th, hWrite(s, Pick(r, c04Data)))
			case 1:
				th = append(th, hWriteAt(s, Pick(r, c04Data), r.Intn(4)))
			case 2:
				th = append(th, hRead(s, r.Range(1, 8)))
			case 3:
				th = append(th, hReadAt(s, r.Range(1, 8), r.Intn(3)))
			case 4:
				th = append(th, hTruncate(s, r.Intn(5)))
			case 5:
				th = append(th, hSeek(s, r.Intn(4), Pick(r, []int{0, 1, 2})))
			case 6:
				th = append(th, hClose(s))
			}
		}
	}
	return th
}

func c04GenRandom(r *Rng) *c04Prog {
	p := &c04Prog{Focus: "random"}
	switch r.Intn(4) {
	case 0:
	case 1:
		p.Setup = append(p.Setup, oMkdir("/d", 0o755))
	case 2:
		p.Setup = append(p.Setup, oMkdir("/d", 0o755))
		p.Setup = append(p.Setup, c04MkFile("/d/x", "ab")...)
		p.Setup = append(p.Setup, c04MkFile("/f", "abcd")...)
	case 3:
		p.Setup = append(p.Setup, c04MkFile("/f", "abcd")...)
		p.Setup = append(p.Setup, c04MkFile("/g", "")...)
	}
	n := r.Range(2, 4)
	for g := 0; g < n; g++ {
		own := map[int]bool{}
		if len(p.Setup) > 1 && r.Chance(1, 3) {
			s := c04Slot(g, 8)
			p.Setup = append(p.Setup, oOpenFile(s, "/f", os.O_RDWR, 0))
			own[s] = true
		}
		p.Threads = append(p.Threads, c04RandThread(r, g, c04Names, r.Range(1, 4), own))
	}
	return p
}

// ---------------------------------------------------------------- fixed small configurations
//
// c04WindowProgs: 2 goroutines x 1-2 ops aimed at two windows, explored depth-first (every
// schedule) by the scheduled binary in BOTH tiers, so that the windows are found
// deterministically:
//   (i)  Readdirnames on an open directory handle ‖ Rename of a child out of / into / within that
//        directory (or of the directory itself): the listing must be one the directory had;
//   (ii) OpenFile with O_TRUNC and/or O_APPEND (with and without O_CREATE) ‖ Create+Close, Write
//        through another handle, Chtimes, Rename, Remove on the same name: the truncation / the
//        offset must belong to the instant of the lookup or creation.
func c04WindowProgs() []*c04Prog {
	var out []*c04Prog
	// (i)
	dirSetup := func() []string {
		st := []string{oMkdir("/d", 0o755)}
		st = append(st, c04MkFile("/d/x", "ab")...)
		st = append(st, c04MkFile("/f", "ff")...)
		return append(st, oOpen(c04Slot(0, 0), "/d"))
	}
	names1 := c04Item(-1, "HReaddirnames %d 1", c04Slot(0, 0))
	for _, rd := range [][]string{{hNames(c04Slot(0, 0))}, {hNames(c04Slot(0, 0)), hNames(c04Slot(0, 0))}, {names1, names1}} {
		for _, mv := range [][]string{
			{oRename("/d/x", "/g")},                        // out of the directory
			{oRename("/f", "/d/y")},                        // into it
			{oRename("/d/x", "/d/y")},                      // within it
			{oRename("/d/x", "/g"), oRename("/f", "/d/x")}, // out, and another file in under the old name
			{oRename("/d", "/g")},                          // the directory itself
			{oRemove("/d/x")},
		} {
			out = append(out, &c04Prog{Focus: "window-readdirnames", Setup: dirSetup(), Threads: [][]string{rd, mv}})
		}
	}
	// (ii)
	const ap = os.O_APPEND
	s0, s1 := c04Slot(0, 0), c04Slot(1, 0)
	type other struct {
		ops        []string
		needsExist bool
	}
	others := []other{
		{[]string{oCreate(s1, "/f"), hClose(s1)}, false},
		{[]string{hWrite(s1+1, "WW")}, true}, // slot s1+1: opened on /f by the setup
		{[]string{oChtimes("/f", 1000002000)}, false},
		{[]string{oRename("/f", "/g")}, false},
		{[]string{oRemove("/f")}, false},
		{[]string{oChmod("/f", 0o400)}, false},
	}
	for _, fl := range []int{c04Trunc, os.O_WRONLY | os.O_TRUNC, c04CrTr, c04Create | os.O_TRUNC, c04Trunc | ap, c04CrTr | ap, os.O_RDWR | ap, c04Create | ap} {
		for _, exists := range []bool{true, false} {
			if !exists && fl&os.O_CREATE == 0 {
				continue // OpenFile would only report not-exist
			}
			for _, o := range others {
				if o.needsExist && !exists {
					continue
				}
				p := &c04Prog{Focus: "window-openfile"}
				if exists {
					p.Setup = append(p.Setup, c04MkFile("/f", "abcd")...)
					p.Setup = append(p.Setup, oOpenFile(s1+1, "/f", os.O_RDWR, 0))
				}
				th := []string{oOpenFile(s0, "/f", fl, 0o634)}
				if fl&ap != 0 {
					th = append(th, hWrite(s0, "N")) // shows the offset the handle got
				}
				p.Threads = [][]string{th, o.ops}
				out = append(out, p)
			}
		}
	}
	// (iv) one call that writes more than any internal chunk size ‖ the same through another handle:
	// a Write / WriteString / WriteAt is ONE section of the file's mutex, whatever its length (under
	// the lock-aware scheduler every acquisition inside the call is a switching point)
	{
		big := func(ch byte) string { return c04hxBytes(bytes.Repeat([]byte{ch}, 40000)) }
		for _, ops := range [][2]string{{"HWriteString %d %s", "HWriteString %d %s"}, {"HWrite %d %s", "HWriteString %d %s"}, {"HWriteString %d %s", "HReadAt %d 40000 0"}} {
			p := &c04Prog{Focus: "window-big-write"}
			p.Setup = append(p.Setup, c04MkFile("/f", "")...)
			p.Setup = append(p.Setup, oOpenFile(c04Slot(0, 0), "/f", os.O_RDWR, 0), oOpenFile(c04Slot(1, 0), "/f", os.O_RDWR, 0))
			t0 := c04Item(-1, ops[0], c04Slot(0, 0), big('A'))
			var t1 string
			if strings.Contains(ops[1], "ReadAt") {
				t1 = c04Item(-1, ops[1], c04Slot(1, 0))
			} else {
				t1 = c04Item(-1, ops[1], c04Slot(1, 0), big('B'))
			}
			p.Threads = [][]string{{t0}, {t1}}
			out = append(out, p)
		}
	}
	// (iii) Mkdir / MkdirAll / Create of a name below a missing parent ‖ the parent appearing as a
	// regular FILE (or as a directory): the ancestor check and the insertion are one section, so
	// either the file is created first (then ENOTDIR) or the directory chain (then the exclusive
	// create of the file fails); never both successes with a file turned into a directory
	for _, mk := range [][]string{{oMkdir("/p/sub", 0o755)}, {oMkdirAll("/p/sub/deep", 0o755)}, {oCreate(c04Slot(0, 0), "/p/sub")}, {oOpenFile(c04Slot(0, 0), "/p/sub", c04Create|os.O_EXCL, 0o644)}} {
		for _, parent := range [][]string{
			{oOpenFile(c04Slot(1, 0), "/p", c04Create|os.O_EXCL, 0o644)},
			{oCreate(c04Slot(1, 0), "/p")},
			{oMkdir("/p", 0o755)},
			{oRename("/f", "/p")},
		} {
			p := &c04Prog{Focus: "window-below-file", Threads: [][]string{mk, parent}}
			p.Setup = append(p.Setup, c04MkFile("/f", "ff")...)
			out = append(out, p)
		}
	}
	// (v) RemoveAll of a name that is a regular file when the call starts ‖ Rename of a non-empty
	// directory onto that name, followed by Stat of the name and of a child: RemoveAll looks and
	// deletes in one section, so "the name is gone but its child is there" cannot be observed
	for _, rm := range []string{oRemoveAll("/x"), oRemoveAll("/x/"), oRemove("/x")} {
		for _, mv := range [][]string{
			{oRename("/d", "/x"), oStat("/x"), oStat("/x/c")},
			{oRename("/d", "/x"), oStat("/x"), oStat("/x/e/g")},
			{oRemove("/x"), oMkdirAll("/x/c", 0o755), oStat("/x"), oStat("/x/c")},
		} {
			p := &c04Prog{Focus: "window-removeall-file", Threads: [][]string{{rm}, mv}}
			p.Setup = append(p.Setup, c04MkFile("/x", "xx")...)
			p.Setup = append(p.Setup, oMkdirAll("/d/e", 0o755))
			p.Setup = append(p.Setup, c04MkFile("/d/c", "cc")...)
			p.Setup = append(p.Setup, c04MkFile("/d/e/g", "gg")...)
			out = append(out, p)
		}
	}
	return out
}

// c04LockWindowProgs: window programs written for the LOCK-AWARE mode of the cooperative
// scheduler (the programs of c04WindowProgs run in both modes, these in the lock-aware one only).  A handle operation takes only the mutex of its
// file or directory, never the filesystem lock m.mu, so it can run between two file-mutex
// sections of a namespace method that holds m.mu all along; only a scheduler that switches
// goroutines inside the critical section of m.mu reaches these interleavings:
//   window-dir-listing    listings through directory handles opened beforehand (Readdirnames,
//                         Readdir, whole and in pages of one, one directory or two directories one
//                         after the other, two handles on one directory) ‖ Rename of the directory,
//                         of a child out of / into / within it (also to a name that extends the old one), onto
//                         an existing name, between the two
//                         listed directories (and back), of a subdirectory with children, RemoveAll of
//                         a child subtree, Remove, Mkdir, MkdirAll (two levels), Create, exclusive create;
//   window-openfile-io    OpenFile with every combination of O_APPEND / O_TRUNC / O_CREATE (read-write,
//                         write-only, read-only) on an existing file ‖ Write, WriteAt, Truncate (shrinking,
//                         growing) through another handle on the same file, ‖ Stat; the new handle then
//                         shows its offset (a one-byte Write, or Seek(0, current) when it is read-only);
//   window-openfile-append-trunc   the same for the flag words with O_APPEND and O_TRUNC and write access:
//                         OpenFile seeks to the end and truncates in two separate sections of the file's mutex;
//   window-create-io      Create over an existing file (truncation in place under m.mu) ‖ Read, ReadAt,
//                         Write, Truncate, Stat through another handle;
//   window-meta-hstat     Chmod / Chtimes ‖ Stat through a handle (File.Stat) and by name.
//   window-sparse-write   WriteAt / Seek+Write / Seek+WriteString more than 64 KiB beyond the end of the file ‖
//                         File.Stat, Stat, Seek(0, end), ReadAt across the offset through another handle;
//   window-readdir-big    ReadDir(-1) / ReadDir(0) (the fs.ReadDirFile spelling, item HReadDir) and Readdir(-1) of a
//                         directory with 130 entries ‖ Remove, Create, Rename of an entry sorting first.
func c04LockWindowProgs() []*c04Prog {
	var out []*c04Prog
	// ---- listings through directory handles ‖ namespace operations
	hd, hd2, he := c04Slot(0, 0), c04Slot(0, 1), c04Slot(0, 2)
	names1 := func(h int) string { return c04Item(-1, "HReaddirnames %d 1", h) }
	infos := func(h, n int) string { return c04Item(-1, "HReaddir %d %d", h, n) }
	dirSetup := func(subtree bool) []string {
		st := []string{oMkdir("/d", 0o755), oMkdir("/e", 0o755)}
		st = append(st, c04MkFile("/d/x", "ab")...)
		if subtree {
			st = append(st, oMkdir("/d/s", 0o755))
			st = append(st, c04MkFile("/d/s/a", "sa")...)
			st = append(st, c04MkFile("/d/s/b", "sb")...)
		} else {
			st = append(st, c04MkFile("/d/y", "cd")...)
			st = append(st, c04MkFile("/f", "ff")...)
		}
		return append(st, oOpen(hd, "/d"), oOpen(hd2, "/d"), oOpen(he, "/e"))
	}
	listings := [][]string{
		{hNames(hd)},
		{hNames(hd), hNames(he)}, // the old parent, THEN the new one
		{hNames(he), hNames(hd)},
		{hNames(hd), hNames(hd2)}, // two handles on one directory
		{names1(hd), names1(hd), names1(hd)},
		{infos(hd, -1)},
		{infos(hd, 1), infos(hd, 1), infos(hd, 1)},
	}
	type mut struct {
		ops     []string
		subtree bool
	}
	muts := []mut{
		{[]string{oRename("/d", "/g")}, false},
		{[]string{oRename("/d/x", "/g")}, false},
		{[]string{oRename("/f", "/d/z")}, false},
		{[]string{oRename("/d/x", "/d/z")}, false},
		{[]string{oRename("/d/x", "/d/y")}, false}, // onto an existing name
		{[]string{oRename("/d/x", "/d/xx")}, false}, // the new name begins with the old one as a string
		{[]string{oRename("/d/x", "/e/x")}, false},
		{[]string{oRename("/d/x", "/e/x"), oRename("/e/x", "/d/x")}, false},
		{[]string{oRemove("/d/x")}, false},
		{[]string{oMkdir("/d/n", 0o750)}, false},
		{[]string{oMkdirAll("/d/n/m", 0o750)}, false},
		{[]string{oCreate(c04Slot(1, 0), "/d/n")}, false},
		{[]string{oOpenFile(c04Slot(1, 0), "/d/n", c04Excl, 0o640)}, false},
		{[]string{oRemoveAll("/d/s")}, true},
		{[]string{oRename("/d/s", "/e/s")}, true}, // a directory with children between the two listed ones
		{[]string{oRename("/d", "/g")}, true},     // nested: /d/s/a, /d/s/b follow
	}
	for _, ls := range listings {
		for _, m := range muts {
			out = append(out, &c04Prog{Focus: "window-dir-listing", Setup: dirSetup(m.subtree), Threads: [][]string{ls, m.ops}})
		}
	}
	// ---- OpenFile(flags) ‖ I/O through another handle on the same file
	s0, s1 := c04Slot(0, 0), c04Slot(1, 0)
	var flags []int
	for _, acc := range []int{os.O_RDWR, os.O_WRONLY} {
		for bits := 0; bits < 8; bits++ {
			fl := acc
			if bits&1 != 0 {
				fl |= os.O_APPEND
			}
			if bits&2 != 0 {
				fl |= os.O_TRUNC
			}
			if bits&4 != 0 {
				fl |= os.O_CREATE
			}
			flags = append(flags, fl)
		}
	}
	flags = append(flags, os.O_RDONLY|os.O_APPEND, os.O_RDONLY|os.O_APPEND|os.O_TRUNC)
	for _, fl := range flags {
		for _, other := range [][]string{
			{hWrite(s1, "WWWWWWWW")}, // extends the file from 4 to 8 bytes
			{hWriteAt(s1, "ZZ", 4)},
			{hTruncate(s1, 2)},
			{hTruncate(s1, 6)},
			{oStat("/f")},
		} {
			p := &c04Prog{Focus: "window-openfile-io"}
			writable := fl&(os.O_RDWR|os.O_WRONLY) != 0
			if writable && fl&os.O_APPEND != 0 && fl&os.O_TRUNC != 0 {
				p.Focus = "window-openfile-append-trunc"
			}
			p.Setup = append(p.Setup, c04MkFile("/f", "abcd")...)
			p.Setup = append(p.Setup, oOpenFile(s1, "/f", os.O_RDWR, 0))
			show := hWrite(s0, "N") // where the new handle's offset is
			if !writable {
				show = hSeek(s0, 0, 1)
			}
			p.Threads = [][]string{{oOpenFile(s0, "/f", fl, 0o634), show}, other}
			out = append(out, c04ExpandStats(p))
		}
	}
	// ---- Create over an existing file ‖ I/O through another handle
	hstat := func(h int) string { return c04Item(-1, "HStat %d", h) }
	for _, other := range [][]string{
		{hRead(s1, 8)},
		{hReadAt(s1, 8, 0)},
		{hRead(s1, 2), hRead(s1, 2)},
		{hWrite(s1, "WW"), hReadAt(s1, 8, 0)},
		{hTruncate(s1, 6)},
		{hstat(s1)},
		{oStat("/f")},
	} {
		p := &c04Prog{Focus: "window-create-io"}
		p.Setup = append(p.Setup, c04MkFile("/f", "abcd")...)
		p.Setup = append(p.Setup, oOpenFile(s1, "/f", os.O_RDWR, 0))
		p.Threads = [][]string{{oCreate(s0, "/f"), hWrite(s0, "N")}, other}
		out = append(out, c04ExpandStats(p))
	}
	// ---- Chmod / Chtimes ‖ Stat through a handle.  File.Stat returns a live FileInfo whose four
	// accessors are read one after the other: against ONE call that changes one field that is an
	// atomic read; against two changing calls the Stat is made by name (lookup + one call per accessor)
	for _, target := range []string{"/f", "/d"} {
		for _, ch := range [][]string{{oChmod(target, 0o600)}, {oChtimes(target, 1000002000)}, {oChmod(target, 0o600), oChtimes(target, 1000002000)}} {
			for _, rd := range [][]string{{hstat(s1)}, {hstat(s1), hstat(s1)}, {oStat(target)}} {
				if len(ch) > 1 && rd[0] == hstat(s1) {
					continue
				}
				p := &c04Prog{Focus: "window-meta-hstat"}
				p.Setup = append(p.Setup, oMkdir("/d", 0o755))
				p.Setup = append(p.Setup, c04MkFile("/f", "abcd")...)
				p.Setup = append(p.Setup, oOpen(s1, target))
				p.Threads = [][]string{ch, rd}
				out = append(out, c04ExpandStats(p))
			}
		}
	}
	// ---- one write far beyond the end of the file ‖ an observer of the size / of the tail.  The gap
	// between the old end and the offset (more than 64 KiB here) and the bytes written appear in ONE
	// section of the file's mutex: the observer sees the old file or a file of offset+len bytes, never
	// a file that already ends at the offset (zero-filled) and does not hold the bytes yet
	{
		const off = 70000
		writers := [][]string{
			{hWriteAt(s0, "XY", off)},
			{hSeek(s0, off, 0), hWrite(s0, "XY")},
		}
		// Stat by name: the lookup and the size accessor of the live FileInfo (the other accessors do not change here)
		statSize := []string{c04Item(50, "Stat %s", c04hx("/f")), c04Item(-1, "FSize %d", 50)}
		seekEnd := []string{hSeek(s1, 0, 2)}
		observers := [][]string{
			{hstat(s1)},
			statSize,
			seekEnd,
			{hReadAt(s1, 4, off-1)},
		}
		add := func(content string, w, o []string) {
			p := &c04Prog{Focus: "window-sparse-write"}
			p.Setup = append(p.Setup, c04MkFile("/f", content)...)
			p.Setup = append(p.Setup, oOpenFile(s0, "/f", os.O_RDWR, 0), oOpenFile(s1, "/f", os.O_RDWR, 0))
			p.Threads = [][]string{w, o}
			out = append(out, p)
		}
		for _, w := range writers {
			for _, o := range observers {
				add("", w, o)
			}
		}
		// a file that is not empty; WriteString after a Seek; a second far write below the first
		add("abcd", writers[0], seekEnd)
		add("abcd", writers[0], observers[3])
		add("", []string{hSeek(s0, off, 0), c04Item(-1, "HWriteString %d %s", s0, c04hx("XY"))}, seekEnd)
		add("abcd", []string{hWriteAt(s0, "XY", 2*off)}, []string{hWriteAt(s1, "Z", off), hSeek(s1, 0, 2)})
	}
	// ---- the whole listing of a directory with more entries than any batch size (130 > 128) through
	// the io/fs spelling ReadDir(-1) / ReadDir(0) ‖ an entry that sorts in front of all the others going
	// away or appearing: the listing is the directory with or without THAT entry, every other entry
	// exactly once (a listing fetched in several sections would skip or repeat the entry at the seam)
	{
		const nfiles = 130
		bigSetup := func() []string {
			st := []string{oMkdir("/d", 0o755)}
			for i := 0; i < nfiles; i++ {
				st = append(st, oCreate(1, fmt.Sprintf("/d/c%03d", i)))
			}
			return append(st, oOpen(hd, "/d"))
		}
		readDir := func(h, n int) string { return c04Item(-1, "HReadDir %d %d", h, n) }
		for _, ls := range [][]string{{readDir(hd, -1)}, {readDir(hd, 0)}, {infos(hd, -1)}} {
			for _, m := range [][]string{
				{oRemove("/d/c000")},
				{oCreate(c04Slot(1, 0), "/d/a")},
				{oRename("/d/c000", "/g")},
				{oRename("/d/c000", "/d/zzz")}, // from the front of the listing to its end
			} {
				if ls[0] != readDir(hd, -1) && m[0] != oRemove("/d/c000") {
					continue
				}
				out = append(out, &c04Prog{Focus: "window-readdir-big", Setup: bigSetup(), Threads: [][]string{ls, m}})
			}
		}
	}
	return out
}

// ---------------------------------------------------------------- windows of real preemption
//
// A handle on a directory lists it under the directory's mutex only (mem.File does not know
// m.mu), so a namespace method is atomic for such listings only if it changes each directory
// under ONE hold of that directory's mutex and related directories under simultaneous holds.
// The depth-0 mode of the cooperative scheduler never yields while a lock is held and cannot open
// these windows (its lock-aware mode can: c04LockWindowProgs, small directories, every schedule
// under a preemption bound); the programs below run under the REAL scheduler (stress mode, both
// tiers), with large directories, and are sized so that the windows are hit within a few hundred rounds:
//   dir-children  Rename of a directory with many children ‖ listings through handles on it
//                 opened beforehand: every listing shows all the children (base names do not
//                 change) - renameDescendants used to re-register them one by one;
//   two-parents   Rename of an entry from /d to /e ‖ a listing of /d and THEN a listing of /e:
//                 the entry is in one of them - it used to be removed from /d and added to /e
//                 under two separate holds of two mutexes.
// Their histories go through the same linearizability search as all the others.
type c04Preempt struct {
	prog *c04Prog
	reps int
}

func c04PreemptProgs(tier string) []c04Preempt {
	k := 1
	if tier == "thorough" {
		k = 6
	}
	child := func(dir string, i int) string { return fmt.Sprintf("%s/c%03d", dir, i) }
	var out []c04Preempt
	// dir-children: /d with 200 files, 6 handles on /d, Rename(/d,/g) ‖ 6 listings
	{
		p := &c04Prog{Focus: "preempt-dir-children", MaxDistinct: 6}
		p.Setup = append(p.Setup, oMkdir("/d", 0o755))
		for i := 0; i < 200; i++ {
			p.Setup = append(p.Setup, oCreate(1, child("/d", i)))
		}
		var ls []string
		for i := 0; i < 6; i++ {
			p.Setup = append(p.Setup, oOpen(200+i, "/d"))
			ls = append(ls, hNames(200+i))
		}
		p.Threads = [][]string{{oRename("/d", "/g")}, ls}
		out = append(out, c04Preempt{p, 150 * k})
	}
	// two-parents: the entry is a directory with 60 children (a long move) or a file (a short one,
	// on a filesystem with 400 other entries: findDescendants scans the whole map)
	for variant := 0; variant < 2; variant++ {
		p := &c04Prog{Focus: "preempt-two-parents", MaxDistinct: 6}
		p.Setup = append(p.Setup, oMkdir("/d", 0o755), oMkdir("/e", 0o755))
		reps := 400 * k
		if variant == 0 {
			p.Setup = append(p.Setup, oMkdir("/d/x", 0o755))
			for i := 0; i < 60; i++ {
				p.Setup = append(p.Setup, oCreate(1, child("/d/x", i)))
			}
		} else {
			p.Setup = append(p.Setup, oCreate(1, "/d/x"), oMkdir("/q", 0o755))
			for i := 0; i < 400; i++ {
				p.Setup = append(p.Setup, oCreate(1, child("/q", i)))
			}
			reps = 2500 * k
		}
		var ls []string
		for i := 0; i < 8; i++ {
			p.Setup = append(p.Setup, oOpen(200+2*i, "/d"), oOpen(201+2*i, "/e"))
			ls = append(ls, hNames(200+2*i), hNames(201+2*i))
		}
		p.Threads = [][]string{{oRename("/d/x", "/e/x")}, ls}
		out = append(out, c04Preempt{p, reps})
	}
	// same-directory: Rename(/d/a, /d/a.bak) — the new name has the old one as a STRING prefix, which
	// must not be mistaken for "below the old name" — ‖ listings of /d: exactly one of the two names
	{
		p := &c04Prog{Focus: "preempt-same-dir", MaxDistinct: 6}
		p.Setup = append(p.Setup, oMkdir("/d", 0o755), oCreate(1, "/d/a"), oCreate(1, "/d/z"), oMkdir("/q", 0o755))
		for i := 0; i < 400; i++ {
			p.Setup = append(p.Setup, oCreate(1, child("/q", i)))
		}
		var ls []string
		for i := 0; i < 12; i++ {
			p.Setup = append(p.Setup, oOpen(200+i, "/d"))
			ls = append(ls, hNames(200+i))
		}
		p.Threads = [][]string{{oRename("/d/a", "/d/a.bak")}, ls}
		out = append(out, c04Preempt{p, 2500 * k})
	}
	return out
}

var _ = fmt.Sprint

func c04hxBytes(b []byte) string { return hx(b) }
