package main

// c04_consts.go — the shape of the critical sections of the multi-section methods of
// memmap.go, as constants for coq/Model/Lin.v (section abstraction of C04).  Regenerated from
// the CURRENT source on every check: after a fix that makes a method single-section the
// constant flips and Props/C04.v proves the other branch of the corresponding theorem.

import (
	"fmt"
	"go/ast"
	"go/token"
	"strings"
)

func init() { extraConsts = append(extraConsts, linConsts) }

// number of calls <x>.<method>(...) in fn
func countMethodCalls(fd *ast.FuncDecl, methods ...string) int64 {
	var n int64
	ast.Inspect(fd, func(x ast.Node) bool {
		if ce, ok := x.(*ast.CallExpr); ok {
			if se, ok := ce.Fun.(*ast.SelectorExpr); ok {
				for _, m := range methods {
					if se.Sel.Name == m {
						n++
					}
				}
			}
		}
		return true
	})
	return n
}

// lock operations of fd: acquisitions (Lock/RLock), plain releases, deferred releases, and the
// position of the first acquisition
type lockShape struct {
	acq, rel, deferred int
	first              token.Pos
}

func lockShapeOf(fd *ast.FuncDecl) lockShape {
	var ls lockShape
	inDefer := map[*ast.CallExpr]bool{}
	ast.Inspect(fd, func(x ast.Node) bool {
		if d, ok := x.(*ast.DeferStmt); ok {
			inDefer[d.Call] = true
		}
		ce, ok := x.(*ast.CallExpr)
		if !ok || len(ce.Args) != 0 {
			return true
		}
		se, ok := ce.Fun.(*ast.SelectorExpr)
		if !ok {
			return true
		}
		switch se.Sel.Name {
		case "Lock", "RLock":
			ls.acq++
			if ls.first == token.NoPos || ce.Pos() < ls.first {
				ls.first = ce.Pos()
			}
		case "Unlock", "RUnlock":
			if inDefer[ce] {
				ls.deferred++
			} else {
				ls.rel++
			}
		}
		return true
	})
	return ls
}

// positions of the calls <x>.<method>(...) in fd
func methodCallPos(fd *ast.FuncDecl, methods ...string) []token.Pos {
	var out []token.Pos
	ast.Inspect(fd, func(x ast.Node) bool {
		if ce, ok := x.(*ast.CallExpr); ok {
			if se, ok := ce.Fun.(*ast.SelectorExpr); ok {
				for _, m := range methods {
					if se.Sel.Name == m {
						out = append(out, ce.Pos())
					}
				}
			}
		}
		return true
	})
	return out
}

// does every path through the top-level statements of fd take a lock before pos?  Accepted:
// a top-level `x.Lock()` / `x.RLock()` statement, or a top-level if/else whose two branches each
// start a locked section (lock statement + deferred unlock), before pos.
func lockedOnEveryPathBefore(fd *ast.FuncDecl, pos token.Pos) bool {
	isLockStmt := func(s ast.Stmt) bool {
		es, ok := s.(*ast.ExprStmt)
		if !ok {
			return false
		}
		ce, ok := es.X.(*ast.CallExpr)
		if !ok || len(ce.Args) != 0 {
			return false
		}
		se, ok := ce.Fun.(*ast.SelectorExpr)
		return ok && (se.Sel.Name == "Lock" || se.Sel.Name == "RLock")
	}
	// a lock statement among the statements of b that start before `before`
	blockLocks := func(b *ast.BlockStmt, before token.Pos) bool {
		for _, s := range b.List {
			if s.Pos() < before && isLockStmt(s) {
				return true
			}
		}
		return false
	}
	for _, s := range fd.Body.List {
		if s.Pos() >= pos {
			break
		}
		if isLockStmt(s) {
			return true
		}
		if is, ok := s.(*ast.IfStmt); ok {
			eb, _ := is.Else.(*ast.BlockStmt)
			switch {
			case is.End() <= pos:
				if eb != nil && blockLocks(is.Body, pos) && blockLocks(eb, pos) {
					return true
				}
			case is.Body.Pos() <= pos && pos < is.Body.End():
				return blockLocks(is.Body, pos) // pos is inside the then-branch
			case eb != nil && eb.Pos() <= pos && pos < eb.End():
				return blockLocks(eb, pos)
			}
		}
	}
	return false
}

// whole-function locked section: every acquisition is released by a defer (so it is held until
// the function returns), some lock is taken on every path before `pos`
func heldUntilReturnFrom(fd *ast.FuncDecl, pos token.Pos) bool {
	ls := lockShapeOf(fd)
	return ls.acq > 0 && ls.rel == 0 && ls.deferred == ls.acq && ls.first < pos && lockedOnEveryPathBefore(fd, pos)
}

// does fd contain a call of a method named `name` inside the body of a for/range statement?
func callsInLoop(fd *ast.FuncDecl, name string) bool {
	found := false
	ast.Inspect(fd, func(x ast.Node) bool {
		var body *ast.BlockStmt
		switch l := x.(type) {
		case *ast.ForStmt:
			body = l.Body
		case *ast.RangeStmt:
			body = l.Body
		}
		if body != nil {
			ast.Inspect(body, func(y ast.Node) bool {
				if ce, ok := y.(*ast.CallExpr); ok {
					if se, ok := ce.Fun.(*ast.SelectorExpr); ok && se.Sel.Name == name {
						found = true
					}
				}
				return true
			})
		}
		return true
	})
	return found
}

// receiver of a lock call as written: "m.mu", "parent", "f.fileData" ...
func lockRecvText(e ast.Expr) string {
	switch x := e.(type) {
	case *ast.Ident:
		return x.Name
	case *ast.SelectorExpr:
		return lockRecvText(x.X) + "." + x.Sel.Name
	}
	return "?"
}

// the Lock() calls of fd on FileData mutexes (every receiver but MemMapFs.mu), with the if
// statement that directly encloses the lock statement (nil: unconditional) and whether a
// `defer <same receiver>.Unlock()` follows in the same statement list
type fileLock struct {
	recv     string
	pos      token.Pos
	cond     ast.Expr
	deferred bool
}

func fileLocksOf(fd *ast.FuncDecl) []fileLock {
	var out []fileLock
	var walk func(list []ast.Stmt, cond ast.Expr)
	walkStmt := func(st ast.Stmt, cond ast.Expr) {}
	walk = func(list []ast.Stmt, cond ast.Expr) {
		for i, st := range list {
			if es, ok := st.(*ast.ExprStmt); ok {
				if ce, ok := es.X.(*ast.CallExpr); ok && len(ce.Args) == 0 {
					if se, ok := ce.Fun.(*ast.SelectorExpr); ok && se.Sel.Name == "Lock" {
						r := lockRecvText(se.X)
						if r != "mu" && !strings.HasSuffix(r, ".mu") {
							fl := fileLock{recv: r, pos: ce.Pos(), cond: cond}
							for _, later := range list[i+1:] {
								if ds, ok := later.(*ast.DeferStmt); ok {
									if dse, ok := ds.Call.Fun.(*ast.SelectorExpr); ok && dse.Sel.Name == "Unlock" && lockRecvText(dse.X) == r {
										fl.deferred = true
									}
								}
							}
							out = append(out, fl)
						}
					}
				}
			}
			walkStmt(st, cond)
		}
	}
	walkStmt = func(st ast.Stmt, cond ast.Expr) {
		switch x := st.(type) {
		case *ast.BlockStmt:
			walk(x.List, cond)
		case *ast.IfStmt:
			walk(x.Body.List, x.Cond)
			if x.Else != nil {
				walkStmt(x.Else, x.Cond)
			}
		case *ast.ForStmt:
			walk(x.Body.List, nil)
		case *ast.RangeStmt:
			walk(x.Body.List, nil)
		}
	}
	walk(fd.Body.List, nil)
	return out
}

// does the expression contain a call m.<name>(...) of a MemMapFs method that takes no lock itself?
func condCallsLockfreeMethod(m *srcFile, e ast.Expr) bool {
	found := false
	if e == nil {
		return false
	}
	ast.Inspect(e, func(x ast.Node) bool {
		if ce, ok := x.(*ast.CallExpr); ok {
			if se, ok := ce.Fun.(*ast.SelectorExpr); ok {
				if h := m.fn("MemMapFs", se.Sel.Name); h != nil && lockShapeOf(h).acq == 0 {
					found = true
				}
			}
		}
		return true
	})
	return found
}

// position of the first for/range statement of fd whose body calls <x>.<name>(...)
func loopCalling(fd *ast.FuncDecl, name string) token.Pos {
	pos := token.NoPos
	ast.Inspect(fd, func(x ast.Node) bool {
		var body *ast.BlockStmt
		switch l := x.(type) {
		case *ast.ForStmt:
			body = l.Body
		case *ast.RangeStmt:
			body = l.Body
		}
		if body != nil && pos == token.NoPos {
			ast.Inspect(body, func(y ast.Node) bool {
				if ce, ok := y.(*ast.CallExpr); ok {
					if se, ok := ce.Fun.(*ast.SelectorExpr); ok && se.Sel.Name == name {
						pos = x.Pos()
					}
				}
				return true
			})
		}
		return true
	})
	return pos
}

func linConsts(repo string, add func(string, int64, string)) error {
	b2i := func(b bool) int64 {
		if b {
			return 1
		}
		return 0
	}
	m, err := parseSrc(repo, "memmap.go")
	if err != nil {
		return err
	}
	of := m.fn("MemMapFs", "OpenFile")
	if of == nil {
		return fmt.Errorf("memmap.go: MemMapFs.OpenFile not found")
	}
	lookupThenCreate := countMethodCalls(of, "openWrite", "open", "Open", "Stat") > 0 && countMethodCalls(of, "Create") > 0
	if !lookupThenCreate {
		// repaired shape: OpenFile itself, or a method of MemMapFs it calls, looks the name up and
		// creates the file (mem.CreateFile) inside one write-locked section
		own := countMethodCalls(of, "Lock") > 0 && countMethodCalls(of, "CreateFile") > 0
		ast.Inspect(of, func(x ast.Node) bool {
			if ce, ok := x.(*ast.CallExpr); ok {
				if se, ok := ce.Fun.(*ast.SelectorExpr); ok {
					if h := m.fn("MemMapFs", se.Sel.Name); h != nil && h != of &&
						countMethodCalls(h, "Lock") == 1 && countMethodCalls(h, "RLock") == 0 && countMethodCalls(h, "CreateFile") > 0 {
						own = true
					}
				}
			}
			return true
		})
		// ... or OpenFile write-locks m.mu itself (held until it returns) and calls, inside that
		// section, a method without lock operations of its own that looks up and creates
		if !own && countMethodCalls(of, "Lock") > 0 {
			ast.Inspect(of, func(x ast.Node) bool {
				if ce, ok := x.(*ast.CallExpr); ok {
					if se, ok := ce.Fun.(*ast.SelectorExpr); ok {
						if h := m.fn("MemMapFs", se.Sel.Name); h != nil && h != of && lockShapeOf(h).acq == 0 &&
							countMethodCalls(h, "CreateFile") > 0 && countMethodCalls(h, "getData") > 0 &&
							heldUntilReturnFrom(of, ce.Pos()) {
							own = true
						}
					}
				}
				return true
			})
		}
		if !own {
			return fmt.Errorf("memmap.go: OpenFile: neither the lookup-then-Create shape nor a single write-locked lookup+create section recognised")
		}
	}
	add("lin_openfile_split", b2i(lookupThenCreate),
		"memmap.go OpenFile: 1 iff a missing file is created by a separate call of Create after the lookup released the lock (two critical sections)")
	add("lin_openfile_setmode", b2i(countMethodCalls(of, "setFileMode") > 0),
		"memmap.go OpenFile: 1 iff the mode of a created file is set by a trailing setFileMode (a further lookup by name)")
	// OpenFile: where is the handle finished (O_APPEND seek, O_TRUNC truncate)?
	//   0: inside the locked section of the lookup/creation (m.mu held until OpenFile returns)
	//   1: after that section has ended (OpenFile holds no lock when it calls Seek/Truncate)
	// and HOW (lin_openfile_finish_one_hold): handle operations do not take m.mu, only the file's
	// mutex, so for them the two steps are one step only if they share one hold of that mutex
	//   1: OpenFile calls ONE method of mem.File that takes the file's mutex once (released by defer)
	//      and, under it, stores the handle's offset and assigns the file's data; no Seek / Truncate
	//      call in OpenFile
	//   0: OpenFile (or a helper of MemMapFs) calls Seek and Truncate: two holds of the file's mutex
	oneHoldDoc := "memmap.go OpenFile + mem/file.go: 1 iff the O_APPEND seek and the O_TRUNC truncation happen under ONE hold of the file's mutex (a single mem.File method called by OpenFile), 0 iff they are separate calls of Seek and Truncate (two file-mutex sections)"
	{
		fin := methodCallPos(of, "Truncate", "Seek")
		trunc := methodCallPos(of, "Truncate")
		ls := lockShapeOf(of)
		// methods of mem.File called by OpenFile, other than Seek / Truncate / Close, that lock
		mfile, err := parseSrc(repo, "mem/file.go")
		if err != nil {
			return err
		}
		type helperCall struct {
			fd  *ast.FuncDecl
			pos token.Pos
		}
		var helpers []helperCall
		ast.Inspect(of, func(x ast.Node) bool {
			if ce, ok := x.(*ast.CallExpr); ok {
				if se, ok := ce.Fun.(*ast.SelectorExpr); ok {
					switch se.Sel.Name {
					case "Seek", "Truncate", "Close":
					default:
						if h := mfile.fn("File", se.Sel.Name); h != nil && m.fn("MemMapFs", se.Sel.Name) == nil && lockShapeOf(h).acq > 0 {
							helpers = append(helpers, helperCall{h, ce.Pos()})
						}
					}
				}
			}
			return true
		})
		// one hold: exactly one acquisition, released by defer only; after it a store to the handle's
		// offset (atomic Store/Add on <x>.at) and an assignment to <x>.data; no call of a locking
		// method of mem.File (Seek, Truncate, Name, ...) inside
		oneHold := func(h *ast.FuncDecl) bool {
			hs := lockShapeOf(h)
			if hs.acq != 1 || hs.deferred != 1 || hs.rel != 0 {
				return false
			}
			storeAt, setData, calls := false, false, false
			ast.Inspect(h, func(x ast.Node) bool {
				switch y := x.(type) {
				case *ast.CallExpr:
					if se, ok := y.Fun.(*ast.SelectorExpr); ok {
						if (se.Sel.Name == "StoreInt64" || se.Sel.Name == "AddInt64") && y.Pos() > hs.first {
							ast.Inspect(y, func(z ast.Node) bool {
								if a, ok := z.(*ast.SelectorExpr); ok && a.Sel.Name == "at" {
									storeAt = true
								}
								return true
							})
						}
						if g := mfile.fn("File", se.Sel.Name); g != nil && lockShapeOf(g).acq > 0 {
							calls = true
						}
						if se.Sel.Name == "Name" || se.Sel.Name == "Seek" || se.Sel.Name == "Truncate" {
							calls = true
						}
					}
				case *ast.AssignStmt:
					if len(y.Lhs) == 1 && y.Pos() > hs.first {
						if a, ok := y.Lhs[0].(*ast.SelectorExpr); ok && a.Sel.Name == "data" {
							setData = true
						}
					}
				}
				return true
			})
			return storeAt && setData && !calls
		}
		switch {
		case len(helpers) > 0:
			if len(helpers) != 1 || len(fin) > 0 {
				return fmt.Errorf("memmap.go: OpenFile: it calls a locking method of mem.File besides Seek/Truncate (%d such calls, %d Seek/Truncate calls): shape not recognised; update Model/Lin.v", len(helpers), len(fin))
			}
			if !oneHold(helpers[0].fd) {
				return fmt.Errorf("mem/file.go: File.%s (called by OpenFile): not one deferred hold of the file's mutex with the offset store and the data assignment under it; update Model/Lin.v", helpers[0].fd.Name.Name)
			}
			if !heldUntilReturnFrom(of, helpers[0].pos) {
				return fmt.Errorf("memmap.go: OpenFile: File.%s is not called inside a section held until OpenFile returns; update Model/Lin.v", helpers[0].fd.Name.Name)
			}
			add("lin_openfile_finish_outside", 0,
				"memmap.go OpenFile: 1 iff Seek (O_APPEND) / Truncate (O_TRUNC) run after the locked lookup/creation section has ended")
			add("lin_openfile_finish_one_hold", 1, oneHoldDoc)
		case len(trunc) > 0 && ls.acq == 0 && ls.rel == 0 && ls.deferred == 0:
			// the sections are inside the methods it calls: the handle is finished outside
			add("lin_openfile_finish_outside", 1,
				"memmap.go OpenFile: 1 iff Seek (O_APPEND) / Truncate (O_TRUNC) run after the locked lookup/creation section has ended")
			add("lin_openfile_finish_one_hold", 0, oneHoldDoc)
		case len(trunc) > 0:
			first := fin[0]
			for _, p := range fin {
				if p < first {
					first = p
				}
			}
			if !heldUntilReturnFrom(of, first) {
				return fmt.Errorf("memmap.go: OpenFile: it takes locks itself, but Seek/Truncate are not inside a section held until it returns; update Model/Lin.v")
			}
			add("lin_openfile_finish_outside", 0,
				"memmap.go OpenFile: 1 iff Seek (O_APPEND) / Truncate (O_TRUNC) run after the locked lookup/creation section has ended")
			add("lin_openfile_finish_one_hold", 0, oneHoldDoc)
		default:
			// no Truncate in OpenFile itself: every MemMapFs method it calls that truncates must do so
			// inside a section held until that method returns
			seen, okAll := 0, true
			ast.Inspect(of, func(x ast.Node) bool {
				if ce, ok := x.(*ast.CallExpr); ok {
					if se, ok := ce.Fun.(*ast.SelectorExpr); ok {
						if h := m.fn("MemMapFs", se.Sel.Name); h != nil && h != of {
							if tp := methodCallPos(h, "Truncate"); len(tp) > 0 {
								seen++
								if !heldUntilReturnFrom(h, tp[0]) {
									okAll = false
								}
							}
						}
					}
				}
				return true
			})
			if seen == 0 || !okAll {
				return fmt.Errorf("memmap.go: OpenFile: the O_TRUNC truncation was not found in a recognised place (OpenFile itself or a locked helper); update Model/Lin.v")
			}
			add("lin_openfile_finish_outside", 0,
				"memmap.go OpenFile: 1 iff Seek (O_APPEND) / Truncate (O_TRUNC) run after the locked lookup/creation section has ended")
			add("lin_openfile_finish_one_hold", 0, oneHoldDoc)
		}
	}
	// mem/file.go Readdirnames: where are the entries' names read?
	//   1: it calls Readdir (whose locked section returns live entries) and then Name() per entry
	//   0: the names are taken between Lock and Unlock of the directory (in Readdirnames or in the
	//      helper it calls), no per-entry Name() afterwards
	{
		mf, err := parseSrc(repo, "mem/file.go")
		if err != nil {
			return err
		}
		rn := mf.fn("File", "Readdirnames")
		if rn == nil {
			return fmt.Errorf("mem/file.go: File.Readdirnames not found")
		}
		// the names are taken inside [Lock, Unlock] of fn: a `.name` field read or a filepath.Split
		// call positioned between the only Lock and the only (plain) Unlock
		namesLocked := func(fn *ast.FuncDecl) bool {
			lk, ul := methodCallPos(fn, "Lock"), methodCallPos(fn, "Unlock")
			if len(lk) != 1 || len(ul) != 1 || lk[0] > ul[0] {
				return false
			}
			in := false
			ast.Inspect(fn, func(x ast.Node) bool {
				if se, ok := x.(*ast.SelectorExpr); ok && se.Sel.Name == "name" && se.Pos() > lk[0] && se.Pos() < ul[0] {
					in = true
				}
				return true
			})
			return in
		}
		const doc = "mem/file.go Readdirnames: 1 iff the entries' names are read (Name() per entry) after the directory's locked section has ended"
		switch {
		case countMethodCalls(rn, "Readdir") > 0 && callsInLoop(rn, "Name") && lockShapeOf(rn).acq == 0:
			add("lin_readdirnames_outside", 1, doc)
		case !callsInLoop(rn, "Name") && namesLocked(rn):
			add("lin_readdirnames_outside", 0, doc)
		default:
			okHelper := false
			if !callsInLoop(rn, "Name") && countMethodCalls(rn, "Readdir") == 0 {
				ast.Inspect(rn, func(x ast.Node) bool {
					if ce, ok := x.(*ast.CallExpr); ok {
						if se, ok := ce.Fun.(*ast.SelectorExpr); ok {
							if h := mf.fn("File", se.Sel.Name); h != nil && h != rn && namesLocked(h) && !callsInLoop(h, "Name") {
								okHelper = true
							}
						}
					}
					return true
				})
			}
			if !okHelper {
				return fmt.Errorf("mem/file.go: Readdirnames: neither Readdir + Name() per entry nor names taken inside the directory's locked section recognised; update Model/Lin.v")
			}
			add("lin_readdirnames_outside", 0, doc)
		}
	}
	// Rename and the directories' mutexes.  A handle on a directory lists it under that
	// directory's mutex only, so Rename is one section for such listings only if
	//   (i)  the entry leaves its old parent and enters its new one while both are locked, and
	//   (ii) the children of a directory of the renamed subtree are re-keyed under one hold of it.
	{
		rn := m.fn("MemMapFs", "Rename")
		ur := m.fn("MemMapFs", "unRegisterWithParent")
		rg := m.fn("MemMapFs", "registerWithParent")
		rd := m.fn("MemMapFs", "renameDescendants")
		if rn == nil || ur == nil || rg == nil || rd == nil {
			return fmt.Errorf("memmap.go: Rename / unRegisterWithParent / registerWithParent / renameDescendants not found")
		}
		if countMethodCalls(rn, "unRegisterWithParent") == 0 || countMethodCalls(rn, "registerWithParent") == 0 || countMethodCalls(rn, "renameDescendants") == 0 {
			return fmt.Errorf("memmap.go: Rename: the calls unRegisterWithParent / renameDescendants / registerWithParent were not found; update Model/Lin.v")
		}
		// how the two helpers lock the parent: unconditionally (1 lock, deferred unlock), or only when
		// the running Rename does not hold it already (the lock statement sits in an if whose condition
		// asks a lock-free method of MemMapFs)
		helperShape := func(fd *ast.FuncDecl) (skipHeld bool, err error) {
			ls := fileLocksOf(fd)
			if len(ls) != 1 || !ls[0].deferred {
				return false, fmt.Errorf("memmap.go: %s: expected exactly one parent.Lock() with a deferred Unlock", fd.Name.Name)
			}
			if ls[0].cond == nil {
				return false, nil
			}
			if !condCallsLockfreeMethod(m, ls[0].cond) {
				return false, fmt.Errorf("memmap.go: %s: the parent is locked under a condition that is not recognised", fd.Name.Name)
			}
			return true, nil
		}
		urSkip, err := helperShape(ur)
		if err != nil {
			return err
		}
		rgSkip, err := helperShape(rg)
		if err != nil {
			return err
		}
		if urSkip != rgSkip {
			return fmt.Errorf("memmap.go: unRegisterWithParent and registerWithParent lock the parent in different ways; update Model/Lin.v")
		}
		const docP = "memmap.go Rename: 1 iff the entry is removed from its old parent and added to its new parent under two separate holds (unRegisterWithParent ... registerWithParent, each locking on its own); 0 iff Rename holds both parents' mutexes across the move"
		const docK = "memmap.go Rename: 1 iff the children of a renamed directory are unregistered and registered again one by one, each under holds of their own; 0 iff the children of one directory are re-keyed under one hold of that directory's mutex"
		first := methodCallPos(rn, "unRegisterWithParent")[0]
		own := fileLocksOf(rn)
		switch {
		case len(own) == 0 && !urSkip:
			add("lin_rename_parents_apart", 1, docP)
		case len(own) == 2 && urSkip:
			for _, l := range own {
				if !l.deferred || l.pos > first || l.cond == nil {
					return fmt.Errorf("memmap.go: Rename: it locks directory mutexes, but not as `if p != nil { p.Lock(); defer p.Unlock() }` before unRegisterWithParent; update Model/Lin.v")
				}
			}
			if own[0].recv == own[1].recv {
				return fmt.Errorf("memmap.go: Rename: the two directory locks have the same receiver; update Model/Lin.v")
			}
			add("lin_rename_parents_apart", 0, docP)
		default:
			return fmt.Errorf("memmap.go: Rename: %d directory locks of its own, helpers skip held directories: %v: neither the two-holds shape nor the both-parents-held shape; update Model/Lin.v", len(own), urSkip)
		}
		// (ii): the function of the descendants' path that calls ChangeFileName in a loop
		var body *ast.FuncDecl
		if len(methodCallPos(rd, "ChangeFileName")) > 0 {
			body = rd
		} else {
			ast.Inspect(rd, func(x ast.Node) bool {
				if ce, ok := x.(*ast.CallExpr); ok {
					if se, ok := ce.Fun.(*ast.SelectorExpr); ok {
						if h := m.fn("MemMapFs", se.Sel.Name); h != nil && h != rd && len(methodCallPos(h, "ChangeFileName")) > 0 {
							body = h
						}
					}
				}
				return true
			})
		}
		if body == nil {
			return fmt.Errorf("memmap.go: renameDescendants: the loop that renames the descendants (ChangeFileName) was not found; update Model/Lin.v")
		}
		loop := loopCalling(body, "ChangeFileName")
		if loop == token.NoPos || countMethodCalls(body, "unRegisterWithParent") == 0 || countMethodCalls(body, "registerWithParent") == 0 {
			return fmt.Errorf("memmap.go: %s: expected a loop calling unRegisterWithParent, ChangeFileName, registerWithParent; update Model/Lin.v", body.Name.Name)
		}
		kl := fileLocksOf(body)
		switch {
		case len(kl) == 0 && !urSkip:
			add("lin_rename_children_apart", 1, docK)
		case len(kl) == 1 && urSkip && kl[0].deferred && kl[0].pos < loop:
			add("lin_rename_children_apart", 0, docK)
		default:
			return fmt.Errorf("memmap.go: %s: %d directory locks of its own (helpers skip held directories: %v): neither one hold per child operation nor one hold of the directory around the loop; update Model/Lin.v", body.Name.Name, len(kl), urSkip)
		}
	}
	mk := m.fn("MemMapFs", "Mkdir")
	if mk == nil {
		return fmt.Errorf("memmap.go: MemMapFs.Mkdir not found")
	}
	if countMethodCalls(mk, "Lock") == 0 {
		return fmt.Errorf("memmap.go: Mkdir: write-locked section not found")
	}
	add("lin_mkdir_setmode", b2i(countMethodCalls(mk, "setFileMode") > 0),
		"memmap.go Mkdir: 1 iff it calls setFileMode (a further lookup by name) after releasing the write lock")
	ra := m.fn("MemMapFs", "RemoveAll")
	if ra == nil {
		return fmt.Errorf("memmap.go: MemMapFs.RemoveAll not found")
	}
	n := countMethodCalls(ra, "Lock", "RLock")
	if n != 1 && n != 4 {
		return fmt.Errorf("memmap.go: RemoveAll: %d lock acquisitions: neither today's shape (4) nor one critical section (1); update Model/Lin.v", n)
	}
	add("lin_removeall_locks", n,
		"memmap.go RemoveAll: number of Lock/RLock acquisitions in its body (1 = one critical section)")
	// Chmod (+ setFileMode when it is called) and Chtimes: lookup under one lock, update under another?
	sfm := m.fn("MemMapFs", "setFileMode")
	ch := m.fn("MemMapFs", "Chmod")
	if ch == nil {
		return fmt.Errorf("memmap.go: MemMapFs.Chmod not found")
	}
	n = countMethodCalls(ch, "Lock", "RLock")
	if countMethodCalls(ch, "setFileMode") > 0 {
		if sfm == nil {
			return fmt.Errorf("memmap.go: Chmod calls setFileMode, which is not found")
		}
		n += countMethodCalls(sfm, "Lock", "RLock")
	}
	if n != 1 && n != 3 {
		return fmt.Errorf("memmap.go: Chmod: %d lock acquisitions: neither today's shape (3) nor one critical section (1); update Model/Lin.v", n)
	}
	add("lin_chmod_locks", n,
		"memmap.go Chmod (with setFileMode when called): number of Lock/RLock acquisitions (1 = lookup and update in one critical section)")
	ct := m.fn("MemMapFs", "Chtimes")
	if ct == nil {
		return fmt.Errorf("memmap.go: MemMapFs.Chtimes not found")
	}
	n = countMethodCalls(ct, "Lock", "RLock")
	if n != 1 && n != 2 {
		return fmt.Errorf("memmap.go: Chtimes: %d lock acquisitions: neither today's shape (2) nor one critical section (1); update Model/Lin.v", n)
	}
	add("lin_chtimes_locks", n,
		"memmap.go Chtimes: number of Lock/RLock acquisitions (1 = lookup and update in one critical section)")
	return nil
}
