package main

// c04_consts.go — the shape of the critical sections of the multi-section methods of
// memmap.go, as constants for coq/Model/Lin.v (section abstraction of C04).  Regenerated from
// the CURRENT source on every check: after a fix that makes a method single-section the
// constant flips and Props/C04.v proves the other branch of the corresponding theorem.

import (
	"fmt"
	"go/ast"
)

func init() { extraConsts = append(extraConsts, linConsts) }

// number of calls <x>.<method>(...) in fn
func countMethodCalls(fd *ast.FuncDecl, methods ...string) int64 {
	var n int64
	ast.Inspect(fd, func(x ast.Node) bool {
		if ce, ok := x.(*ast.CallExpr); ok {
			if se, ok := ce.Fun.(*ast.SelectorExpr); ok {
				for _, m := range methods {
					if se.Sel.Name == m {
						n++
					}
				}
			}
		}
		return true
	})
	return n
}

func linConsts(repo string, add func(string, int64, string)) error {
	b2i := func(b bool) int64 {
		if b {
			return 1
		}
		return 0
	}
	m, err := parseSrc(repo, "memmap.go")
	if err != nil {
		return err
	}
	of := m.fn("MemMapFs", "OpenFile")
	if of == nil {
		return fmt.Errorf("memmap.go: MemMapFs.OpenFile not found")
	}
	lookupThenCreate := countMethodCalls(of, "openWrite", "open", "Open", "Stat") > 0 && countMethodCalls(of, "Create") > 0
	if !lookupThenCreate {
		// repaired shape: OpenFile itself, or a method of MemMapFs it calls, looks the name up and
		// creates the file (mem.CreateFile) inside one write-locked section
		own := countMethodCalls(of, "Lock") > 0 && countMethodCalls(of, "CreateFile") > 0
		ast.Inspect(of, func(x ast.Node) bool {
			if ce, ok := x.(*ast.CallExpr); ok {
				if se, ok := ce.Fun.(*ast.SelectorExpr); ok {
					if h := m.fn("MemMapFs", se.Sel.Name); h != nil && h != of &&
						countMethodCalls(h, "Lock") == 1 && countMethodCalls(h, "RLock") == 0 && countMethodCalls(h, "CreateFile") > 0 {
						own = true
					}
				}
			}
			return true
		})
		if !own {
			return fmt.Errorf("memmap.go: OpenFile: neither the lookup-then-Create shape nor a single write-locked lookup+create section recognised")
		}
	}
	add("lin_openfile_split", b2i(lookupThenCreate),
		"memmap.go OpenFile: 1 iff a missing file is created by a separate call of Create after the lookup released the lock (two critical sections)")
	add("lin_openfile_setmode", b2i(countMethodCalls(of, "setFileMode") > 0),
		"memmap.go OpenFile: 1 iff the mode of a created file is set by a trailing setFileMode (a further lookup by name)")
	mk := m.fn("MemMapFs", "Mkdir")
	if mk == nil {
		return fmt.Errorf("memmap.go: MemMapFs.Mkdir not found")
	}
	if countMethodCalls(mk, "Lock") == 0 {
		return fmt.Errorf("memmap.go: Mkdir: write-locked section not found")
	}
	add("lin_mkdir_setmode", b2i(countMethodCalls(mk, "setFileMode") > 0),
		"memmap.go Mkdir: 1 iff it calls setFileMode (a further lookup by name) after releasing the write lock")
	ra := m.fn("MemMapFs", "RemoveAll")
	if ra == nil {
		return fmt.Errorf("memmap.go: MemMapFs.RemoveAll not found")
	}
	n := countMethodCalls(ra, "Lock", "RLock")
	if n != 1 && n != 4 {
		return fmt.Errorf("memmap.go: RemoveAll: %d lock acquisitions: neither today's shape (4) nor one critical section (1); update Model/Lin.v", n)
	}
	add("lin_removeall_locks", n,
		"memmap.go RemoveAll: number of Lock/RLock acquisitions in its body (1 = one critical section)")
	// Chmod (+ setFileMode when it is called) and Chtimes: lookup under one lock, update under another?
	sfm := m.fn("MemMapFs", "setFileMode")
	ch := m.fn("MemMapFs", "Chmod")
	if ch == nil {
		return fmt.Errorf("memmap.go: MemMapFs.Chmod not found")
	}
	n = countMethodCalls(ch, "Lock", "RLock")
	if countMethodCalls(ch, "setFileMode") > 0 {
		if sfm == nil {
			return fmt.Errorf("memmap.go: Chmod calls setFileMode, which is not found")
		}
		n += countMethodCalls(sfm, "Lock", "RLock")
	}
	if n != 1 && n != 3 {
		return fmt.Errorf("memmap.go: Chmod: %d lock acquisitions: neither today's shape (3) nor one critical section (1); update Model/Lin.v", n)
	}
	add("lin_chmod_locks", n,
		"memmap.go Chmod (with setFileMode when called): number of Lock/RLock acquisitions (1 = lookup and update in one critical section)")
	ct := m.fn("MemMapFs", "Chtimes")
	if ct == nil {
		return fmt.Errorf("memmap.go: MemMapFs.Chtimes not found")
	}
	n = countMethodCalls(ct, "Lock", "RLock")
	if n != 1 && n != 2 {
		return fmt.Errorf("memmap.go: Chtimes: %d lock acquisitions: neither today's shape (2) nor one critical section (1); update Model/Lin.v", n)
	}
	add("lin_chtimes_locks", n,
		"memmap.go Chtimes: number of Lock/RLock acquisitions (1 = lookup and update in one critical section)")
	return nil
}
