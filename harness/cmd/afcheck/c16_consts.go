package main

// C16 translator half: looks at the CURRENT text of /repo/path.go `func Walk` and tells the Coq
// model whether Walk converts a final filepath.SkipDir into nil (as path/filepath.Walk does).
//   walk_skipdir_to_nil = 0 : Walk returns what walkFn / walk returned (the tree as pinned)
//   walk_skipdir_to_nil = 1 : Walk contains a comparison with filepath.SkipDir (==, errors.Is)
// The correspondence run checks the answer: a wrong guess shows as model-vs-implementation mismatches.

import (
	"fmt"
	"go/ast"
)

func init() { extraConsts = append(extraConsts, walkConsts) }

func mentionsSkipDir(n ast.Node) bool {
	found := false
	ast.Inspect(n, func(m ast.Node) bool {
		if se, ok := m.(*ast.SelectorExpr); ok && se.Sel.Name == "SkipDir" {
			found = true
		}
		return true
	})
	return found
}

func walkConsts(repo string, add func(string, int64, string)) error {
	p, err := parseSrc(repo, "path.go")
	if err != nil {
		return err
	}
	fd := p.fn("", "Walk")
	if fd == nil || fd.Body == nil {
		return fmt.Errorf("path.go: func Walk not found")
	}
	if p.fn("", "walk") == nil || p.fn("", "readDirNames") == nil || p.fn("", "lstatIfPossible") == nil {
		return fmt.Errorf("path.go: walk / readDirNames / lstatIfPossible not found")
	}
	v := int64(0)
	ast.Inspect(fd.Body, func(n ast.Node) bool {
		switch x := n.(type) {
		case *ast.BinaryExpr: // err == filepath.SkipDir
			if mentionsSkipDir(x) {
				v = 1
			}
		case *ast.CallExpr: // errors.Is(err, filepath.SkipDir)
			if se, ok := x.Fun.(*ast.SelectorExpr); ok && se.Sel.Name == "Is" && mentionsSkipDir(x) {
				v = 1
			}
		case *ast.CaseClause: // switch err { case filepath.SkipDir: ... }
			if mentionsSkipDir(x) {
				for _, e := range x.List {
					if mentionsSkipDir(e) {
						v = 1
					}
				}
			}
		}
		return true
	})
	add("walk_skipdir_to_nil", v, "path.go Walk: 1 iff a final filepath.SkipDir is converted into nil (as path/filepath.Walk does)")
	return nil
}
