package main

// C05 — CopyOnWriteFs never modifies its base.   C06 — the union view is overlay-over-base.
//   case <id> cow(mem,mem): base = child 0, overlay = child 1
import (
	"fmt"
	"math"
	"path/filepath"
	"sort"
	"strconv"
	"strings"

	"github.com/spf13/afero"
)

func init() { props["C05"] = runC05; props["C06"] = runC06 }

type viewEntry struct {
	dir  bool
	data string
}

func dumpMap(fs afero.Fs) map[string]viewEntry {
	m := map[string]viewEntry{}
	for _, e := range afero.VerifDump(fs) {
		if e.Dir {
			m[e.Path] = viewEntry{true, ""}
		} else {
			m[e.Path] = viewEntry{false, string(e.Data)}
		}
	}
	return m
}

// MemMapFs's key for a name (normalizePath)
func normPath(p string) string {
	p = filepath.Clean(p)
	if p == "." || p == ".." {
		return "/"
	}
	return p
}

// the specification of C06: overlay entry if the overlay has one, else the base's
func specView(base, layer afero.Fs) map[string]viewEntry {
	v := dumpMap(base)
	for p, e := range dumpMap(layer) {
		v[p] = e
	}
	return v
}

func viewString(v map[string]viewEntry) string {
	ps := make([]string, 0, len(v))
	for p := range v {
		ps = append(ps, p)
	}
	sort.Strings(ps)
	var b strings.Builder
	for _, p := range ps {
		fmt.Fprintf(&b, "%s|%v|%s;", p, v[p].dir, hx([]byte(v[p].data)))
	}
	return b.String()
}

// what the union shows for the paths of the spec view (plus a few absent ones)
func observedView(u afero.Fs, paths []string) map[string]viewEntry {
	v := map[string]viewEntry{}
	for _, p := range paths {
		fi, err := u.Stat(p)
		if err != nil {
			continue
		}
		e := viewEntry{dir: fi.IsDir()}
		if !fi.IsDir() {
			b, err := afero.ReadFile(u, p)
			if err != nil {
				e.data = "<read error " + errClass(err) + ">"
			} else {
				e.data = string(b)
			}
			if int64(len(b)) != fi.Size() && err == nil {
				e.data += fmt.Sprintf("<size %d>", fi.Size())
			}
		}
		v[p] = e
	}
	return v
}

func children(v map[string]viewEntry, d string) []string {
	var out []string
	for p := range v {
		if p != "/" && parentOf(p) == d {
			out = append(out, p[strings.LastIndex(p, "/")+1:])
		}
	}
	sort.Strings(out)
	return out
}

var c05Mutating = map[string]bool{"Create": true, "Mkdir": true, "MkdirAll": true, "Remove": true, "RemoveAll": true, "Rename": true,
	"Chmod": true, "Chown": true, "Chtimes": true, "OpenFile": true, "HWrite": true, "HWriteAt": true, "HWriteString": true, "HTruncate": true}

func cowCase(c *Ctx, id, stack string, items []string, prop string) {
	in := NewInterp(stack)
	base, layer := in.Top.At("0").Fs, in.Top.At("1").Fs
	c.Case("case %s %s", id, stack)
	failed := false
	viaWrapper := map[string]bool{}
	for i, it := range items {
		c.Case("%s", it)
		f := strings.Fields(it)
		through := f[0] == "." && len(f) > 2 && !handleOps[f[2]]
		if through && f[1] != "-" {
			viaWrapper[f[1]] = true
		}
		if len(f) > 3 && handleOps[f[2]] && viaWrapper[f[3]] {
			through = true
		}
		var beforeBase string
		var beforeView map[string]viewEntry
		if through && !failed {
			if prop == "C05" {
				beforeBase = deepSnap(base)
			} else {
				beforeView = specView(base, layer)
			}
		}
		out := in.Exec(it)
		c.Impl("%s#%d %s", id, i, out)
		c.Count("op." + opName(it))
		c.Count("res." + strings.SplitN(out, ":", 2)[0])
		if out == "panic" {
			// MemMapFs panics on some ill-formed programs (missing parents after RemoveAll("/") ...):
			// not a statement of C05/C06; the case ends here
			c.Count("panic." + opName(it))
			failed = true
			break
		}
		if !through || failed {
			continue
		}
		if prop == "C05" {
			if after := deepSnap(base); after != beforeBase {
				failed = true
				sig := opName(it)
				c.Oracle("FAIL %s base-changed:%s step %d (%s) changed the base: before=%s after=%s", id, sig, i, it, beforeBase, after)
			}
			continue
		}
		// C06 (the view oracle is evaluated on kind-consistent trees driven by well-formed programs)
		if strings.HasPrefix(id, "u") {
			continue
		}
		spec := specView(base, layer)
		isErr := strings.HasPrefix(out, "err:") || (strings.Count(out, ":") >= 2 && !strings.HasSuffix(out, ":-") && !strings.HasSuffix(out, ":EOF") && (strings.HasPrefix(out, "count:") || strings.HasPrefix(out, "pos:")))
		if isErr && c05Mutating[f[2]] && viewString(spec) != viewString(beforeView) {
			// copy-up leaves the view as it was (same content, now in the overlay): only content/kind count
			failed = true
			c.Oracle("FAIL %s failed-call-changed-view:%s step %d (%s -> %s): before=%s after=%s", id, opName(it), i, it, out, viewString(beforeView), viewString(spec))
			continue
		}
		if f[2] == "OpenFile" && strings.HasPrefix(out, "handle") {
			// an exclusive create succeeds only for a name the view does not hold
			if fl, _ := strconv.Atoi(f[4]); fl&0xc0 == 0xc0 {
				if _, ok := beforeView[normPath(string(unhx(f[3])))]; ok {
					failed = true
					c.Oracle("FAIL %s view:excl-create-of-visible-name step %d (%s -> %s): O_CREATE|O_EXCL succeeded although the view holds this path", id, i, it, out)
					continue
				}
			}
		}
		if f[2] == "OpenFile" && strings.HasPrefix(out, "handle") {
			// an open that does not truncate changes nothing the view shows: if it copied the file
			// up, the copy has all the bytes of the original
			fl, _ := strconv.Atoi(f[4])
			if e, ok := beforeView[normPath(string(unhx(f[3])))]; ok && !e.dir && fl&0x200 == 0 && viewString(spec) != viewString(beforeView) {
				failed = true
				c.Oracle("FAIL %s open-changed-view step %d (%s -> %s): a non-truncating open of an existing file changed the view: before=%.300s after=%.300s", id, i, it, out, viewString(beforeView), viewString(spec))
				continue
			}
		}
		if f[2] == "OpenFile" && out == "err:NotExist" {
			// "shows, for each path, the overlay's entry or else the base's": a path the view holds is
			// not reported missing by an open that does not ask for exclusivity
			fl, _ := strconv.Atoi(f[4])
			if e, ok := beforeView[normPath(string(unhx(f[3])))]; ok && !e.dir && fl&0x80 == 0 {
				failed = true
				c.Oracle("FAIL %s view:open-denies-visible-file step %d (%s -> %s): the view holds this path as a regular file", id, i, it, out)
				continue
			}
		}
		paths := make([]string, 0, len(spec))
		for p := range spec {
			paths = append(paths, p)
		}
		sort.Strings(paths)
		obs := observedView(in.Top.Fs, paths)
		if viewString(obs) != viewString(spec) {
			failed = true
			c.Oracle("FAIL %s view-differs:%s after step %d (%s): through union=%s overlay-over-base=%s", id, opName(it), i, it, viewString(obs), viewString(spec))
			continue
		}
		// listings of directories present in both layers: union of names, once each, pages partition
		bm, lm := dumpMap(base), dumpMap(layer)
		for _, d := range paths {
			// ... and of directories of the overlay that hide a regular file of the base
			_, inBase := bm[d]
			if !(bm[d].dir && lm[d].dir) && !(lm[d].dir && inBase && !bm[d].dir) {
				continue
			}
			if !inBase {
				continue
			}
			want := children(spec, d)
			fh, err := in.Top.Fs.Open(d)
			if err != nil {
				failed = true
				c.Oracle("FAIL %s listing:open-error dir %s: %v", id, d, err)
				break
			}
			var got []string
			page := 1 + (i % 3)
			for k := 0; k < 100; k++ {
				fis, err := fh.Readdir(page)
				for _, x := range fis {
					got = append(got, x.Name())
				}
				if err != nil || len(fis) == 0 {
					break
				}
			}
			fh.Close()
			sort.Strings(got)
			if strings.Join(got, ",") != strings.Join(want, ",") {
				failed = true
				c.Oracle("FAIL %s listing:pages dir %s page size %d after step %d: got [%s] want [%s]", id, d, page, i, strings.Join(got, ","), strings.Join(want, ","))
				break
			}
			// one entry, then "all the rest" asked for with the largest count there is
			if fh3, err := in.Top.Fs.Open(d); err == nil {
				var got2 []string
				panicked := false
				func() {
					defer func() {
						if recover() != nil {
							panicked = true
						}
					}()
					a, _ := fh3.Readdir(1)
					b, _ := fh3.Readdir(math.MaxInt)
					for _, x := range append(a, b...) {
						got2 = append(got2, x.Name())
					}
				}()
				fh3.Close()
				sort.Strings(got2)
				if panicked || strings.Join(got2, ",") != strings.Join(want, ",") {
					failed = true
					c.Oracle("FAIL %s listing:pages:huge-count dir %s after step %d: Readdir(1) then Readdir(MaxInt) gave [%s] panicked=%v want [%s]", id, d, i, strings.Join(got2, ","), panicked, strings.Join(want, ","))
					break
				}
			}
			// one entry, a Seek to the start, then the rest: whether or not the Seek rewinds the
			// listing, no name of the view is lost
			if fh4, err := in.Top.Fs.Open(d); err == nil {
				a, _ := fh4.Readdirnames(1)
				fh4.Seek(0, 0)
				b, _ := fh4.Readdirnames(-1)
				fh4.Close()
				seen := map[string]bool{}
				for _, x := range append(a, b...) {
					seen[x] = true
				}
				for _, w := range want {
					if !seen[w] {
						failed = true
						c.Oracle("FAIL %s listing:pages:seek-start dir %s after step %d: Readdirnames(1) = %q, Seek(0, 0), Readdirnames(-1) = %q: %q is in neither; want [%s]", id, d, i, a, b, w, strings.Join(want, ","))
						break
					}
				}
				if failed {
					break
				}
			}
			// reading everything at once, then again: the second read finds nothing left
			if fh2, err := in.Top.Fs.Open(d); err == nil {
				first, _ := fh2.Readdir(-1)
				second, err2 := fh2.Readdir(-1)
				fh2.Close()
				if len(first) != len(want) || len(second) != 0 || err2 != nil {
					failed = true
					c.Oracle("FAIL %s listing:reread dir %s after step %d: Readdir(-1) gave %d entries (want %d), a second Readdir(-1) gave %d (want 0, err=%v)", id, d, i, len(first), len(want), len(second), err2)
					break
				}
			}
			all, err := afero.ReadDir(in.Top.Fs, d)
			names := make([]string, len(all))
			for k, x := range all {
				names[k] = x.Name()
				// a listed entry describes what the union shows under that name (overlay entry wins)
				cp := d + "/" + x.Name()
				if d == "/" {
					cp = "/" + x.Name()
				}
				if st, e2 := in.Top.Fs.Stat(cp); e2 == nil && (st.IsDir() != x.IsDir() || (!st.IsDir() && st.Size() != x.Size())) {
					failed = true
					c.Oracle("FAIL %s listing:entry-differs-from-stat dir %s entry %s after step %d: listed dir=%v size=%d, Stat dir=%v size=%d", id, d, x.Name(), i, x.IsDir(), x.Size(), st.IsDir(), st.Size())
				}
			}
			if failed {
				break
			}
			if err != nil || strings.Join(names, ",") != strings.Join(want, ",") {
				failed = true
				c.Oracle("FAIL %s listing:all dir %s after step %d: got [%s] err=%v want [%s]", id, d, i, strings.Join(names, ","), err, strings.Join(want, ","))
				break
			}
		}
	}
	c.Case("end")
	c.NCases++
}

// a kind-consistent pair of trees: one abstract tree, every file placed in the base, the
// overlay or both (with different contents), every directory wherever its contents need it
// (and sometimes in both layers); all entries stamped with explicit past mtimes
func genConsistentPair(r *Rng) (items []string, nodes map[string]*absNode, nextSlot int) {
	g := NewGen(r.Fork())
	g.Spell = false
	for i := r.Range(3, 14); i > 0; i-- {
		switch r.Intn(3) {
		case 0:
			if p, ok := g.freeName(); ok {
				g.nodes[p] = &absNode{dir: true}
			}
		default:
			if p, ok := g.freeName(); ok {
				g.nodes[p] = &absNode{}
			}
		}
	}
	slot := 0
	inLayer := map[string][2]bool{}
	e := func(format string, a ...any) { items = append(items, fmt.Sprintf(format, a...)) }
	for _, p := range g.sorted() {
		if p == "/" {
			continue
		}
		n := g.nodes[p]
		where := [2]bool{r.Chance(2, 3), r.Chance(1, 2)}
		if !where[0] && !where[1] {
			where[r.Intn(2)] = true
		}
		inLayer[p] = where
		for li := 0; li < 2; li++ {
			if !where[li] {
				continue
			}
			if n.dir {
				e("%d - MkdirAll %s 493", li, hx([]byte(p)))
			} else {
				e("%d - MkdirAll %s 493", li, hx([]byte(parentOf(p))))
				content := make([]byte, r.Range(0, 9))
				for q := range content {
					content[q] = Pick(r, []byte{'a' + byte(li), 'x', 0})
				}
				e("%d %d Create %s", li, slot, hx([]byte(p)))
				if len(content) > 0 {
					e("%d - HWrite %d %s", li, slot, hx(content))
				}
				e("%d - HClose %d", li, slot)
				slot++
			}
		}
	}
	k := 0
	for li := 0; li < 2; li++ {
		for _, p := range g.sorted() {
			e("%d - Chtimes %s %d", li, hx([]byte(p)), 1000000000+1000*(k%4))
			k++
		}
	}
	return items, g.nodes, slot
}

func genCow(r *Rng, unconstrained bool) []string {
	var items []string
	if unconstrained {
		itemsB, pathsB, next := populate(r.Fork(), "0", r.Range(3, 12), 0)
		itemsL, pathsL, next2 := populate(r.Fork(), "1", r.Range(0, 8), next)
		items = append(itemsB, itemsL...)
		seen := map[string]bool{}
		var paths []string
		for _, p := range append(pathsB, pathsL...) {
			if !seen[p] {
				seen[p] = true
				paths = append(paths, p)
			}
		}
		w := &WrapGen{r: r, Paths: paths, Next: next2, Tgt: ".", NoPaging: true}
		for i := r.Range(5, 25); i > 0; i-- {
			w.Step()
		}
		items = append(items, w.Items...)
	} else {
		setup, nodes, next := genConsistentPair(r)
		items = setup
		g := NewGen(r)
		g.nodes = nodes
		g.next = next
		g.Target = "."
		g.NoPaging = true
		for i := r.Range(5, 25); i > 0; i-- {
			g.Step()
		}
		items = append(items, g.Items...)
	}
	items = append(items, "snap 0", "snap 1")
	return items
}

func runCowProp(c *Ctx, prop string) {
	if c.From != nil {
		for _, cs := range c.From {
			t := strings.Fields(cs[0])
			cowCase(c, t[1], t[2], cs[1:len(cs)-1], prop)
		}
		return
	}
	n := 500
	if c.Tier == "thorough" {
		n = 20000
	}
	if prop == "C05" {
		// every flag combination on a base-only file and on a missing name
		step := 41
		if c.Tier == "thorough" {
			step = 1
		}
		k := 0
		for m := 0; m < 1<<12; m += step {
			f := 0
			for i, b := range flagBits {
				if m&(1<<i) != 0 {
					f |= b
				}
			}
			items := []string{"0 0 Create 2f66", "0 - HWrite 0 616263", "0 - HClose 0", "0 - Chtimes 2f66 1000000000", "0 - Chtimes 2f 1000000000",
				fmt.Sprintf(". 1 OpenFile 2f66 %d 420", f), ". - HWrite 1 7a7a", ". - HTruncate 1 1", ". - HWriteAt 1 79 0", ". - HWriteString 1 78", ". - HClose 1",
				fmt.Sprintf(". 2 OpenFile 2f6e6577 %d 420", f), ". - HWrite 2 71", "snap 0", "snap 1"}
			cowCase(c, fmt.Sprintf("fl%d", k), "cow(mem,mem)", items, prop)
			k++
		}
		// the same sweep with an overlay that refuses every write (a ReadOnlyFs): a copy-up that cannot
		// be made must not be replaced by writing to the base
		for m := 0; m < 1<<12; m += step * 2 {
			f := 0
			for i, b := range flagBits {
				if m&(1<<i) != 0 {
					f |= b
				}
			}
			items := []string{"0 0 Create 2f66", "0 - HWrite 0 616263", "0 - HClose 0", "0 - Chtimes 2f66 1000000000", "0 - Chtimes 2f 1000000000",
				fmt.Sprintf(". 1 OpenFile 2f66 %d 420", f), ". - HWrite 1 7a7a", ". - HTruncate 1 1", ". - HWriteAt 1 79 0", ". - HWriteString 1 78", ". - HClose 1",
				". - Chmod 2f66 384", ". - Chtimes 2f66 1000007000", ". - Remove 2f66", ". - Rename 2f66 2f67", "snap 0"}
			cowCase(c, fmt.Sprintf("flro%d", k), "cow(mem,ro(mem))", items, prop)
			k++
		}
		c.Extra["flag_sweep"] = fmt.Sprintf("%d of 4096 combinations of 12 O_* bits", k)
		runOSBase(c, "C05")
	}
	if prop == "C06" {
		// copy-up of files whose sizes sit at the block sizes of the copy loop, with zero-filled tails
		k := 0
		for _, size := range []int{32767, 32768, 32769, 65536, 65537, 98304} {
			for pat := 0; pat < 3; pat++ {
				if c.Tier != "thorough" && (k%3 != 0) && size != 65536 {
					k++
					continue
				}
				data := make([]byte, size)
				for q := range data {
					switch {
					case pat == 1 && q < size-32768, pat == 2:
						data[q] = byte('a' + q%7)
					}
				}
				items := []string{"0 0 Create 2f626967", "0 - HWrite 0 " + hx(data), "0 - HClose 0", "0 - Chtimes 2f626967 1000000000", "0 - Chtimes 2f 1000000000",
					". 1 OpenFile 2f626967 2 420", ". - HWriteAt 1 58 0", ". - HClose 1", ". - Stat 2f626967", ". 2 Open 2f626967",
					fmt.Sprintf(". - HReadAt 2 %d 0", size+10), ". - HClose 2"}
				cowCase(c, fmt.Sprintf("big%d", k), "cow(mem,mem)", items, prop)
				k++
			}
		}
		// one name of different kind in the two layers (the layers were filled separately): the
		// overlay's entry is what shows, as a directory with its own listing or as a file with its bytes
		for ki, items := range [][]string{
			{"0 0 Create 2f78", "0 - HWrite 0 62617365", "0 - HClose 0", "1 - MkdirAll 2f78 493", "1 1 Create 2f782f63", "1 - HWrite 1 6f766c", "1 - HClose 1",
				"0 - Chtimes 2f78 1000000000", "0 - Chtimes 2f 1000000000", "1 - Chtimes 2f782f63 1000000000", "1 - Chtimes 2f78 1000000000", "1 - Chtimes 2f 1000000000",
				". - Stat 2f78", ". 2 Open 2f78", ". - HReaddirnames 2 -1", ". - HClose 2", ". 3 Open 2f782f63", ". - HRead 3 10", ". - HClose 3", ". 4 Open 2f", ". - HReaddirnames 4 -1", ". - HClose 4"},
			{"0 - MkdirAll 2f78 493", "0 0 Create 2f782f62", "0 - HWrite 0 62617365", "0 - HClose 0", "1 1 Create 2f78", "1 - HWrite 1 6f766c", "1 - HClose 1",
				"0 - Chtimes 2f782f62 1000000000", "0 - Chtimes 2f78 1000000000", "0 - Chtimes 2f 1000000000", "1 - Chtimes 2f78 1000000000", "1 - Chtimes 2f 1000000000",
				". - Stat 2f78", ". 2 Open 2f78", ". - HRead 2 10", ". - HClose 2", ". 4 Open 2f", ". - HReaddirnames 4 -1", ". - HClose 4"},
		} {
			cowCase(c, fmt.Sprintf("kind%d", ki), "cow(mem,mem)", items, prop)
		}
		// a directory with many entries in both layers (sorting / merging code behaves differently
		// beyond a dozen elements): every listed entry describes the overlay's file where there is one
		for _, nboth := range []int{7, 13, 40} {
			var items []string
			items = append(items, "0 - MkdirAll 2f626967 493", "1 - MkdirAll 2f626967 493")
			slot := 0
			for q := 0; q < nboth+4; q++ {
				name := hx([]byte(fmt.Sprintf("/big/f%03d", q)))
				if q < nboth || q%2 == 0 {
					items = append(items, fmt.Sprintf("0 %d Create %s", slot, name), fmt.Sprintf("0 - HWrite %d 62617365", slot), fmt.Sprintf("0 - HClose %d", slot),
						fmt.Sprintf("0 - Chtimes %s 1000000000", name))
					slot++
				}
				if q < nboth || q%2 == 1 {
					items = append(items, fmt.Sprintf("1 %d Create %s", slot, name), fmt.Sprintf("1 - HWrite %d 6f7665726c61792121", slot), fmt.Sprintf("1 - HClose %d", slot),
						fmt.Sprintf("1 - Chtimes %s 1000000000", name))
					slot++
				}
			}
			items = append(items, "0 - Chtimes 2f626967 1000000000", "1 - Chtimes 2f626967 1000000000", "0 - Chtimes 2f 1000000000", "1 - Chtimes 2f 1000000000",
				". - Stat 2f626967", fmt.Sprintf(". %d Open 2f626967", slot), fmt.Sprintf(". - HReaddirnames %d -1", slot), fmt.Sprintf(". - HClose %d", slot))
			cowCase(c, fmt.Sprintf("many%d", nboth), "cow(mem,mem)", items, prop)
		}
		runOSOverlay(c)
		c.Extra["big_files"] = "copy-up of files of 32767..98304 bytes (zeros, zero tail, no zeros), one byte modified, read back"
	}
	for i := 0; i < n; i++ {
		items := genCow(c.Rng.Fork(), prop == "C05" || i%5 == 4)
		id := fmt.Sprintf("r%d", i)
		if prop == "C06" && i%5 == 4 {
			id = fmt.Sprintf("u%d", i) // unconstrained: model correspondence only
		}
		cowCase(c, id, "cow(mem,mem)", items, prop)
		if i < 2 {
			c.Sample("case cow(mem,mem): " + strings.Join(items, " ; "))
		}
	}
}

func runC05(c *Ctx) { runCowProp(c, "C05") }
func runC06(c *Ctx) { runCowProp(c, "C06") }
