package main

// faultfs.go — a fault-injecting afero.Fs / afero.File wrapper; the Go counterpart of
// coq/Model/Faulty.v (faulty_step).
//
// NUMBERING DISCIPLINE (identical to faulty_step): the wrapper owns ONE counter, starting at 0.
// Every method call that reaches the wrapped filesystem — the twelve Fs methods Create, Mkdir,
// MkdirAll, Open, OpenFile, Remove, RemoveAll, Rename, Stat, Chmod, Chown, Chtimes, and the
// thirteen File methods Read, ReadAt, Write, WriteAt, WriteString, Seek, Truncate, Close,
// Readdir, Readdirnames, Stat, Name, Sync on ANY file this wrapper handed out — takes the next
// index, in the order in which the calls are made (a call is numbered when it is entered; the
// callers under test are sequential).  Fs.Name() is not a filesystem call and is not numbered.
// The call with index i is logged in Trace[i] under the operation name of Lib/Ops.v
// ("Stat", "HRead", ...), whether or not it is faulted.
//
// At index i the plan applies:
//   err:<E>   the call is NOT forwarded; it returns E (IO = syscall.EIO, NOENT = syscall.ENOENT,
//             PNOTEXIST = &os.PathError{Err: os.ErrNotExist}, PNOENT = &os.PathError{Err:
//             syscall.ENOENT}, NOTEXIST = os.ErrNotExist) and zero values (count 0, nil file);
//             Name(), which cannot fail, is forwarded;
//   short:<k> Write / WriteString / WriteAt: only the first min(k,len) bytes are forwarded, the
//             short count is returned as the inner call returned it (nil error);
//             Read / ReadAt: at most k bytes are read and io.EOF is reported if the inner read
//             reported no error (early EOF); every other call: forwarded unchanged.
//
// Phantom(name) consumes an index without a call: the model's copy_file asks the base handle for
// its size once more than copyFile does (to bound its copy loop); C12's harness mirrors that call
// so that both sides number the base calls alike (see c12.go).

import (
	"fmt"
	"io"
	"os"
	"strings"
	"syscall"
	"time"

	"github.com/spf13/afero"
)

type faultSpec struct {
	Kind string // "err" | "short"
	Err  string // IO | NOENT | PNOTEXIST | PNOENT | NOTEXIST
	K    int
}

type FaultFs struct {
	inner      afero.Fs
	plan       map[int]faultSpec
	n          int
	Trace      []string
	Phantoms   map[int]bool
	Fired      []int // indices at which a fault changed the call
	OnCreateOK func()
}

func faultErr(name string) error {
	switch name {
	case "IO":
		return syscall.EIO
	case "NOENT":
		return syscall.ENOENT
	case "PNOTEXIST":
		return &os.PathError{Op: "fault", Path: "injected", Err: os.ErrNotExist}
	case "PNOENT":
		return &os.PathError{Op: "fault", Path: "injected", Err: syscall.ENOENT}
	case "NOTEXIST":
		return os.ErrNotExist
	}
	panic("unknown fault error " + name)
}

// "<i>:err:<E>" | "<i>:short:<k>", joined by '+'; "-" or "" = no faults
func parseFaultPlan(arg string) map[int]faultSpec {
	plan := map[int]faultSpec{}
	if arg == "" || arg == "-" {
		return plan
	}
	for _, part := range strings.Split(arg, "+") {
		t := strings.Split(part, ":")
		if len(t) != 3 {
			panic("fault plan syntax: " + arg)
		}
		i := atoi(t[0])
		if _, dup := plan[i]; dup {
			continue // first entry wins (fault_lookup)
		}
		switch t[1] {
		case "err":
			faultErr(t[2])
			plan[i] = faultSpec{Kind: "err", Err: t[2]}
		case "short":
			plan[i] = faultSpec{Kind: "short", K: atoi(t[2])}
		default:
			panic("fault plan syntax: " + arg)
		}
	}
	return plan
}

func NewFaultFs(inner afero.Fs, arg string) *FaultFs {
	return &FaultFs{inner: inner, plan: parseFaultPlan(arg), Phantoms: map[int]bool{}}
}

// next numbers a call; returns the fault planned for it (nil = none)
func (f *FaultFs) next(op string) *faultSpec {
	i := f.n
	f.n++
	f.Trace = append(f.Trace, op)
	if s, ok := f.plan[i]; ok {
		return &s
	}
	return nil
}

func (f *FaultFs) fired() { f.Fired = append(f.Fired, f.n-1) }

// Phantom consumes an index for a call the implementation does not make (see above).
func (f *FaultFs) Phantom(op string) {
	f.Phantoms[f.n] = true
	f.n++
	f.Trace = append(f.Trace, op)
}

func (f *FaultFs) failing(op string) error {
	if s := f.next(op); s != nil && s.Kind == "err" {
		f.fired()
		return faultErr(s.Err)
	}
	return nil
}

func (f *FaultFs) wrap(file afero.File, err error) (afero.File, error) {
	if err != nil || file == nil {
		return nil, err
	}
	return &faultFile{fs: f, inner: file}, nil
}

func (f *FaultFs) Name() string { return "FaultFs" }

func (f *FaultFs) Create(name string) (afero.File, error) {
	if err := f.failing("Create"); err != nil {
		return nil, err
	}
	file, err := f.wrap(f.inner.Create(name))
	if err == nil && f.OnCreateOK != nil {
		f.OnCreateOK()
	}
	return file, err
}
func (f *FaultFs) Mkdir(name string, perm os.FileMode) error {
	if err := f.failing("Mkdir"); err != nil {
		return err
	}
	return f.inner.Mkdir(name, perm)
}
func (f *FaultFs) MkdirAll(name string, perm os.FileMode) error {
	if err := f.failing("MkdirAll"); err != nil {
		return err
	}
	return f.inner.MkdirAll(name, perm)
}
func (f *FaultFs) Open(name string) (afero.File, error) {
	if err := f.failing("Open"); err != nil {
		return nil, err
	}
	return f.wrap(f.inner.Open(name))
}
func (f *FaultFs) OpenFile(name string, flag int, perm os.FileMode) (afero.File, error) {
	if err := f.failing("OpenFile"); err != nil {
		return nil, err
	}
	return f.wrap(f.inner.OpenFile(name, flag, perm))
}
func (f *FaultFs) Remove(name string) error {
	if err := f.failing("Remove"); err != nil {
		return err
	}
	return f.inner.Remove(name)
}
func (f *FaultFs) RemoveAll(name string) error {
	if err := f.failing("RemoveAll"); err != nil {
		return err
	}
	return f.inner.RemoveAll(name)
}
func (f *FaultFs) Rename(o, n string) error {
	if err := f.failing("Rename"); err != nil {
		return err
	}
	return f.inner.Rename(o, n)
}
func (f *FaultFs) Stat(name string) (os.FileInfo, error) {
	if err := f.failing("Stat"); err != nil {
		return nil, err
	}
	return f.inner.Stat(name)
}
func (f *FaultFs) Chmod(name string, mode os.FileMode) error {
	if err := f.failing("Chmod"); err != nil {
		return err
	}
	return f.inner.Chmod(name, mode)
}
func (f *FaultFs) Chown(name string, uid, gid int) error {
	if err := f.failing("Chown"); err != nil {
		return err
	}
	return f.inner.Chown(name, uid, gid)
}
func (f *FaultFs) Chtimes(name string, a, m time.Time) error {
	if err := f.failing("Chtimes"); err != nil {
		return err
	}
	return f.inner.Chtimes(name, a, m)
}

// faultFile deliberately implements nothing beyond afero.File (no io.ReaderFrom / io.WriterTo),
// so that io.Copy goes through Read and Write.
type faultFile struct {
	fs    *FaultFs
	inner afero.File
}

func (h *faultFile) Close() error {
	if err := h.fs.failing("HClose"); err != nil {
		return err
	}
	return h.inner.Close()
}

func (h *faultFile) Read(p []byte) (int, error) {
	s := h.fs.next("HRead")
	if s != nil && s.Kind == "err" {
		h.fs.fired()
		return 0, faultErr(s.Err)
	}
	if s != nil && s.Kind == "short" {
		h.fs.fired()
		if s.K < len(p) {
			p = p[:s.K]
		}
		n, err := h.inner.Read(p)
		if err == nil {
			err = io.EOF
		}
		return n, err
	}
	return h.inner.Read(p)
}

func (h *faultFile) ReadAt(p []byte, off int64) (int, error) {
	s := h.fs.next("HReadAt")
	if s != nil && s.Kind == "err" {
		h.fs.fired()
		return 0, faultErr(s.Err)
	}
	if s != nil && s.Kind == "short" {
		h.fs.fired()
		if s.K < len(p) {
			p = p[:s.K]
		}
		n, err := h.inner.ReadAt(p, off)
		if err == nil {
			err = io.EOF
		}
		return n, err
	}
	return h.inner.ReadAt(p, off)
}

func (h *faultFile) Write(p []byte) (int, error) {
	s := h.fs.next("HWrite")
	if s != nil && s.Kind == "err" {
		h.fs.fired()
		return 0, faultErr(s.Err)
	}
	if s != nil && s.Kind == "short" && s.K < len(p) {
		h.fs.fired()
		p = p[:s.K]
	}
	return h.inner.Write(p)
}

func (h *faultFile) WriteAt(p []byte, off int64) (int, error) {
	s := h.fs.next("HWriteAt")
	if s != nil && s.Kind == "err" {
		h.fs.fired()
		return 0, faultErr(s.Err)
	}
	if s != nil && s.Kind == "short" && s.K < len(p) {
		h.fs.fired()
		p = p[:s.K]
	}
	return h.inner.WriteAt(p, off)
}

func (h *faultFile) WriteString(str string) (int, error) {
	s := h.fs.next("HWriteString")
	if s != nil && s.Kind == "err" {
		h.fs.fired()
		return 0, faultErr(s.Err)
	}
	if s != nil && s.Kind == "short" && s.K < len(str) {
		h.fs.fired()
		str = str[:s.K]
	}
	return h.inner.WriteString(str)
}

func (h *faultFile) Seek(off int64, whence int) (int64, error) {
	if err := h.fs.failing("HSeek"); err != nil {
		return 0, err
	}
	return h.inner.Seek(off, whence)
}
func (h *faultFile) Truncate(n int64) error {
	if err := h.fs.failing("HTruncate"); err != nil {
		return err
	}
	return h.inner.Truncate(n)
}
func (h *faultFile) Readdir(n int) ([]os.FileInfo, error) {
	if err := h.fs.failing("HReaddir"); err != nil {
		return nil, err
	}
	return h.inner.Readdir(n)
}
func (h *faultFile) Readdirnames(n int) ([]string, error) {
	if err := h.fs.failing("HReaddirnames"); err != nil {
		return nil, err
	}
	return h.inner.Readdirnames(n)
}
func (h *faultFile) Stat() (os.FileInfo, error) {
	if err := h.fs.failing("HStat"); err != nil {
		return nil, err
	}
	return h.inner.Stat()
}
func (h *faultFile) Name() string {
	h.fs.next("HName") // numbered; cannot fail
	return h.inner.Name()
}
func (h *faultFile) Sync() error {
	if err := h.fs.failing("HSync"); err != nil {
		return err
	}
	return h.inner.Sync()
}

func init() {
	layerBuilders["faulty"] = func(arg string, kids []*Layer) afero.Fs { return NewFaultFs(kids[0].Fs, arg) }
}

func (f *FaultFs) String() string { return fmt.Sprintf("FaultFs(%d calls)", f.n) }
