package main

// constants for the sftpfs model (C19), read from the current sources of /repo/sftpfs
import (
	"fmt"
	"go/ast"
)

func init() { extraConsts = append(extraConsts, sftpConsts) }

func sftpConsts(repo string, add func(string, int64, string)) error {
	f, err := parseSrc(repo, "sftpfs/sftp.go")
	if err != nil {
		return err
	}
	// MkdirAll fast path: `if err == nil { if dir.IsDir() { return nil }; return <X> }` — X == err (nil) or an error value
	fd := f.fn("Fs", "MkdirAll")
	if fd == nil {
		return fmt.Errorf("sftpfs/sftp.go: Fs.MkdirAll not found")
	}
	fixed := int64(-1)
	ast.Inspect(fd, func(n ast.Node) bool {
		is, ok := n.(*ast.IfStmt)
		if !ok || fixed >= 0 {
			return true
		}
		be, ok := is.Cond.(*ast.BinaryExpr)
		if !ok {
			return true
		}
		x, ok1 := be.X.(*ast.Ident)
		y, ok2 := be.Y.(*ast.Ident)
		if !ok1 || !ok2 || x.Name != "err" || y.Name != "nil" || be.Op.String() != "==" {
			return true
		}
		if len(is.Body.List) == 0 {
			return true
		}
		if rs, ok := is.Body.List[len(is.Body.List)-1].(*ast.ReturnStmt); ok && len(rs.Results) == 1 {
			if id, ok := rs.Results[0].(*ast.Ident); ok && id.Name == "err" {
				fixed = 0
			} else {
				fixed = 1
			}
		}
		return true
	})
	if fixed < 0 {
		return fmt.Errorf("sftpfs/sftp.go: MkdirAll fast path not recognised")
	}
	add("sftp_mkdirall_enotdir", fixed, "sftpfs/sftp.go MkdirAll: 1 iff the fast path returns an error for an existing non-directory")
	// OpenFile: does the returned File carry the client?
	of := f.fn("Fs", "OpenFile")
	if of == nil {
		return fmt.Errorf("sftpfs/sftp.go: Fs.OpenFile not found")
	}
	has := int64(0)
	found := false
	ast.Inspect(of, func(n ast.Node) bool {
		cl, ok := n.(*ast.CompositeLit)
		if !ok {
			return true
		}
		if id, ok := cl.Type.(*ast.Ident); ok && id.Name == "File" {
			found = true
			for _, e := range cl.Elts {
				if kv, ok := e.(*ast.KeyValueExpr); ok {
					if k, ok := kv.Key.(*ast.Ident); ok && k.Name == "client" {
						has = 1
					}
				}
			}
		}
		return true
	})
	if !found {
		return fmt.Errorf("sftpfs/sftp.go: OpenFile: File literal not found")
	}
	add("sftp_openfile_client", has, "sftpfs/sftp.go OpenFile: 1 iff the returned File carries the client")
	return nil
}
