//go:build !verifsched

package main

// the normal harness binary has no scheduler: the scheduled phase runs in afcheck-sched
func c04SchedPhase(s *c04State) { s.c.Extra["sched"] = "this binary is not instrumented" }

const c04HasSched = false
