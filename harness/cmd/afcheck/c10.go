package main

// C10 — CacheOnReadFs, read path: the first read returns the base's bytes and leaves a copy with the
//       base's mtime in the cache layer; duration 0 = cached for ever; duration > 0 = cached until the
//       copy is older than the duration AND the base copy is newer.
// C11 — all modifications go through the caching filesystem: the layers stay coherent.
//   case <id> cache:<seconds>(mem,mem): base = child 0, cache layer = child 1, the union = "."
import (
	"io"
	"bytes"
	"fmt"
	"os"
	"path/filepath"
	"sort"
	"strings"
	"time"

	"github.com/spf13/afero"
)

func init() { props["C10"] = runC10; props["C11"] = runC11 }

type memEnt struct {
	ok, dir bool
	data    []byte
	mt      time.Time
	mode    os.FileMode
}

func entOf(fs afero.Fs, p string) memEnt {
	for _, e := range afero.VerifDump(fs) {
		if e.Path == p {
			return memEnt{true, e.Dir, append([]byte{}, e.Data...), e.ModTime, e.Mode}
		}
	}
	return memEnt{}
}

func cacheDurSec(stack string) int {
	s := strings.TrimPrefix(stack, "cache:")
	if i := strings.IndexByte(s, '('); i >= 0 {
		s = s[:i]
	}
	return atoi(s)
}

// ---------------------------------------------------------------------------------------- C10

// the three rules of the property, evaluated on the two layers as they are right before the call
//   kind "miss"  : no cached copy; the base's bytes are returned and copied (with the base's mtime)
//   kind "zero"  : duration 0 and a cached copy: the cached bytes, whatever the base holds
//   kind "stale" : duration > 0, copy expired and older than the base copy: the base's bytes, cache refreshed
//   kind "fresh" : duration > 0 otherwise: the cached bytes
//   kind ""      : not a statement of the property (directories, nothing anywhere, too close to the clock boundary)
func c10Classify(c *Ctx, base, layer afero.Fs, p string, dur time.Duration) (kind string, want, b, l memEnt) {
	b, l = entOf(base, p), entOf(layer, p)
	if b.ok && b.dir || l.ok && l.dir {
		return "", memEnt{}, b, l
	}
	// the cache layer holds a REGULAR FILE at a proper ancestor of the name (the base turned a cached file
	// into a directory): the cached file is what is served; nothing can be cached below it (theorem
	// C10_below_cached_file_refused) -- not a "first read"
	if !l.ok {
		for d := filepath.Dir(filepath.Clean(p)); ; d = filepath.Dir(d) {
			if a := entOf(layer, d); a.ok {
				if !a.dir {
					return "belowfile", memEnt{}, b, l
				}
				break
			}
			if d == "/" || d == "." {
				break
			}
		}
	}
	if !l.ok {
		if !b.ok {
			return "", memEnt{}, b, l
		}
		return "miss", b, b, l
	}
	if dur == 0 {
		return "zero", l, b, l
	}
	now := time.Now()
	edge := l.mt.Add(dur)
	if d := now.Sub(edge); d > -900*time.Second && d < 900*time.Second {
		c.Count("c10.boundary-skipped")
		return "", memEnt{}, b, l
	}
	expired := edge.Before(now)
	if expired && b.ok && l.mt.Before(b.mt) {
		return "stale", b, b, l
	}
	return "fresh", l, b, l
}

var c10Sig = map[string]string{"miss": "first-read-wrong", "zero": "zero-duration-not-served-from-cache",
	"stale": "stale-copy-served", "fresh": "fresh-copy-refetched"}

type c10Read struct {
	path, kind string
	want, got  []byte
	step       int
	done, skip bool
}

func short(b []byte) string {
	if len(b) > 24 {
		return fmt.Sprintf("%s..(%d bytes)", hx(b[:24]), len(b))
	}
	return hx(b)
}

func c10Case(c *Ctx, id, stack string, items []string) {
	in := NewInterp(stack)
	base, layer := in.Top.At("0").Fs, in.Top.At("1").Fs
	dur := time.Duration(cacheDurSec(stack)) * time.Second
	c.Case("case %s %s", id, stack)
	reads := map[int]*c10Read{}
	failed := strings.HasPrefix(id, "u") // unconstrained cases: model correspondence only
	fail := func(sig, format string, a ...any) {
		if !failed {
			failed = true
			c.Oracle("FAIL %s %s %s", id, sig, fmt.Sprintf(format, a...))
		}
	}
	finish := func(rd *c10Read, eof bool) {
		if rd.done || rd.skip {
			return
		}
		rd.done = true
		okp := bytes.Equal(rd.got, rd.want)
		if !eof {
			okp = bytes.HasPrefix(rd.want, rd.got)
		}
		if !okp {
			fail(c10Sig[rd.kind], "the read of %s opened at step %d (%s) returned %s, the rule says %s", rd.path, rd.step, rd.kind, short(rd.got), short(rd.want))
		}
	}
	for i, it := range items {
		c.Case("%s", it)
		f := strings.Fields(it)
		kind := ""
		var want, b, l memEnt
		p := ""
		isOpen := false
		if !failed && f[0] == "." && len(f) > 3 {
			switch {
			case f[2] == "Open" || f[2] == "Stat":
				p = string(unhx(f[3]))
			case f[2] == "OpenFile" && (atoi(f[4]) == 0 || atoi(f[4]) == 2):
				// O_RDONLY, and O_RDWR (a union handle): reads serve the copy the rules select
				p = string(unhx(f[3]))
			}
			isOpen = f[2] != "Stat"
			if p != "" {
				kind, want, b, l = c10Classify(c, base, layer, p, dur)
			}
		}
		// Chtimes / Chmod / Chown through the cache are accesses too: on an expired copy with a newer
		// base ("stale") the access refreshes the cache
		mutKind, mutPath := "", ""
		if !failed && f[0] == "." && len(f) > 3 && (f[2] == "Chtimes" || f[2] == "Chmod" || f[2] == "Chown") {
			mutPath = string(unhx(f[3]))
			mutKind, _, _, _ = c10Classify(c, base, layer, mutPath, dur)
		}
		if f[0] == "1" {
			for _, rd := range reads {
				rd.skip = true
			}
		}
		out := in.Exec(it)
		c.Impl("%s#%d %s", id, i, out)
		c.Count("op." + opName(it))
		c.Count("res." + strings.SplitN(out, ":", 2)[0])
		if out == "panic" {
			c.Count("panic." + opName(it))
			break
		}
		if failed {
			continue
		}
		if mutKind == "stale" && out == "ok" {
			c.Count("c10.mutator-on-stale")
			b2, l2 := entOf(base, mutPath), entOf(layer, mutPath)
			if b2.ok && !b2.dir && (!l2.ok || !bytes.Equal(l2.data, b2.data)) {
				fail("stale-copy-not-refreshed", "step %d (%s) on an expired copy older than the base: afterwards the base holds %s, the cache layer %s (present=%v)", i, it, short(b2.data), short(l2.data), l2.ok)
				continue
			}
		}
		if kind == "belowfile" {
			c.Count("c10.kind." + kind)
			l2 := entOf(layer, p)
			if isOpen && (out == "handle" || l2.ok) {
				fail("created-below-cached-file", "step %d (%s): %s; the cache layer holds a regular file above %s and now an entry at it: %v", i, it, out, p, l2.ok)
			}
			continue
		}
		if kind != "" {
			c.Count("c10.kind." + kind)
			l2 := entOf(layer, p)
			if isOpen {
				if out != "handle" {
					fail(c10Sig[kind], "step %d (%s): %s instead of a handle (%s)", i, it, out, kind)
					continue
				}
				switch kind {
				case "miss", "stale":
					if !l2.ok || l2.dir || !bytes.Equal(l2.data, b.data) {
						fail("cache-copy-differs", "step %d (%s, %s): base holds %s, the cache layer afterwards %s (present=%v)", i, it, kind, short(b.data), short(l2.data), l2.ok)
						continue
					}
					if !l2.mt.Equal(b.mt) {
						fail("cache-mtime-differs", "step %d (%s, %s): base mtime %d, cached copy %d", i, it, kind, b.mt.UnixNano(), l2.mt.UnixNano())
						continue
					}
					for _, rd := range reads {
						if rd.path == p {
							rd.skip = true // an earlier handle on this name sees the refreshed file
						}
					}
				default:
					if !l2.ok || !bytes.Equal(l2.data, l.data) || !l2.mt.Equal(l.mt) {
						fail(c10Sig[kind], "step %d (%s, %s): the cached copy was rewritten: before %s@%d after %s@%d, base %s@%d", i, it, kind,
							short(l.data), l.mt.Unix(), short(l2.data), l2.mt.Unix(), short(b.data), b.mt.Unix())
						continue
					}
				}
				if f[1] != "-" {
					reads[atoi(f[1])] = &c10Read{path: p, kind: kind, want: want.data, step: i}
				}
			} else {
				// Stat: size and mtime of the copy the rules select
				exp := fmt.Sprintf("|f|%d|", len(want.data))
				if !strings.HasPrefix(out, "info:") || !strings.Contains(out, exp) || !strings.HasSuffix(out, "|"+mtimeS(want.mt)) {
					fail(c10Sig[kind], "step %d (%s, %s): Stat gave %s, the rule selects size %d mtime %s", i, it, kind, out, len(want.data), mtimeS(want.mt))
					continue
				}
			}
		}
		if len(f) > 3 && handleOps[f[2]] {
			rd := reads[atoi(f[3])]
			if rd == nil {
				continue
			}
			switch f[2] {
			case "HRead":
				t := strings.Split(out, ":")
				if len(t) != 3 || t[0] != "data" {
					rd.skip = true
					continue
				}
				if t[1] != "-" {
					rd.got = append(rd.got, unhx(t[1])...)
				}
				if t[2] == "EOF" {
					finish(rd, true)
				} else if t[2] != "-" {
					fail(c10Sig[rd.kind], "step %d (%s): read error %s", i, it, t[2])
				}
			case "HReadAt":
				// a positional read returns the bytes of the same copy at that offset
				t := strings.Split(out, ":")
				off := atoi(f[5])
				if len(t) == 3 && t[0] == "data" && off >= 0 && !rd.skip {
					got := []byte{}
					if t[1] != "-" {
						got = unhx(t[1])
					}
					wantAt := []byte{}
					if off < len(rd.want) {
						wantAt = rd.want[off:min(off+atoi(f[4]), len(rd.want))]
					}
					if !bytes.Equal(got, wantAt) {
						fail(c10Sig[rd.kind], "step %d (%s): ReadAt on the handle opened at step %d (%s) returned %s, the rule says %s", i, it, rd.step, rd.kind, short(got), short(wantAt))
					}
				}
			case "HClose":
				finish(rd, false)
				delete(reads, atoi(f[3]))
			case "HStat", "HName":
			default:
				rd.skip = true // seeks etc.: the accumulated bytes are no longer a prefix
			}
		}
	}
	for _, s := range sortedKeys(reads) {
		finish(reads[s], false)
	}
	c.Case("end")
	c.NCases++
}

func sortedKeys[V any](m map[int]V) []int {
	ks := make([]int, 0, len(m))
	for k := range m {
		ks = append(ks, k)
	}
	sort.Ints(ks)
	return ks
}

const c10T0 = 1000010000

func c10Content(r *Rng, n int) []byte {
	b := make([]byte, n)
	seed := r.Intn(251)
	for i := range b {
		b[i] = byte(seed + i*31 + i/251)
	}
	return b
}

var c10Sizes = []int{0, 1, 2, 3, 7, 16, 100, 511, 512, 513, 1000, 4095, 4096, 4097, 5000}

type c10File struct {
	path    string
	present bool
	t       int // explicit mtime of the base copy (0 = written during the run)
	maxSize int
}

type c10Gen struct {
	r     *Rng
	items []string
	slot  int
	files []*c10File
	large bool // sizes up to 5000
	big   bool // sizes around the 32 KiB chunk of io.Copy
}

func (g *c10Gen) e(format string, a ...any) { g.items = append(g.items, fmt.Sprintf(format, a...)) }
func (g *c10Gen) newSlot() int              { g.slot++; return g.slot - 1 }

func (g *c10Gen) size(f *c10File) int {
	r := g.r
	if !g.large || f != g.files[0] {
		// most cases: small files (the model runner's digest costs time per byte)
		if r.Chance(1, 6) {
			return Pick(r, []int{0, 1, 2, 3, 7, 16, 100})
		}
		return r.Range(0, 24)
	}
	switch r.Intn(8) {
	case 0, 1, 2:
		return Pick(r, c10Sizes)
	case 3, 4:
		return r.Range(0, 5000)
	case 5:
		if g.big {
			return Pick(r, []int{32767, 32768, 32769, 40000})
		}
	}
	return r.Range(0, 600)
}

// write a file directly into layer tgt ("0" base, "1" cache) and stamp it
func (g *c10Gen) put(tgt string, f *c10File, n int, t int) {
	if d := parentOf(f.path); d != "/" {
		g.e("%s - MkdirAll %s 493", tgt, hx([]byte(d)))
	}
	s := g.newSlot()
	g.e("%s %d Create %s", tgt, s, hx([]byte(f.path)))
	if n > 0 {
		g.e("%s - HWrite %d %s", tgt, s, hx(c10Content(g.r, n)))
	}
	g.e("%s - HClose %d", tgt, s)
	if t != 0 {
		g.e("%s - Chtimes %s %d", tgt, hx([]byte(f.path)), t)
	}
	if n > f.maxSize {
		f.maxSize = n
	}
}

func (g *c10Gen) readLoop(f *c10File, interleave func()) {
	r := g.r
	s := g.newSlot()
	if r.Chance(1, 4) {
		g.e(". %d OpenFile %s 0 0", s, hx([]byte(f.path)))
	} else {
		g.e(". %d Open %s", s, hx([]byte(f.path)))
	}
	var n int
	if f.maxSize <= 24 {
		n = Pick(r, []int{1, 2, 3, 5, 64})
	} else {
		n = Pick(r, []int{f.maxSize/3 + 1, 512, 4096, 32768, f.maxSize + 10, f.maxSize})
	}
	if f.maxSize/n > 12 {
		n = f.maxSize/12 + 1
	}
	k := f.maxSize/n + 2
	at := -1
	if interleave != nil && r.Chance(1, 3) {
		at = r.Intn(k)
	}
	for j := 0; j < k; j++ {
		if j == at {
			interleave()
		}
		g.e(". - HRead %d %d", s, n)
	}
	if r.Chance(4, 5) {
		g.e(". - HClose %d", s)
	}
}

func (g *c10Gen) modifyBase(f *c10File) {
	r := g.r
	switch {
	case !f.present || r.Chance(3, 5):
		// (re)create / overwrite, then stamp: newer (usual), equal, older, or not at all (mtime = now)
		t := f.t
		if t == 0 {
			t = c10T0
		}
		switch r.Intn(8) {
		case 0:
		case 1:
			t -= 1000
		case 2:
			t = 0
		default:
			t += 1000 * r.Range(1, 2)
		}
		if t > c10T0+20000 {
			t = c10T0 + 20000
		}
		g.put("0", f, g.size(f), t)
		f.present, f.t = true, t
	case r.Chance(1, 2):
		g.e("0 - Remove %s", hx([]byte(f.path)))
		f.present = false
	case r.Chance(1, 2):
		// partial overwrite in place through an O_RDWR handle, then a newer stamp
		s := g.newSlot()
		g.e("0 %d OpenFile %s 2 0", s, hx([]byte(f.path)))
		n := r.Range(1, 9)
		g.e("0 - HWrite %d %s", s, hx(c10Content(r, n)))
		g.e("0 - HClose %d", s)
		if n > f.maxSize {
			f.maxSize = n
		}
		if f.t != 0 && r.Chance(3, 4) {
			f.t += 1000
			g.e("0 - Chtimes %s %d", hx([]byte(f.path)), f.t)
		} else {
			f.t = 0
		}
	default:
		if f.t == 0 {
			f.t = c10T0
		}
		f.t += 1000 * r.Range(-1, 2)
		g.e("0 - Chtimes %s %d", hx([]byte(f.path)), f.t)
	}
}

func genC10(r *Rng, large, big bool) []string {
	g := &c10Gen{r: r, large: large || big, big: big}
	dirs := []string{"", "/a", "/a/b", "/a/b/c", "/b", "/b/a"}
	seen := map[string]bool{}
	for i := r.Range(1, 4); i > 0; i-- {
		p := Pick(r, dirs) + "/" + Pick(r, []string{"f", "g", "h.txt"})
		if seen[p] || seen[parentOf(p)] {
			continue
		}
		seen[p] = true
		g.files = append(g.files, &c10File{path: p})
	}
	// the base, populated directly with explicit times T0 ± k·1000 s
	for _, f := range g.files {
		if r.Chance(1, 8) {
			continue // exists only later (or only in the cache)
		}
		f.t = c10T0 + 1000*r.Range(-3, 3)
		g.put("0", f, g.size(f), f.t)
		f.present = true
	}
	// optional pre-seeded cache copies: older / equal / newer than the base copy
	for _, f := range g.files {
		if r.Chance(1, 2) {
			continue
		}
		t := f.t
		if t == 0 {
			t = c10T0
		}
		g.put("1", f, g.size(f), t+1000*r.Range(-1, 1))
	}
	for i := r.Range(4, 12); i > 0; i-- {
		f := Pick(r, g.files)
		switch r.Intn(10) {
		case 0, 1, 2, 3:
			g.readLoop(f, func() { g.modifyBase(Pick(r, g.files)) })
		case 4:
			g.e(". - Stat %s", hx([]byte(f.path)))
		case 5:
			// a directory or a missing name through the cache
			if d := parentOf(f.path); r.Bool() {
				s := g.newSlot()
				g.e(". %d Open %s", s, hx([]byte(d)))
				g.e(". - HReaddirnames %d -1", s)
				g.e(". - HClose %d", s)
			} else {
				g.e(". %d Open %s", g.newSlot(), hx([]byte(f.path+"x")))
			}
		default:
			g.modifyBase(f)
		}
	}
	// every file once more at the end
	for _, f := range g.files {
		g.readLoop(f, nil)
	}
	g.e("snap 0")
	g.e("snap 1")
	return g.items
}

// unconstrained: populate both layers with well-formed programs, then any op through the union and
// on the layers directly (model correspondence only: ids "u…")
func genCacheUnconstrained(r *Rng) []string {
	itemsB, pathsB, next := populate(r.Fork(), "0", r.Range(3, 12), 0)
	itemsL, pathsL, next2 := populate(r.Fork(), "1", r.Range(0, 8), next)
	items := append(itemsB, itemsL...)
	seen := map[string]bool{}
	var paths []string
	for _, p := range append(pathsB, pathsL...) {
		if !seen[p] {
			seen[p] = true
			paths = append(paths, p)
		}
	}
	w := &WrapGen{r: r, Paths: paths, Next: next2, Tgt: ".", NoPaging: true}
	for i := r.Range(5, 25); i > 0; i-- {
		w.Tgt = "."
		if r.Chance(1, 6) {
			w.Tgt = Pick(r, []string{"0", "1"})
		}
		w.Step()
	}
	items = append(items, w.Items...)
	return append(items, "snap 0", "snap 1")
}

var cacheStacks = []string{"cache:0(mem,mem)", "cache:1000(mem,mem)"}

func runC10(c *Ctx) {
	if c.From != nil {
		for _, cs := range c.From {
			t := strings.Fields(cs[0])
			c10Case(c, t[1], t[2], cs[1:len(cs)-1])
		}
		return
	}
	runOSCacheLayer(c)
	runC10Subsecond(c)
	runC10OddBases(c)
	// modification times far outside the usual range (the zero time.Time of filesystems without
	// timestamps, the 17th and the 31st century): the copy carries the base's time, whatever it is
	for xi, stack := range cacheStacks {
		for ti, t := range []int64{-62135596800, -9000000000, -6795364579, 0} { // year 1, 1684, 1754, 1970
			items := []string{"0 0 Create 2f66", "0 - HWrite 0 6f6c64", "0 - HClose 0", fmt.Sprintf("0 - Chtimes 2f66 %d", t),
				". 1 Open 2f66", ". - HRead 1 100", ". - HClose 1", ". - Stat 2f66", "1 - Stat 2f66", "0 - Stat 2f66",
				". 2 Open 2f66", ". - HRead 2 100", ". - HClose 2", "snap 0", "snap 1"}
			c10Case(c, fmt.Sprintf("xt%d_%d", xi, ti), stack, items)
		}
	}
	// a name-taking call through the cache as the FIRST access to an expired, outdated copy, then reads:
	// the call must not leave the old copy looking fresh
	for xi, stack := range cacheStacks {
		for ci, call := range []string{"Chtimes 2f66 %d", "Chmod 2f66 384", "Chown 2f66 1 1"} {
			if strings.Contains(call, "%d") {
				call = fmt.Sprintf(call, c10T0+5000)
			}
			items := []string{"0 0 Create 2f66", "0 - HWrite 0 6f6c64", "0 - HClose 0", fmt.Sprintf("0 - Chtimes 2f66 %d", c10T0),
				". 1 Open 2f66", ". - HRead 1 100", ". - HClose 1",
				"0 2 Create 2f66", "0 - HWrite 2 6e65776572", "0 - HClose 2", fmt.Sprintf("0 - Chtimes 2f66 %d", c10T0+1000),
				". - " + call,
				". 3 Open 2f66", ". - HRead 3 100", ". - HClose 3", ". - Stat 2f66",
				". 4 OpenFile 2f66 0 0", ". - HRead 4 100", ". - HClose 4", "snap 0", "snap 1"}
			c10Case(c, fmt.Sprintf("xc%d_%d", xi, ci), stack, items)
		}
	}
	// a cached file whose base was rewritten directly, read through a READ-WRITE handle of the cache
	// (a union handle) by Read and by ReadAt: the cached bytes, as for any other handle
	for xi, stack := range cacheStacks {
		for fi, fl := range []int{2, 1026, 0} {
			items := []string{"0 0 Create 2f66", "0 - HWrite 0 636f6e74656e7421", "0 - HClose 0", fmt.Sprintf("0 - Chtimes 2f66 %d", c10T0),
				". 1 Open 2f66", ". - HRead 1 100", ". - HClose 1",
				"0 2 Create 2f66", "0 - HWrite 2 2a494e2042415345", "0 - HClose 2", fmt.Sprintf("0 - Chtimes 2f66 %d", c10T0-1000),
				fmt.Sprintf(". 3 OpenFile 2f66 %d 0", fl), ". - HReadAt 3 100 0", ". - HReadAt 3 3 5", ". - HRead 3 4", ". - HReadAt 3 2 1", ". - HRead 3 100", ". - HClose 3", "snap 0", "snap 1"}
			c10Case(c, fmt.Sprintf("xr%d_%d", xi, fi), stack, items)
		}
	}
	// the rules on the smallest inputs: one file, a seeded copy older / equal / newer, base then rewritten
	// with an older / equal / newer stamp or none, read through the cache before and after
	k := 0
	for _, stack := range cacheStacks {
		for seed := -2; seed <= 1; seed++ { // -2 = no seeded copy
			for _, stamp := range []int{-1000, 0, 1000, 1} { // 1 = no Chtimes after the rewrite (mtime = now)
				for _, how := range []string{"Open", "OpenFile", "Stat"} {
					items := []string{"0 0 Create 2f66", "0 - HWrite 0 6f6c64", "0 - HClose 0", fmt.Sprintf("0 - Chtimes 2f66 %d", c10T0)}
					if seed != -2 {
						items = append(items, "1 1 Create 2f66", "1 - HWrite 1 63616368", "1 - HClose 1", fmt.Sprintf("1 - Chtimes 2f66 %d", c10T0+1000*seed))
					}
					read := func(s int) {
						switch how {
						case "Open":
							items = append(items, fmt.Sprintf(". %d Open 2f66", s), fmt.Sprintf(". - HRead %d 100", s), fmt.Sprintf(". - HRead %d 100", s), fmt.Sprintf(". - HClose %d", s))
						case "OpenFile":
							items = append(items, fmt.Sprintf(". %d OpenFile 2f66 0 0", s), fmt.Sprintf(". - HRead %d 2", s), fmt.Sprintf(". - HRead %d 100", s), fmt.Sprintf(". - HRead %d 100", s), fmt.Sprintf(". - HClose %d", s))
						default:
							items = append(items, ". - Stat 2f66")
						}
					}
					read(2)
					items = append(items, "0 3 Create 2f66", "0 - HWrite 3 6e65776572", "0 - HClose 3")
					if stamp != 1 {
						items = append(items, fmt.Sprintf("0 - Chtimes 2f66 %d", c10T0+stamp))
					}
					read(4)
					read(5)
					items = append(items, "0 - Remove 2f66")
					read(6)
					items = append(items, "snap 0", "snap 1")
					c10Case(c, fmt.Sprintf("e%d", k), stack, items)
					k++
				}
			}
		}
	}
	c.Extra["rule_sweep"] = fmt.Sprintf("%d cases: duration {0,1000 s} x seeded copy {none, older, equal, newer} x rewrite stamp {older, equal, newer, now} x {Open, OpenFile(O_RDONLY), Stat}", k)
	n := 400
	if c.Tier == "thorough" {
		n = 6000
	}
	for i := 0; i < n; i++ {
		stack := cacheStacks[i%2]
		r := c.Rng.Fork()
		if i%8 == 7 {
			c10Case(c, fmt.Sprintf("u%d", i), stack, genCacheUnconstrained(r))
			continue
		}
		items := genC10(r, i%24 < 2, c.Tier == "thorough" && i%96 < 2 || i == 16 || i == 33)
		c10Case(c, fmt.Sprintf("r%d", i), stack, items)
		if i < 2 {
			c.Sample("case " + stack + ": " + strings.Join(items, " ; "))
		}
	}
}

// ---------------------------------------------------------------------------------------- C11

// an independent copy of a MemMapFs layer (paths, bytes, permission bits, mtimes), built through the public API
func cloneMem(src afero.Fs) afero.Fs {
	es := afero.VerifDump(src)
	sort.Slice(es, func(i, j int) bool { return es[i].Path < es[j].Path })
	dst := afero.NewMemMapFs()
	for _, e := range es {
		if e.Dir {
			dst.MkdirAll(e.Path, e.Mode.Perm())
		} else {
			afero.WriteFile(dst, e.Path, e.Data, e.Mode.Perm())
		}
	}
	for _, e := range es {
		dst.Chmod(e.Path, e.Mode.Perm())
		dst.Chtimes(e.Path, e.ModTime, e.ModTime)
	}
	return dst
}

func resOK(out string) bool {
	return out == "ok" || out == "handle" || strings.HasPrefix(out, "info:")
}

// the MemMapFs at the bottom of a (possibly wrapped) layer
func memUnder(l *Layer) afero.Fs {
	for l.Kind != "mem" && len(l.Kids) > 0 {
		l = l.Kids[0]
	}
	return l.Fs
}

func c11Case(c *Ctx, id, stack string, items []string) {
	in := NewInterp(stack)
	base, layer := memUnder(in.Top.At("0")), in.Top.At("1").Fs
	wrappedBase := in.Top.At("0").Kind != "mem" // e.g. a ReadOnlyFs: the reference call on the bare base does not apply
	dur := time.Duration(cacheDurSec(stack)) * time.Second
	c.Case("case %s %s", id, stack)
	failed := strings.HasPrefix(id, "u")
	viaWrapper := map[string]bool{}
	lastOn := map[string]string{} // slot -> "HReadAt" while a ReadAt may have moved the base handle alone
	for i, it := range items {
		c.Case("%s", it)
		f := strings.Fields(it)
		isH := len(f) > 3 && handleOps[f[2]]
		through := f[0] == "." && len(f) > 2 && !isH
		if through && f[1] != "-" {
			viaWrapper[f[1]] = true
		}
		if isH && viaWrapper[f[3]] {
			through = true
		}
		ref := ""
		if through && !failed && !isH && !wrappedBase {
			// the same call on a copy of the base alone
			rf := &Interp{Top: &Layer{Kind: "mem", Fs: cloneMem(base)}, Slots: map[int]afero.File{}}
			ref = rf.Exec(". - " + strings.Join(f[2:], " "))
		}
		out := in.Exec(it)
		c.Impl("%s#%d %s", id, i, out)
		c.Count("op." + opName(it))
		c.Count("res." + strings.SplitN(out, ":", 2)[0])
		if out == "panic" {
			c.Count("panic." + opName(it))
			break
		}
		sig := opName(it)
		if isH {
			// a ReadAt on this handle since the offsets were last set absolutely (Seek from start / end)
			switch {
			case f[2] == "HReadAt" && strings.HasPrefix(out, "data:"):
				lastOn[f[3]] = "HReadAt"
			case f[2] == "HSeek" && f[5] != "1" && strings.HasSuffix(out, ":-"):
				delete(lastOn, f[3])
			case lastOn[f[3]] == "HReadAt":
				sig += "-after-HReadAt"
			}
		}
		if !through || failed {
			continue
		}
		bm, lm := dumpMap(base), dumpMap(layer)
		paths := make([]string, 0, len(lm))
		for p := range lm {
			paths = append(paths, p)
		}
		sort.Strings(paths)
		for _, p := range paths {
			le := lm[p]
			if le.dir {
				continue
			}
			be, ok := bm[p]
			if !ok || be.dir || be.data != le.data {
				failed = true
				c.Oracle("FAIL %s layers-diverge:%s after step %d (%s -> %s) the cache layer holds %s = %s, the base %s (present=%v dir=%v)", id, sig, i, it, out,
					p, short([]byte(le.data)), short([]byte(be.data)), ok, be.dir)
				break
			}
		}
		if failed {
			continue
		}
		cu := afero.NewCacheOnReadFs(cloneMem(base), cloneMem(layer), dur)
		paths = paths[:0]
		for p := range bm {
			paths = append(paths, p)
		}
		sort.Strings(paths)
		for _, p := range paths {
			if bm[p].dir {
				continue
			}
			got, err := afero.ReadFile(cu, p)
			if err != nil || string(got) != bm[p].data {
				failed = true
				c.Oracle("FAIL %s read-differs-from-base:%s after step %d (%s -> %s) ReadFile(%s) through the cache = %s err=%v, the base holds %s", id, sig, i, it, out,
					p, short(got), err, short([]byte(bm[p].data)))
				break
			}
		}
		if failed {
			continue
		}
		if ref != "" && resOK(ref) && !resOK(out) {
			failed = true
			c.Oracle("FAIL %s call-fails-through-cache:%s:%s step %d (%s) returns %s through the cache; the same call on the base alone: %s", id, sig, strings.TrimPrefix(out, "err:"), i, it, out, ref)
		}
	}
	c.Case("end")
	c.NCases++
}

// a coherent (base, cache) pair: one tree in the base; the cache holds all of it, part of it or nothing,
// cached files byte-identical with the base's mtime (what a cache fill leaves), directories equal or newer
func genCoherentPair(r *Rng) (items []string, nodes map[string]*absNode, nextSlot int) {
	g := NewGen(r.Fork())
	g.Spell = false
	for i := r.Range(3, 12); i > 0; i-- {
		if p, ok := g.freeName(); ok {
			g.nodes[p] = &absNode{dir: r.Intn(3) == 0}
		}
	}
	mode := r.Intn(3) // 0 full, 1 partial, 2 empty cache
	slot := 0
	e := func(format string, a ...any) { items = append(items, fmt.Sprintf(format, a...)) }
	inCache := map[string]bool{}
	k := 0
	for _, p := range g.sorted() {
		if p == "/" {
			continue
		}
		n := g.nodes[p]
		cached := mode == 0 || mode == 1 && r.Bool()
		var content []byte
		if !n.dir {
			content = make([]byte, r.Range(0, 11))
			for q := range content {
				content[q] = Pick(r, []byte("helo wrd\x00"))
			}
		}
		for li := 0; li < 2; li++ {
			if li == 1 && !cached {
				continue
			}
			if n.dir {
				e("%d - MkdirAll %s 493", li, hx([]byte(p)))
			} else {
				e("%d - MkdirAll %s 493", li, hx([]byte(parentOf(p))))
				e("%d %d Create %s", li, slot, hx([]byte(p)))
				if len(content) > 0 {
					e("%d - HWrite %d %s", li, slot, hx(content))
				}
				e("%d - HClose %d", li, slot)
				slot++
			}
			if li == 1 {
				inCache[p] = true
				for q := parentOf(p); q != "/"; q = parentOf(q) {
					inCache[q] = true
				}
			}
		}
	}
	for _, p := range g.sorted() {
		t := 1000000000 + 1000*(k%4)
		k++
		e("0 - Chtimes %s %d", hx([]byte(p)), t)
		if inCache[p] || p == "/" {
			if g.nodes[p].dir && r.Chance(1, 3) {
				t += 1000
			}
			e("1 - Chtimes %s %d", hx([]byte(p)), t)
		}
	}
	return items, g.nodes, slot
}

func genC11(r *Rng) []string {
	setup, nodes, next := genCoherentPair(r)
	g := NewGen(r)
	g.nodes = nodes
	g.next = next
	g.Target = "."
	g.NoPaging = true
	for i := r.Range(5, 25); i > 0; i-- {
		g.Step()
	}
	items := append(setup, g.Items...)
	return append(items, "snap 0", "snap 1")
}

var c11Menu = []string{"HRead 0 3", "HRead 0 0", "HReadAt 0 1 0", "HReadAt 0 4 2", "HReadAt 0 5 9", "HWrite 0 5859", "HWriteAt 0 51 1", "HWriteString 0 5a",
	"HSeek 0 2 0", "HSeek 0 1 1", "HSeek 0 -2 2", "HTruncate 0 4", "HTruncate 0 14", "HSync 0", "HStat 0"}

func runC11(c *Ctx) {
	if c.From != nil {
		for _, cs := range c.From {
			t := strings.Fields(cs[0])
			c11Case(c, t[1], t[2], cs[1:len(cs)-1])
		}
		return
	}
	runOSCacheLayer(c)
	runC11RealClock(c)
	runC11OSWriteOnly(c)
	c.Extra["refresh_sweep"] = fmt.Sprintf("%d cases: a write handle from Create / OpenFile kept open, a first write, the two copies age (5 ways), one call through the cache that names the file (9: Open, OpenFile x4, Chmod, Chtimes, Rename, Stat), further writes through the first handle, reads", c11RefreshSweep(c))
	// small scope, exhaustive: "hello world" cached coherently, one O_RDWR handle through the cache, every
	// sequence of 2 (quick) / 3 (thorough) handle methods from a menu of 14
	depth := 2
	if c.Tier == "thorough" {
		depth = 3
	}
	k := 0
	var rec func(prefix []string, d int)
	for _, stack := range cacheStacks {
		for _, cached := range []bool{true, false} {
			rec = func(prefix []string, d int) {
				if d == 0 {
					items := []string{"0 9 Create 2f66", "0 - HWrite 9 68656c6c6f20776f726c64", "0 - HClose 9", "0 - Chtimes 2f66 1000000000", "0 - Chtimes 2f 1000000000"}
					if cached {
						items = append(items, "1 8 Create 2f66", "1 - HWrite 8 68656c6c6f20776f726c64", "1 - HClose 8", "1 - Chtimes 2f66 1000000000", "1 - Chtimes 2f 1000000000")
					}
					items = append(items, ". 0 OpenFile 2f66 2 0")
					for _, m := range prefix {
						items = append(items, ". - "+m)
					}
					items = append(items, ". - HClose 0", "snap 0", "snap 1")
					c11Case(c, fmt.Sprintf("e%d", k), stack, items)
					k++
					return
				}
				for _, m := range c11Menu {
					rec(append(append([]string{}, prefix...), m), d-1)
				}
			}
			if !cached && depth == 3 {
				rec(nil, 2)
			} else {
				rec(nil, depth)
			}
		}
	}
	// every combination of the access / creation bits on a cached file, a file only in the base and a new name
	nf := 0
	for _, stack := range append(append([]string{}, cacheStacks...), "cache:0(ro(mem),mem)", "cache:1000(ro(mem),mem)") {
		bt := "0" // the target that fills the base directly
		if strings.Contains(stack, "(ro(") {
			bt = "00"
		}
		for _, cached := range []bool{true, false} {
			for m := 0; m < 1<<6; m++ {
				fl := 0
				for bi, bit := range []int{1, 2, oCREATE, oEXCL, oTRUNC, oAPPEND} {
					if m&(1<<bi) != 0 {
						fl |= bit
					}
				}
				if fl&3 == 3 {
					continue
				}
				items := []string{bt + " 9 Create 2f66", bt + " - HWrite 9 68656c6c6f20776f726c64", bt + " - HClose 9", bt + " - Chtimes 2f66 1000000000", bt + " - Chtimes 2f 1000000000"}
				if cached {
					items = append(items, "1 8 Create 2f66", "1 - HWrite 8 68656c6c6f20776f726c64", "1 - HClose 8", "1 - Chtimes 2f66 1000000000", "1 - Chtimes 2f 1000000000")
				}
				items = append(items, fmt.Sprintf(". 0 OpenFile 2f66 %d 420", fl), ". - HWrite 0 5859", ". - HClose 0",
					fmt.Sprintf(". 1 OpenFile 2f6e6577 %d 420", fl), ". - HWrite 1 71", ". - HClose 1", "snap 0", "snap 1")
				c11Case(c, fmt.Sprintf("fl%d", nf), stack, items)
				nf++
			}
		}
	}
	// calls that the BASE refuses because a name on the way is a regular file there (ENOTDIR) while
	// the cache layer, which holds less, would accept them: nothing may change in the layer either
	nb := 0
	for _, stack := range cacheStacks {
		for _, call := range []string{"Rename 2f66 2f672f78", "Rename 2f66 2f672f782f79", "Mkdir 2f672f64 493", "MkdirAll 2f672f642f65 493", "Create 2f672f6e", "OpenFile 2f672f6e 66 420", "Rename 2f642f68 2f672f68"} {
			for _, cached := range []bool{true, false} {
				items := []string{"0 9 Create 2f66", "0 - HWrite 9 68656c6c6f", "0 - HClose 9", "0 8 Create 2f67", "0 - HWrite 8 67", "0 - HClose 8",
					"0 - Mkdir 2f64 493", "0 7 Create 2f642f68", "0 - HWrite 7 68", "0 - HClose 7",
					"0 - Chtimes 2f66 1000000000", "0 - Chtimes 2f67 1000000000", "0 - Chtimes 2f642f68 1000000000", "0 - Chtimes 2f64 1000000000", "0 - Chtimes 2f 1000000000"}
				if cached { // /f and /d/h are cached, /g (the regular file in the way) is not
					items = append(items, "1 6 Create 2f66", "1 - HWrite 6 68656c6c6f", "1 - HClose 6", "1 - Chtimes 2f66 1000000000",
						"1 - Mkdir 2f64 493", "1 5 Create 2f642f68", "1 - HWrite 5 68", "1 - HClose 5", "1 - Chtimes 2f642f68 1000000000", "1 - Chtimes 2f64 1000000000", "1 - Chtimes 2f 1000000000")
				}
				slot := "-"
				if strings.HasPrefix(call, "Create") || strings.HasPrefix(call, "OpenFile") {
					slot = "0"
				}
				items = append(items, ". "+slot+" "+call, ". - Stat 2f66", ". - Stat 2f67", "snap 0", "snap 1")
				c11Case(c, fmt.Sprintf("bf%d", nb), stack, items)
				nb++
			}
		}
	}
	c.Extra["flag_sweep"] = fmt.Sprintf("%d cases: OpenFile through the cache with every combination of O_WRONLY/O_RDWR/O_CREATE/O_EXCL/O_TRUNC/O_APPEND on a cached file, a file only in the base, a new name", nf)
	// single calls through the cache on a tree (/d, /d/f, /g) that only the base has, that is partly cached (/g), fully cached
	nm := 0
	for _, stack := range cacheStacks {
		for cached := 0; cached < 3; cached++ {
			for _, call := range []string{"Chmod 2f64 448", "Chtimes 2f64 1000003000", "Rename 2f64 2f65", "RemoveAll 2f64", "Remove 2f67", "Rename 2f67 2f68",
				"Chmod 2f67 384", "Chtimes 2f67 1000003000", "Remove 2f642f66", "Rename 2f642f66 2f68", "Mkdir 2f642f6e 493", "MkdirAll 2f642f6e2f6d 493",
				"Create 2f67", "Create 2f642f6e", "OpenFile 2f67 1025 420", "OpenFile 2f67 1537 420", "OpenFile 2f6e 194 420", "OpenFile 2f67 2 0", "Open 2f64", "Open 2f67", "Stat 2f64"} {
				items := []string{"0 - Mkdir 2f64 493", "0 9 Create 2f642f66", "0 - HWrite 9 616263", "0 - HClose 9", "0 8 Create 2f67", "0 - HWrite 8 78797a", "0 - HClose 8",
					"0 - Chtimes 2f642f66 1000000000", "0 - Chtimes 2f67 1000000000", "0 - Chtimes 2f64 1000000000", "0 - Chtimes 2f 1000000000"}
				if cached >= 1 {
					items = append(items, "1 7 Create 2f67", "1 - HWrite 7 78797a", "1 - HClose 7", "1 - Chtimes 2f67 1000000000", "1 - Chtimes 2f 1000000000")
				}
				if cached == 2 {
					items = append(items, "1 - Mkdir 2f64 493", "1 6 Create 2f642f66", "1 - HWrite 6 616263", "1 - HClose 6", "1 - Chtimes 2f642f66 1000000000", "1 - Chtimes 2f64 1000000000")
				}
				slot := "-"
				if strings.HasPrefix(call, "Create") || strings.HasPrefix(call, "Open") {
					slot = "0"
				}
				items = append(items, ". "+slot+" "+call)
				if slot == "0" {
					if strings.HasPrefix(call, "Open 2f64") {
						items = append(items, ". - HReaddirnames 0 -1")
					} else if !strings.HasPrefix(call, "Open ") {
						items = append(items, ". - HWrite 0 5859")
					}
					items = append(items, ". - HClose 0")
				}
				items = append(items, "snap 0", "snap 1")
				c11Case(c, fmt.Sprintf("m%d", nm), stack, items)
				nm++
			}
		}
	}
	c.Extra["call_sweep"] = fmt.Sprintf("%d cases: one call through the cache on a tree the cache holds nothing / part / all of", nm)
	c.Extra["handle_sweep"] = fmt.Sprintf("%d cases: every sequence of up to %d of 14 handle methods on an O_RDWR handle from CacheOnReadFs.OpenFile, file cached / not yet cached, duration 0 / 1000 s", k, depth)
	n := 400
	if c.Tier == "thorough" {
		n = 20000
	}
	for i := 0; i < n; i++ {
		stack := cacheStacks[i%2]
		r := c.Rng.Fork()
		if i%8 == 7 {
			c11Case(c, fmt.Sprintf("u%d", i), stack, genCacheUnconstrained(r))
			continue
		}
		items := genC11(r)
		c11Case(c, fmt.Sprintf("r%d", i), stack, items)
		if i < 2 {
			c.Sample("case " + stack + ": " + strings.Join(items, " ; "))
		}
	}
	// handles kept open while copies age and are refreshed (c11refresh.go); 3 of 4 with a positive duration
	for i := 0; i < n/2; i++ {
		stack := cacheStacks[1]
		if i%4 == 3 {
			stack = cacheStacks[0]
		}
		items := genC11Refresh(c.Rng.Fork())
		c11Case(c, fmt.Sprintf("rr%d", i), stack, items)
		if i < 1 {
			c.Sample("case " + stack + ": " + strings.Join(items, " ; "))
		}
	}
}

// modification times that differ by less than a second (oracle only: the item language and the
// model count whole seconds): an expired copy with a base that is newer by 1 ns .. 999 ms is stale
// Two configurations the generated histories do not reach (oracle only): a base behind the
// read-only wrapper the documentation recommends (it refuses every open with a write bit), read
// through Open, OpenFile(O_RDONLY) and ReadFile; and, with duration zero, a base file that GREW
// behind the cache, read to the end through a read-write handle ("served from the cache for ever,
// whatever later happens to the base").
func runC10OddBases(c *Ctx) {
	n := 0
	readAll := func(u afero.Fs, how string) ([]byte, error) {
		switch how {
		case "ReadFile":
			return afero.ReadFile(u, "/d/f")
		case "Open":
			h, err := u.Open("/d/f")
			if err != nil {
				return nil, err
			}
			defer h.Close()
			return io.ReadAll(h)
		}
		fl := os.O_RDONLY
		if how == "OpenFile-rdwr" {
			fl = os.O_RDWR
		}
		h, err := u.OpenFile("/d/f", fl, 0)
		if err != nil {
			return nil, err
		}
		defer h.Close()
		return io.ReadAll(h)
	}
	for _, dur := range []time.Duration{0, time.Hour} {
		for _, how := range []string{"ReadFile", "Open", "OpenFile-rdonly"} {
			n++
			c.Count("oddbase.readonly-base")
			mem, layer := afero.NewMemMapFs(), afero.NewMemMapFs()
			afero.WriteFile(mem, "/d/f", []byte("from the base"), 0o644)
			old := time.Now().Add(-3 * time.Hour).Truncate(time.Second)
			mem.Chtimes("/d/f", old, old)
			u := afero.NewCacheOnReadFs(afero.NewReadOnlyFs(mem), layer, dur)
			got, err := readAll(u, how)
			if err != nil || string(got) != "from the base" {
				c.Oracle("FAIL ob%d first-read:read-only-base %s of an uncached file through a cache (duration %v) whose base is ReadOnlyFs(MemMapFs) = %q, %v; the base holds %q", n, how, dur, got, err, "from the base")
				continue
			}
			if b, err := afero.ReadFile(layer, "/d/f"); err != nil || string(b) != "from the base" {
				c.Oracle("FAIL ob%d cache-copy-differs:read-only-base after %s the layer holds %q, %v", n, how, b, err)
			}
		}
	}
	for _, how := range []string{"ReadFile", "Open", "OpenFile-rdonly", "OpenFile-rdwr"} {
		for _, grown := range []string{"abcDEFGH", "abXDEFGH", "a"} {
			n++
			c.Count("oddbase.base-changed-behind")
			base, layer := afero.NewMemMapFs(), afero.NewMemMapFs()
			afero.WriteFile(base, "/d/f", []byte("abc"), 0o644)
			u := afero.NewCacheOnReadFs(base, layer, 0)
			if got, err := afero.ReadFile(u, "/d/f"); err != nil || string(got) != "abc" {
				c.Oracle("FAIL ob%d first-read:base-changed-behind ReadFile = %q, %v", n, got, err)
				continue
			}
			afero.WriteFile(base, "/d/f", []byte(grown), 0o644)
			got, err := readAll(u, how)
			if err != nil || string(got) != "abc" {
				c.Oracle("FAIL ob%d zero-duration-not-served-from-cache:%s duration 0, cached copy \"abc\", the base rewritten directly to %q: %s through the cache = %q, %v", n, how, grown, how, got, err)
			}
		}
	}
	c.Extra["odd_bases"] = fmt.Sprintf("%d reads: base behind ReadOnlyFs (Open, OpenFile(O_RDONLY), ReadFile; durations 0 and 1h); duration 0 with the base rewritten longer/shorter behind the cache, read to the end through read-only and read-write handles (oracle only)", n)
}

func runC10Subsecond(c *Ctx) {
	n := 0
	// ... and by more than an hour, which puts the base's time stamp AHEAD of the clock (a base
	// written by a machine whose clock runs fast): "newer" is a comparison of the two stamps
	for _, delta := range []time.Duration{time.Nanosecond, time.Millisecond, 500 * time.Millisecond, 999 * time.Millisecond, 1500 * time.Millisecond,
		70 * time.Minute, 30 * 24 * time.Hour} {
		for _, how := range []string{"ReadFile", "OpenFile"} {
			n++
			base, layer := afero.NewMemMapFs(), afero.NewMemMapFs()
			u := afero.NewCacheOnReadFs(base, layer, time.Second)
			t0 := time.Now().Add(-time.Hour).Truncate(time.Second)
			afero.WriteFile(base, "/f", []byte("first version"), 0o644)
			base.Chtimes("/f", t0, t0)
			if got, err := afero.ReadFile(u, "/f"); err != nil || string(got) != "first version" {
				c.Oracle("FAIL sub%d first-read:subsecond ReadFile = %q, %v", n, got, err)
				continue
			}
			afero.WriteFile(base, "/f", []byte("second version"), 0o644)
			base.Chtimes("/f", t0.Add(delta), t0.Add(delta))
			var got []byte
			var err error
			if how == "ReadFile" {
				got, err = afero.ReadFile(u, "/f")
			} else {
				var h afero.File
				if h, err = u.OpenFile("/f", os.O_RDONLY, 0); err == nil {
					got, err = io.ReadAll(h)
					h.Close()
				}
			}
			c.Count("subsecond." + how)
			if err != nil || string(got) != "second version" {
				c.Oracle("FAIL sub%d stale-copy-served:subsecond the cached copy is an hour older than the duration and the base is newer by %v: %s through the cache returned %q, %v; the base holds %q", n, delta, how, got, err, "second version")
			}
		}
	}
	c.Extra["subsecond"] = fmt.Sprintf("%d reads of an expired copy whose base is newer by 1ns..1.5s, or stamped ahead of the clock (oracle only)", n)
}
