package main

import "path/filepath"

func pathClean(p string) string { return filepath.Clean(p) }
