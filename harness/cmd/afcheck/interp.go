package main

// interp.go — interpreter of the top-level case language over real afero filesystems.

import (
	iofs "io/fs"
	"sort"
	"fmt"
	"os"
	"regexp"
	"strconv"
	"strings"
	"time"

	"github.com/spf13/afero"
)

type Layer struct {
	Kind string
	Fs   afero.Fs
	Kids []*Layer
	Arg  string
}

// stack descriptors:  mem | ro(S) | bp:<hex>(S) | re:<n>(S) | cow(S,S) | cache:<dur>(S,S)
func parseStack(s string) *Layer {
	pos := 0
	var expr func() *Layer
	ident := func() string {
		st := pos
		for pos < len(s) && s[pos] != '(' && s[pos] != ')' && s[pos] != ',' {
			pos++
		}
		return s[st:pos]
	}
	expect := func(c byte) {
		if pos >= len(s) || s[pos] != c {
			panic("stack syntax: " + s)
		}
		pos++
	}
	expr = func() *Layer {
		id := ident()
		if id == "mem" {
			return &Layer{Kind: "mem", Fs: afero.NewMemMapFs()}
		}
		expect('(')
		kids := []*Layer{expr()}
		for pos < len(s) && s[pos] == ',' {
			pos++
			kids = append(kids, expr())
		}
		expect(')')
		return buildLayer(id, kids)
	}
	return expr()
}

var layerBuilders = map[string]func(arg string, kids []*Layer) afero.Fs{
	"ro": func(arg string, kids []*Layer) afero.Fs { return afero.NewReadOnlyFs(kids[0].Fs) },
	"bp": func(arg string, kids []*Layer) afero.Fs { return afero.NewBasePathFs(kids[0].Fs, string(unhx(arg))) },
	"re": func(arg string, kids []*Layer) afero.Fs {
		return afero.NewRegexpFs(kids[0].Fs, regexp.MustCompile(RegexpPatterns[atoi(arg)]))
	},
	"cow": func(arg string, kids []*Layer) afero.Fs { return afero.NewCopyOnWriteFs(kids[0].Fs, kids[1].Fs) },
	"cache": func(arg string, kids []*Layer) afero.Fs {
		return afero.NewCacheOnReadFs(kids[0].Fs, kids[1].Fs, time.Duration(atoi(arg))*time.Second)
	},
}

// the patterns behind re:<n>; the Coq model has the same three as functions (Stack.v re_match)
var RegexpPatterns = []string{`\.txt$`, `(^|/)[ab]+$`, `(^|/)a[^/]*$`}

func buildLayer(id string, kids []*Layer) *Layer {
	kind, arg := id, ""
	if i := strings.IndexByte(id, ':'); i >= 0 {
		kind, arg = id[:i], id[i+1:]
	}
	b, ok := layerBuilders[kind]
	if !ok {
		panic("unknown stack element " + id)
	}
	return &Layer{Kind: kind, Fs: b(arg, kids), Kids: kids, Arg: arg}
}

func (l *Layer) At(tgt string) *Layer {
	if tgt == "." {
		return l
	}
	cur := l
	for _, c := range tgt {
		i := int(c - '0')
		if i >= len(cur.Kids) {
			return nil
		}
		cur = cur.Kids[i]
	}
	return cur
}

type Interp struct {
	Top   *Layer
	Slots map[int]afero.File
}

func NewInterp(stack string) *Interp {
	return &Interp{Top: parseStack(stack), Slots: map[int]afero.File{}}
}

func atoi(s string) int {
	v, err := strconv.Atoi(s)
	if err != nil {
		panic(err)
	}
	return v
}

func tm(sec int) time.Time { return time.Unix(int64(sec), 0) }

var handleOps = map[string]bool{"HRead": true, "HReadAt": true, "HWrite": true, "HWriteAt": true, "HWriteString": true,
	"HSeek": true, "HTruncate": true, "HClose": true, "HReaddir": true, "HReaddirnames": true, "HStat": true, "HName": true, "HSync": true,
	// HReadDir: always the io/fs spelling ReadDir (fs.ReadDirFile) of the handle; the model answers it like HReaddir
	"HReadDir": true}

// Exec runs one item line and returns the canonical result.
func (in *Interp) Exec(line string) (out string) {
	t := strings.Fields(line)
	defer func() {
		if r := recover(); r != nil {
			out = "panic"
			lastPanic = fmt.Sprint(r)
		}
	}()
	if t[0] == "snap" {
		l := in.Top.At(t[1])
		return snapS(afero.VerifDump(l.Fs))
	}
	if t[0] == "index" {
		l := in.Top.At(t[1])
		return indexS(afero.VerifDump(l.Fs))
	}
	l := in.Top.At(t[0])
	slot := -1
	if t[1] != "-" {
		slot = atoi(t[1])
	}
	name, a := t[2], t[3:]
	if handleOps[name] {
		f, ok := in.Slots[atoi(a[0])]
		if !ok {
			return "noslot"
		}
		return execHandle(f, name, a[1:])
	}
	if l == nil {
		return "noslot"
	}
	fs := l.Fs
	p := func(i int) string { return string(unhx(a[i])) }
	bind := func(f afero.File, err error) string {
		if err != nil {
			return "err:" + errClass(err)
		}
		if slot >= 0 {
			in.Slots[slot] = f
		}
		return "handle"
	}
	e := func(err error) string {
		if err != nil {
			return "err:" + errClass(err)
		}
		return "ok"
	}
	switch name {
	case "Create":
		return bind(fs.Create(p(0)))
	case "Mkdir":
		return e(fs.Mkdir(p(0), os.FileMode(atoi(a[1]))))
	case "MkdirAll":
		return e(fs.MkdirAll(p(0), os.FileMode(atoi(a[1]))))
	case "Open":
		return bind(fs.Open(p(0)))
	case "OpenFile":
		return bind(fs.OpenFile(p(0), atoi(a[1]), os.FileMode(atoi(a[2]))))
	case "Remove":
		return e(fs.Remove(p(0)))
	case "RemoveAll":
		return e(fs.RemoveAll(p(0)))
	case "Rename":
		return e(fs.Rename(p(0), p(1)))
	case "Stat":
		fi, err := fs.Stat(p(0))
		if err != nil {
			return "err:" + errClass(err)
		}
		return "info:" + fiS(fi)
	case "Chmod":
		return e(fs.Chmod(p(0), os.FileMode(atoi(a[1]))))
	case "Chown":
		return e(fs.Chown(p(0), atoi(a[1]), atoi(a[2])))
	case "Chtimes":
		return e(fs.Chtimes(p(0), tm(atoi(a[1])), tm(atoi(a[1]))))
	}
	panic("unknown op " + name)
}

var lastPanic string

func execHandle(f afero.File, name string, a []string) string {
	switch name {
	case "HRead":
		n := atoi(a[0])
		buf := make([]byte, n)
		k, err := f.Read(buf)
		if k < 0 || k > n {
			return fmt.Sprintf("badcount:%d", k)
		}
		res := fmt.Sprintf("data:%s:%s", hx(buf[:k]), errClass(err))
		scribble(buf) // the caller owns the buffer again: what it does with it must not reach the file
		return res
	case "HReadAt":
		n := atoi(a[0])
		buf := make([]byte, n)
		k, err := f.ReadAt(buf, int64(atoi(a[1])))
		if k < 0 || k > n {
			return fmt.Sprintf("badcount:%d", k)
		}
		res := fmt.Sprintf("data:%s:%s", hx(buf[:k]), errClass(err))
		scribble(buf)
		return res
	case "HWrite":
		buf := unhx(a[0])
		k, err := f.Write(buf)
		scribble(buf) // a Write must not retain the caller's slice
		return fmt.Sprintf("count:%d:%s", k, errClass(err))
	case "HWriteAt":
		buf := unhx(a[0])
		k, err := f.WriteAt(buf, int64(atoi(a[1])))
		scribble(buf)
		return fmt.Sprintf("count:%d:%s", k, errClass(err))
	case "HWriteString":
		k, err := f.WriteString(string(unhx(a[0])))
		return fmt.Sprintf("count:%d:%s", k, errClass(err))
	case "HSeek":
		k, err := f.Seek(int64(atoi(a[0])), atoi(a[1]))
		return fmt.Sprintf("pos:%d:%s", k, errClass(err))
	case "HTruncate":
		err := f.Truncate(int64(atoi(a[0])))
		if err != nil {
			return "err:" + errClass(err)
		}
		return "ok"
	case "HClose":
		err := f.Close()
		if err != nil {
			return "err:" + errClass(err)
		}
		return "ok"
	case "HReaddir":
		// a third of the calls (by the digest of the arguments) use the io/fs spelling ReadDir of
		// handles that have one (mem.File): same entries, same error
		if rd, ok := f.(iofs.ReadDirFile); ok && fnvStr(strings.Join(a, ","))%3 == 0 {
			des, err := rd.ReadDir(atoi(a[0]))
			parts := make([]string, len(des))
			for i, de := range des {
				d := "f"
				if de.IsDir() {
					d = "d"
				}
				parts[i] = hx([]byte(de.Name())) + "|" + d
			}
			sort.Strings(parts)
			return listRes("infos", strings.Join(parts, ","), len(des), err)
		}
		l, err := f.Readdir(atoi(a[0]))
		return listRes("infos", fisS(l), len(l), err)
	case "HReadDir":
		// the io/fs spelling on every call (HReaddir uses it for a third of them): same entries, same
		// error as Readdir; handles without ReadDir fall back to Readdir
		rd, ok := f.(iofs.ReadDirFile)
		if !ok {
			l, err := f.Readdir(atoi(a[0]))
			return listRes("infos", fisS(l), len(l), err)
		}
		des, err := rd.ReadDir(atoi(a[0]))
		parts := make([]string, len(des))
		for i, de := range des {
			d := "f"
			if de.IsDir() {
				d = "d"
			}
			parts[i] = hx([]byte(de.Name())) + "|" + d
		}
		sort.Strings(parts)
		return listRes("infos", strings.Join(parts, ","), len(des), err)
	case "HReaddirnames":
		l, err := f.Readdirnames(atoi(a[0]))
		return listRes("names", namesS(l), len(l), err)
	case "HStat":
		fi, err := f.Stat()
		if err != nil {
			return "err:" + errClass(err)
		}
		return "info:" + fiS(fi)
	case "HName":
		return "name:" + hx([]byte(f.Name()))
	case "HSync":
		err := f.Sync()
		if err != nil {
			return "err:" + errClass(err)
		}
		return "ok"
	}
	panic("unknown handle op " + name)
}

// RunCase executes a whole "case <id> <stack>" block (lines without header and "end") and
// writes the case and the observed results.
func RunCase(c *Ctx, id, stack string, items []string) []string {
	in := NewInterp(stack)
	c.Case("case %s %s", id, stack)
	outs := make([]string, len(items))
	for i, it := range items {
		c.Case("%s", it)
		outs[i] = in.Exec(it)
		c.Impl("%s#%d %s", id, i, outs[i])
		f := strings.Fields(it)
		if outs[i] == "panic" {
			outs = outs[:i+1]
			break
		}
		if len(f) > 2 {
			c.Count("op." + f[2])
			c.Count("res." + strings.SplitN(outs[i], ":", 2)[0])
			if strings.HasPrefix(outs[i], "err:") {
				c.Count("errclass." + outs[i][4:])
			}
		}
	}
	c.Case("end")
	c.NCases++
	return outs
}

// scribble overwrites a buffer that was handed to (or filled by) the implementation: an
// implementation that keeps the caller's slice instead of copying shows up as changed content
func scribble(b []byte) {
	for i := range b {
		b[i] = 0xEE
	}
}
