package main

// C01 — MemMapFs vs the operating-system filesystem on portable programs.
//   case <id> mem  ... items ...  end
// Three comparisons: MemMapFs vs the Coq model (every sequence, via impl.txt / modelrun),
// MemMapFs vs OsFs in a fresh temp dir (the property oracle, well-formed sequences only).

import (
	"fmt"
	"os"
	"sort"
	"strings"
	"syscall"
	"time"

	"github.com/spf13/afero"
)

func init() { props["C01"] = runC01 }

// prefixFs: OsFs with a directory prepended to every name by plain concatenation
type prefixFs struct {
	afero.Fs
	root string
}

func (p prefixFs) n(name string) string                         { return p.root + name }
func (p prefixFs) Create(name string) (afero.File, error)       { return p.Fs.Create(p.n(name)) }
func (p prefixFs) Mkdir(name string, m os.FileMode) error       { return p.Fs.Mkdir(p.n(name), m) }
func (p prefixFs) MkdirAll(name string, m os.FileMode) error    { return p.Fs.MkdirAll(p.n(name), m) }
func (p prefixFs) Open(name string) (afero.File, error)         { return p.Fs.Open(p.n(name)) }
func (p prefixFs) Remove(name string) error                     { return p.Fs.Remove(p.n(name)) }
func (p prefixFs) RemoveAll(name string) error                  { return p.Fs.RemoveAll(p.n(name)) }
func (p prefixFs) Rename(a, b string) error                     { return p.Fs.Rename(p.n(a), p.n(b)) }
func (p prefixFs) Stat(name string) (os.FileInfo, error)        { return p.Fs.Stat(p.n(name)) }
func (p prefixFs) Chmod(name string, m os.FileMode) error       { return p.Fs.Chmod(p.n(name), m) }
func (p prefixFs) Chown(name string, u, g int) error            { return p.Fs.Chown(p.n(name), u, g) }
func (p prefixFs) Chtimes(name string, a, m time.Time) error    { return p.Fs.Chtimes(p.n(name), a, m) }
func (p prefixFs) OpenFile(name string, f int, m os.FileMode) (afero.File, error) {
	return p.Fs.OpenFile(p.n(name), f, m)
}

// projection of a canonical result to what C01 compares between MemMapFs and the OS
func projOS(item, canon string) string {
	opname := opName(item)
	fl := strings.Fields(item)
	zeroLen := (opname == "HRead" || opname == "HReadAt") && len(fl) > 4 && fl[4] == "0"
	isRootStat := false
	if opname == "Stat" && len(fl) > 3 {
		isRootStat = true
		for _, seg := range strings.Split(string(unhx(fl[3])), "/") {
			if seg != "" && seg != "." {
				isRootStat = false
			}
		}
	}
	ec := func(c string) string {
		switch c {
		case "-", "NotExist", "Exist", "Closed":
			return c
		case "EOF", "UnexpectedEOF":
			return "EOF"
		}
		return "Err"
	}
	parts := strings.Split(canon, ":")
	switch parts[0] {
	case "ok", "handle", "noslot", "panic":
		return parts[0]
	case "err":
		return "err:" + ec(parts[1])
	case "info":
		f := strings.Split(parts[1], "|")
		if opname == "HStat" || f[0] == "-" || isRootStat {
			// os.File.Stat reports the name used at open time; the root has no portable name
			return fmt.Sprintf("info:%s|%s", f[1], f[2])
		}
		return fmt.Sprintf("info:%s|%s|%s", f[0], f[1], f[2])
	case "data":
		if zeroLen {
			// a zero-length read says nothing about end of file
			return fmt.Sprintf("data:%s", parts[1])
		}
		return fmt.Sprintf("data:%s:%s", parts[1], ec(parts[2]))
	case "count", "pos":
		if parts[2] != "-" {
			return parts[0] + ":err:" + ec(parts[2])
		}
		return canon
	case "infos", "names":
		n := 0
		if parts[1] != "" && parts[1] != "-" {
			n = len(strings.Split(parts[1], ","))
		}
		return fmt.Sprintf("%s:%d:%s", parts[0], n, ec(parts[2]))
	case "name":
		return "name"
	}
	return canon
}

// projPosix: a canonical result in the outcome language of the POSIX specification — the Go-side
// twin of Model/Posix.v mproj followed by ocaml/drv_c01.ml canon_pout (outcome class, handle, kind and
// size of Stat, bytes + EOF flag, count / offset, names of a directory page)
func projPosix(item, canon string) string {
	fl := strings.Fields(item)
	opname := opName(item)
	cls := func(c string) string {
		switch c {
		case "NotExist", "Exist", "Closed", "NotDir":
			return c
		}
		return "Other"
	}
	eof := func(c string) bool { return c == "EOF" || c == "UnexpectedEOF" }
	parts := strings.Split(canon, ":")
	switch parts[0] {
	case "noslot", "handle", "ok":
		return parts[0]
	case "name":
		return "ok"
	case "panic":
		return "fail:Other"
	case "err":
		return "fail:" + cls(parts[1])
	case "info":
		f := strings.Split(parts[1], "|")
		return fmt.Sprintf("stat:%s|%s", f[1], f[2])
	case "data":
		if parts[2] == "-" {
			return "bytes:" + parts[1] + ":-"
		}
		if eof(parts[2]) {
			flag := "eof"
			if (opname == "HRead" || opname == "HReadAt") && len(fl) > 4 && atoi(fl[4]) <= 0 {
				flag = "-"
			}
			return "bytes:" + parts[1] + ":" + flag
		}
		return "fail:" + cls(parts[2])
	case "count", "pos":
		if parts[2] == "-" {
			return "num:" + parts[1]
		}
		return "fail:" + cls(parts[2])
	case "infos", "names":
		var names []string
		if parts[1] != "" {
			for _, e := range strings.Split(parts[1], ",") {
				names = append(names, strings.SplitN(e, "|", 2)[0])
			}
		}
		sort.Strings(names)
		switch {
		case parts[2] == "-":
			return "names:" + strings.Join(names, ",") + ":-"
		case eof(parts[2]):
			return "names:" + strings.Join(names, ",") + ":eof"
		}
		return "fail:" + cls(parts[2])
	}
	return canon
}

// sweep: the visible tree through the API: Stat, ReadDir (sorted), ReadFile of every path
func sweep(fs afero.Fs, explicit map[string]bool) string {
	var out []string
	var rec func(p string)
	rec = func(p string) {
		fi, err := fs.Stat(p)
		if err != nil {
			out = append(out, fmt.Sprintf("%s|staterr:%s", p, errClass(err)))
			return
		}
		perm := "-"
		if explicit[p] {
			perm = fmt.Sprintf("%o", uint32(fi.Mode()&(os.ModePerm|os.ModeSticky|os.ModeSetuid|os.ModeSetgid)))
		}
		if fi.IsDir() {
			l, err := afero.ReadDir(fs, p)
			names := make([]string, len(l))
			for i, x := range l {
				names[i] = x.Name()
			}
			sort.Strings(names)
			out = append(out, fmt.Sprintf("%s|d|%s|%s|%s", p, perm, strings.Join(names, ","), errClass(err)))
			// what a listing says about a file (its size) is what Stat says about it: nothing is printed
			// on either side when they agree, a stale FileInfo in the listing prints the difference
			for _, x := range l {
				cp := p + "/" + x.Name()
				if p == "/" {
					cp = "/" + x.Name()
				}
				if st, e2 := fs.Stat(cp); e2 == nil && !x.IsDir() && !st.IsDir() && st.Size() != x.Size() {
					out = append(out, fmt.Sprintf("%s|listed-size=%d|stat-size=%d", cp, x.Size(), st.Size()))
				}
			}
			for _, n := range names {
				if p == "/" {
					rec("/" + n)
				} else {
					rec(p + "/" + n)
				}
			}
		} else {
			b, err := afero.ReadFile(fs, p)
			out = append(out, fmt.Sprintf("%s|f|%s|%d|%s|%s", p, perm, fi.Size(), hx(b), errClass(err)))
		}
	}
	rec("/")
	return strings.Join(out, ";")
}

func opName(item string) string {
	f := strings.Fields(item)
	if len(f) > 2 {
		return f[2]
	}
	return f[0]
}

// runOnOS executes the items on OsFs below a fresh temp dir and returns the canonical results
// plus the final sweep.
func runOnOS(items []string, explicit map[string]bool) ([]string, string) {
	dir, err := os.MkdirTemp("", "afc01-")
	if err != nil {
		panic(err)
	}
	defer os.RemoveAll(dir)
	in := &Interp{Top: &Layer{Kind: "os", Fs: prefixFs{afero.NewOsFs(), dir}}, Slots: map[int]afero.File{}}
	outs := make([]string, len(items))
	for i, it := range items {
		if strings.HasPrefix(it, "snap") || strings.HasPrefix(it, "index") {
			outs[i] = "skip"
			continue
		}
		outs[i] = in.Exec(it)
	}
	sw := sweep(in.Top.Fs, explicit)
	for _, f := range in.Slots {
		f.Close()
	}
	return outs, sw
}

func c01Case(c *Ctx, id string, items []string, wellFormed bool, explicit map[string]bool, generated bool) {
	// (1) implementation + model
	in := NewInterp("mem")
	c.Case("case %s mem", id)
	memOut := make([]string, len(items))
	for i, it := range items {
		c.Case("%s", it)
		memOut[i] = in.Exec(it)
		c.Impl("%s#%d %s", id, i, memOut[i])
		c.Count("op." + opName(it))
		c.Count("res." + strings.SplitN(memOut[i], ":", 2)[0])
		if strings.HasPrefix(memOut[i], "err:") {
			c.Count("errclass." + memOut[i][4:])
		}
		if memOut[i] == "panic" {
			if wellFormed {
				c.Oracle("FAIL %s panic:%s step %d panicked (%s): %s", id, opName(it), i, lastPanic, it)
			} else {
				c.Count("malformed.panic." + opName(it))
			}
			// a panic may leave locks held: the case ends here (on both sides)
			items = items[:i+1]
			memOut = memOut[:i+1]
			break
		}
	}
	c.Case("end")
	c.NCases++
	// (1b) the same calls once more as a "pcase" block: the implementation's results in the outcome
	// language of the POSIX specification, compared by ./check with the extracted model (M lines)
	// and — inside the precondition of C01_simulation — with the extracted specification (S lines)
	claim := "any"
	if wellFormed && generated {
		claim = "wf"
	}
	c.Case("pcase p%s mem %s", id, claim)
	j := 0
	for i, it := range items {
		if strings.HasPrefix(it, "snap") || strings.HasPrefix(it, "index") {
			continue
		}
		c.Case("%s", it)
		c.Impl("p%s#%d %s", id, j, projPosix(it, memOut[i]))
		j++
	}
	c.Case("end")
	if claim == "wf" {
		c.Impl("p%s#class wf", id)
	}
	if !wellFormed {
		c.Count("cases.malformed")
		return
	}
	c.Count("cases.wellformed")
	// (2) oracle: the same program on the OS
	memSweep := sweep(in.Top.Fs, explicit)
	osOut, osSweep := runOnOS(items, explicit)
	for i := range items {
		if osOut[i] == "skip" {
			continue
		}
		a, b := projOS(items[i], memOut[i]), projOS(items[i], osOut[i])
		if a != b {
			c.Oracle("FAIL %s os:%s:%s->%s step %d (%s): MemMapFs=%s OS=%s", id, opName(items[i]), strings.SplitN(b, ":", 3)[0]+cls2(b), strings.SplitN(a, ":", 3)[0]+cls2(a), i, items[i], memOut[i], osOut[i])
			return
		}
	}
	if memSweep != osSweep {
		c.Oracle("FAIL %s os:final-tree final tree differs: MemMapFs=%s OS=%s", id, memSweep, osSweep)
	}
}

func cls2(p string) string {
	f := strings.Split(p, ":")
	if f[0] == "err" && len(f) > 1 {
		return "-" + f[1]
	}
	if len(f) > 2 && f[2] != "-" && (f[0] == "data" || f[0] == "infos" || f[0] == "names") {
		return "-" + f[2]
	}
	return ""
}

func genC01(r *Rng, nops int, malformedPM int) (items []string, wellFormed bool, explicit map[string]bool) {
	g := NewGen(r)
	g.Malformed = malformedPM
	g.BelowFile = 60
	for i := 0; i < nops; i++ {
		g.Step()
		if r.Chance(1, 12) {
			g.Items = append(g.Items, "index .")
		}
	}
	g.Items = append(g.Items, "snap .", "index .")
	explicit = map[string]bool{}
	for p, n := range g.nodes {
		if n.permExplicit {
			explicit[p] = true
		}
	}
	return g.Items, g.NMal == 0, explicit
}

func runC01(c *Ctx) {
	syscall.Umask(0)
	if c.From != nil {
		for _, cs := range c.From {
			t := strings.Fields(cs[0])
			if t[0] == "pathfn" {
				pathfnCase(c, t[1], unhx(t[2]))
				continue
			}
			// corpus cases are treated as well-formed (the OS oracle runs); perms not compared
			c01Case(c, t[1], cs[1:len(cs)-1], !strings.HasPrefix(t[1], "mal"), map[string]bool{}, false)
		}
		return
	}
	nWF, nMal := 600, 300
	pfLen := 6
	if c.Tier == "thorough" {
		nWF, nMal = 20000, 8000
		pfLen = 8
	}
	runPathfn(c, pfLen)
	for i := 0; i < nWF; i++ {
		items, wf, ex := genC01(c.Rng.Fork(), c.Rng.Range(3, 30), 0)
		c01Case(c, fmt.Sprintf("w%d", i), items, wf, ex, true)
		if i < 2 {
			c.Sample("case mem: " + strings.Join(items, " ; "))
		}
	}
	for i := 0; i < nMal; i++ {
		items, wf, ex := genC01(c.Rng.Fork(), c.Rng.Range(3, 30), 150)
		c01Case(c, fmt.Sprintf("mal%d", i), items, wf, ex, true)
	}
}
