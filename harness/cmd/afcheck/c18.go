package main

// C18 — TempFile / TempDir.  Case kinds (single lines):
//   temp  <id> <stack> <seed> <dir hex> <pattern hex> <file|dir> <pre> <ncalls>
//         pre ::= "-" | item{,item}   item ::= D            MkdirAll(dir, 0755) first
//                                            | F            WriteFile(dir, "iamfile") first: the directory is a regular file
//                                            | K            WriteFile(dir/keep.txt, "keep") first
//                                            | f<i> | d<i>  candidate number i (1-based, as generated from <seed>
//                                                           for this dir/pattern) pre-exists as a file / directory
//         The generator is set to <seed> (afero.VerifSetRandNum); the ncalls calls run one after the other.
//         Results  <id>#<k>  ok:<name hex> | err:<class> | reseeded:ok | reseeded:err:<class>
//         A call that had to reseed (seed 0, or more than `temp_reseed_after` conflicts) draws from the
//         clock: only its shape/freshness are judged (oracle) and the generator is put back to
//         resetVal(seed, j) afterwards (j = number of resets so far); the same after a failed call.
//   ctemp <id> <mem|os> <seed> <callers> <rivals> <rounds> <file|dir>
//         real goroutines; no model line, only the oracle.  The rivals are "other programs" that create
//         the predicted candidate names exclusively (O_CREATE|O_EXCL resp. Mkdir) at the same time.
// Oracle (independent of the model): tree before/after every call, name shape, distinctness,
// every pre-existing entry unchanged  ->  FAIL <id> temp:<what>
import (
	"fmt"
	"os"
	"path/filepath"
	"sort"
	"strings"
	"sync"

	"github.com/spf13/afero"
)

func init() { props["C18"] = runC18 }

type tEntry struct {
	dir  bool
	data string
	mode os.FileMode
}

// the tree an Fs shows below the given roots (the roots themselves excluded when they are "/")
func walkTree(fs afero.Fs, roots ...string) map[string]tEntry {
	m := map[string]tEntry{}
	for _, root := range roots {
		afero.Walk(fs, root, func(p string, fi os.FileInfo, err error) error {
			if err != nil || fi == nil {
				return nil
			}
			if p == "/" {
				return nil
			}
			e := tEntry{dir: fi.IsDir(), mode: fi.Mode()}
			if !fi.IsDir() {
				b, _ := afero.ReadFile(fs, p)
				e.data = string(b)
			}
			m[filepath.Clean(p)] = e
			return nil
		})
	}
	return m
}

func patternSplit(pattern string, isFile bool) (string, string) {
	if !isFile {
		return pattern, ""
	}
	if pos := strings.LastIndex(pattern, "*"); pos != -1 {
		return pattern[:pos], pattern[pos+1:]
	}
	return pattern, ""
}

var predictMu sync.Mutex

// the next n random strings the generator produces from state LCG^skip(seed): obtained from the
// implementation itself (TempDir on a scratch filesystem), so the harness has no copy of the LCG
func predict(seed uint32, skip, n int) []string {
	predictMu.Lock()
	defer predictMu.Unlock()
	scratch := afero.NewMemMapFs()
	afero.VerifSetRandNum(seed)
	out := make([]string, 0, n)
	for i := 0; i < skip+n; i++ {
		name, err := afero.TempDir(scratch, "/", "")
		if err != nil {
			panic(err)
		}
		if i >= skip {
			out = append(out, filepath.Base(name))
		}
	}
	return out
}

func setGen(seed uint32, skip int) {
	predict(seed, skip, 0)
	if skip == 0 {
		afero.VerifSetRandNum(seed)
	}
}

func resetVal(seed uint32, j int) uint32 {
	v := uint32((uint64(seed)*31 + uint64(j+1)*1000003) % 4294967296)
	if v == 0 {
		v = 1
	}
	return v
}

func isDigits(s string) bool {
	for _, c := range s {
		if c < '0' || c > '9' {
			return false
		}
	}
	return true
}

// names are compared as cleaned paths.  On MemMapFs "w/x" and "/w/x" are two different entries (relative
// names are their own namespace), so relative directories are only generated for the plain mem stack and
// the tree is walked from "/" and from the first element of the relative directory.
func absKey(p string) string { return filepath.Clean(p) }

// the checks of the property on one successful call; returns the list of violated clauses
func judgeCall(before, after map[string]tEntry, name0, dirEff, prefix, suffix string, isFile bool) []string {
	var bad []string
	name := absKey(name0)
	if _, ok := before[name]; ok {
		bad = append(bad, "not-fresh")
	}
	if e, ok := after[name]; !ok {
		bad = append(bad, "not-created")
	} else if e.dir == isFile && len(bad) == 0 {
		bad = append(bad, "wrong-kind") // (a name that existed before is reported as not-fresh only)
	}
	if filepath.Dir(name) != absKey(dirEff) {
		bad = append(bad, "not-direct-child")
	} else {
		base := filepath.Base(name)
		ok := strings.HasPrefix(base, prefix) && strings.HasSuffix(base, suffix) && len(base) == len(prefix)+9+len(suffix)
		if ok {
			ok = isDigits(base[len(prefix) : len(prefix)+9])
		}
		if !ok {
			bad = append(bad, "name-shape")
		}
	}
	for p, e := range before {
		if a, ok := after[p]; !ok || a != e {
			bad = append(bad, "altered-existing")
			break
		}
	}
	for p := range after {
		if _, ok := before[p]; ok || p == name {
			continue
		}
		if !strings.HasPrefix(name, p+"/") {
			bad = append(bad, "extra-entry")
			break
		}
	}
	return bad
}

func tempCase(c *Ctx, id, stack string, seed uint32, dirHex, patHex, kind, pre string, ncalls int) {
	top := parseStack(stack)
	fs := top.Fs
	dir, pattern := string(unhx(dirHex)), string(unhx(patHex))
	isFile := kind == "file"
	prefix, suffix := patternSplit(pattern, isFile)
	dirEff := dir
	if dirEff == "" {
		dirEff = os.TempDir()
	}
	c.Case("temp %s %s %d %s %s %s %s %d", id, stack, seed, dirHex, patHex, kind, pre, ncalls)
	c.NCases++
	npre := 0
	if pre != "-" {
		var cands []string
		for _, it := range strings.Split(pre, ",") {
			switch {
			case it == "D":
				fs.MkdirAll(dir, 0o755)
			case it == "F":
				afero.WriteFile(fs, dir, []byte("iamfile"), 0o644)
			case it == "K":
				afero.WriteFile(fs, filepath.Join(dirEff, "keep.txt"), []byte("keep"), 0o644)
			default:
				i := atoi(it[1:])
				if len(cands) < i {
					cands = predict(seed, 0, 16)
				}
				name := filepath.Join(dirEff, prefix+cands[i-1]+suffix)
				if it[0] == 'f' {
					afero.WriteFile(fs, name, []byte(fmt.Sprintf("pre%d", i)), 0o644)
				} else {
					fs.Mkdir(name, 0o755)
				}
				npre++
			}
		}
	}
	c.Count(fmt.Sprintf("temp.precreated=%d", npre))
	c.Count("temp.kind=" + kind)
	c.Count("temp.stack=" + stack)
	c.Count(fmt.Sprintf("temp.stars=%d", strings.Count(pattern, "*")))
	roots := []string{"/"}
	if !filepath.IsAbs(dirEff) {
		roots = append(roots, strings.SplitN(filepath.Clean(dirEff), "/", 2)[0])
	}
	cur, skip, resets := seed, 0, 0
	known := seed != 0
	seen := map[string]int{}
	for k := 0; k < ncalls; k++ {
		var cands []string
		if known {
			cands = predict(cur, skip, 11)
			setGen(cur, skip)
		} else {
			afero.VerifSetRandNum(0)
		}
		before := walkTree(fs, roots...)
		var name string
		var err error
		panicked := false
		func() {
			defer func() {
				if r := recover(); r != nil {
					panicked = true
				}
			}()
			if isFile {
				var f afero.File
				f, err = afero.TempFile(fs, dir, pattern)
				if err == nil {
					name = f.Name()
					f.Close()
				}
			} else {
				name, err = afero.TempDir(fs, dir, pattern)
			}
		}()
		after := walkTree(fs, roots...)
		matched := 0
		if err == nil && !panicked && known {
			for i, d := range cands {
				if absKey(name) == absKey(filepath.Join(dirEff, prefix+d+suffix)) {
					matched = i + 1
					break
				}
			}
		}
		var res string
		switch {
		case panicked:
			res = "panic"
		case err != nil && (!known || os.IsExist(err) || len(conflictsBefore(before, dirEff, prefix, suffix, cands)) >= 11):
			// os.IsExist(err): every one of the attempts collided, so the generator was reseeded on the way
			res = "reseeded:err:" + errClass(err)
		case err != nil:
			res = "err:" + errClass(err)
		case matched > 0:
			res = "ok:" + hx([]byte(name))
		default:
			res = "reseeded:ok"
		}
		c.Impl("%s#%d %s", id, k, res)
		c.Count("temp.result=" + strings.SplitN(res, ":", 3)[0])
		if matched > 1 {
			c.Count("temp.retried")
		}
		if err == nil && !panicked {
			for _, what := range judgeCall(before, after, name, dirEff, prefix, suffix, isFile) {
				sig := what
				if what == "altered-existing" {
					if e, ok := before[absKey(dirEff)]; ok && !e.dir {
						sig = "altered-existing:parent-is-file"
					}
				}
				if what == "not-direct-child" && strings.ContainsRune(pattern, '/') {
					sig = "not-direct-child:separator-in-pattern"
				}
				c.Oracle("FAIL %s temp:%s call %d of Temp%s(dir=%q, pattern=%q) on %s returned %q: %s (seed %d, pre %s)", id, sig, k, titleOf(kind), dir, pattern, stack, name, what, seed, pre)
			}
			if j, dup := seen[absKey(name)]; dup {
				c.Oracle("FAIL %s temp:duplicate-name calls %d and %d of Temp%s(dir=%q, pattern=%q) on %s both returned %q (seed %d, pre %s)", id, j, k, titleOf(kind), dir, pattern, stack, name, seed, pre)
			}
			seen[absKey(name)] = k
		} else if !panicked {
			// not part of C18's text ("every successful call"), recorded only: a failed call that left entries behind
			if treeString(before) != treeString(after) {
				c.Count("temp.failed_call_changed_tree:" + stack)
			}
		}
		if matched > 0 {
			skip += matched
		} else {
			cur, skip, known = resetVal(seed, resets), 0, true
			resets++
		}
	}
	if len(c.Samples) < 5 {
		c.Sample(fmt.Sprintf("temp stack=%s seed=%d dir=%q pattern=%q %s pre=%s calls=%d", stack, seed, dir, pattern, kind, pre, ncalls))
	}
}

// which of the predicted candidates exist before the call (in order, stopping at the first free one)
func conflictsBefore(before map[string]tEntry, dirEff, prefix, suffix string, cands []string) []string {
	var out []string
	for _, d := range cands {
		n := absKey(filepath.Join(dirEff, prefix+d+suffix))
		if _, ok := before[n]; !ok {
			break
		}
		out = append(out, n)
	}
	return out
}

func titleOf(kind string) string {
	if kind == "file" {
		return "File"
	}
	return "Dir"
}

func treeString(m map[string]tEntry) string {
	ps := make([]string, 0, len(m))
	for p := range m {
		ps = append(ps, p)
	}
	sort.Strings(ps)
	var b strings.Builder
	for _, p := range ps {
		fmt.Fprintf(&b, "%s|%v|%s|%d;", p, m[p].dir, hx([]byte(m[p].data)), uint32(m[p].mode))
	}
	return b.String()
}

// ---- concurrent callers (oracle only)
func ctempCase(c *Ctx, id, fsKind string, seed uint32, callers, rivals, rounds int, kind string) {
	c.Case("ctemp %s %s %d %d %d %d %s", id, fsKind, seed, callers, rivals, rounds, kind)
	c.NCases++
	isFile := kind == "file"
	dupRounds, dupPairs := 0, 0
	firstDup := ""
	for round := 0; round < rounds; round++ {
		var fs afero.Fs
		dir := "/w"
		var cleanup func()
		if fsKind == "os" {
			base, err := os.MkdirTemp("", "verif-c18-")
			if err != nil {
				panic(err)
			}
			cleanup = func() { os.RemoveAll(base) }
			fs = afero.NewOsFs()
			dir = filepath.Join(base, "w")
		} else {
			fs = afero.NewMemMapFs()
			cleanup = func() {}
		}
		fs.MkdirAll(dir, 0o755)
		keep := filepath.Join(dir, "keep.txt")
		afero.WriteFile(fs, keep, []byte("keep"), 0o644)
		sd := seed + uint32(round)*7919
		if sd == 0 {
			sd = 1
		}
		cands := predict(sd, 0, callers+rivals+2)
		afero.VerifSetRandNum(sd)
		pattern := "c*x"
		prefix, suffix := patternSplit(pattern, isFile)
		start := make(chan struct{})
		var wg sync.WaitGroup
		got := make([]string, callers)
		errs := make([]error, callers)
		rivalGot := make([][]string, rivals)
		for i := 0; i < callers; i++ {
			wg.Add(1)
			go func(i int) {
				defer wg.Done()
				<-start
				if isFile {
					f, err := afero.TempFile(fs, dir, pattern)
					if err == nil {
						got[i] = f.Name()
						f.Close()
					}
					errs[i] = err
				} else {
					got[i], errs[i] = afero.TempDir(fs, dir, pattern)
				}
			}(i)
		}
		for j := 0; j < rivals; j++ {
			wg.Add(1)
			go func(j int) {
				defer wg.Done()
				<-start
				// every rival walks the candidate list from its own starting point
				for q := 0; q < len(cands); q++ {
					n := filepath.Join(dir, prefix+cands[(q+j)%len(cands)]+suffix)
					if isFile {
						f, err := fs.OpenFile(n, os.O_RDWR|os.O_CREATE|os.O_EXCL, 0o600)
						if err == nil {
							f.Close()
							rivalGot[j] = append(rivalGot[j], n)
						}
					} else if err := fs.Mkdir(n, 0o700); err == nil {
						rivalGot[j] = append(rivalGot[j], n)
					}
				}
			}(j)
		}
		close(start)
		wg.Wait()
		owners := map[string]int{}
		for i, n := range got {
			if errs[i] != nil {
				c.Oracle("FAIL %s temp:concurrent-error:%s round %d caller %d: %v", id, fsKind, round, i, errs[i])
				continue
			}
			owners[n]++
			base := filepath.Base(n)
			if filepath.Dir(n) != dir || !strings.HasPrefix(base, prefix) || !strings.HasSuffix(base, suffix) ||
				len(base) != len(prefix)+9+len(suffix) || !isDigits(base[len(prefix):len(prefix)+9]) {
				c.Oracle("FAIL %s temp:name-shape round %d caller %d returned %q", id, round, i, n)
			}
			if fi, err := fs.Stat(n); err != nil || fi.IsDir() == isFile {
				c.Oracle("FAIL %s temp:not-created round %d caller %d returned %q which does not exist afterwards (err=%v)", id, round, i, n, err)
			}
		}
		for _, l := range rivalGot {
			for _, n := range l {
				owners[n]++
			}
		}
		d := 0
		for n, k := range owners {
			if k > 1 {
				d += k - 1
				if firstDup == "" {
					firstDup = fmt.Sprintf("round %d (generator seed %d): %q was created exclusively %d times", round, sd, n, k)
				}
			}
		}
		if d > 0 {
			dupRounds++
			dupPairs += d
		}
		if b, err := afero.ReadFile(fs, keep); err != nil || string(b) != "keep" {
			c.Oracle("FAIL %s temp:altered-existing round %d: %s is %q, err=%v", id, round, keep, b, err)
		}
		cleanup()
	}
	c.Add("ctemp."+fsKind+"."+kind+".rounds", rounds)
	c.Add("ctemp."+fsKind+"."+kind+".rounds_with_duplicates", dupRounds)
	if dupRounds > 0 {
		c.Oracle("FAIL %s temp:concurrent-duplicate:%s %d of %d rounds (%d callers + %d rivals, Temp%s): the same name was handed out by exclusive create more than once (%d surplus grants); first: %s",
			id, fsKind, dupRounds, rounds, callers, rivals, titleOf(kind), dupPairs, firstDup)
	}
}

func runC18(c *Ctx) {
	os.Unsetenv("TMPDIR") // os.TempDir() = "/tmp", as the model runner assumes
	if c.From != nil {
		for _, cs := range c.From {
			t := strings.Fields(cs[0])
			switch t[0] {
			case "temp":
				tempCase(c, t[1], t[2], uint32(atoi(t[3])), t[4], t[5], t[6], t[7], atoi(t[8]))
			case "ctemp":
				ctempCase(c, t[1], t[2], uint32(atoi(t[3])), atoi(t[4]), atoi(t[5]), atoi(t[6]), t[7])
			}
		}
		return
	}
	r := c.Rng
	n := 0
	id := func(p string) string { n++; return fmt.Sprintf("%s%d", p, n) }
	seedOf := func() uint32 { return uint32(1 + r.Intn(1<<31)) }
	patterns := []string{"", "tmp", "a*", "*b", "pre*suf", "x*y*z", "**", "*", "no star.txt", "a.*.go", ".*.swp", "..*", ".", "..", ".*"}
	dirs := []string{"/", "/w", "/w/sub", "w", "/w/", "/w/../w", "", ".", "./", "w/.."}
	preList := func(k int, kindCh byte, mixed bool) string {
		var it []string
		for i := 1; i <= k; i++ {
			ch := kindCh
			if mixed && r.Bool() {
				ch = 'f' + 'd' - ch
			}
			it = append(it, fmt.Sprintf("%c%d", ch, i))
		}
		return strings.Join(it, ",")
	}
	join := func(a ...string) string {
		var o []string
		for _, x := range a {
			if x != "" {
				o = append(o, x)
			}
		}
		if len(o) == 0 {
			return "-"
		}
		return strings.Join(o, ",")
	}
	// TempFile on CacheOnReadFs never succeeds (its OpenFile runs the O_CREATE|O_EXCL open twice on the base:
	// the second one answers EEXIST) and every one of the 10000 attempts leaves a file behind: a few cases
	// document that the model says the same, more would only cost time
	cacheFileBudget := 2
	emit := func(cid, st string, seed uint32, dirHex, patHex, kind, pre string, ncalls int) {
		if d := string(unhx(dirHex)); st != "mem" && d != "" && !filepath.IsAbs(d) {
			dirHex = hp("/" + d)
		}
		if strings.HasPrefix(st, "cache") && kind == "file" {
			if cacheFileBudget == 0 {
				kind = "dir"
			} else {
				cacheFileBudget--
				ncalls = 1
			}
		}
		tempCase(c, cid, st, seed, dirHex, patHex, kind, pre, ncalls)
	}
	// (1) the grid: stacks x kinds x k = 0..12 colliding pre-existing candidates (as files, as dirs, mixed)
	for _, st := range ioStacks {
		for _, kind := range []string{"file", "dir"} {
			for k := 0; k <= 12; k++ {
				pat := Pick(r, patterns)
				emit(id("g"), st, seedOf(), hp("/w"), hp(pat), kind, join("D", "K", preList(k, 'f', false)), 1+r.Intn(3))
				emit(id("g"), st, seedOf(), hp("/w"), hp(pat), kind, join("D", preList(k, 'd', k%2 == 0)), 1+r.Intn(3))
			}
		}
	}
	// (2) directories existing / missing / spelled oddly / "", all patterns, 1..20 sequential callers
	for _, st := range ioStacks {
		for _, d := range dirs {
			for _, pat := range patterns {
				kind := Pick(r, []string{"file", "dir"})
				pre := ""
				if r.Bool() {
					pre = "D"
				}
				if r.Chance(1, 3) {
					pre = join(pre, "K")
				}
				k := 0
				if r.Chance(1, 3) {
					k = r.Intn(4)
				}
				emit(id("d"), st, seedOf(), hp(d), hp(pat), kind, join(pre, preList(k, Pick(r, []byte{'f', 'd'}), true)), Pick(r, []int{1, 1, 2, 3, 5, 20}))
			}
		}
	}
	// (3) seed 0 (the generator seeds itself from the clock), and gaps in the colliding set
	for _, st := range ioStacks {
		emit(id("z"), st, 0, hp("/w"), hp("z*"), "file", "D", 3)
		emit(id("z"), st, 0, hp("/w"), hp("z"), "dir", "-", 2)
		emit(id("z"), st, seedOf(), hp("/w"), hp("q*"), "file", "D,f1,f3,d4", 6)
		emit(id("z"), st, seedOf(), hp("/w"), hp("q"), "dir", "D,f2,d3,f5,f6", 6)
	}
	nr := 60
	if c.Tier == "thorough" {
		nr = 3000
	}
	for i := 0; i < nr; i++ {
		kind := Pick(r, []string{"file", "dir"})
		k := Pick(r, []int{0, 0, 1, 2, 3, 10, 11, 12})
		emit(id("r"), Pick(r, ioStacks), seedOf(), hp(Pick(r, dirs)), hp(Pick(r, patterns)), kind,
			join(Pick(r, []string{"", "D", "D,K"}), preList(k, Pick(r, []byte{'f', 'd'}), r.Bool())), 1+r.Intn(20))
	}
	// (4) hostile stream: separators in the pattern, the directory is a regular file
	for _, st := range []string{"mem", "cow(mem,mem)"} {
		emit(id("h"), st, seedOf(), hp("/w"), hp("sub/x*"), "file", "D", 1)
		emit(id("h"), st, seedOf(), hp("/w"), hp("../esc"), "dir", "D", 1)
		emit(id("h"), st, seedOf(), hp("/w"), hp("a*/b"), "file", "D", 1)
	}
	emit(id("h"), "mem", seedOf(), hp("/w/iam"), hp("t*"), "file", "F", 1)
	emit(id("h"), "mem", seedOf(), hp("/w/iam"), hp("t"), "dir", "F", 1)
	// (5) concurrent callers
	rounds := 150
	if c.Tier == "thorough" {
		rounds = 4000
	}
	for _, fk := range []string{"mem", "os"} {
		for _, kind := range []string{"file", "dir"} {
			callers := Pick(r, []int{4, 8, 16})
			rv := rounds
			if fk == "os" {
				rv = rounds / 5
			}
			ctempCase(c, id("c"), fk, seedOf(), callers, 0, rv/3, kind)
			ctempCase(c, id("c"), fk, seedOf(), Pick(r, []int{4, 8}), Pick(r, []int{4, 8}), rv, kind)
		}
	}
	runC18BelowFile(c)
	c.Extra["c18_streams"] = "grid (4 stacks x file/dir x 0..12 colliding pre-existing candidates as files/dirs/mixed); directories x patterns x 1..20 sequential callers; seed 0; random; hostile (separator in pattern, directory is a regular file); concurrent goroutines on MemMapFs and OsFs with and without rival exclusive creators"
}

// The requested directory does not exist and lies BELOW a regular file, one or several levels
// down ("/data/report.txt/tmp"): nothing can be created there; the call fails and the file stays
// the file it was (oracle only; MemMapFs, and a union whose overlay is a MemMapFs)
func runC18BelowFile(c *Ctx) {
	n := 0
	for _, mkfs := range []func() afero.Fs{
		func() afero.Fs { return afero.NewMemMapFs() },
		func() afero.Fs { return afero.NewCopyOnWriteFs(afero.NewMemMapFs(), afero.NewMemMapFs()) },
		func() afero.Fs { return afero.NewBasePathFs(afero.NewMemMapFs(), "/jail") },
	} {
		for _, dir := range []string{"/data/report.txt/tmp", "/data/report.txt/a/b", "/data/report.txt/a/b/c/d", "/data/report.txt/./x", "/data/report.txt//y/"} {
			for _, kind := range []string{"file", "dir"} {
				fs := mkfs()
				fs.MkdirAll("/data", 0o755)
				afero.WriteFile(fs, "/data/report.txt", []byte("figures"), 0o644)
				n++
				c.Count("belowfile." + kind)
				var err error
				var name string
				func() {
					defer func() {
						if r := recover(); r != nil {
							err = fmt.Errorf("panic: %v", r)
						}
					}()
					if kind == "file" {
						var f afero.File
						if f, err = afero.TempFile(fs, dir, "t*"); err == nil {
							name = f.Name()
							f.Close()
						}
					} else {
						name, err = afero.TempDir(fs, dir, "t")
					}
				}()
				fi, serr := fs.Stat("/data/report.txt")
				b, rerr := afero.ReadFile(fs, "/data/report.txt")
				if serr != nil || fi.IsDir() || rerr != nil || string(b) != "figures" {
					c.Oracle("FAIL bf%d temp:altered-existing:dir-below-file Temp%s(%q) (result %q, %v): /data/report.txt is no longer the file it was (Stat dir=%v err=%v; ReadFile %q, %v)", n, kind, dir, name, err, fi != nil && fi.IsDir(), serr, b, rerr)
				} else if err == nil {
					c.Oracle("FAIL bf%d temp:created-below-file Temp%s(%q) returned %q, no error, although %q lies below a regular file", n, kind, dir, name, dir)
				}
			}
		}
	}
	c.Extra["below_file"] = fmt.Sprintf("%d TempFile/TempDir calls whose directory is missing and lies 1-4 levels below a regular file (oracle only)", n)
}
