package main

// C17 on the operating-system filesystem (oracle only, no model line): WriteFile /
// WriteReader / SafeWriteReader followed by ReadFile through OsFs, with path spellings that
// are NOT lexically clean (a symlinked directory followed by ".."): "SafeWriteReader never
// alters a file that already exists" must hold for the file the OS resolves the name to.
import (
	"bytes"
	"fmt"
	"io"
	"os"
	"path/filepath"
	"strings"
	"testing/iotest"

	"github.com/spf13/afero"
)

func runC17OS(c *Ctx) {
	dir, err := os.MkdirTemp("", "afc17-")
	if err != nil {
		panic(err)
	}
	defer os.RemoveAll(dir)
	fs := afero.NewOsFs()
	os.MkdirAll(filepath.Join(dir, "real", "sub"), 0o755)
	os.Symlink(filepath.Join(dir, "real", "sub"), filepath.Join(dir, "link"))
	victim := filepath.Join(dir, "real", "victim.txt")
	spellings := []string{
		victim,
		dir + "/link/../victim.txt", // resolves to real/victim.txt, cleans to <dir>/victim.txt
		dir + "/real/./sub/../victim.txt",
		dir + "//real//victim.txt",
	}
	for i, sp := range spellings {
		os.WriteFile(victim, []byte("precious"), 0o644)
		err := afero.SafeWriteReader(fs, sp, strings.NewReader("clobbered"))
		got, _ := os.ReadFile(victim)
		c.Count("os.safewrite")
		if err == nil || !bytes.Equal(got, []byte("precious")) {
			c.Oracle("FAIL os%d safewrite:existing-file-altered:os-spelling SafeWriteReader(OsFs, %q) on an existing file: err=%v content=%q", i, strings.TrimPrefix(sp, dir), err, got)
		}
		// and a fresh name through the same spelling style is written and read back
		fresh := strings.Replace(sp, "victim.txt", fmt.Sprintf("new%d.txt", i), 1)
		payload := bytes.Repeat([]byte{byte('a' + i)}, 1000*i+3)
		if err := afero.SafeWriteReader(fs, fresh, bytes.NewReader(payload)); err != nil {
			c.Oracle("FAIL os%dn safewrite:fresh-name-refused SafeWriteReader(OsFs, %q): %v", i, strings.TrimPrefix(fresh, dir), err)
			continue
		}
		back, err := afero.ReadFile(fs, fresh)
		if err != nil || !bytes.Equal(back, payload) {
			c.Oracle("FAIL os%dr writeread:os ReadFile after SafeWriteReader(%q): err=%v len=%d want %d", i, strings.TrimPrefix(fresh, dir), err, len(back), len(payload))
		}
	}
	// missing parent directories that the name only passes THROUGH ("a/../b/f" with neither a nor b
	// there): the OS needs a to exist, WriteReader and SafeWriteReader create every directory named
	m := 0
	for i, how := range []string{"WriteReader", "SafeWriteReader"} {
		for j, rel := range []string{"/p%d/../q%d/f", "/r%d/s/../../t%d/u/f", "/v%d/./w/f"} {
			m++
			name := dir + fmt.Sprintf(rel, i, i)
			var err error
			if how == "WriteReader" {
				err = afero.WriteReader(fs, name, strings.NewReader("through"))
			} else {
				err = afero.SafeWriteReader(fs, name, strings.NewReader("through"))
			}
			c.Count("os.through-missing")
			back, rerr := afero.ReadFile(fs, name)
			if err != nil || rerr != nil || string(back) != "through" {
				c.Oracle("FAIL os-thr%d-%d writeread:os:missing-parents-through-dotdot %s(OsFs, %q): %v; ReadFile = %q, %v", i, j, how, strings.TrimPrefix(name, dir), err, back, rerr)
			}
		}
	}
	c.Extra["osfs"] = fmt.Sprintf("%d SafeWriteReader/ReadFile scenarios on OsFs with symlinked and unclean spellings, %d writes whose missing parents are only passed through by \"..\" (oracle only)", len(spellings), m)
}

// Readers that know their size (strings.Reader, bytes.Reader, io.SectionReader) handed over after
// a part was consumed: the file holds exactly the REST (oracle only)
func runC17SizedReaders(c *Ctx, fs afero.Fs) {
	n := 0
	for _, total := range []int{1, 7, 32, 4096, 70000} {
		seen := map[int]bool{}
		for _, used := range []int{0, 1, total / 2, total} {
			if used > total || seen[used] {
				continue
			}
			seen[used] = true
			payload := make([]byte, total)
			for i := range payload {
				payload[i] = byte('a' + i%23)
			}
			for k, mk := range []func() io.Reader{
				func() io.Reader { r := strings.NewReader(string(payload)); r.Seek(int64(used), io.SeekStart); return r },
				func() io.Reader { r := bytes.NewReader(payload); io.CopyN(io.Discard, r, int64(used)); return r },
				func() io.Reader {
					r := io.NewSectionReader(bytes.NewReader(payload), 0, int64(total))
					r.Seek(int64(used), io.SeekStart)
					return r
				},
				// a reader that hands out its last bytes TOGETHER with io.EOF, and one byte per call
				func() io.Reader { return iotest.DataErrReader(bytes.NewReader(payload[used:])) },
				func() io.Reader { return iotest.OneByteReader(iotest.DataErrReader(bytes.NewReader(payload[used:]))) },
				func() io.Reader { return iotest.HalfReader(bytes.NewReader(payload[used:])) },
			} {
				for h, how := range []string{"WriteReader", "SafeWriteReader", "Afero.WriteReader"} {
					n++
					name := fmt.Sprintf("/sized/%d-%d-%d-%d", total, used, k, h)
					var err error
					switch how {
					case "WriteReader":
						err = afero.WriteReader(fs, name, mk())
					case "SafeWriteReader":
						err = afero.SafeWriteReader(fs, name, mk())
					default:
						err = (&afero.Afero{Fs: fs}).WriteReader(name, mk())
					}
					c.Count("sized." + how)
					back, rerr := afero.ReadFile(fs, name)
					if err != nil || rerr != nil || !bytes.Equal(back, payload[used:]) {
						c.Oracle("FAIL sz%d writeread:sized-reader-partly-consumed %s with a reader kind %d of %d bytes of which %d were consumed: err=%v; ReadFile returns %d bytes, %v; want the remaining %d", n, how, k, total, used, err, len(back), rerr, total-used)
					}
				}
			}
		}
	}
	c.Extra["sized_readers"] = fmt.Sprintf("%d writes from partly consumed strings/bytes/section readers and from readers that deliver data together with io.EOF, one byte or half the buffer per call (oracle only)", n)
}
