package main

// C17 on the operating-system filesystem (oracle only, no model line): WriteFile /
// WriteReader / SafeWriteReader followed by ReadFile through OsFs, with path spellings that
// are NOT lexically clean (a symlinked directory followed by ".."): "SafeWriteReader never
// alters a file that already exists" must hold for the file the OS resolves the name to.
import (
	"bytes"
	"fmt"
	"os"
	"path/filepath"
	"strings"

	"github.com/spf13/afero"
)

func runC17OS(c *Ctx) {
	dir, err := os.MkdirTemp("", "afc17-")
	if err != nil {
		panic(err)
	}
	defer os.RemoveAll(dir)
	fs := afero.NewOsFs()
	os.MkdirAll(filepath.Join(dir, "real", "sub"), 0o755)
	os.Symlink(filepath.Join(dir, "real", "sub"), filepath.Join(dir, "link"))
	victim := filepath.Join(dir, "real", "victim.txt")
	spellings := []string{
		victim,
		dir + "/link/../victim.txt",          // resolves to real/victim.txt, cleans to <dir>/victim.txt
		dir + "/real/./sub/../victim.txt",
		dir + "//real//victim.txt",
	}
	for i, sp := range spellings {
		os.WriteFile(victim, []byte("precious"), 0o644)
		err := afero.SafeWriteReader(fs, sp, strings.NewReader("clobbered"))
		got, _ := os.ReadFile(victim)
		c.Count("os.safewrite")
		if err == nil || !bytes.Equal(got, []byte("precious")) {
			c.Oracle("FAIL os%d safewrite:existing-file-altered:os-spelling SafeWriteReader(OsFs, %q) on an existing file: err=%v content=%q", i, strings.TrimPrefix(sp, dir), err, got)
		}
		// and a fresh name through the same spelling style is written and read back
		fresh := strings.Replace(sp, "victim.txt", fmt.Sprintf("new%d.txt", i), 1)
		payload := bytes.Repeat([]byte{byte('a' + i)}, 1000*i+3)
		if err := afero.SafeWriteReader(fs, fresh, bytes.NewReader(payload)); err != nil {
			c.Oracle("FAIL os%dn safewrite:fresh-name-refused SafeWriteReader(OsFs, %q): %v", i, strings.TrimPrefix(fresh, dir), err)
			continue
		}
		back, err := afero.ReadFile(fs, fresh)
		if err != nil || !bytes.Equal(back, payload) {
			c.Oracle("FAIL os%dr writeread:os ReadFile after SafeWriteReader(%q): err=%v len=%d want %d", i, strings.TrimPrefix(fresh, dir), err, len(back), len(payload))
		}
	}
	c.Extra["osfs"] = fmt.Sprintf("%d SafeWriteReader/ReadFile scenarios on OsFs with symlinked and unclean spellings (oracle only)", len(spellings))
}
