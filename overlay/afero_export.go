//go:build verif

// Injected into package afero at build time (go build -overlay) by /verif; add-only.
package afero

import (
	"os"
	"time"

	"github.com/spf13/afero/mem"
)

type VerifEntry struct {
	Path     string
	Name     string
	Dir      bool
	Data     []byte
	Mode     os.FileMode
	ModTime  time.Time
	KidKeys  []string
	KidNames []string
}

// VerifDump returns the whole path map of a MemMapFs (unsorted).
func VerifDump(fs Fs) []VerifEntry {
	m, ok := fs.(*MemMapFs)
	if !ok {
		return nil
	}
	m.mu.RLock()
	defer m.mu.RUnlock()
	var out []VerifEntry
	for p, f := range m.getData() {
		name, data, dir := mem.VerifRaw(f)
		fi := mem.GetFileInfo(f)
		keys, names, _ := mem.VerifKids(f)
		out = append(out, VerifEntry{Path: p, Name: name, Dir: dir, Data: data, Mode: fi.Mode(), ModTime: fi.ModTime(),
			KidKeys: keys, KidNames: names})
	}
	return out
}

// VerifSetRandNum sets the state of the TempFile/TempDir name generator.
func VerifSetRandNum(v uint32) {
	randmu.Lock()
	randNum = v
	randmu.Unlock()
}
