//go:build verif

// Injected into package mem at build time (go build -overlay) by /verif; add-only.
package mem

// VerifKids returns the child index of a directory node: key (name at insertion time) and
// the child's current name, unsorted.
func VerifKids(f *FileData) (keys []string, names []string, hasDir bool) {
	f.Lock()
	defer f.Unlock()
	if f.memDir == nil {
		return nil, nil, false
	}
	dm, ok := f.memDir.(*DirMap)
	if !ok {
		return nil, nil, true
	}
	for k, c := range *dm {
		keys = append(keys, k)
		names = append(names, c.name)
	}
	return keys, names, true
}

// VerifRaw returns the raw fields of a node.
func VerifRaw(f *FileData) (name string, data []byte, dir bool) {
	f.Lock()
	defer f.Unlock()
	return f.name, append([]byte(nil), f.data...), f.dir
}
