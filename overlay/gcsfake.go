//go:build verif

// gcsfake.go — injected at build time as /repo/gcsfs/zz_verif_fake.go (go build -overlay, tag
// verif).  An in-memory object store behind gcsfs/internal/stiface with the GCS semantics the
// property C20 names:
//   * a Writer buffers; its content becomes the object atomically on Close (replacing any
//     previous generation); readers opened before keep the generation they were opened on
//   * NewRangeReader(offset, length): length < 0 = to the end; offset == size gives an empty
//     reader; offset > size or offset < 0 is an error (HTTP 416 in the real service)
//   * Attrs: name, size, updated (logical clock)
//   * Objects(Query{Prefix, Delimiter}): one page — all matching objects in lexicographic order,
//     then the collapsed prefixes in lexicographic order (the order in which the real client's
//     iterator hands out a page: items, then prefixes)
//   * Delete, CopierFrom(src).Run, storage.ErrObjectNotExist, "storage: object name is empty"
// The Coq store in coq/Model/Gcs.v models exactly this file.  Nothing here calls into gcsfs.
package gcsfs

import (
	"context"
	"errors"
	"io"
	"sort"
	"strings"
	"time"

	"cloud.google.com/go/storage"
	"google.golang.org/api/iterator"

	"github.com/spf13/afero/gcsfs/internal/stiface"
)

var errVerifEmptyName = errors.New("storage: object name is empty")
var errVerifRange = errors.New("verif fake: 416 requested range not satisfiable")
var errVerifClosed = errors.New("verif fake: use of closed reader/writer")

// VerifFake is the bucket.  Not safe for concurrent use (the harness is sequential).
type VerifFake struct {
	BucketName string
	objs       map[string][]byte
	updated    map[string]int64
	clock      int64
	// call counters (for the harness' distribution statistics only)
	Calls map[string]int
}

// VerifNewFake returns a gcsfs filesystem (the exported afero wrapper around *Fs) on top of a
// fresh fake store with one bucket, and the store itself for direct inspection.
func VerifNewFake(bucket string) (*GcsFs, *VerifFake) {
	f := &VerifFake{BucketName: bucket, objs: map[string][]byte{}, updated: map[string]int64{}, Calls: map[string]int{}}
	return &GcsFs{NewGcsFs(context.Background(), &verifClient{f: f})}, f
}

// ---- direct accessors (never go through gcsfs)
func (f *VerifFake) Put(name string, data []byte) {
	f.clock++
	f.objs[name] = append([]byte{}, data...)
	f.updated[name] = f.clock
}
func (f *VerifFake) Get(name string) ([]byte, bool) {
	b, ok := f.objs[name]
	if !ok {
		return nil, false
	}
	return append([]byte{}, b...), true
}
func (f *VerifFake) Names() []string {
	out := make([]string, 0, len(f.objs))
	for k := range f.objs {
		out = append(out, k)
	}
	sort.Strings(out)
	return out
}

// VerifMaxWriteSize exposes the package constant the harness wants to cross.
func VerifMaxWriteSize() int { return maxWriteSize }

// VerifFolderSize exposes the size gcsfs reports for folders.
func VerifFolderSize() int { return folderSize }

func (f *VerifFake) attrs(name string) *storage.ObjectAttrs {
	return &storage.ObjectAttrs{Bucket: f.BucketName, Name: name, Size: int64(len(f.objs[name])),
		Updated: time.Unix(1_000_000_000+f.updated[name], 0)}
}

// ---- stiface.Client
type verifClient struct {
	stiface.Client
	f *VerifFake
}

func (c *verifClient) Bucket(name string) stiface.BucketHandle {
	return &verifBucket{f: c.f, name: name}
}
func (c *verifClient) Close() error { return nil }

// ---- stiface.BucketHandle
type verifBucket struct {
	stiface.BucketHandle
	f    *VerifFake
	name string
}

func (b *verifBucket) Attrs(context.Context) (*storage.BucketAttrs, error) {
	if b.name != b.f.BucketName {
		return nil, storage.ErrBucketNotExist
	}
	return &storage.BucketAttrs{Name: b.name}, nil
}
func (b *verifBucket) Object(name string) stiface.ObjectHandle {
	return &verifObject{f: b.f, bucket: b.name, name: name}
}
func (b *verifBucket) Objects(_ context.Context, q *storage.Query) stiface.ObjectIterator {
	it := &verifIter{f: b.f, bucket: b.name}
	if q != nil {
		it.prefix, it.delim = q.Prefix, q.Delimiter
	}
	return it
}

// ---- stiface.ObjectIterator: the page is computed at the first Next (as a real page fetch)
type verifIter struct {
	stiface.ObjectIterator
	f             *VerifFake
	bucket        string
	prefix, delim string
	started       bool
	items         []*storage.ObjectAttrs
}

func (it *verifIter) Next() (*storage.ObjectAttrs, error) {
	if !it.started {
		it.started = true
		it.f.Calls["list"]++
		if it.bucket != it.f.BucketName {
			return nil, storage.ErrBucketNotExist
		}
		var prefixes []string
		seen := map[string]bool{}
		for _, name := range it.f.Names() {
			if !strings.HasPrefix(name, it.prefix) {
				continue
			}
			rest := name[len(it.prefix):]
			if it.delim != "" {
				if i := strings.Index(rest, it.delim); i >= 0 {
					p := it.prefix + rest[:i+len(it.delim)]
					if !seen[p] {
						seen[p] = true
						prefixes = append(prefixes, p)
					}
					continue
				}
			}
			it.items = append(it.items, it.f.attrs(name))
		}
		sort.Strings(prefixes)
		for _, p := range prefixes {
			it.items = append(it.items, &storage.ObjectAttrs{Prefix: p})
		}
	}
	if len(it.items) == 0 {
		return nil, iterator.Done
	}
	res := it.items[0]
	it.items = it.items[1:]
	return res, nil
}

// ---- stiface.ObjectHandle
type verifObject struct {
	stiface.ObjectHandle
	f      *VerifFake
	bucket string
	name   string
}

func (o *verifObject) check() error {
	if o.bucket != o.f.BucketName {
		return storage.ErrBucketNotExist
	}
	if o.name == "" {
		return errVerifEmptyName
	}
	return nil
}

func (o *verifObject) Attrs(context.Context) (*storage.ObjectAttrs, error) {
	o.f.Calls["attrs"]++
	if err := o.check(); err != nil {
		return nil, err
	}
	if _, ok := o.f.objs[o.name]; !ok {
		return nil, storage.ErrObjectNotExist
	}
	return o.f.attrs(o.name), nil
}

func (o *verifObject) NewReader(ctx context.Context) (stiface.Reader, error) {
	return o.NewRangeReader(ctx, 0, -1)
}

func (o *verifObject) NewRangeReader(_ context.Context, offset, length int64) (stiface.Reader, error) {
	o.f.Calls["reader"]++
	if err := o.check(); err != nil {
		return nil, err
	}
	data, ok := o.f.objs[o.name]
	if !ok {
		return nil, storage.ErrObjectNotExist
	}
	size := int64(len(data))
	if offset < 0 || offset > size {
		return nil, errVerifRange
	}
	end := size
	if length >= 0 && offset+length < size {
		end = offset + length
	}
	return &verifReader{size: size, rem: append([]byte{}, data[offset:end]...)}, nil
}

func (o *verifObject) NewWriter(context.Context) stiface.Writer {
	o.f.Calls["writer"]++
	return &verifWriter{o: o}
}

func (o *verifObject) Delete(context.Context) error {
	o.f.Calls["delete"]++
	if err := o.check(); err != nil {
		return err
	}
	if _, ok := o.f.objs[o.name]; !ok {
		return storage.ErrObjectNotExist
	}
	delete(o.f.objs, o.name)
	delete(o.f.updated, o.name)
	return nil
}

func (o *verifObject) CopierFrom(src stiface.ObjectHandle) stiface.Copier {
	return &verifCopier{dst: o, src: src.(*verifObject)}
}

// ---- stiface.Copier
type verifCopier struct {
	stiface.Copier
	dst, src *verifObject
}

func (c *verifCopier) Run(context.Context) (*storage.ObjectAttrs, error) {
	c.dst.f.Calls["copy"]++
	if err := c.src.check(); err != nil {
		return nil, err
	}
	if err := c.dst.check(); err != nil {
		return nil, err
	}
	data, ok := c.src.f.objs[c.src.name]
	if !ok {
		return nil, storage.ErrObjectNotExist
	}
	c.dst.f.Put(c.dst.name, data)
	return c.dst.f.attrs(c.dst.name), nil
}

// ---- stiface.Reader: a snapshot of the generation it was opened on
type verifReader struct {
	stiface.Reader
	size   int64
	rem    []byte
	closed bool
}

func (r *verifReader) Read(p []byte) (int, error) {
	if r.closed {
		return 0, errVerifClosed
	}
	if len(p) == 0 {
		return 0, nil
	}
	if len(r.rem) == 0 {
		return 0, io.EOF
	}
	n := copy(p, r.rem)
	r.rem = r.rem[n:]
	return n, nil
}
func (r *verifReader) Close() error {
	r.closed = true
	return nil
}
func (r *verifReader) Size() int64   { return r.size }
func (r *verifReader) Remain() int64 { return int64(len(r.rem)) }

// ---- stiface.Writer: buffered; committed atomically by Close
type verifWriter struct {
	stiface.Writer
	o      *verifObject
	buf    []byte
	closed bool
}

func (w *verifWriter) Write(p []byte) (int, error) {
	if w.closed {
		return 0, errVerifClosed
	}
	if err := w.o.check(); err != nil {
		return 0, err
	}
	w.buf = append(w.buf, p...)
	return len(p), nil
}
func (w *verifWriter) Close() error {
	if w.closed {
		return errVerifClosed
	}
	w.closed = true
	if err := w.o.check(); err != nil {
		return err
	}
	w.o.f.Put(w.o.name, w.buf)
	return nil
}
func (w *verifWriter) Attrs() *storage.ObjectAttrs {
	if !w.closed {
		return nil
	}
	return w.o.f.attrs(w.o.name)
}
