package main

// C20 — gcsfs on top of the fake object store (overlay/gcsfake.go).
//
//   gcase <id> <class: i|ib|o>      ib = as i with very large payloads: Go-side oracle only, no model lines
//                                   i = inside the property's class (compared with the spec and
//                                   judged by the Go-side oracle), o = outside (panics and
//                                   model correspondence only)
//   obj <name hex> <payload>        initial object, put DIRECTLY into the fake (bucket-relative name)
//   . <slot|-> <Op> <args>          one call through gcsfs (paths are "<bucket>/<object path>" in hex)
//   snap                            the whole bucket, read DIRECTLY from the fake
//   end
// payload = hex | "-" | gen:<seed>:<len> (pattern bytes, see genBytes).
//
// Impl lines: "<id>#<line index> <raw canonical result>" for every body line except obj, and
// for class i additionally "<id>#<line index>/p <projected result>" (what the spec speaks about).

import (
	"fmt"
	"io"
	"log"
	"os"
	"sort"
	"strconv"
	"strings"

	"github.com/spf13/afero"
	"github.com/spf13/afero/gcsfs"
)

func init() { props["C20"] = runC20 }

const gBucket = "b"

func atoi(s string) int {
	v, err := strconv.Atoi(s)
	if err != nil {
		panic(err)
	}
	return v
}

// genBytes: byte i of pattern <seed> is (seed + 131*i + 17*(i>>8)) mod 256
func genBytes(seed, n int) []byte {
	b := make([]byte, n)
	for i := range b {
		b[i] = byte(seed + 131*i + 17*(i>>8))
	}
	return b
}

func payload(s string) []byte {
	if strings.HasPrefix(s, "gen:") {
		t := strings.Split(s, ":")
		return genBytes(atoi(t[1]), atoi(t[2]))
	}
	return unhx(s)
}

// ------------------------------------------------------------------ interpreter
type gInterp struct {
	fs    afero.Fs
	fake  *gcsfs.VerifFake
	slots map[int]afero.File
}

func newGInterp() *gInterp {
	fs, fake := gcsfs.VerifNewFake(gBucket)
	return &gInterp{fs: fs, fake: fake, slots: map[int]afero.File{}}
}

func (in *gInterp) snap() string {
	names := in.fake.Names()
	parts := make([]string, len(names))
	for i, n := range names {
		d, _ := in.fake.Get(n)
		parts[i] = hx([]byte(n)) + "=" + dataS(d)
	}
	return "snap:" + strings.Join(parts, ";")
}

var lastPanic string

func (in *gInterp) exec(t []string) (out string) {
	defer func() {
		if r := recover(); r != nil {
			out = "panic"
			lastPanic = fmt.Sprint(r)
		}
	}()
	if t[0] == "snap" {
		return in.snap()
	}
	slot := -1
	if t[1] != "-" {
		slot = atoi(t[1])
	}
	name, a := t[2], t[3:]
	p := func(i int) string { return string(unhx(a[i])) }
	bind := func(f afero.File, err error) string {
		if err != nil {
			return "err:" + errClass(err)
		}
		if slot >= 0 {
			in.slots[slot] = f
		}
		return "handle"
	}
	e := func(err error) string {
		if err != nil {
			return "err:" + errClass(err)
		}
		return "ok"
	}
	if strings.HasPrefix(name, "H") {
		f, ok := in.slots[atoi(a[0])]
		if !ok {
			return "noslot"
		}
		return execHandle(f, name, a[1:])
	}
	switch name {
	case "Create":
		return bind(in.fs.Create(p(0)))
	case "Mkdir":
		return e(in.fs.Mkdir(p(0), os.FileMode(atoi(a[1]))))
	case "MkdirAll":
		return e(in.fs.MkdirAll(p(0), os.FileMode(atoi(a[1]))))
	case "Open":
		return bind(in.fs.Open(p(0)))
	case "OpenFile":
		return bind(in.fs.OpenFile(p(0), atoi(a[1]), os.FileMode(atoi(a[2]))))
	case "Remove":
		return e(in.fs.Remove(p(0)))
	case "RemoveAll":
		return e(in.fs.RemoveAll(p(0)))
	case "Rename":
		return e(in.fs.Rename(p(0), p(1)))
	case "Stat":
		fi, err := in.fs.Stat(p(0))
		if err != nil {
			return "err:" + errClass(err)
		}
		return "info:" + fiS(fi)
	}
	panic("unknown op " + name)
}

func execHandle(f afero.File, name string, a []string) string {
	switch name {
	case "HRead":
		n := atoi(a[0])
		buf := make([]byte, n)
		k, err := f.Read(buf)
		if k < 0 || k > n {
			return fmt.Sprintf("badcount:%d", k)
		}
		return fmt.Sprintf("data:%s:%s", dataS(buf[:k]), errClass(err))
	case "HReadAt":
		n := atoi(a[0])
		buf := make([]byte, n)
		k, err := f.ReadAt(buf, int64(atoi(a[1])))
		if k < 0 || k > n {
			return fmt.Sprintf("badcount:%d", k)
		}
		return fmt.Sprintf("data:%s:%s", dataS(buf[:k]), errClass(err))
	case "HWrite":
		k, err := f.Write(payload(a[0]))
		return fmt.Sprintf("count:%d:%s", k, errClass(err))
	case "HWriteAt":
		k, err := f.WriteAt(payload(a[0]), int64(atoi(a[1])))
		return fmt.Sprintf("count:%d:%s", k, errClass(err))
	case "HWriteString":
		k, err := f.WriteString(string(payload(a[0])))
		return fmt.Sprintf("count:%d:%s", k, errClass(err))
	case "HSeek":
		k, err := f.Seek(int64(atoi(a[0])), atoi(a[1]))
		return fmt.Sprintf("pos:%d:%s", k, errClass(err))
	case "HTruncate":
		if err := f.Truncate(int64(atoi(a[0]))); err != nil {
			return "err:" + errClass(err)
		}
		return "ok"
	case "HClose":
		if err := f.Close(); err != nil {
			return "err:" + errClass(err)
		}
		return "ok"
	case "HReaddir":
		l, err := f.Readdir(atoi(a[0]))
		return listRes("infos", fisS(l), len(l), err)
	case "HReaddirnames":
		l, err := f.Readdirnames(atoi(a[0]))
		return listRes("names", namesS(l), len(l), err)
	case "HStat":
		fi, err := f.Stat()
		if err != nil {
			return "err:" + errClass(err)
		}
		return "info:" + fiS(fi)
	case "HName":
		return "name:" + hx([]byte(f.Name()))
	case "HSync":
		if err := f.Sync(); err != nil {
			return "err:" + errClass(err)
		}
		return "ok"
	}
	panic("unknown handle op " + name)
}

// projection of a raw result to what the property speaks about
func projG(op string, raw string) string {
	if raw == "panic" || raw == "noslot" {
		return raw
	}
	parts := strings.Split(raw, ":")
	isErr := parts[0] == "err"
	switch op {
	case "snap":
		return raw
	case "Create", "Open", "OpenFile":
		if raw == "handle" {
			return "ok"
		}
		return "err"
	case "HRead", "HReadAt":
		if parts[0] == "data" && (parts[2] == "-" || parts[2] == "EOF") {
			return "bytes:" + parts[1]
		}
		return "err"
	case "HWrite", "HWriteAt", "HWriteString":
		if parts[0] == "count" && parts[2] == "-" {
			return "count:" + parts[1]
		}
		return "err"
	case "HSeek":
		if parts[0] == "pos" && parts[2] == "-" {
			return "pos:" + parts[1]
		}
		return "err"
	case "Stat", "HStat":
		if parts[0] == "info" {
			f := strings.Split(parts[1], "|")
			if f[1] == "d" {
				return "dir"
			}
			return "size:" + f[2]
		}
		return "err"
	case "HReaddirnames":
		if parts[0] == "names" && (parts[2] == "-" || parts[2] == "EOF") {
			return "names:" + parts[1]
		}
		return "err"
	case "HReaddir":
		if parts[0] == "infos" && (parts[2] == "-" || parts[2] == "EOF") {
			var ns []string
			if parts[1] != "" {
				for _, e := range strings.Split(parts[1], ",") {
					f := strings.Split(e, "|")
					ns = append(ns, f[0]+"|"+f[1])
				}
			}
			return "ents:" + strings.Join(ns, ",")
		}
		return "err"
	case "Remove":
		if isErr {
			return "refused"
		}
		return "ok"
	case "RemoveAll":
		return "done"
	}
	if isErr {
		return "err"
	}
	return "ok"
}

// ------------------------------------------------------------------ reference (Go-side oracle)
// Plain Go byte slices and a name -> content map; written from the property text, knows nothing
// about gcsfs' readers/writers.  Folder questions are answered from the object list READ
// DIRECTLY from the fake at the time of the call.
type refH struct {
	name   string // bucket-relative
	pos    int
	dirty  bool // a positional read/write happened and Seek has not re-established the position
	ro     bool
	dir    bool
	closed bool
	bad    bool // left the class: nothing more is judged on this handle
}

type refFS struct {
	objs map[string][]byte
	h    map[int]*refH
	bad  bool // the case left the class: nothing more is judged
}

func newRef() *refFS { return &refFS{objs: map[string][]byte{}, h: map[int]*refH{}} }

func rel(p string) (string, bool) {
	if p == gBucket {
		return "", true
	}
	if strings.HasPrefix(p, gBucket+"/") {
		return p[len(gBucket)+1:], true
	}
	return "", false
}

func isFileIn(names []string, n string) bool {
	if n == "" || strings.HasSuffix(n, "/") {
		return false
	}
	for _, k := range names {
		if k == n {
			return true
		}
	}
	return false
}

func isFolderIn(names []string, n string) bool {
	if n == "" {
		return true
	}
	for _, k := range names {
		if strings.HasPrefix(k, n+"/") {
			return true
		}
	}
	return false
}

// immediate children of folder n: (name, isDir), sorted by name, once each
func childrenIn(names []string, n string) (out []string, dirs map[string]bool) {
	prefix := n + "/"
	if n == "" {
		prefix = ""
	}
	dirs = map[string]bool{}
	seen := map[string]bool{}
	for _, k := range names {
		if !strings.HasPrefix(k, prefix) || k == prefix {
			continue
		}
		rest := k[len(prefix):]
		c := rest
		if i := strings.IndexByte(rest, '/'); i >= 0 {
			c = rest[:i]
			dirs[c] = true
		}
		if !seen[c] {
			seen[c] = true
			out = append(out, c)
		}
	}
	sort.Strings(out)
	return
}

func (r *refFS) names() []string {
	out := make([]string, 0, len(r.objs))
	for k := range r.objs {
		out = append(out, k)
	}
	sort.Strings(out)
	return out
}

func (r *refFS) openOn(n string) bool {
	for _, h := range r.h {
		if !h.closed && !h.dir && h.name == n {
			return true
		}
	}
	return false
}

func (r *refFS) openBelow(n string) bool {
	for _, h := range r.h {
		if !h.closed && !h.dir && (h.name == n || strings.HasPrefix(h.name, n+"/")) {
			return true
		}
	}
	return false
}

// expect applies one op to the reference and returns the expected projected result ("" = the op
// is outside the class here: no judgement).  direct = the fake's object names before the call.
func (r *refFS) expect(t []string, direct []string) string {
	if r.bad {
		return ""
	}
	if t[0] == "snap" {
		for _, h := range r.h {
			if !h.closed && !h.dir {
				return "" // pending writers may exist
			}
		}
		names := r.names()
		parts := make([]string, len(names))
		for i, n := range names {
			parts[i] = hx([]byte(n)) + "=" + dataS(r.objs[n])
		}
		return "snap:" + strings.Join(parts, ";")
	}
	slot := -1
	if t[1] != "-" {
		slot = atoi(t[1])
	}
	op, a := t[2], t[3:]
	leave := func() string { r.bad = true; return "" }
	if strings.HasPrefix(op, "H") {
		h, ok := r.h[atoi(a[0])]
		if !ok {
			return "noslot"
		}
		if h.bad {
			return ""
		}
		hleave := func() string { h.bad = true; return "" }
		if h.closed {
			if op == "HClose" {
				return "err"
			}
			return hleave()
		}
		if h.dir {
			switch op {
			case "HReaddirnames", "HReaddir":
				n := atoi(a[1])
				ch, dirs := childrenIn(direct, h.name)
				if n > 0 && n < len(ch) {
					ch = ch[:n]
				}
				parts := make([]string, len(ch))
				for i, c := range ch {
					parts[i] = hx([]byte(c))
					if op == "HReaddir" {
						if dirs[c] {
							parts[i] += "|d"
						} else {
							parts[i] += "|f"
						}
					}
				}
				if op == "HReaddir" {
					return "ents:" + strings.Join(parts, ",")
				}
				return "names:" + strings.Join(parts, ",")
			case "HStat":
				return "dir"
			case "HClose":
				h.closed = true
				return "ok"
			}
			return hleave()
		}
		data := r.objs[h.name]
		size := len(data)
		switch op {
		case "HRead":
			n := atoi(a[1])
			if h.dirty || h.pos > size || n < 0 {
				return hleave()
			}
			end := h.pos + n
			if end > size {
				end = size
			}
			b := data[h.pos:end]
			h.pos = end
			return "bytes:" + dataS(b)
		case "HReadAt":
			n, off := atoi(a[1]), atoi(a[2])
			if off < 0 || off > size || n < 0 {
				return hleave()
			}
			end := off + n
			if end > size {
				end = size
			}
			h.dirty = true
			return "bytes:" + dataS(data[off:end])
		case "HWrite", "HWriteString":
			b := payload(a[1])
			if h.ro || h.dirty || h.pos > size {
				return hleave()
			}
			r.objs[h.name] = refWrite(data, h.pos, b)
			h.pos += len(b)
			return fmt.Sprintf("count:%d", len(b))
		case "HWriteAt":
			b, off := payload(a[1]), atoi(a[2])
			if h.ro || off < 0 || off > size {
				return hleave()
			}
			r.objs[h.name] = refWrite(data, off, b)
			h.dirty = true
			return fmt.Sprintf("count:%d", len(b))
		case "HSeek":
			off, wh := atoi(a[1]), atoi(a[2])
			var target int
			switch wh {
			case 0:
				target = off
			case 1:
				if h.dirty {
					return hleave()
				}
				target = h.pos + off
			case 2:
				target = size + off
			default:
				return hleave()
			}
			if target < 0 || target > size {
				return hleave()
			}
			h.pos, h.dirty = target, false
			return fmt.Sprintf("pos:%d", target)
		case "HTruncate":
			n := atoi(a[1])
			if h.ro || n < 0 || n > size {
				return hleave()
			}
			r.objs[h.name] = append([]byte{}, data[:n]...)
			return "ok"
		case "HStat":
			return fmt.Sprintf("size:%d", size)
		case "HSync":
			return "ok"
		case "HClose":
			h.closed = true
			return "ok"
		}
		return hleave()
	}
	p0, ok := rel(string(unhx(a[0])))
	if !ok || strings.HasSuffix(p0, "/") {
		return leave()
	}
	bind := func(h *refH) {
		if slot >= 0 {
			r.h[slot] = h
		}
	}
	names := r.names()
	switch op {
	case "Create":
		if p0 == "" || r.openOn(p0) || isFolderIn(names, p0) {
			return leave()
		}
		r.objs[p0] = []byte{}
		bind(&refH{name: p0})
		return "ok"
	case "Open", "OpenFile":
		flag := 0
		if op == "OpenFile" {
			flag = atoi(a[1])
		}
		if isFileIn(names, p0) {
			if r.openOn(p0) || flag&os.O_CREATE != 0 || flag&^(os.O_RDWR|os.O_WRONLY|os.O_APPEND|os.O_TRUNC) != 0 {
				return leave()
			}
			h := &refH{name: p0, ro: flag == os.O_RDONLY}
			if flag&os.O_TRUNC != 0 {
				r.objs[p0] = []byte{}
			} else if flag&os.O_APPEND != 0 {
				h.pos = len(r.objs[p0])
			}
			bind(h)
			return "ok"
		}
		if isFolderIn(names, p0) && flag == os.O_RDONLY {
			bind(&refH{name: p0, dir: true})
			return "ok"
		}
		if flag == os.O_RDONLY {
			return "err"
		}
		return leave()
	case "Stat":
		if r.openOn(p0) {
			return leave()
		}
		if isFileIn(direct, p0) {
			return fmt.Sprintf("size:%d", len(r.objs[p0]))
		}
		if isFolderIn(direct, p0) {
			return "dir"
		}
		return "err"
	case "Remove":
		if p0 == "" || r.openBelow(p0) {
			return leave()
		}
		if isFileIn(direct, p0) {
			delete(r.objs, p0)
			return "ok"
		}
		if isFolderIn(direct, p0) {
			if ch, _ := childrenIn(direct, p0); len(ch) > 0 {
				return "refused"
			}
			delete(r.objs, p0+"/")
			return "ok"
		}
		return "refused"
	case "RemoveAll":
		if p0 == "" || r.openBelow(p0) {
			return leave()
		}
		for _, k := range names {
			if k == p0 || strings.HasPrefix(k, p0+"/") {
				delete(r.objs, k)
			}
		}
		return "done"
	case "Rename":
		q0, ok := rel(string(unhx(a[1])))
		if !ok || p0 == "" || q0 == "" || strings.HasSuffix(q0, "/") || p0 == q0 || !isFileIn(names, p0) ||
			r.openOn(p0) || r.openOn(q0) || isFolderIn(names, q0) {
			return leave()
		}
		r.objs[q0] = r.objs[p0]
		delete(r.objs, p0)
		return "ok"
	case "Mkdir":
		if p0 == "" || isFolderIn(names, p0) && isFileIn(names, p0) {
			return leave()
		}
		for parts, i := strings.Split(p0, "/"), 0; i < len(parts); i++ {
			if isFileIn(names, strings.Join(parts[:i+1], "/")) {
				return leave()
			}
		}
		r.objs[p0+"/"] = []byte{}
		return "ok"
	case "MkdirAll":
		if p0 == "" {
			return leave()
		}
		parts := strings.Split(p0, "/")
		for i := range parts {
			d := strings.Join(parts[:i+1], "/")
			if isFileIn(names, d) {
				return leave()
			}
		}
		for i := range parts {
			r.objs[strings.Join(parts[:i+1], "/")+"/"] = []byte{}
		}
		return "ok"
	}
	return leave()
}

// the flat byte array after writing b at off (off <= len(data))
func refWrite(data []byte, off int, b []byte) []byte {
	out := append([]byte{}, data[:off]...)
	out = append(out, b...)
	if off+len(b) < len(data) {
		out = append(out, data[off+len(b):]...)
	}
	return out
}

func sigOf(op string, direct []string, t []string, want, got string) string {
	if got == "panic" {
		return "panic:" + op
	}
	switch op {
	case "HRead", "HReadAt", "HWrite", "HWriteAt", "HWriteString", "HSeek", "HTruncate", "HStat", "HSync", "HClose":
		if want == "dir" {
			return "folder:" + op
		}
		return "data:" + op
	case "HReaddir", "HReaddirnames":
		return "listing:" + op
	case "Stat":
		if want == "dir" || got == "dir" {
			return "folder:Stat"
		}
		return "data:Stat"
	case "Remove":
		if want == "refused" {
			return "remove:nonempty-removed"
		}
		return "remove:refused"
	case "snap":
		return "bucket:snap"
	}
	return "fsop:" + op
}

// ------------------------------------------------------------------ running one case
func runGCase(c *Ctx, id, class string, body []string) {
	in := newGInterp()
	ref := newRef()
	c.Case("gcase %s %s", id, class)
	inClass := class == "i" || class == "ib"
	big := class == "ib" // 300 KB payloads: judged by the Go-side oracle only, no model lines
	for i, line := range body {
		c.Case("%s", line)
		t := strings.Fields(line)
		if t[0] == "obj" {
			name, data := string(unhx(t[1])), payload(t[2])
			in.fake.Put(name, data)
			ref.objs[name] = append([]byte{}, data...)
			continue
		}
		op := t[0]
		if op != "snap" {
			op = t[2]
		}
		direct := in.fake.Names()
		out := in.exec(t)
		if !big {
			c.Impl("%s#%d %s", id, i, out)
		}
		c.Count("op." + op)
		c.Count("res." + strings.SplitN(out, ":", 2)[0])
		if strings.HasPrefix(out, "err:") {
			c.Count("errclass." + out[4:])
		}
		if out == "panic" {
			c.Oracle("FAIL %s panic:%s a call panicked (%s): %s", id, op, lastPanic, line)
		}
		if !inClass {
			continue
		}
		got := projG(op, out)
		if !big {
			c.Impl("%s#%d/p %s", id, i, got)
		}
		want := ref.expect(t, direct)
		if want == "" {
			c.Count("oracle.skipped")
			continue
		}
		c.Count("oracle.judged")
		if out == "panic" {
			ref.bad = true // the reference cannot follow a panicked call
			continue
		}
		if want != got {
			c.Oracle("FAIL %s %s step %d `%s`: expected %s, gcsfs gave %s (raw %s)", id, sigOf(op, direct, t, want, got), i, line, want, got, out)
			ref.bad = true // reference and implementation have diverged: nothing more is judged in this case
		}
		// bucket-level rules, judged on the fake's own object list
		after := in.fake.Names()
		switch op {
		case "HClose", "HSync":
			// what the bucket holds after Close/Sync is what was written
			if h, ok := ref.h[atoi(t[3])]; ok && !h.dir && !h.bad && out == "ok" {
				b, exists := in.fake.Get(h.name)
				if !exists || string(b) != string(ref.objs[h.name]) {
					ref.bad = true
					c.Oracle("FAIL %s bucket:after-%s step %d: object %q holds %s, written data is %s", id, op, i, h.name, dataS(b), dataS(ref.objs[h.name]))
				}
			}
		case "Remove":
			if want == "refused" && strings.Join(after, "\x00") != strings.Join(direct, "\x00") {
				c.Oracle("FAIL %s remove:nonempty-removed step %d `%s`: object list changed from %q to %q", id, i, line, direct, after)
			}
		case "RemoveAll":
			p0, _ := rel(string(unhx(t[3])))
			var keep []string
			for _, k := range direct {
				if !(k == p0 || strings.HasPrefix(k, p0+"/")) {
					keep = append(keep, k)
				}
			}
			if strings.Join(after, "\x00") != strings.Join(keep, "\x00") && out != "panic" {
				sig := "removeall:subtree-remains"
				if len(after) < len(keep) {
					sig = "removeall:collateral"
				}
				c.Oracle("FAIL %s %s step %d `%s`: objects before %q, after %q, expected %q", id, sig, i, line, direct, after, keep)
				ref.bad = true
			}
		}
	}
	c.Case("end")
	c.NCases++
}

// gconst <id> <name>: a package constant of gcsfs the model has a copy of
func runGConst(c *Ctx, id, name string) {
	c.Case("gconst %s %s", id, name)
	switch name {
	case "maxWriteSize":
		c.Impl("%s %d", id, gcsfs.VerifMaxWriteSize())
	case "folderSize":
		c.Impl("%s %d", id, gcsfs.VerifFolderSize())
	}
	c.NCases++
}

func runC20(c *Ctx) {
	log.SetOutput(io.Discard) // gcsfs logs a warning on every real Seek
	if c.From != nil {
		for _, cs := range c.From {
			t := strings.Fields(cs[0])
			switch t[0] {
			case "gcase":
				runGCase(c, t[1], t[2], cs[1:len(cs)-1])
			case "gconst":
				runGConst(c, t[1], t[2])
			}
		}
		return
	}
	genC20(c)
}
