package main

// canon.go — projection of implementation results to canonical text (gcsfs harness).
// Never compared: addresses, clock values, error strings, file modes.

import (
	"crypto/md5"
	"encoding/hex"
	"fmt"
	"io"
	"os"
	"strings"
	"syscall"

	"cloud.google.com/go/storage"
	"github.com/spf13/afero/gcsfs"
)

func errClass(err error) string {
	if err == nil {
		return "-"
	}
	switch err {
	case io.EOF:
		return "EOF"
	case gcsfs.ErrFileClosed:
		return "Closed"
	case gcsfs.ErrOutOfRange:
		return "OutOfRange"
	case gcsfs.ErrNoBucketInName:
		return "NoBucket"
	case gcsfs.ErrEmptyObjectName:
		return "EmptyName"
	case storage.ErrObjectNotExist:
		return "ObjNotExist"
	case storage.ErrBucketNotExist:
		return "BucketNotExist"
	case syscall.ENOENT:
		return "NotExist"
	case syscall.EPERM:
		return "Perm"
	case syscall.EISDIR:
		return "IsDir"
	case syscall.ENOTDIR:
		return "NotDir"
	case syscall.ENOTEMPTY:
		return "NotEmpty"
	}
	msg := err.Error()
	switch {
	case msg == "storage: object name is empty":
		return "EmptyName"
	case strings.Contains(msg, "read only"):
		return "ReadOnlyHandle"
	}
	return "Other"
}

// dataS: bytes as hex; long contents as length + md5 (the model runner prints the same)
func dataS(b []byte) string {
	if len(b) > 64 {
		s := md5.Sum(b)
		return fmt.Sprintf("L%d.%s", len(b), hex.EncodeToString(s[:]))
	}
	return hx(b)
}

func fiS(fi os.FileInfo) string {
	if fi.IsDir() {
		return fmt.Sprintf("%s|d|-", hx([]byte(fi.Name())))
	}
	return fmt.Sprintf("%s|f|%d", hx([]byte(fi.Name())), fi.Size())
}

func fisS(l []os.FileInfo) string {
	parts := make([]string, len(l))
	for i, fi := range l {
		parts[i] = fiS(fi)
	}
	return strings.Join(parts, ",")
}

func namesS(l []string) string {
	parts := make([]string, len(l))
	for i, n := range l {
		parts[i] = hx([]byte(n))
	}
	return strings.Join(parts, ",")
}

// list results with a non-EOF error and no entries print as a plain error
func listRes(kind, body string, n int, err error) string {
	if err != nil && err != io.EOF && n == 0 {
		return "err:" + errClass(err)
	}
	return fmt.Sprintf("%s:%s:%s", kind, body, errClass(err))
}
