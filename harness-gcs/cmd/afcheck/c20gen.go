package main

// generators for C20: (1) small-scope sweep, (2) structured in-class sequences (class i),
// (3) unconstrained / malformed sequences (class o), (4) large payloads across maxWriteSize.

import (
	"fmt"
	"os"
	"sort"
	"strings"

	"github.com/spf13/afero/gcsfs"
)

func hp(p string) string { return hx([]byte(p)) }
func full(n string) string {
	if n == "" {
		return gBucket
	}
	return gBucket + "/" + n
}

var gFolders = []string{"d", "d/e", "x", "d/d", "b", "x/y"}
var gBases = []string{"f", "g", "h", "d", "b", "long-name.bin", "d.txt", "e.x", "x-1", "y!"} // the last four sort BEFORE "<folder>/" in a prefix listing

type gen struct {
	r     *Rng
	sim   *refFS
	lines []string
	nops  int
	big   []int // sizes for the occasional large payload
	bigDen int  // a payload is large with probability 1/bigDen
	left  bool  // the simulation left the class (generator bug): counted
}

func (g *gen) emit(line string) string {
	g.lines = append(g.lines, line)
	t := strings.Fields(line)
	w := g.sim.expect(t, g.sim.names())
	if w == "" && t[0] != "snap" {
		g.left = true
		if os.Getenv("C20_DEBUG") != "" {
			fmt.Fprintln(os.Stderr, "generator left the class at:", line, "after", strings.Join(g.lines, " ; "))
		}
	}
	if t[0] != "snap" {
		g.nops++
	}
	return w
}

func (g *gen) payload(max int) string {
	r := g.r
	if len(g.big) > 0 && r.Chance(1, g.bigDen) {
		return fmt.Sprintf("gen:%d:%d", r.Intn(256), Pick(r, g.big))
	}
	switch r.Intn(8) {
	case 0:
		return "-"
	case 1:
		return fmt.Sprintf("gen:%d:%d", r.Intn(256), r.Range(33, 64))
	}
	n := r.Range(1, max)
	b := make([]byte, n)
	for i := range b {
		b[i] = byte(r.Range('A', 'Z'))
	}
	return hx(b)
}

func (g *gen) files() []string {
	var out []string
	for _, k := range g.sim.names() {
		if !strings.HasSuffix(k, "/") {
			out = append(out, k)
		}
	}
	return out
}

func (g *gen) folders() []string {
	seen := map[string]bool{}
	for _, k := range g.sim.names() {
		parts := strings.Split(k, "/")
		for i := 1; i < len(parts); i++ {
			seen[strings.Join(parts[:i], "/")] = true
		}
	}
	out := make([]string, 0, len(seen))
	for k := range seen {
		out = append(out, k)
	}
	sort.Strings(out)
	return out
}

func (g *gen) freeSlot() int {
	for s := 0; ; s++ {
		if h, ok := g.sim.h[s]; !ok || h.closed {
			return s
		}
	}
}

func (g *gen) openFileHandles() []int {
	var out []int
	for s, h := range g.sim.h {
		if !h.closed && !h.dir {
			out = append(out, s)
		}
	}
	sort.Ints(out)
	return out
}

// a name for a new file that is neither a file nor a folder and whose parents are not files
func (g *gen) freshName() string {
	names := g.sim.names()
	for try := 0; try < 20; try++ {
		dir := ""
		if g.r.Chance(2, 3) {
			dir = Pick(g.r, gFolders)
		}
		n := Pick(g.r, gBases)
		if dir != "" {
			n = dir + "/" + n
		}
		ok := !isFileIn(names, n) && !isFolderIn(names, n)
		parts := strings.Split(n, "/")
		for i := 1; i < len(parts) && ok; i++ {
			if isFileIn(names, strings.Join(parts[:i], "/")) {
				ok = false
			}
		}
		if ok {
			return n
		}
	}
	return ""
}

func (g *gen) layout() {
	r := g.r
	nf := r.Range(0, 3)
	for i := 0; i < nf; i++ {
		d := Pick(r, gFolders)
		if isFileIn(g.sim.names(), d) {
			continue
		}
		if r.Bool() { // explicit placeholder (and its parents, sometimes)
			parts := strings.Split(d, "/")
			for j := range parts {
				if j == len(parts)-1 || r.Bool() {
					p := strings.Join(parts[:j+1], "/") + "/"
					if _, ok := g.sim.objs[p]; !ok {
						g.sim.objs[p] = []byte{}
						g.lines = append(g.lines, fmt.Sprintf("obj %s -", hp(p)))
					}
				}
			}
		} else if n := d + "/" + Pick(r, gBases); !isFolderIn(g.sim.names(), n) && !isFileIn(g.sim.names(), n) { // implicit: exists through a file below it
			pl := g.payload(64)
			g.sim.objs[n] = payload(pl)
			g.lines = append(g.lines, fmt.Sprintf("obj %s %s", hp(n), pl))
		}
	}
	no := r.Range(0, 3)
	for i := 0; i < no; i++ {
		if n := g.freshName(); n != "" {
			pl := g.payload(64)
			g.sim.objs[n] = payload(pl)
			g.lines = append(g.lines, fmt.Sprintf("obj %s %s", hp(n), pl))
		}
	}
}

func (g *gen) handleOp(s int) {
	r := g.r
	h := g.sim.h[s]
	size := len(g.sim.objs[h.name])
	off := func() int { return r.Range(0, size) }
	rn := func() int { return Pick(r, []int{0, 1, 2, 3, 5, 8, size, size + 3, 64, 100}) }
	seek := func() {
		switch r.Intn(3) {
		case 0, 1:
			g.emit(fmt.Sprintf(". - HSeek %d %d 0", s, off()))
		case 2:
			g.emit(fmt.Sprintf(". - HSeek %d %d 2", s, -off()))
		}
	}
	needSeek := h.dirty || h.pos > size
	for try := 0; try < 10; try++ {
		switch r.Intn(16) {
		case 0, 1, 2:
			if !h.ro && !needSeek {
				g.emit(fmt.Sprintf(". - HWrite %d %s", s, g.payload(12)))
				return
			}
		case 3, 4:
			if !h.ro {
				g.emit(fmt.Sprintf(". - HWriteAt %d %s %d", s, g.payload(12), off()))
				return
			}
		case 5, 6, 7:
			if !needSeek {
				g.emit(fmt.Sprintf(". - HRead %d %d", s, rn()))
				return
			}
		case 8:
			g.emit(fmt.Sprintf(". - HReadAt %d %d %d", s, rn(), off()))
			return
		case 9, 10, 11:
			if r.Chance(1, 4) && !needSeek {
				d := r.Range(-h.pos, size-h.pos)
				g.emit(fmt.Sprintf(". - HSeek %d %d 1", s, d))
			} else {
				seek()
			}
			return
		case 12:
			if !h.ro {
				g.emit(fmt.Sprintf(". - HTruncate %d %d", s, off()))
				return
			}
		case 13:
			g.emit(fmt.Sprintf(". - HStat %d", s))
			return
		case 14:
			if r.Chance(1, 2) {
				g.emit(fmt.Sprintf(". - HSync %d", s))
				return
			}
		case 15:
			g.emit(fmt.Sprintf(". - HClose %d", s))
			if len(g.openFileHandles()) == 0 {
				g.emit("snap")
			}
			return
		}
	}
	seek()
}

func (g *gen) openSome() bool {
	r := g.r
	var cand []string
	for _, f := range g.files() {
		if !g.sim.openOn(f) {
			cand = append(cand, f)
		}
	}
	if len(cand) == 0 {
		return false
	}
	f := Pick(r, cand)
	s := g.freeSlot()
	switch r.Intn(8) {
	case 0:
		g.emit(fmt.Sprintf(". %d Open %s", s, hp(full(f))))
	case 1:
		g.emit(fmt.Sprintf(". %d Create %s", s, hp(full(f))))
	case 2:
		g.emit(fmt.Sprintf(". %d OpenFile %s %d 420", s, hp(full(f)), os.O_WRONLY))
	case 3:
		g.emit(fmt.Sprintf(". %d OpenFile %s %d 420", s, hp(full(f)), os.O_RDWR|os.O_APPEND))
	case 4:
		g.emit(fmt.Sprintf(". %d OpenFile %s %d 420", s, hp(full(f)), os.O_RDWR|os.O_TRUNC))
	default:
		g.emit(fmt.Sprintf(". %d OpenFile %s %d 420", s, hp(full(f)), os.O_RDWR))
	}
	return true
}

func (g *gen) folderOp() {
	r := g.r
	folders := g.folders()
	files := g.files()
	anyPath := func() string {
		switch r.Intn(4) {
		case 0:
			if len(folders) > 0 {
				return Pick(r, folders)
			}
		case 1:
			if len(files) > 0 {
				return Pick(r, files)
			}
		case 2:
			return Pick(r, gFolders)
		}
		if n := g.freshName(); n != "" {
			return n
		}
		return "zz"
	}
	switch r.Intn(12) {
	case 0, 1:
		p := anyPath()
		if !g.sim.openOn(p) {
			g.emit(fmt.Sprintf(". - Stat %s", hp(full(p))))
		}
	case 2, 3, 4:
		d := ""
		if len(folders) > 0 && r.Chance(4, 5) {
			d = Pick(r, folders)
		}
		s := g.freeSlot()
		g.emit(fmt.Sprintf(". %d Open %s", s, hp(full(d))))
		k := r.Range(1, 2)
		for i := 0; i < k; i++ {
			n := Pick(r, []int{0, 0, 0, -1, 1, 1, 2, 3})
			if r.Chance(1, 10) {
				n = Pick(r, []int{5, 10}) // above the number of entries (D17)
			}
			if r.Bool() {
				g.emit(fmt.Sprintf(". - HReaddirnames %d %d", s, n))
			} else {
				g.emit(fmt.Sprintf(". - HReaddir %d %d", s, n))
			}
		}
		if r.Chance(1, 4) {
			g.emit(fmt.Sprintf(". - HStat %d", s))
		}
		g.emit(fmt.Sprintf(". - HClose %d", s))
	case 5, 6:
		p := anyPath()
		if p != "" && !g.sim.openBelow(p) {
			g.emit(fmt.Sprintf(". - Remove %s", hp(full(p))))
			if len(g.openFileHandles()) == 0 {
				g.emit("snap")
			}
		}
	case 7, 8:
		p := anyPath()
		if p != "" && !g.sim.openBelow(p) {
			g.emit(fmt.Sprintf(". - RemoveAll %s", hp(full(p))))
			if len(g.openFileHandles()) == 0 {
				g.emit("snap")
			}
		}
	case 9:
		if len(files) > 0 {
			p := Pick(r, files)
			q := g.freshName()
			if r.Chance(1, 4) {
				q = Pick(r, files)
			}
			if q != "" && q != p && !g.sim.openOn(p) && !g.sim.openOn(q) {
				g.emit(fmt.Sprintf(". - Rename %s %s", hp(full(p)), hp(full(q))))
			}
		}
	case 10:
		d := Pick(r, gFolders)
		ok := true
		parts := strings.Split(d, "/")
		for i := range parts {
			if isFileIn(g.sim.names(), strings.Join(parts[:i+1], "/")) {
				ok = false
			}
		}
		if ok {
			g.emit(fmt.Sprintf(". - Mkdir %s 493", hp(full(d))))
		}
	case 11:
		d := Pick(r, gFolders)
		ok := true
		parts := strings.Split(d, "/")
		for i := range parts {
			if isFileIn(g.sim.names(), strings.Join(parts[:i+1], "/")) {
				ok = false
			}
		}
		if ok {
			g.emit(fmt.Sprintf(". - MkdirAll %s 493", hp(full(d))))
		}
	}
}

// one in-class case; dataHeavy shifts the weights towards handle I/O
func genInClass(r *Rng, maxOps int, dataHeavy bool, big []int, bigDen int) ([]string, bool) {
	g := &gen{r: r, sim: newRef(), big: big, bigDen: bigDen}
	g.layout()
	for g.nops < maxOps {
		hs := g.openFileHandles()
		w := r.Intn(20)
		switch {
		case len(hs) > 0 && (w < 12 || (dataHeavy && w < 17)):
			g.handleOp(Pick(r, hs))
		case w < 15 && len(hs) < 2:
			if !g.openSome() {
				if n := g.freshName(); n != "" && len(g.files()) < 4 {
					g.emit(fmt.Sprintf(". %d Create %s", g.freeSlot(), hp(full(n))))
				}
			}
		case w < 16 && len(g.files()) < 4 && len(hs) < 2:
			if n := g.freshName(); n != "" {
				g.emit(fmt.Sprintf(". %d Create %s", g.freeSlot(), hp(full(n))))
			}
		default:
			g.folderOp()
		}
	}
	// epilogue: close everything, then the bucket and every object read back through gcsfs
	for _, s := range g.openFileHandles() {
		g.emit(fmt.Sprintf(". - HClose %d", s))
	}
	g.emit("snap")
	for _, f := range g.files() {
		s := g.freeSlot()
		g.emit(fmt.Sprintf(". - Stat %s", hp(full(f))))
		g.emit(fmt.Sprintf(". %d Open %s", s, hp(full(f))))
		size := len(g.sim.objs[f])
		if size > 0 && r.Bool() {
			k := r.Range(0, size)
			g.emit(fmt.Sprintf(". - HSeek %d %d 0", s, k))
		}
		g.emit(fmt.Sprintf(". - HRead %d %d", s, size+5))
		g.emit(fmt.Sprintf(". - HRead %d 4", s))
		g.emit(fmt.Sprintf(". - HClose %d", s))
	}
	return g.lines, g.left
}

// ---- class o: no constraints
var oPaths = []string{"b", "b/", "b/f", "b/g", "b/d", "b/d/", "b/d/f", "b/d/d", "b/d/e/f", "b/d/e", "b/dx", "b/dx/f", "b/x", "b/x/y/h",
	"", "/", "c/f", "/b/f", "gs://b/f", "b//f", "b\\d\\f", "b/b", "b/f/", "b/d/e/", "\\b\\d\\f", "\\b\\f", "/b\\d/f", "\\b/d"}
var oFlags = []int{0, 1, 2, os.O_CREATE, os.O_RDWR | os.O_CREATE, os.O_RDWR | os.O_CREATE | os.O_TRUNC, os.O_WRONLY | os.O_TRUNC,
	os.O_WRONLY | os.O_APPEND, os.O_RDWR | os.O_APPEND, os.O_RDWR | os.O_CREATE | os.O_EXCL, os.O_APPEND}

func genOutClass(r *Rng, maxOps int, big []int) []string {
	var lines []string
	objNames := []string{"f", "g", "d/", "d/f", "d/d", "d/e/f", "d/e/", "dx/f", "x/y/h", "b", "d"}
	no := r.Range(0, 5)
	used := map[string]bool{}
	for i := 0; i < no; i++ {
		n := Pick(r, objNames)
		if used[n] {
			continue
		}
		used[n] = true
		pl := "-"
		if !strings.HasSuffix(n, "/") || r.Chance(1, 5) {
			pl = fmt.Sprintf("gen:%d:%d", r.Intn(256), r.Range(0, 20))
		}
		lines = append(lines, fmt.Sprintf("obj %s %s", hp(n), pl))
	}
	pay := func() string {
		if len(big) > 0 && r.Chance(1, 60) {
			return fmt.Sprintf("gen:%d:%d", r.Intn(256), Pick(r, big))
		}
		if r.Chance(1, 6) {
			return "-"
		}
		return fmt.Sprintf("gen:%d:%d", r.Intn(256), r.Range(1, 12))
	}
	nops := r.Range(1, maxOps)
	for i := 0; i < nops; i++ {
		s := r.Intn(4)
		p := hp(Pick(r, oPaths))
		switch r.Intn(30) {
		case 0:
			lines = append(lines, fmt.Sprintf(". %d Create %s", s, p))
		case 1, 2:
			lines = append(lines, fmt.Sprintf(". %d Open %s", s, p))
		case 3, 4, 5:
			lines = append(lines, fmt.Sprintf(". %d OpenFile %s %d 420", s, p, Pick(r, oFlags)))
		case 6:
			lines = append(lines, fmt.Sprintf(". - Stat %s", p))
		case 7:
			lines = append(lines, fmt.Sprintf(". - Remove %s", p))
		case 8:
			lines = append(lines, fmt.Sprintf(". - RemoveAll %s", p))
		case 9:
			q := p
			if r.Chance(4, 5) {
				q = hp(Pick(r, oPaths))
			}
			lines = append(lines, fmt.Sprintf(". - Rename %s %s", p, q))
		case 10:
			lines = append(lines, fmt.Sprintf(". - Mkdir %s 493", p))
		case 11:
			lines = append(lines, fmt.Sprintf(". - MkdirAll %s 493", p))
		case 12, 13, 14:
			lines = append(lines, fmt.Sprintf(". - HWrite %d %s", s, pay()))
		case 15, 16:
			lines = append(lines, fmt.Sprintf(". - HWriteAt %d %s %d", s, pay(), r.Range(-1, 25)))
		case 17, 18, 19:
			lines = append(lines, fmt.Sprintf(". - HRead %d %d", s, r.Range(0, 30)))
		case 20:
			lines = append(lines, fmt.Sprintf(". - HReadAt %d %d %d", s, r.Range(0, 30), r.Range(-1, 25)))
		case 21, 22:
			lines = append(lines, fmt.Sprintf(". - HSeek %d %d %d", s, r.Range(-5, 25), r.Intn(4)))
		case 23:
			n := r.Range(-1, 30)
			if len(big) > 0 && r.Chance(1, 10) {
				n = Pick(r, big)
			}
			lines = append(lines, fmt.Sprintf(". - HTruncate %d %d", s, n))
		case 24:
			lines = append(lines, fmt.Sprintf(". - HClose %d", s))
		case 25:
			lines = append(lines, fmt.Sprintf(". - HStat %d", s))
		case 26:
			lines = append(lines, fmt.Sprintf(". - HSync %d", s))
		case 27:
			lines = append(lines, fmt.Sprintf(". - HReaddir %d %d", s, r.Range(-1, 6)))
		case 28:
			lines = append(lines, fmt.Sprintf(". - HReaddirnames %d %d", s, r.Range(-1, 6)))
		case 29:
			lines = append(lines, "snap")
		}
	}
	lines = append(lines, "snap")
	return lines
}

func genC20(c *Ctx) {
	r := c.Rng
	mws := gcsfs.VerifMaxWriteSize()
	c.Extra["maxWriteSize"] = mws
	bigModel := []int{mws - 1, mws, mws + 1, mws + 2345, 2 * mws}
	nIn, nData, nOut, nBig := 1200, 600, 500, 12
	if c.Tier == "thorough" {
		nIn, nData, nOut, nBig = 30000, 15000, 12000, 200
	}
	left := 0
	runGConst(c, "k0", "maxWriteSize")
	runGConst(c, "k1", "folderSize")
	// (1) small-scope sweep: every pair of data ops on a 4-byte object, position re-established where needed
	tmpl := []string{"HWrite 0 5859", "HWrite 0 -", "HWriteAt 0 5a 0", "HWriteAt 0 5a5b 2", "HWriteAt 0 5a5b5c 4", "HRead 0 2", "HRead 0 9",
		"HReadAt 0 2 1", "HReadAt 0 3 4", "HSeek 0 0 0", "HSeek 0 3 0", "HSeek 0 -1 2", "HSeek 0 1 1", "HTruncate 0 2", "HTruncate 0 0",
		"HStat 0", "HSync 0"}
	k := 0
	for _, opener := range []string{". 0 OpenFile 622f66 2 420", ". 0 Create 622f66", ". 0 OpenFile 622f66 1026 420"} {
		for _, a := range tmpl {
			for _, b := range tmpl {
				for _, cc := range []string{"", "HWrite 0 51", "HRead 0 3"} {
					lines := []string{"obj 66 61626364", opener}
					ref := newRef()
					ref.objs["f"] = []byte("abcd")
					ok := true
					add := func(op string) {
						l := ". - " + op
						// in-class only: insert a Seek when the reference says the handle needs one
						if h := ref.h[0]; h != nil && (h.dirty || h.pos > len(ref.objs["f"])) &&
							(strings.HasPrefix(op, "HWrite 0") || strings.HasPrefix(op, "HRead 0") || strings.HasSuffix(op, " 1") && strings.HasPrefix(op, "HSeek")) {
							s := ". - HSeek 0 0 2"
							lines = append(lines, s)
							ref.expect(strings.Fields(s), ref.names())
						}
						lines = append(lines, l)
						if ref.expect(strings.Fields(l), ref.names()) == "" {
							ok = false
						}
					}
					ref.expect(strings.Fields(opener), ref.names())
					add(a)
					add(b)
					if cc != "" {
						add(cc)
					}
					if !ok {
						continue
					}
					lines = append(lines, ". - HClose 0", "snap", ". 1 Open 622f66", ". - HRead 1 20", ". - HClose 1")
					runGCase(c, fmt.Sprintf("e%d", k), "i", lines)
					k++
				}
			}
		}
	}
	c.Extra["exhaustive"] = fmt.Sprintf("3 openers x all pairs of %d data-op templates (+ optional third op) on a 4-byte object, kept when inside the class: %d cases", len(tmpl), k)
	// (2) in-class, mixed and data-heavy
	for i := 0; i < nIn+nData; i++ {
		heavy := i >= nIn
		var big []int
		if i%10 == 0 {
			big = bigModel
		}
		lines, l := genInClass(r.Fork(), r.Range(5, 30), heavy, big, 40)
		if l {
			left++
		}
		id := fmt.Sprintf("i%d", i)
		if heavy {
			id = fmt.Sprintf("w%d", i-nIn)
		}
		runGCase(c, id, "i", lines)
		if i < 2 {
			c.Sample(strings.Join(lines, " ; "))
		}
	}
	// (3) out of class
	for i := 0; i < nOut; i++ {
		var big []int
		if i%10 == 0 {
			big = bigModel
		}
		runGCase(c, fmt.Sprintf("o%d", i), "o", genOutClass(r.Fork(), 30, big))
	}
	// (4) in-class with 300 KB payloads
	for i := 0; i < nBig; i++ {
		lines, l := genInClass(r.Fork(), r.Range(5, 14), true, []int{300 * 1024, 300*1024 + 1, 64 * 1024}, 3)
		if l {
			left++
		}
		runGCase(c, fmt.Sprintf("b%d", i), "ib", lines)
	}
	c.Extra["generator_left_class"] = left
}
