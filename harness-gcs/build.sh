#!/bin/bash
# Build the gcsfs harness against /repo's working tree with the fake object store injected
# (go build -overlay: overlay/gcsfake.go appears as /repo/gcsfs/zz_verif_fake.go; tag verif).
set -e
cd "$(dirname "$0")"
export GOFLAGS=-mod=mod GOPROXY=off GOSUMDB=off GOTOOLCHAIN=local CGO_ENABLED=${CGO_ENABLED:-0}
REPO=${VERIF_REPO:-/repo}
ROOT=$(cd .. && pwd)
mkdir -p "$ROOT/work"
cp "$REPO/gcsfs/go.sum" go.sum
OV="$ROOT/work/overlay-harness-gcs.json"
printf '{"Replace": {"%s/gcsfs/zz_verif_fake.go": "%s/overlay/gcsfake.go"}}\n' "$REPO" "$ROOT" > "$OV"
go build -tags verif -overlay "$OV" -o afcheck ./cmd/afcheck
