module verifharnessgcs

go 1.23.0

require (
	cloud.google.com/go/storage v1.51.0
	github.com/spf13/afero v1.14.0
	github.com/spf13/afero/gcsfs v0.0.0
)

require (
	cel.dev/expr v0.19.2 // indirect
	cloud.google.com/go v0.118.3 // indirect
	cloud.google.com/go/auth v0.15.0 // indirect
	cloud.google.com/go/auth/oauth2adapt v0.2.7 // indirect
	cloud.google.com/go/compute/metadata v0.6.0 // indirect
	cloud.google.com/go/iam v1.4.1 // indirect
	cloud.google.com/go/monitoring v1.24.0 // indirect
	github.com/GoogleCloudPlatform/opentelemetry-operations-go/detectors/gcp v1.25.0 // indirect
	github.com/GoogleCloudPlatform/opentelemetry-operations-go/exporter/metric v0.51.0 // indirect
	github.com/GoogleCloudPlatform/opentelemetry-operations-go/internal/resourcemapping v0.51.0 // indirect
	github.com/cespare/xxhash/v2 v2.3.0 // indirect
	github.com/cncf/xds/go v0.0.0-20250121191232-2f005788dc42 // indirect
	github.com/envoyproxy/go-control-plane/envoy v1.32.4 // indirect
	github.com/envoyproxy/protoc-gen-validate v1.2.1 // indirect
	github.com/felixge/httpsnoop v1.0.4 // indirect
	github.com/go-logr/logr v1.4.2 // indirect
	github.com/go-logr/stdr v1.2.2 // indirect
	github.com/google/s2a-go v0.1.9 // indirect
	github.com/google/uuid v1.6.0 // indirect
	github.com/googleapis/enterprise-certificate-proxy v0.3.5 // indirect
	github.com/googleapis/gax-go/v2 v2.14.1 // indirect
	go.opentelemetry.io/auto/sdk v1.1.0 // indirect
	go.opentelemetry.io/contrib/detectors/gcp v1.34.0 // indirect
	go.opentelemetry.io/contrib/instrumentation/google.golang.org/grpc/otelgrpc v0.59.0 // indirect
	go.opentelemetry.io/contrib/instrumentation/net/http/otelhttp v0.59.0 // indirect
	go.opentelemetry.io/otel v1.34.0 // indirect
	go.opentelemetry.io/otel/metric v1.34.0 // indirect
	go.opentelemetry.io/otel/sdk v1.34.0 // indirect
	go.opentelemetry.io/otel/sdk/metric v1.34.0 // indirect
	go.opentelemetry.io/otel/trace v1.34.0 // indirect
	golang.org/x/crypto v0.36.0 // indirect
	golang.org/x/net v0.37.0 // indirect
	golang.org/x/oauth2 v0.28.0 // indirect
	golang.org/x/sync v0.12.0 // indirect
	golang.org/x/sys v0.31.0 // indirect
	golang.org/x/text v0.23.0 // indirect
	golang.org/x/time v0.11.0 // indirect
	google.golang.org/api v0.226.0 // indirect
	google.golang.org/genproto v0.0.0-20250303144028-a0af3efb3deb // indirect
	google.golang.org/genproto/googleapis/api v0.0.0-20250303144028-a0af3efb3deb // indirect
	google.golang.org/genproto/googleapis/rpc v0.0.0-20250303144028-a0af3efb3deb // indirect
	google.golang.org/grpc v1.71.0 // indirect
	google.golang.org/protobuf v1.36.5 // indirect
)

replace github.com/spf13/afero => /repo

replace github.com/spf13/afero/gcsfs => /repo/gcsfs
