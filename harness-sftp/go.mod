module verifharness-sftp

go 1.23.0

require (
	github.com/pkg/sftp v1.13.8
	github.com/spf13/afero v1.14.0
	github.com/spf13/afero/sftpfs v0.0.0
)

require (
	github.com/kr/fs v0.1.0 // indirect
	golang.org/x/crypto v0.36.0 // indirect
	golang.org/x/text v0.23.0 // indirect
)

replace github.com/spf13/afero => /repo

replace github.com/spf13/afero/sftpfs => /repo/sftpfs
