#!/bin/bash
# build the sftp harness offline against /repo and /repo/sftpfs (module cache only)
set -e
cd "$(dirname "$0")"
export GOFLAGS=-mod=mod GOPROXY=off GOSUMDB=off GOTOOLCHAIN=local CGO_ENABLED=0
cp /repo/sftpfs/go.sum go.sum
go build -o afcheck ./cmd/afcheck
