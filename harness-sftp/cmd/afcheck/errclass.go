package main

import (
	"errors"
	"io"
	"io/fs"
	"os"
)

// errClass: the identity of an error as far as a caller of sftpfs can tell.  pkg/sftp turns
// every server status other than EOF / no-such-file / permission-denied into a *StatusError
// (SSH_FX_FAILURE + message): those, and anything else, are "Err".  Messages are never compared.
func errClass(err error) string {
	switch {
	case err == nil:
		return "-"
	case err == io.EOF:
		return "EOF"
	case errors.Is(err, os.ErrClosed):
		return "Closed"
	case errors.Is(err, fs.ErrNotExist):
		return "NotExist"
	case errors.Is(err, fs.ErrPermission):
		return "Perm"
	case errors.Is(err, os.ErrInvalid):
		return "Invalid"
	}
	return "Err"
}
