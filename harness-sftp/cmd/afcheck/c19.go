package main

// C19 — sftpfs moves file data to and from the server without loss.
//
// Every case runs against a fresh in-process SFTP server: sftp.NewRequestServer over two io.Pipes
// with sftp.InMemHandler(); sftpfs.New(client1) is the filesystem under test, client2 is an
// independent observer connected to the SAME handler (server-side content read back after every
// step, never through sftpfs).
//
//   sftp <id> <item>;<item>;...        item = <slot|->,<Op>,<arg>,...   (ops of Lib/Ops.v)
//   paths are hex; payloads are hex, "-" (empty) or P<len>.<seed> (byte i = (seed+31*i+i/256)%256)
//
// impl lines:  <id>#<k> <canonical result>      <id>#<k>/d <observer's view of the server>
// oracle (Go side, independent of the Coq model): a plain byte-slice reference per file updated
// from the REPORTED counts only; FAIL when the server holds something else, when a read returns
// something else, when a call that reported success did not produce what it reported.
//
// Not generated (outside "a conforming SFTP server", see coq/Model/Sftp.v header): reads through
// O_WRONLY handles (pkg/sftp's request server writes zeros), negative Truncate (the in-memory
// server panics), renaming "/" or a directory into itself.

import (
	"bytes"
	"fmt"
	"io"
	"os"
	"path"
	"sort"
	"strconv"
	"strings"

	"github.com/pkg/sftp"
	"github.com/spf13/afero"
	"github.com/spf13/afero/sftpfs"
)

func init() { props["C19"] = runC19 }

type rwc struct {
	*io.PipeReader
	*io.PipeWriter
}

func (x rwc) Close() error {
	x.PipeWriter.Close()
	return x.PipeReader.Close()
}

type world struct {
	c1, c2 *sftp.Client
	fs     afero.Fs
	srvs   []*sftp.RequestServer
}

func connect(h sftp.Handlers) (*sftp.Client, *sftp.RequestServer) {
	cr, sw := io.Pipe()
	sr, cw := io.Pipe()
	srv := sftp.NewRequestServer(rwc{sr, sw}, h)
	go srv.Serve()
	c, err := sftp.NewClientPipe(cr, cw)
	if err != nil {
		panic(err)
	}
	return c, srv
}

func newWorld() *world {
	h := sftp.InMemHandler()
	w := &world{}
	var s1, s2 *sftp.RequestServer
	w.c1, s1 = connect(h)
	w.c2, s2 = connect(h)
	w.srvs = []*sftp.RequestServer{s1, s2}
	w.fs = sftpfs.New(w.c1)
	return w
}

func (w *world) close() {
	// server side first: its Close closes both pipe ends, which ends the client's receive loop
	for _, s := range w.srvs {
		s.Close()
	}
	w.c1.Close()
	w.c2.Close()
}

// ---------------------------------------------------------------- canonical forms
func atoi(s string) int {
	v, err := strconv.Atoi(s)
	if err != nil {
		panic(err)
	}
	return v
}

func payload(s string) []byte {
	if strings.HasPrefix(s, "P") {
		t := strings.Split(s[1:], ".")
		n, seed := atoi(t[0]), atoi(t[1])
		b := make([]byte, n)
		for i := range b {
			b[i] = byte(seed + 31*i + i/256)
		}
		return b
	}
	return unhx(s)
}

func fnv(b []byte) uint32 {
	h := uint32(2166136261)
	for _, x := range b {
		h ^= uint32(x)
		h *= 16777619
	}
	return h
}

func bytesS(b []byte) string {
	if len(b) > 64 {
		return fmt.Sprintf("#%d:%08x", len(b), fnv(b))
	}
	return hx(b)
}

func fiS(fi os.FileInfo) string {
	if fi.IsDir() {
		return hx([]byte(fi.Name())) + "|d|-"
	}
	return fmt.Sprintf("%s|f|%d", hx([]byte(fi.Name())), fi.Size())
}

func listS(l []string) string {
	if len(l) == 0 {
		return "-"
	}
	return strings.Join(l, ",")
}

type obsEntry struct {
	path string
	dir  bool
	data []byte
}

// observe: the whole namespace and every file's bytes, through the second client
func (w *world) observe() []obsEntry {
	var out []obsEntry
	var walk func(dir string)
	walk = func(dir string) {
		l, err := w.c2.ReadDir(dir)
		if err != nil {
			panic(fmt.Sprintf("observer: ReadDir %q: %v", dir, err))
		}
		for _, fi := range l {
			p := path.Join(dir, fi.Name())
			if fi.IsDir() {
				out = append(out, obsEntry{path: p, dir: true})
				walk(p)
				continue
			}
			f, err := w.c2.Open(p)
			if err != nil {
				panic(fmt.Sprintf("observer: Open %q: %v", p, err))
			}
			b, err := io.ReadAll(f)
			f.Close()
			if err != nil {
				panic(fmt.Sprintf("observer: read %q: %v", p, err))
			}
			out = append(out, obsEntry{path: p, data: b})
		}
	}
	walk("/")
	sort.Slice(out, func(i, j int) bool { return out[i].path < out[j].path })
	return out
}

func obsS(l []obsEntry) string {
	var s []string
	for _, e := range l {
		if e.dir {
			s = append(s, hx([]byte(e.path))+"=d")
		} else {
			s = append(s, hx([]byte(e.path))+"="+bytesS(e.data))
		}
	}
	return listS(s)
}

// ---------------------------------------------------------------- the Go-side reference
type refFile struct {
	data []byte
	// an empty write beyond EOF reported (0, nil): the server may or may not have zero-extended the
	// file to ext bytes (the in-memory server does; sftpfs.File.WriteAt never reaches the server).
	// Resolved by the next observation of the file; for a file without a name (removed while
	// open) by the next read, and given up (unknown) if it is written before that.
	ext     int64
	unknown bool
}

func (f *refFile) settle() {
	if f.ext > int64(len(f.data)) {
		f.unknown = true
	}
	f.ext = 0
}

type refHandle struct {
	f      *refFile
	path   string // cleaned absolute path it was opened with
	name   string // as given
	pos    int64
	flags  int
	closed bool
	viaOF  bool // obtained from Fs.OpenFile
}

func (h *refHandle) readable() bool { a := h.flags & 3; return a == os.O_RDONLY || a == os.O_RDWR }

type reference struct {
	files map[string]*refFile
	hs    map[int]*refHandle
}

func cleanAbs(p string) string { return path.Clean("/" + p) }

func pwriteGo(data []byte, off int64, b []byte) []byte {
	end := off + int64(len(b))
	if int64(len(data)) < end {
		data = append(data, make([]byte, end-int64(len(data)))...)
	}
	copy(data[off:], b)
	return data
}

func ptruncGo(data []byte, n int64) []byte {
	if int64(len(data)) >= n {
		return data[:n]
	}
	return append(data, make([]byte, n-int64(len(data)))...)
}

func (r *reference) resync(obs []obsEntry) {
	seen := map[string]bool{}
	for _, e := range obs {
		if e.dir {
			continue
		}
		seen[e.path] = true
		if f, ok := r.files[e.path]; ok {
			f.data = append([]byte{}, e.data...)
		} else {
			r.files[e.path] = &refFile{data: append([]byte{}, e.data...)}
		}
	}
	for p := range r.files {
		if !seen[p] {
			delete(r.files, p)
		}
	}
}

func isDirObs(obs []obsEntry, p string) (exists, dir bool) {
	if p == "/" {
		return true, true
	}
	for _, e := range obs {
		if e.path == p {
			return true, e.dir
		}
	}
	return false, false
}

// ---------------------------------------------------------------- execution of one case
type caseRun struct {
	c     *Ctx
	id    string
	w     *world
	slots map[int]afero.File
	ref   *reference
	items []string
	obs   []obsEntry
	fails map[string]bool
}

func (cr *caseRun) fail(sig, format string, a ...any) {
	if cr.fails[sig] {
		return
	}
	cr.fails[sig] = true
	cr.c.Oracle("FAIL %s %s step %d: %s", cr.id, sig, len(cr.items)-1, fmt.Sprintf(format, a...))
	cr.c.Count("oracle.fail." + sig)
}

func newCaseRun(c *Ctx, id string) *caseRun {
	return &caseRun{c: c, id: id, w: newWorld(), slots: map[int]afero.File{},
		ref: &reference{files: map[string]*refFile{}, hs: map[int]*refHandle{}}, fails: map[string]bool{}}
}

// step executes one item against sftpfs, prints the canonical result and the observer's view,
// updates the reference from what the call reported and judges the property.
func (cr *caseRun) step(item string) string {
	cr.items = append(cr.items, item)
	k := len(cr.items) - 1
	t := strings.Split(item, ",")
	slot := -1
	if t[0] != "-" {
		slot = atoi(t[0])
	}
	name, a := t[1], t[2:]
	var out string
	var after func(obs []obsEntry) // judgement that needs the observer's view after the step
	func() {
		defer func() {
			if r := recover(); r != nil {
				out = "panic"
			}
		}()
		out, after = cr.exec(slot, name, a)
	}()
	prev := cr.obs
	cr.obs = cr.w.observe()
	cr.c.Impl("%s#%d %s", cr.id, k, out)
	cr.c.Impl("%s#%d/d %s", cr.id, k, obsS(cr.obs))
	cr.c.Count("op." + name)
	cr.c.Count("res." + name + "." + strings.SplitN(out, ":", 2)[0])
	if after != nil {
		after(cr.obs)
	}
	// a call that reported an error must not have changed names (Mkdir excepted: the in-memory
	// server refuses the Chmod that sftpfs.Mkdir sends after a successful MKDIR)
	if strings.HasPrefix(out, "err:") && (name == "Rename" || name == "Remove") && obsS(prev) != obsS(cr.obs) {
		cr.fail("changed-on-error:"+name, "%s reported %s but the server changed: %s -> %s", item, out, obsS(prev), obsS(cr.obs))
	}
	cr.judgeContent(item)
	return out
}

// judgeContent: every file on the server holds exactly what the reported counts account for
func (cr *caseRun) judgeContent(item string) {
	bad := false
	seen := map[string]bool{}
	for _, e := range cr.obs {
		if e.dir {
			continue
		}
		seen[e.path] = true
		f, ok := cr.ref.files[e.path]
		if !ok {
			cr.fail("content:unaccounted-file", "after %s the server holds %s which no successful call created", item, e.path)
			bad = true
			continue
		}
		if f.ext > int64(len(f.data)) && bytes.Equal(ptruncGo(append([]byte{}, f.data...), f.ext), e.data) {
			f.data = append([]byte{}, e.data...)
		}
		f.ext = 0
		if f.unknown {
			f.data, f.unknown = append([]byte{}, e.data...), false
		}
		if !bytes.Equal(f.data, e.data) {
			cr.fail("content:"+strings.Split(item, ",")[1], "after %s the server holds %s = %s, the reported counts account for %s",
				item, e.path, bytesS(e.data), bytesS(f.data))
			bad = true
		}
	}
	for p := range cr.ref.files {
		if !seen[p] {
			cr.fail("content:lost-file", "after %s the server no longer holds %s", item, p)
			bad = true
		}
	}
	if bad {
		cr.ref.resync(cr.obs)
	}
}

func (cr *caseRun) exec(slot int, name string, a []string) (string, func([]obsEntry)) {
	fs := cr.w.fs
	ref := cr.ref
	p := func(i int) string { return string(unhx(a[i])) }
	e := func(err error) string {
		if err != nil {
			return "err:" + errClass(err)
		}
		return "ok"
	}
	bindOpen := func(f afero.File, err error, pth string, flags int, viaOF bool) (string, func([]obsEntry)) {
		if err != nil {
			return "err:" + errClass(err), nil
		}
		cp := cleanAbs(pth)
		rf, ok := ref.files[cp]
		if !ok {
			rf = &refFile{}
			ref.files[cp] = rf
			if flags&os.O_CREATE == 0 {
				cr.fail("open:created-without-O_CREATE", "open of %q with flags %#x succeeded but nothing had created it", pth, flags)
			}
		} else if flags&os.O_TRUNC != 0 {
			rf.data, rf.ext, rf.unknown = nil, 0, false
		}
		if slot >= 0 {
			cr.slots[slot] = f
			ref.hs[slot] = &refHandle{f: rf, path: cp, name: pth, flags: flags, viaOF: viaOF}
		}
		return "handle", nil
	}
	if strings.HasPrefix(name, "H") {
		hi := atoi(a[0])
		f, ok := cr.slots[hi]
		if !ok {
			return "noslot", nil
		}
		return cr.execHandle(f, ref.hs[hi], name, a[1:])
	}
	switch name {
	case "Create":
		f, err := fs.Create(p(0))
		return bindOpen(f, err, p(0), os.O_RDWR|os.O_CREATE|os.O_TRUNC, false)
	case "Open":
		f, err := fs.Open(p(0))
		return bindOpen(f, err, p(0), os.O_RDONLY, false)
	case "OpenFile":
		f, err := fs.OpenFile(p(0), atoi(a[1]), os.FileMode(atoi(a[2])))
		return bindOpen(f, err, p(0), atoi(a[1]), true)
	case "Mkdir":
		err := fs.Mkdir(p(0), os.FileMode(atoi(a[1])))
		cp := cleanAbs(p(0))
		return e(err), func(obs []obsEntry) {
			if err == nil {
				if ex, d := isDirObs(obs, cp); !ex || !d {
					cr.fail("mkdir:reports-success-no-directory", "Mkdir(%q) = nil but the server holds no directory %s", p(0), cp)
				}
			}
		}
	case "MkdirAll":
		err := fs.MkdirAll(p(0), os.FileMode(atoi(a[1])))
		cp := cleanAbs(p(0))
		return e(err), func(obs []obsEntry) {
			if err != nil {
				return
			}
			for q := cp; ; q = path.Dir(q) {
				if ex, d := isDirObs(obs, q); !ex || !d {
					what := "nothing"
					if ex {
						what = "a regular file"
					}
					cr.fail("mkdirall:reports-success-no-directory", "MkdirAll(%q) = nil but the server holds %s at %s", p(0), what, q)
					break
				}
				if q == "/" {
					break
				}
			}
		}
	case "Remove":
		err := fs.Remove(p(0))
		cp := cleanAbs(p(0))
		if err == nil {
			delete(ref.files, cp)
		}
		return e(err), func(obs []obsEntry) {
			if err == nil && cp != "/" {
				if ex, _ := isDirObs(obs, cp); ex {
					cr.fail("remove:reports-success-still-there", "Remove(%q) = nil but the server still holds %s", p(0), cp)
				}
			}
		}
	case "RemoveAll":
		return e(fs.RemoveAll(p(0))), nil
	case "Rename":
		err := fs.Rename(p(0), p(1))
		op, np := cleanAbs(p(0)), cleanAbs(p(1))
		if err == nil {
			moved := map[string]*refFile{}
			for q, f := range ref.files {
				if q == op || strings.HasPrefix(q, op+"/") {
					moved[np+q[len(op):]] = f
					delete(ref.files, q)
				}
			}
			for q, f := range moved {
				ref.files[q] = f
			}
		}
		return e(err), func(obs []obsEntry) {
			if err != nil {
				return
			}
			if ex, _ := isDirObs(obs, op); ex {
				cr.fail("rename:reports-success-old-name-still-there", "Rename(%q,%q) = nil but the server still holds %s", p(0), p(1), op)
			}
			if ex, _ := isDirObs(obs, np); !ex {
				cr.fail("rename:reports-success-new-name-missing", "Rename(%q,%q) = nil but the server holds nothing at %s", p(0), p(1), np)
			}
		}
	case "Stat":
		fi, err := fs.Stat(p(0))
		if err != nil {
			cls := errClass(err)
			return "err:" + cls, func(obs []obsEntry) {
				if ex, _ := isDirObs(obs, cleanAbs(p(0))); ex && cls == "NotExist" {
					cr.fail("stat:not-exist-but-held", "Stat(%q) = not exist but the server holds %s", p(0), cleanAbs(p(0)))
				}
			}
		}
		return "info:" + fiS(fi), func(obs []obsEntry) { cr.judgeInfo("Stat", p(0), fi, obs) }
	case "Chmod":
		return e(fs.Chmod(p(0), os.FileMode(atoi(a[1])))), nil
	case "Chown":
		return e(fs.Chown(p(0), atoi(a[1]), atoi(a[2]))), nil
	case "Chtimes":
		return e(fs.Chtimes(p(0), tm(atoi(a[1])), tm(atoi(a[1])))), nil
	}
	panic("unknown op " + name)
}

func (cr *caseRun) judgeInfo(op, pth string, fi os.FileInfo, obs []obsEntry) {
	cp := cleanAbs(pth)
	ex, d := isDirObs(obs, cp)
	if !ex {
		cr.fail("stat:info-for-nothing", "%s(%q) returned an info but the server holds nothing at %s", op, pth, cp)
		return
	}
	if d != fi.IsDir() {
		cr.fail("stat:kind", "%s(%q).IsDir() = %v, the server holds dir=%v", op, pth, fi.IsDir(), d)
		return
	}
	if !d {
		for _, en := range obs {
			if en.path == cp && int64(len(en.data)) != fi.Size() {
				cr.fail("stat:size", "%s(%q).Size() = %d, the server holds %d bytes", op, pth, fi.Size(), len(en.data))
			}
		}
	}
}

func (cr *caseRun) execHandle(f afero.File, h *refHandle, name string, a []string) (string, func([]obsEntry)) {
	ref := cr.ref
	own := func() bool { return ref.files[h.path] == h.f } // the handle's path still names its file
	switch name {
	case "HRead", "HReadAt":
		n := atoi(a[0])
		buf := make([]byte, n)
		var k int
		var err error
		off := h.pos
		if name == "HRead" {
			k, err = f.Read(buf)
		} else {
			off = int64(atoi(a[1]))
			k, err = f.ReadAt(buf, off)
		}
		if (err == nil || err == io.EOF) && !h.closed && off >= 0 && !h.f.unknown {
			if h.f.ext > int64(len(h.f.data)) && off < h.f.ext && k > 0 {
				// a file without a name: this read tells whether the empty write extended it
				x := ptruncGo(append([]byte{}, h.f.data...), h.f.ext)
				if int64(len(x)) >= off+int64(k) && bytes.Equal(buf[:k], x[off:off+int64(k)]) {
					h.f.data, h.f.ext = x, 0
				}
			}
			var want []byte
			if off < int64(len(h.f.data)) {
				want = h.f.data[off:]
			}
			if len(want) > n {
				want = want[:n]
			}
			if !bytes.Equal(buf[:k], want) {
				cr.fail("read:"+name, "%s of %d at %d returned %s, the file holds %s there", name, n, off, bytesS(buf[:k]), bytesS(want))
			}
		}
		if name == "HRead" {
			h.pos += int64(k)
		}
		return fmt.Sprintf("data:%s:%s", bytesS(buf[:k]), errClass(err)), nil
	case "HWrite", "HWriteString", "HWriteAt":
		b := payload(a[0])
		var k int
		var err error
		off := h.pos
		switch name {
		case "HWrite":
			k, err = f.Write(b)
		case "HWriteString":
			k, err = f.WriteString(string(b))
		default:
			off = int64(atoi(a[1]))
			k, err = f.WriteAt(b, off)
		}
		if k < 0 || k > len(b) {
			cr.fail("write:count-out-of-range", "%s of %d bytes reported %d", name, len(b), k)
			k = 0
		}
		// the reference: exactly the reported prefix at the position of the call
		if k > 0 {
			h.f.settle()
			h.f.data = pwriteGo(h.f.data, off, b[:k])
		} else if len(b) == 0 && err == nil && off > int64(len(h.f.data)) {
			// an empty write says nothing about bytes: a server may or may not zero-extend the
			// file to the offset (this one does); both are accepted by judgeContent
			if off > h.f.ext {
				h.f.ext = off
			}
		}
		if name != "HWriteAt" {
			h.pos += int64(k)
		}
		if k == len(b) && err == nil {
			cr.c.Count("write.full")
		} else if err == nil {
			cr.c.Count("write.short-no-error")
		} else {
			cr.c.Count("write.error")
		}
		return fmt.Sprintf("count:%d:%s", k, errClass(err)), nil
	case "HSeek":
		off, wh := int64(atoi(a[0])), atoi(a[1])
		pos, err := f.Seek(off, wh)
		if err == nil {
			want := int64(-1)
			switch wh {
			case 0:
				want = off
			case 1:
				want = h.pos + off
			case 2:
				if own() {
					want = int64(len(h.f.data)) + off
				}
			}
			if want >= 0 && pos != want {
				cr.fail("seek:position", "Seek(%d,%d) = %d, expected %d", off, wh, pos, want)
			}
			h.pos = pos
		}
		return fmt.Sprintf("pos:%d:%s", pos, errClass(err)), nil
	case "HTruncate":
		n := int64(atoi(a[0]))
		if n < 0 {
			panic("C19: negative Truncate is outside the envelope (the in-memory server would crash)")
		}
		err := f.Truncate(n)
		if err == nil {
			if own() {
				h.f.settle()
				h.f.data = ptruncGo(h.f.data, n)
			} else {
				// FSETSTAT went to whatever the handle's path names now (server behaviour)
				cr.c.Count("oracle.resync.truncate-through-moved-name")
				return "ok", func(obs []obsEntry) { ref.resync(obs) }
			}
		}
		return eS(err), nil
	case "HClose":
		err := f.Close()
		if err == nil {
			h.closed = true
		}
		return eS(err), nil
	case "HStat":
		fi, err := f.Stat()
		if err != nil {
			return "err:" + errClass(err), nil
		}
		return "info:" + fiS(fi), func(obs []obsEntry) { cr.judgeInfo("File.Stat", h.name, fi, obs) }
	case "HName":
		return "name:" + hx([]byte(f.Name())), nil
	case "HSync":
		return eS(f.Sync()), nil
	case "HReaddir":
		l, err := f.Readdir(atoi(a[0]))
		var s []string
		for _, fi := range l {
			s = append(s, fiS(fi))
		}
		return fmt.Sprintf("infos:%s:%s", listS(s), errClass(err)), nil
	case "HReaddirnames":
		l, err := f.Readdirnames(atoi(a[0]))
		var s []string
		for _, nm := range l {
			s = append(s, hx([]byte(nm)))
		}
		return fmt.Sprintf("names:%s:%s", listS(s), errClass(err)), nil
	}
	panic("unknown handle op " + name)
}

func eS(err error) string {
	if err != nil {
		return "err:" + errClass(err)
	}
	return "ok"
}

func (cr *caseRun) finish() {
	cr.c.Case("sftp %s %s", cr.id, strings.Join(cr.items, ";"))
	cr.c.NCases++
	cr.w.close()
}

func execSftp(c *Ctx, id string, items []string) {
	cr := newCaseRun(c, id)
	for _, it := range items {
		if out := cr.step(it); out == "panic" {
			c.Count("panic." + strings.Split(it, ",")[1])
		}
	}
	cr.finish()
}
