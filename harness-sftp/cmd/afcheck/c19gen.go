package main

// generators for C19: (1) small-scope exhaustive, (2) structured mostly-valid sequences generated
// ONLINE (the next op is chosen knowing which slots are bound, how they were opened and how long
// the files are), (3) a malformed stream (unbound slots, bad flags, unclean paths, closed handles).

import (
	"fmt"
	"io"
	"os"
	"path/filepath"
	"strings"
	"time"

	"github.com/pkg/sftp"
	"github.com/spf13/afero/sftpfs"
)

func tm(sec int) time.Time { return time.Unix(int64(sec), 0) }

var c19Dirs = []string{"/d", "/d/e", "/d/e/g", "/x"}
var c19Files = []string{"/f1", "/d/f2", "/d/e/f3", "/x/f4", "/d/r", "/r", "/d/e/g/f5"}

func hp(s string) string { return hx([]byte(s)) }

// an equivalent spelling of an absolute clean path
func variant(r *Rng, p string) string {
	switch r.Intn(12) {
	case 0:
		return strings.TrimPrefix(p, "/")
	case 1:
		return strings.Replace(p, "/", "//", 1)
	case 2:
		return p + "/"
	case 3:
		return "/." + p
	case 4:
		return "/zz/.." + p
	case 5:
		return "/.." + p
	}
	return p
}

var c19Flags = []int{os.O_RDONLY, os.O_WRONLY, os.O_RDWR, os.O_RDWR | os.O_CREATE, os.O_WRONLY | os.O_CREATE,
	os.O_RDWR | os.O_CREATE | os.O_TRUNC, os.O_WRONLY | os.O_CREATE | os.O_TRUNC, os.O_RDWR | os.O_CREATE | os.O_EXCL,
	os.O_RDWR | os.O_TRUNC, os.O_RDONLY | os.O_CREATE, os.O_WRONLY | os.O_APPEND, os.O_RDWR | os.O_APPEND | os.O_CREATE,
	os.O_RDONLY | os.O_TRUNC, os.O_WRONLY | os.O_EXCL}

func randPayload(r *Rng, big bool) string {
	if big && r.Chance(1, 10) {
		return fmt.Sprintf("P%d.%d", Pick(r, []int{40000, 32768, 32769, 65536, 70001}), r.Intn(256))
	}
	n := r.Range(0, 64)
	if r.Chance(1, 3) {
		n = r.Range(0, 6)
	}
	b := make([]byte, n)
	for i := range b {
		b[i] = byte(r.Intn(256))
		if r.Chance(1, 4) {
			b[i] = 0
		}
	}
	return hx(b)
}

// one more item, chosen from what the run knows so far
func genItem(cr *caseRun, r *Rng, big bool) string {
	var bound []int
	for s := 0; s < 4; s++ {
		if _, ok := cr.slots[s]; ok {
			bound = append(bound, s)
		}
	}
	pickSlot := func() int {
		if len(bound) > 0 && !r.Chance(1, 25) {
			return Pick(r, bound)
		}
		return r.Intn(4)
	}
	file := func() string { return hp(variant(r, Pick(r, c19Files))) }
	dir := func() string { return hp(variant(r, Pick(r, c19Dirs))) }
	any := func() string {
		if r.Chance(1, 3) {
			return dir()
		}
		return file()
	}
	sizeOf := func(s int) int {
		if h, ok := cr.ref.hs[s]; ok {
			return len(h.f.data)
		}
		return 0
	}
	offset := func(s int) int {
		sz := sizeOf(s)
		switch r.Intn(6) {
		case 0:
			return 0
		case 1:
			return sz
		case 2:
			return sz + r.Range(1, 40)
		}
		return r.Range(0, sz+3)
	}
	if len(bound) == 0 && r.Chance(2, 3) {
		if r.Chance(1, 2) {
			return fmt.Sprintf("%d,Create,%s", r.Intn(4), file())
		}
		return fmt.Sprintf("-,MkdirAll,%s,493", dir())
	}
	for {
		switch r.Intn(100) {
		case 0, 1, 2, 3, 4, 5:
			return fmt.Sprintf("%d,Create,%s", r.Intn(4), file())
		case 6, 7, 8, 9, 10, 11, 12, 13:
			return fmt.Sprintf("%d,OpenFile,%s,%d,%d", r.Intn(4), file(), Pick(r, c19Flags), Pick(r, []int{420, 384, 0}))
		case 14, 15, 16:
			return fmt.Sprintf("%d,Open,%s", r.Intn(4), any())
		case 17, 18, 19, 20, 21, 22, 23, 24, 25, 26, 27, 28, 29, 30:
			return fmt.Sprintf("-,HWrite,%d,%s", pickSlot(), randPayload(r, big))
		case 31, 32, 33, 34, 35:
			return fmt.Sprintf("-,HWriteString,%d,%s", pickSlot(), randPayload(r, big))
		case 36, 37, 38, 39, 40, 41:
			s := pickSlot()
			off := offset(s)
			if r.Chance(1, 12) {
				off = -r.Range(1, 3)
			}
			return fmt.Sprintf("-,HWriteAt,%d,%s,%d", s, randPayload(r, false), off)
		case 42, 43, 44, 45, 46, 47, 48, 49, 50, 51:
			s := pickSlot()
			if h, ok := cr.ref.hs[s]; ok && !h.readable() {
				continue // outside the envelope: READ on a write-only handle
			}
			n := r.Range(0, 70)
			if big && sizeOf(s) > 1000 && r.Chance(1, 2) {
				n = Pick(r, []int{32768, 32769, 50000, 80000})
			}
			return fmt.Sprintf("-,HRead,%d,%d", s, n)
		case 52, 53, 54, 55, 56, 57, 58, 59:
			s := pickSlot()
			if h, ok := cr.ref.hs[s]; ok && !h.readable() {
				continue
			}
			off := offset(s)
			if r.Chance(1, 15) {
				off = -1
			}
			n := r.Range(0, 70)
			if big && sizeOf(s) > 1000 && r.Chance(1, 2) {
				n = Pick(r, []int{32768, 40000, 80000})
				off = Pick(r, []int{0, 1, 7232, 32768})
			}
			return fmt.Sprintf("-,HReadAt,%d,%d,%d", s, n, off)
		case 60, 61, 62, 63, 64, 65, 66, 67:
			s := pickSlot()
			switch r.Intn(3) {
			case 0:
				return fmt.Sprintf("-,HSeek,%d,%d,0", s, Pick(r, []int{offset(s), offset(s), -1}))
			case 1:
				return fmt.Sprintf("-,HSeek,%d,%d,1", s, r.Range(-10, 10))
			default:
				return fmt.Sprintf("-,HSeek,%d,%d,2", s, r.Range(-sizeOf(s)-2, 5))
			}
		case 68, 69, 70, 71, 72:
			s := pickSlot()
			return fmt.Sprintf("-,HTruncate,%d,%d", s, offset(s))
		case 73, 74, 75:
			return fmt.Sprintf("-,HClose,%d", pickSlot())
		case 76, 77, 78:
			return fmt.Sprintf("-,HStat,%d", pickSlot())
		case 79, 80, 81, 82:
			return fmt.Sprintf("-,Stat,%s", any())
		case 83, 84, 85, 86:
			a, b := Pick(r, c19Files), Pick(r, c19Files)
			if r.Chance(1, 3) {
				a, b = Pick(r, c19Dirs), Pick(r, append([]string{"/y", "/x/y"}, c19Dirs...))
			}
			if a == "/" || b == a || strings.HasPrefix(b, a+"/") {
				continue // outside the envelope: a directory into itself
			}
			return fmt.Sprintf("-,Rename,%s,%s", hp(variant(r, a)), hp(variant(r, b)))
		case 87, 88, 89:
			return fmt.Sprintf("-,Remove,%s", any())
		case 90, 91, 92:
			return fmt.Sprintf("-,Mkdir,%s,493", any())
		case 93, 94, 95, 96:
			return fmt.Sprintf("-,MkdirAll,%s,493", any())
		case 97:
			if r.Chance(1, 2) {
				return fmt.Sprintf("-,HReaddir,%d,%d", pickSlot(), r.Range(-1, 2))
			}
			return fmt.Sprintf("-,HReaddirnames,%d,%d", pickSlot(), r.Range(-1, 2))
		case 98:
			switch r.Intn(4) {
			case 0:
				return fmt.Sprintf("-,Chmod,%s,384", any())
			case 1:
				return fmt.Sprintf("-,Chtimes,%s,1000", any())
			case 2:
				return fmt.Sprintf("-,Chown,%s,1,1", any())
			}
			return fmt.Sprintf("-,RemoveAll,%s", any())
		case 99:
			if r.Chance(1, 2) {
				return fmt.Sprintf("-,HName,%d", pickSlot())
			}
			return fmt.Sprintf("-,HSync,%d", pickSlot())
		}
	}
}

var c19Malformed = []string{
	"0,OpenFile,2f6631,3,420", "0,OpenFile,2f6631,67,420", "0,OpenFile,2f6631,192,420", "1,OpenFile,2f6e6f2f66,66,420",
	"0,Create,-", "0,Create,2f", "0,Create,2e2e", "1,Create,2f2e2e2f61", "1,Create,612f2f622f", "-,Mkdir,-,493", "-,Mkdir,2f,493",
	"-,MkdirAll,-,493", "-,MkdirAll,2f,493", "-,MkdirAll,2f2f,493", "-,MkdirAll,612f2f622f2f,493", "-,MkdirAll,2e2e2f71,493",
	"-,MkdirAll,2f66312f73,493", "-,MkdirAll,2f6631,493", "-,Mkdir,2f66312f73,493", "-,Stat,-", "-,Stat,2e", "-,Stat,2f2e2e",
	"-,Remove,2f", "-,Remove,-", "-,Rename,2f6631,2f6631", "-,Rename,2f6e6f,2f6631", "-,Rename,2f6631,2f", "-,Rename,2f6631,2f6e6f2f61",
	"-,HWrite,3,6162", "-,HRead,3,4", "-,HClose,0", "-,HClose,0", "-,HWrite,0,6162", "-,HRead,0,2", "-,HSeek,0,0,0", "-,HSeek,0,0,7",
	"-,HTruncate,0,2", "-,HStat,0", "-,HReaddir,0,-1", "-,HReaddirnames,0,0", "-,HWriteAt,0,6162,0", "-,HWriteAt,0,-,5",
	"-,HReadAt,0,3,-1", "-,HReadAt,0,0,-1", "-,HSync,0", "-,HName,0", "2,Open,2f", "2,Open,2f6631", "-,HWrite,2,78", "-,HReaddir,2,1",
	"-,Remove,2f6631", "-,Mkdir,2f6631,493", "-,HReaddir,2,0", "-,HReaddirnames,2,1", "-,HStat,2", "-,HSeek,2,-1,2", "-,HTruncate,2,1",
	"-,Chmod,2f6631,384", "-,Chmod,2f,384", "-,Chmod,2f6e6f,384", "-,RemoveAll,2f6631", "0,Create,2f6631",
}

func runC19(c *Ctx) {
	if c.From != nil {
		for _, cs := range c.From {
			t := strings.Fields(cs[0])
			if t[0] != "sftp" {
				continue
			}
			body := ""
			if len(t) > 2 {
				body = t[2]
			}
			var items []string
			for _, it := range strings.Split(body, ";") {
				if it != "" {
					items = append(items, it)
				}
			}
			execSftp(c, t[1], items)
		}
		return
	}
	runC19Symlinks(c)
	runC19OSServer(c)
	r := c.Rng
	nSeq, nMal, exLen := 260, 60, 2
	if c.Tier == "thorough" {
		nSeq, nMal, exLen = 6000, 1500, 3
	}
	// (1) exhaustive: every sequence of length <= exLen over the templates, after Create + Write "abcdef"
	templates := []string{
		"-,HWrite,0,5859", "-,HWriteString,0,5a", "-,HWrite,0,-", "-,HWriteAt,0,5758,1", "-,HWriteAt,0,5758,9", "-,HRead,0,4",
		"-,HReadAt,0,3,2", "-,HReadAt,0,4,5", "-,HSeek,0,2,0", "-,HSeek,0,9,0", "-,HSeek,0,-2,2", "-,HSeek,0,-1,1",
		"-,HTruncate,0,3", "-,HTruncate,0,9", "-,HStat,0", "-,HClose,0", "1,OpenFile,2f66,1,420", "1,OpenFile,2f66,514,420",
		"-,HWrite,1,4b4c", "-,Rename,2f66,2f67", "-,Remove,2f66", "-,MkdirAll,2f66,493", "-,MkdirAll,2f712f72,493", "-,Stat,2f66",
	}
	if c.Tier != "thorough" {
		templates = templates[:20]
	}
	k := 0
	var rec func(prefix []string, depth int)
	rec = func(prefix []string, depth int) {
		if len(prefix) > 0 {
			items := append([]string{"0,Create,2f66", "-,HWrite,0,616263646566"}, prefix...)
			items = append(items, "-,HSeek,0,0,0", "-,HRead,0,16")
			execSftp(c, fmt.Sprintf("e%d", k), items)
			k++
		}
		if depth == 0 {
			return
		}
		for _, t := range templates {
			rec(append(append([]string{}, prefix...), t), depth-1)
		}
	}
	rec(nil, exLen)
	c.Extra["exhaustive"] = fmt.Sprintf("all sequences of length<=%d over %d op templates after Create(/f)+Write(abcdef): %d cases", exLen, len(templates), k)
	// (2) structured sequences, generated online
	for i := 0; i < nSeq; i++ {
		cr := newCaseRun(c, fmt.Sprintf("s%d", i))
		n := r.Range(4, 30)
		big := i%4 == 0
		for j := 0; j < n; j++ {
			cr.step(genItem(cr, r, big))
		}
		if i < 3 {
			c.Sample("sftp " + strings.Join(cr.items, ";"))
		}
		c.Add("seq.len", len(cr.items))
		cr.finish()
	}
	// (3) malformed / out-of-the-ordinary stream: a valid start, then items of the malformed pool
	for i := 0; i < nMal; i++ {
		items := []string{"0,Create,2f6631", "-,HWrite,0,68656c6c6f"}
		n := r.Range(3, 14)
		for j := 0; j < n; j++ {
			items = append(items, Pick(r, c19Malformed))
		}
		execSftp(c, fmt.Sprintf("m%d", i), items)
	}
}

// MkdirAll on names occupied by symbolic links (oracle only; the model has no links): planted
// through the second, raw client.  "Directory creation through sftpfs produces exactly what the
// server holds": a nil result means the server has a directory at that name.
func runC19Symlinks(c *Ctx) {
	w := newWorld()
	defer w.close()
	n := 0
	plant := func(target, link string) bool {
		if err := w.c2.Symlink(target, link); err != nil {
			c.Count("symlink.unsupported")
			return false
		}
		return true
	}
	w.c2.Mkdir("/real")
	if !plant("/nowhere", "/dangling") || !plant("/real", "/tolink") {
		c.Extra["symlinks"] = "the in-process server refused Symlink: scenario skipped"
		return
	}
	plant("/loop", "/loop")
	w.c2.Mkdir("/real/sub")
	plant("/nowhere2", "/real/sub/dangling")
	for _, p := range []string{"/dangling", "/tolink", "/loop", "/real/sub/dangling", "/dangling/below", "/tolink/new/deeper", "/fresh/a/b"} {
		n++
		c.Count("symlink.mkdirall")
		err := w.fs.MkdirAll(p, 0o755)
		fi, serr := w.c2.Stat(p)
		isDir := serr == nil && fi.IsDir()
		if err == nil && !isDir {
			c.Oracle("FAIL sym%d mkdirall:ok-without-directory MkdirAll(%q) returned nil but the server has no directory there (Stat: %v)", n, p, serr)
		}
		if err != nil && isDir {
			c.Count("symlink.mkdirall-error-but-directory")
		}
	}
	c.Extra["symlinks"] = fmt.Sprintf("%d MkdirAll calls on names occupied by dangling links, links to directories and loops, judged by a second client's Stat (oracle only)", n)
}

// A server that serves the real file system (sftp.NewServer) is strict about spellings that the
// in-memory handler cleans away (a trailing separator after the name of a regular file, ...).
// "Rename, remove and directory creation through sftpfs return and produce exactly what the
// server holds": the same call with the same spelling through sftpfs and through a raw client on
// a twin tree must agree in success/failure and leave the same tree (oracle only).
func runC19OSServer(c *Ctx) {
	top, err := os.MkdirTemp("", "afc19os")
	if err != nil {
		c.Extra["os-server"] = "no temporary directory: scenario skipped"
		return
	}
	defer os.RemoveAll(top)
	var conns []rwc
	mk := func() *sftp.Client {
		cr, sw := io.Pipe()
		sr, cw := io.Pipe()
		conn := rwc{sr, sw}
		srv, err := sftp.NewServer(conn)
		if err != nil {
			panic(err)
		}
		go srv.Serve()
		conns = append(conns, conn)
		cl, err := sftp.NewClientPipe(cr, cw)
		if err != nil {
			panic(err)
		}
		return cl
	}
	c1, c2 := mk(), mk()
	defer func() {
		// server side first: closing its pipe ends is what ends the clients' receive loops
		for _, x := range conns {
			x.Close()
		}
		c1.Close()
		c2.Close()
	}()
	fs := sftpfs.New(c1)
	tree := func(root string) string {
		var out []string
		filepath.Walk(root, func(p string, fi os.FileInfo, err error) error {
			if err != nil || p == root {
				return nil
			}
			k := "f"
			if fi.IsDir() {
				k = "d"
			}
			out = append(out, strings.TrimPrefix(p, root)+":"+k)
			return nil
		})
		return strings.Join(out, ",")
	}
	type opT struct {
		name string
		a, b string
	}
	names := []string{"/d/f", "/d/f/", "/d/f//", "/d", "/d/", "/d/e", "/d/e/", "/d//e", "/d/./f", "/d/e/../f", "/nope", "/nope/", "/d/f/x", "/g", "/g/"}
	var ops []opT
	for _, n := range names {
		ops = append(ops, opT{"Remove", n, ""}, opT{"Mkdir", n, ""}, opT{"Stat", n, ""})
		ops = append(ops, opT{"Rename", n, "/z"}, opT{"Rename", "/g", n})
	}
	n := 0
	for i, op := range ops {
		var res, trees [2]string
		for side := 0; side < 2; side++ {
			root := filepath.Join(top, fmt.Sprintf("t%d_%d", i, side))
			for _, d := range []string{"/d/e"} {
				os.MkdirAll(root+d, 0o755)
			}
			for _, f := range []string{"/d/f", "/g"} {
				os.WriteFile(root+f, []byte("hello"), 0o644)
			}
			var e error
			a, b := root+op.a, root+op.b
			switch {
			case op.name == "Remove" && side == 0:
				e = fs.Remove(a)
			case op.name == "Remove":
				e = c2.Remove(a)
			case op.name == "Mkdir" && side == 0:
				e = fs.Mkdir(a, 0o755)
			case op.name == "Mkdir":
				e = c2.Mkdir(a)
			case op.name == "Stat" && side == 0:
				_, e = fs.Stat(a)
			case op.name == "Stat":
				_, e = c2.Stat(a)
			case op.name == "Rename" && side == 0:
				e = fs.Rename(a, b)
			default:
				e = c2.Rename(a, b)
			}
			res[side] = "ok"
			if e != nil {
				res[side] = "err"
			}
			trees[side] = tree(root)
			os.RemoveAll(root)
		}
		n++
		c.Count("osserver." + op.name + "." + res[1])
		if res[0] != res[1] || trees[0] != trees[1] {
			c.Oracle("FAIL oss%d os-server:%s:differs-from-server %s(%q,%q) through sftpfs: %s, tree %s; the server itself (raw client): %s, tree %s", i, op.name, op.name, op.a, op.b, res[0], trees[0], res[1], trees[1])
		}
	}
	// handles with real handle semantics (the in-memory handler answers FSTAT by path and panics on a
	// negative size), and MkdirAll spellings the server resolves element by element
	mkTree := func(root string) {
		os.MkdirAll(root+"/d/e", 0o755)
		os.WriteFile(root+"/d/f", []byte("hello"), 0o644)
		os.WriteFile(root+"/g", []byte("hello"), 0o644)
	}
	type hres struct{ res, tree string }
	handleScenario := func(i int, what string, viaFs func(root string) string, raw func(root string) string) {
		var r [2]hres
		for side := 0; side < 2; side++ {
			root := filepath.Join(top, fmt.Sprintf("h%d_%d", i, side))
			mkTree(root)
			if side == 0 {
				r[side].res = viaFs(root)
			} else {
				r[side].res = raw(root)
			}
			r[side].tree = tree(root)
			if b, err := os.ReadFile(root + "/g"); err == nil {
				r[side].tree += " g=" + string(b)
			}
			if b, err := os.ReadFile(root + "/g2"); err == nil {
				r[side].tree += " g2=" + string(b)
			}
			os.RemoveAll(root)
		}
		n++
		c.Count("osserver.handle." + what)
		if r[0] != r[1] {
			c.Oracle("FAIL ossh%d os-server:%s:differs-from-server %s through sftpfs: %s, tree %s; the server itself (raw client or the OS): %s, tree %s", i, what, what, r[0].res, r[0].tree, r[1].res, r[1].tree)
		}
	}
	okerr := func(err error) string {
		if err != nil {
			return "err"
		}
		return "ok"
	}
	handleScenario(0, "HStat-after-Rename", func(root string) string {
		h, err := fs.OpenFile(root+"/g", os.O_RDWR, 0)
		if err != nil {
			return "open:" + okerr(err)
		}
		defer h.Close()
		fs.Rename(root+"/g", root+"/g2")
		os.WriteFile(root+"/g", []byte("another file, longer"), 0o644)
		fi, err := h.Stat()
		if err != nil {
			return "stat:err"
		}
		return fmt.Sprintf("stat:ok:%d", fi.Size())
	}, func(root string) string {
		h, err := c2.OpenFile(root+"/g", os.O_RDWR)
		if err != nil {
			return "open:" + okerr(err)
		}
		defer h.Close()
		c2.Rename(root+"/g", root+"/g2")
		os.WriteFile(root+"/g", []byte("another file, longer"), 0o644)
		fi, err := h.Stat()
		if err != nil {
			return "stat:err"
		}
		return fmt.Sprintf("stat:ok:%d", fi.Size())
	})
	handleScenario(1, "HStat-after-Remove", func(root string) string {
		h, err := fs.OpenFile(root+"/g", os.O_RDWR, 0)
		if err != nil {
			return "open:" + okerr(err)
		}
		defer h.Close()
		fs.Remove(root + "/g")
		fi, err := h.Stat()
		if err != nil {
			return "stat:err"
		}
		return fmt.Sprintf("stat:ok:%d", fi.Size())
	}, func(root string) string {
		h, err := c2.OpenFile(root+"/g", os.O_RDWR)
		if err != nil {
			return "open:" + okerr(err)
		}
		defer h.Close()
		c2.Remove(root + "/g")
		fi, err := h.Stat()
		if err != nil {
			return "stat:err"
		}
		return fmt.Sprintf("stat:ok:%d", fi.Size())
	})
	for k, size := range []int64{-1, -4096, 2, 9} {
		size := size
		handleScenario(2+k, fmt.Sprintf("HTruncate(%d)", size), func(root string) string {
			h, err := fs.OpenFile(root+"/g", os.O_RDWR, 0)
			if err != nil {
				return "open:" + okerr(err)
			}
			defer h.Close()
			return "truncate:" + okerr(h.Truncate(size))
		}, func(root string) string {
			h, err := c2.OpenFile(root+"/g", os.O_RDWR)
			if err != nil {
				return "open:" + okerr(err)
			}
			defer h.Close()
			return "truncate:" + okerr(h.Truncate(size))
		})
	}
	for k, sp := range []string{"/m/../n/o", "/g/../p", "/d/../d/e/x", "/d/f/../q", "/m/./n//o/", "/d/e/../../r/s"} {
		sp := sp
		handleScenario(10+k, "MkdirAll-spelling", func(root string) string { return sp + ":" + okerr(fs.MkdirAll(root+sp, 0o755)) },
			func(root string) string { return sp + ":" + okerr(os.MkdirAll(root+sp, 0o755)) })
	}
	c.Extra["os-server"] = fmt.Sprintf("%d calls (Remove, Mkdir, Stat, Rename x %d spellings: trailing and doubled separators, dot elements, names below a regular file) against sftp.NewServer over a temporary directory, each compared with the same request sent by a raw client on a twin tree; plus Stat through a handle whose file was renamed/removed, Truncate with negative sizes, MkdirAll spellings with \"..\" compared with os.MkdirAll (oracle only)", n, len(names))
}
