import os, hashlib
from common import *

CONFIG = {
    'props_file': 'Props/C14.v',
    'vm_sample': {'quick': 160, 'thorough': 1200},
    'rule': 'arc cases: an entry list written with archive/zip (Store, Deflate) or archive/tar into memory, opened with '
            'zipfs.New / tarfs.New, and a program. (A) exhaustive: every op sequence of length<=2 (quick) / <=3 (thorough) over 23 '
            'templates (Read/ReadAt/Seek/Close/Open; offsets -1..9, all whence values incl. 3) on a 3-byte file with 2-3 handles; '
            '(B) 260 (quick) / 3000 (thorough) archives of 0-12 entries, depth<=3, sizes 0/1/2-9/100/70000, explicit and implicit '
            'directories, header names needing cleaning (./a, /a, a//b, a/./b, zz/../a, trailing /), pairwise different cleaned '
            'paths; per archive and format: B1 Stat of every entry and of missing names, Open+Readdir/Readdirnames with counts '
            '-1,0,1,2,3,100 on the root and every directory entry, Readdir on files; B2 two read programs of 4-30 ops over up to 5 '
            'interleaved handles (chunks 0..70001, ReadAt offsets -2..size+5, Seek whence 0,1,2,3,-1) followed by two successive '
            'open/read-to-EOF/close rounds; B3 every mutating Fs and File method, then the whole view is re-read; '
            '(C) 120 (quick) / 1500 (thorough) archives with duplicate cleaned paths, entries named like the root, members below '
            'files (correspondence and panics only). distinct = hash of (format, entries, program); non-trivial = the archive has '
            'an entry and some call returned bytes or a non-empty listing',
    'trusted_base': ['archive/zip and archive/tar (writers and readers): File.Name/FileInfo/UncompressedSize64/Open and '
                     'Header.Name/Typeflag/Size/entry reader return what was written',
                     'bytes.Reader (Read/ReadAt/Seek) and io.ReadFull modelled from their documentation',
                     'Lib/Path.clean, path_split, path_base, path_join model filepath.Clean/Split/Base/Join (checked by this '
                     'run\'s correspondence on every name used)',
                     'Go map iteration order is not modelled: zipfs listings are compared as sets, count>0 by size and membership'],
    'assumptions': ['the theorems are about the patched code (Z1, Z2, T1, T2 of REPORT-c14.md); until the patches are in /repo the '
                    'correspondence check reports the difference',
                    'wf_archive for (a),(c),(d): cleaned entry paths pairwise different, none is the root; the *_resolved variants '
                    'of (a) and (b),(e) need no assumption on the archive',
                    'tarfs File.Stat/File.Name on a closed handle are outside (b) (nil header after Close)',
                    'int64 offsets do not overflow; one call at a time'],
}

ROOT = os.path.dirname(os.path.dirname(os.path.abspath(__file__)))


def nontrivial(cid, lines, r):
    t = lines[0].split(' ')
    if len(t) < 5 or t[3] == '-':
        return False
    n = t[4].count(';') + 1
    for i in range(n):
        v = r['impl'].get('%s#%d' % (cid, i), '')
        if v.startswith('data:') and not v.startswith('data:-'):
            return True
        if (v.startswith('infos:') or v.startswith('names:')) and not v.startswith(('infos::', 'names::')):
            return True
        if v.startswith(('infos-sub:', 'names-sub:')) and not v.split(':')[1] == '0':
            return True
    return False


def spec_signature(key, impl, spec, lines):
    t = lines[0].split(' ') if lines else ['?', '?', '?']
    step, _, suffix = key.partition('#')[2].partition('/')
    opname = '?'
    try:
        opname = t[4].split(';')[int(step)].split(',')[0]
    except Exception:
        pass
    try:
        ops = t[4].split(';')
        args = ops[int(step)].split(',')
        opens = sum(1 for o in ops if o.startswith('Open,'))
        if t[2] == 'tar' and opens > 1 and opname == 'HRead':
            return 'tar:second-open-empty'
        if t[2] == 'tar' and opens > 1 and opname == 'HSeek':
            return 'tar:handles-share-offset'
        if t[2] == 'zip' and opname == 'HReadAt' and impl == 'err:99':
            return 'zip:readat-negative-panic' if int(args[3]) < 0 else 'zip:readat-panic'
    except Exception:
        pass
    return '%s:spec-%s:%s:%s->%s' % (t[2], suffix, opname, spec.split(':')[0], impl.split(':')[0])


# ---------------------------------------------------------------- vm_compute cross-check
COQ_HEADER = '''From AF Require Import Lib.Bytes Lib.Path Lib.Ops Model.Archive Model.Zip Model.Tar.
Local Open Scope Z_scope.
Definition vm_ok (c : N * bool * archive * list op * Z) : bool :=
  let '(_, zip, a, prog, expect) := c in
  Z.eqb (adigest (if zip then zip_run false a prog else tar_run false a prog)) expect.
Definition vm_id (c : N * bool * archive * list op * Z) : N := let '(i, _, _, _, _) := c in i.
'''

_digests = None
_ids = {}


def _load_digests():
    global _digests
    _digests = {}
    p = os.path.join(ROOT, 'work', 'C14', 'gen', 'model.txt')
    if os.path.exists(p):
        for line in open(p, errors='replace'):
            if line.startswith('V '):
                t = line.split()
                _digests[t[1]] = t[2]


def _content(spec):
    if spec in ('-', ''):
        return []
    if spec.startswith('rep~'):
        _, b, n = spec.split('~')
        return [int(b, 16)] * int(n)
    if spec.startswith('seq~'):
        _, s, n = spec.split('~')
        return [(int(s) + i * 7 + i // 256) % 256 for i in range(int(n))]
    return [int(spec[i:i + 2], 16) for i in range(0, len(spec), 2)]


def _bl(bs):
    return '[' + ';'.join(str(b) for b in bs) + ']%N' if bs else '[]'


def _op(s):
    t = s.split(',')
    n, a = t[0], t[1:]
    B = lambda x: coq_bytes(x)
    Z = lambda x: coq_z(x)
    NAT = lambda x: '%d%%nat' % int(x)
    if n in ('Open', 'Stat'):
        return '(%s %s)' % (n, B(a[0]))
    if n in ('Create', 'Remove', 'RemoveAll'):
        return '(%s %s)' % (n, B(a[0]))
    if n in ('Mkdir', 'MkdirAll', 'Chmod', 'Chtimes'):
        return '(%s %s %s)' % (n, B(a[0]), Z(a[1]))
    if n == 'Chown':
        return '(Chown %s %s %s)' % (B(a[0]), Z(a[1]), Z(a[2]))
    if n == 'Rename':
        return '(Rename %s %s)' % (B(a[0]), B(a[1]))
    if n == 'OpenFile':
        return '(OpenFile %s %s %s)' % (B(a[0]), Z(a[1]), Z(a[2]))
    if n in ('HRead', 'HTruncate', 'HReaddir', 'HReaddirnames'):
        return '(%s %s %s)' % (n, NAT(a[0]), Z(a[1]))
    if n in ('HReadAt', 'HSeek'):
        return '(%s %s %s %s)' % (n, NAT(a[0]), Z(a[1]), Z(a[2]))
    if n in ('HWrite', 'HWriteString'):
        return '(%s %s %s)' % (n, NAT(a[0]), B(a[1]))
    if n == 'HWriteAt':
        return '(HWriteAt %s %s %s)' % (NAT(a[0]), B(a[1]), Z(a[2]))
    if n in ('HClose', 'HStat', 'HName', 'HSync'):
        return '(%s %s)' % (n, NAT(a[0]))
    raise ValueError(s)


def coq_case(cid, lines, r):
    if _digests is None:
        _load_digests()
    t = lines[0].split(' ')
    if t[0] != 'arc' or cid not in _digests:
        return None
    ops = t[4].split(';')
    if len(ops) > 60:
        return None
    entries = []
    total = 0
    if t[3] != '-':
        for e in t[3].split(';'):
            name, kind, spec = e.split(':')
            c = _content(spec)
            total += len(c)
            entries.append('(mkEntry %s %s %s)' % (coq_bytes(name), 'true' if kind == 'd' else 'false', _bl(c)))
    if total > 400:
        return None
    i = _ids.setdefault(cid, len(_ids))
    return '(%d%%N, %s, %s, %s, %s)' % (i, 'true' if t[2] == 'zip' else 'false', coq_list(entries),
                                      coq_list([_op(o) for o in ops]), coq_z(_digests[cid]))
