from common import *
import re
import hashlib

CONFIG = {
    'props_file': 'Props/C03.v',
    'go_module': 'harness-conc',
    'go_build_flags': ['-race'],
    'go_env': {'CGO_ENABLED': '1'},           # the race detector needs cgo
    'overlay': [('afero_export.go', 'zz_verif_export.go'), ('mem_export.go', 'mem/zz_verif_export.go')],
    'consts_module': 'harness',
    'extra_gen': [('harness-conc', 'conctab', 'Gen/ConcTab.v')],   # the lock table, regenerated from /repo's AST
    'coq_timeout': 2400,
    'run_timeout': {'quick': 900, 'thorough': 14400},
    'vm_sample': {'quick': 500, 'thorough': 3500},
    'rule': 'three parts. (1) locks: per function of memmap.go and mem/{file,dir,dirmap}.go the sequence of lock operations '
            '(mu.Lock/RLock/Unlock/RUnlock, FileData mutexes, deferred or not, with the surrounding if/for/switch and the calls of '
            'lock-taking functions, log.Panic) extracted from the AST vs the table declared in Model/Conc.v. (2) pair matrix: every pair '
            'of 25 op kinds (23 of the property + the debug printer List and Readdir on a file handle, outside the class) runs '
            'concurrently 200x (thorough 2000x) in one child process per pair under -race, 2 goroutines x 1 op, 3-5 instantiations per '
            'kind on a fixed tree (/d1/e1/f1, /d1/f1, /f1, /d2; handles private, opened before the start barrier on the same files): '
            'impl = race|norace? + observed panic/deadlock/inconsistency classes; model = prediction of the section table '
            '(lockset with the ownership-transfer refinement) + classes reachable in ANY schedule of the model (cc_explore over every '
            'instantiation); a mismatch is only "implementation raced / failed where the model says it cannot". (3) stress: 36000 '
            '(thorough 150000) well-typed program sets x 3 (5) runs: 2-8 goroutines x 1-30 ops over 5 directory and 7 file names with '
            'FIXED kinds (last component f* = file, else directory; x* only as target of a directory rename), random pre-existing tree, '
            'op mix = Create 9 OpenFile 9 (9 flag words) Mkdir 5 MkdirAll 5 Remove(file) 7 RemoveAll 7 Rename(file->file) 7 '
            'Rename(dir->unused) 3 Stat 5 Chmod 3 Chtimes 3 Open 7 handle ops 30 (on the goroutine\'s own handles: Read ReadAt Write WriteAt '
            'Seek Truncate Stat Name Sync Close on file handles, Readdir Readdirnames Stat Name Close on directory handles); every batch '
            'of 60 sets in a child process built with -race: WARNING: DATA RACE reports (signature = top afero frames of the two '
            'accesses), panics recovered per call, fatal runtime errors (exit of the child), deadlocks (watchdog: every unfinished '
            'goroutine blocked on a mutex for 1 s, or no progress for 10 s) and, once all goroutines have returned, the consistency sweep '
            '(VerifDump: path map + child indexes, and Stat/Readdir with node identity) are FAIL lines. distinct = hash of the program '
            'set; non-trivial = at least two goroutines with a structure-changing op each. Timing-dependent: a replay re-runs a ccase 200x.',
    'trusted_base': [
        'the hand compilation of memmap.go / mem/file.go into sections (Model/Conc.v cc_begin/cc_sem) and the access annotations '
        '(cc_acc): tied to the source by the locks table (AST), by the pair matrix (race reports vs predictions) and by re-use of '
        'the sequential model\'s functions (validated by C01/C02) as section bodies',
        'Go race detector (ThreadSanitizer, happens-before): a race is only reported on executions where both accesses happen',
        'harness-conc: program generator, worker/watchdog, race-report parser, sweep; overlay/afero_export.go VerifDump',
    ],
    'assumptions': [
        'PARTIAL: the Go memory model, the scheduler and runtime fatal errors are outside the Gallina model; theorems are about '
        'the lock-discipline model',
        'data races are represented only through the hand-written access annotations of the sections (cc_acc)',
        'a section is atomic in the model: preemption inside a section is not modelled; the transient FileData mutexes taken '
        'inside a section under mu appear as acquire/release pairs before its body; the NESTED holds of Rename (the two parents, the '
        'directory whose children are re-keyed, the renamed child: always under mu write-locked) are compiled as written (cc_rename_code), '
        'its effect on the tree is one action after them',
        'map iteration order in RemoveAll is one legal order (keys present when the loop starts, ascending; later insertions not visited)',
        'runtime fatal errors other than "unlock of an unlocked mutex" and deadlock are not modelled (concurrent map access is '
        'covered by the lockset statement on the field FMap only)',
        'a pending writer does not block new readers of mu in the model (Go\'s writer preference is not modelled)',
        'a panic is recovered by the caller of the API method and the goroutine goes on (as the stress harness does)',
        'well-typed programs: each handle is used by one goroutine, each name consistently as file or directory',
        'C03_quiescent_consistent: the class of the consistency clause is cc_wtq (Model/ConcClass.v): cc_wt_op + absolute names, '
        'directory names as proper ancestors of every name a call may create, no RemoveAll/Rename of the root, no Rename below its '
        'own source, the x targets of directory renames pairwise different and unused; a sample of the generated stress cases is '
        're-checked to lie in that class (cc_case_wtq, vm_compute cross-check)',
    ],
}

_STRUCT = ('Create', 'OpenFile', 'Mkdir', 'MkdirAll', 'Remove', 'RemoveAll', 'Rename', 'RenameDir')


def nontrivial(cid, lines, r):
    if not lines[0].startswith('ccase '):
        return True
    per = {}
    for l in lines[1:-1]:
        t = l.split(' ')
        if t[0] == 'o' and t[2] in _STRUCT:
            per[t[1]] = True
    return len(per) >= 2


def canon_case(lines):
    return [' '.join(l.split(' ')[:1] + l.split(' ')[2:]) if i == 0 else l for i, l in enumerate(lines)]


# ---- vm_compute cross-check: predictions, table rows and explorations recomputed inside Coq ----
COQ_HEADER = '''From Coq Require Import String.
From AF Require Import Lib.Bytes Lib.Path Lib.Ops Gen.Consts Model.MemFile Model.MemFs Model.Conc Model.ConcClass.
Local Open Scope string_scope.
Definition p := cc_bytes.
Definition vm_id (c : nat * bool) := fst c.
Definition vm_ok (c : nat * bool) := snd c.
Definition eqs (a b : str) := beqb a b.
Definition row (fn : string) : str := match alist_get (cc_bytes fn) cc_locktab_b with Some v => v | None => [] end.
Definition reach (s : cc_summary) := (su_panic s, su_stuck s, su_inconsistent s).
'''

_HK = {'HRead': 'HkRead', 'HReadAt': 'HkReadAt', 'HWrite': 'HkWrite', 'HWriteAt': 'HkWriteAt', 'HSeek': 'HkSeek',
       'HTruncate': 'HkTruncate', 'HClose': 'HkClose', 'HStat': 'HkStat', 'HName': 'HkName', 'HSync': 'HkSync',
       'HReaddir': 'HkReaddir', 'HReaddirnames': 'HkReaddirnames'}


def _kind(k):
    if k in _HK:
        return '(KH %s)' % _HK[k]
    return {'xList': 'KXList', 'xReaddirFile': 'KXReaddirFile'}.get(k, 'K' + k)


def _op(t):
    k, a = t[0], t[1:]
    s = lambda x: '(p "%s")' % x
    z = lambda x: '(%d)%%Z' % int(x)
    zo = lambda x: '(%d)%%Z' % int(x, 8)
    n = lambda x: '%d%%nat' % int(x)
    b = lambda x: coq_bytes('' if x == '-' else x)
    if k in ('Create', 'Open', 'Remove', 'RemoveAll', 'Stat'):
        return '%s %s' % (k, s(a[0]))
    if k == 'OpenFile':
        return 'OpenFile %s %s %s' % (s(a[0]), z(a[1]), zo(a[2]))
    if k in ('Mkdir', 'MkdirAll', 'Chmod'):
        return '%s %s %s' % (k, s(a[0]), zo(a[1]))
    if k == 'Chtimes':
        return 'Chtimes %s %s' % (s(a[0]), z(a[1]))
    if k in ('Rename', 'RenameDir'):
        return 'Rename %s %s' % (s(a[0]), s(a[1]))
    if k in ('HRead', 'HTruncate', 'HReaddirnames'):
        return '%s %s %s' % (k, n(a[0]), z(a[1]))
    if k in ('HReaddir', 'xReaddirFile'):
        return 'HReaddir %s %s' % (n(a[0]), z(a[1]))
    if k in ('HReadAt', 'HSeek'):
        return '%s %s %s %s' % (k, n(a[0]), z(a[1]), z(a[2]))
    if k == 'HWrite':
        return 'HWrite %s %s' % (n(a[0]), b(a[1]))
    if k == 'HWriteAt':
        return 'HWriteAt %s %s %s' % (n(a[0]), b(a[1]), z(a[2]))
    if k in ('HClose', 'HStat', 'HName', 'HSync'):
        return '%s %s' % (k, n(a[0]))
    if k == 'xList':
        return 'HSync 9999%nat'
    raise ValueError(k)


_counter = [0]


def coq_case(cid, lines, r):
    D = r.get('D', {})
    hd = lines[0].split(' ')
    _counter[0] += 1
    i = _counter[0]
    if hd[0] == 'pair':
        d = dict(x.split('=', 1) for x in D.get(cid, '').split(' ') if '=' in x)
        if 'hb' not in d:
            return None
        return '(%d%%nat, Bool.eqb (cc_kinds_norace cc_protected_hb %s %s) %s && Bool.eqb (cc_kinds_norace cc_protected %s %s) %s)' % (
            i, _kind(hd[2]), _kind(hd[3]), 'true' if d['hb'] == 'norace' else 'false',
            _kind(hd[2]), _kind(hd[3]), 'true' if d['lockset'] == 'norace' else 'false')
    if hd[0] == 'locks':
        m = r['M'].get(cid)
        if m is None or m.startswith('<'):
            return None
        return '(%d%%nat, eqs (row "%s") (p "%s"))' % (i, hd[2], m)
    if hd[0] == 'ccase' and ('pair' in hd or 'stress' in hd):
        stress = 'stress' in hd
        d = dict(x.split('=', 1) for x in D.get(cid, '').split(' ') if '=' in x)
        if stress:
            # one generated stress case in forty: is it in the class of C03_quiescent_consistent_case?
            if int(hashlib.sha1(cid.encode()).hexdigest(), 16) % 40 != 0:
                return None
        elif 'runs' not in d or int(d['runs']) > 400 or d.get('cut') != 'false':
            return None
        setup, pro, thr = [], {}, {}
        for l in lines[1:-1]:
            t = l.split(' ')
            if t[0] == 's':
                setup.append(_op(t[1:]))
            elif t[0] == 'p':
                pro.setdefault(int(t[1]), []).append(_op(t[2:]))
            elif t[0] == 'o':
                thr.setdefault(int(t[1]), []).append(_op(t[2:]))
        n = max(list(pro) + list(thr)) + 1
        progs = coq_list(['(%s, %s)' % (coq_list(pro.get(t, [])), coq_list(thr.get(t, []))) for t in range(n)])
        if stress:
            return '(%d%%nat, cc_case_wtq %s %s)' % (i, coq_list(setup), progs)
        cl = d['reach'].split(',')
        exp = '(%s, %s, %s)' % tuple('true' if c in cl else 'false' for c in ('panic', 'deadlock', 'inconsistent'))
        return ('(%d%%nat, let s := cc_explore 600 (cc_case_cfg %s %s) su0 in '
                'match reach s, %s with (a, b, c), (a\', b\', c\') => Bool.eqb a a\' && Bool.eqb b b\' && Bool.eqb c c\' end)') % (
                    i, coq_list(setup), progs, exp)
    return None
