from common import *

CONFIG = {
    'props_file': 'Props/C13.v',
    # Props/C13Wraps.v holds the one obligation that is a fact about the SOURCE constant regenerated
    # from regexpfs.go (OpenFile wraps its result in a RegexpFile): it compiles iff that is the case
    'depends': ['Props/C13Wraps'],
    'rule': 'stacks re:0|1|2(mem) (patterns \\.txt$, (^|/)[ab]+$, (^|/)a[^/]*$), ro(re:0(mem)), re:0|2(bp:/d(mem)): a setup phase writes a tree '
            'directly into the MemMapFs at the bottom (4-13 entries over the names a ab b c a.txt n.txt x.dat, so every pattern sees matching '
            'and non-matching regular files and directories with both kinds of names; contents, some Chmod, explicit past mtimes), then 5-30 '
            'ops through the filter: half unconstrained (WrapGen: every Fs / handle method, wild flags, // and /./ spellings), half directed '
            '(OpenFile/Open of a directory + Readdir/Readdirnames, renames in the four match/non-match combinations, Create/OpenFile(O_CREATE..) '
            'of non-matching names + writes, Chmod/Chtimes/Chown/Remove/RemoveAll/Stat/Open of hidden files, work on matching files, names '
            'below a hidden regular file, directory Stat/Chmod/Rename/RemoveAll). Oracle per step through the filter (real regexp on base '
            'names, direct dumps of the MemMapFs; never the model): (a) every non-matching regular file of the underlying filesystem keeps '
            'path, bytes, mode, mtime(ns) and none appears, except below a directory named by RemoveAll/Rename; (b) no Stat info, opened '
            'handle or listing entry is a non-matching regular file (listed names are looked up in the underlying dump: directories may be '
            'listed whatever their name); plus after every step: no hidden file is stat-able/openable; (c) every matching file: Stat through '
            '== Stat direct (name, size, mode, mtime ns) and ReadFile through == direct == dump; every directory stat-able, openable and '
            'its listing through Open (and, at the end of the case, through OpenFile) == the direct listing minus non-matching regular files. '
            'rematch lines: re_match (Stack.v) == regexp.MatchString for every name handed to the filter, every path and base name of the '
            'underlying trees, and exhaustively every name of length <= 3 (quick) / 4 (thorough) over {a b c . / t x}. distinct = hash of the '
            'item list; non-trivial = a case with at least one NotExist refusal and one handle obtained through the filter',
    'trusted_base': ['package regexp is trusted; the three patterns are re-implemented as functions in Stack.v re_match and compared with '
                     'regexp.MatchString on every name the harness uses (rematch lines, driver ocaml/drv_c13.ml, extraction coq/Extract/c13.ext)',
                     'the theorems hold for every inner filesystem and every matcher; the harness exercises MemMapFs, BasePathFs(MemMapFs) as '
                     'the inner filesystem and ReadOnlyFs on top'],
    'assumptions': ['the pattern is decided by the final path element (the property\'s own restriction; hypothesis Hbase where a theorem '
                    'needs it, and proved for the three harness patterns)',
                    'names are slash-separated without NUL; "individually removed" excludes RemoveAll/Rename of a directory above the file',
                    'C13_hidden_files_protected_mem: handles that existed on the MemMapFs before the step are read-only or closed '
                    '(hypothesis all_inert: the Stat probe is then the only call the source sees)'],
}

def nontrivial(cid, lines, r):
    if not lines[0].startswith('case '):
        return True
    refused = handle = False
    for i, l in enumerate(lines[1:-1]):
        t = l.split(' ')
        if len(t) < 3 or t[0] != '.':
            continue
        res = r['impl'].get('%s#%d' % (cid, i), '')
        refused |= res == 'err:NotExist'
        handle |= res == 'handle'
    return refused and handle

CONFIG['vm_sample'] = {'quick': 160, 'thorough': 1200}

COQ_HEADER = '''From AF Require Import Lib.Bytes Lib.Path Lib.Ops Gen.Consts Model.MemFile Model.MemFs Model.Stack Model.Digest.
Inductive vmcase := VM (i : N) (pat : nat) (name : str) (expect : bool)
                  | VC (i : N) (k : stack) (its : list item) (d : N).
Definition vm_ok (c : vmcase) : bool :=
  match c with
  | VM _ pat name e => Bool.eqb (re_match pat name) e
  | VC _ k its d => N.eqb (case_digest k its) d
  end.
Definition vm_id (c : vmcase) : N := match c with VM i _ _ _ | VC i _ _ _ => i end.
'''
_ids = {}
def coq_case(cid, lines, r):
    t = lines[0].split(' ')
    i = _ids.setdefault(cid, len(_ids))
    if t[0] == 'rematch' and cid in r['M']:
        return 'VM %d%%N %s %s %s' % (i, coq_nat(t[2]), coq_bytes(t[3]), coq_bool(r['M'][cid]))
    if t[0] == 'case' and cid in r.get('D', {}) and len(lines) <= 110:
        return 'VC %d%%N %s [%s] %s%%N' % (i, coq_stack(t[2]), ';\n  '.join(coq_item(l) for l in lines[1:-1]), r['D'][cid])
    return None
