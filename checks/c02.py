from common import *

CONFIG = {
    'props_file': 'Props/C02.v',
    'rule': 'fcase: one mem.FileData with 1-4 handles (rw/ro/closed) made by mem.NewFileHandle/NewReadOnlyFileHandle, '
            '<=40 ops drawn from Read/ReadAt/Write/WriteAt/WriteString/Seek/Truncate/Close/Stat with offsets in [-3,len+6], '
            'payloads of length 0-6 over {00,01,61,..}; exhaustive sweep of all sequences of length<=2 (quick) / <=3 (thorough) '
            'over 17 op templates; case mem: the same ops through files from MemMapFs.Create/Open/OpenFile with 13 flag sets. '
            'distinct = hash of the op list without the case id; non-trivial = at least one successful write/truncate and one '
            'successful read after it',
    'trusted_base': ['Go slices/append/copy modelled as list functions (firstn/skipn/app)'],
    'assumptions': ['each handle is used by one call at a time (the property\'s own restriction)', 'int64 offsets do not overflow'],
}

def nontrivial(cid, lines, r):
    wrote = False
    for i, l in enumerate(lines[1:-1]):
        t = l.split(' ')
        if len(t) < 3:
            continue
        res = r['impl'].get('%s#%d' % (cid, i), '')
        if t[2] in ('HWrite', 'HWriteAt', 'HWriteString', 'HTruncate') and (res.startswith('count:') and res.endswith(':-') or res == 'ok'):
            wrote = True
        if wrote and t[2] in ('HRead', 'HReadAt') and res.startswith('data:') and not res.startswith('data:-'):
            return True
    return False

def spec_signature(key, impl, spec, lines):
    step = int(key.split('#')[1].split('/')[0])
    body = lines[1:-1]
    opname = body[step].split(' ')[2] if step < len(body) else '?'
    return 'bytefile:%s:%s->%s' % (opname, spec.split(':')[0], impl.split(':')[0])
