from common import *

CONFIG = {
    'props_file': 'Props/C02.v',
    'rule': 'fcase: one mem.FileData with 1-4 handles (rw/ro/closed) made by mem.NewFileHandle/NewReadOnlyFileHandle, '
            '<=40 ops drawn from Read/ReadAt/Write/WriteAt/WriteString/Seek/Truncate/Close/Stat with offsets in [-3,len+6], '
            'payloads of length 0-6 over {00,01,61,..}; exhaustive sweep of all sequences of length<=2 (quick) / <=3 (thorough) '
            'over 17 op templates; case mem: the same ops through files from MemMapFs.Create/Open/OpenFile with 13 flag sets. '
            'distinct = hash of the op list without the case id; non-trivial = at least one successful write/truncate and one '
            'successful read after it',
    'trusted_base': ['Go slices/append/copy modelled as list functions (firstn/skipn/app)'],
    'assumptions': ['each handle is used by one call at a time (the property\'s own restriction)', 'int64 offsets do not overflow'],
}

def nontrivial(cid, lines, r):
    wrote = False
    for i, l in enumerate(lines[1:-1]):
        t = l.split(' ')
        if len(t) < 3:
            continue
        res = r['impl'].get('%s#%d' % (cid, i), '')
        if t[2] in ('HWrite', 'HWriteAt', 'HWriteString', 'HTruncate') and (res.startswith('count:') and res.endswith(':-') or res == 'ok'):
            wrote = True
        if wrote and t[2] in ('HRead', 'HReadAt') and res.startswith('data:') and not res.startswith('data:-'):
            return True
    return False

def spec_signature(key, impl, spec, lines):
    step = int(key.split('#')[1].split('/')[0])
    body = lines[1:-1]
    opname = body[step].split(' ')[2] if step < len(body) else '?'
    return 'bytefile:%s:%s->%s' % (opname, spec.split(':')[0], impl.split(':')[0])

COQ_HEADER = '''From AF Require Import Lib.Bytes Lib.Path Lib.Ops Gen.Consts Model.MemFile Model.MemFs Model.Stack Model.Digest.
Inductive vmcase := VF (i : N) (content : bytes) (spec : list (bool * bool)) (ops : list op) (d : N)
                  | VC (i : N) (k : stack) (its : list item) (d : N).
Definition vm_ok (c : vmcase) : bool :=
  match c with
  | VF _ content spec ops d => N.eqb (fcase_digest content spec ops) d
  | VC _ k its d => N.eqb (case_digest k its) d
  end.
Definition vm_id (c : vmcase) : N := match c with VF i _ _ _ _ | VC i _ _ _ => i end.
'''
_ids = {}
def coq_case(cid, lines, r):
    t = lines[0].split(' ')
    if cid not in r.get('D', {}) or len(lines) > 45:
        return None
    i = _ids.setdefault(cid, len(_ids))
    if t[0] == 'fcase':
        spec = coq_list(['(%s, %s)' % ('true' if h.startswith('r') else 'false', 'true' if h.endswith('c') and len(h) > 1 else 'false')
                         for h in t[3].split(',')])
        ops = [coq_op(l.split(' ')[2:]) for l in lines[1:-1]]
        return 'VF %d%%N %s %s [%s] %s%%N' % (i, coq_bytes(t[2]), spec, ';\n  '.join(ops), r['D'][cid])
    items = [coq_item(l) for l in lines[1:-1]]
    return 'VC %d%%N %s [%s] %s%%N' % (i, coq_stack(t[2]), ';\n  '.join(items), r['D'][cid])
