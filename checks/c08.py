from common import *

CONFIG = {
    'props_file': 'Props/C08.v',
    'rule': 'realpath/httpdir: every name of length<=5 (quick) / <=7 (thorough) over {a,b,.,/} x roots {/, /a, /a/, /ab, a, ./a, /a/b, /a/../b, //a} '
            '(RealPath, exported method) and x {/, /a, /a/b, a, ""} (httpDir.Open through a recording source): exhaustive. '
            'case bp:D(mem) / bp:/in(bp:D(mem)): an underlying tree with siblings whose names start with D\'s name (D2, Dment) holding '
            'marked content, then 6-30 unconstrained ops through the wrapper over inside names and escaping spellings (../D2/.., in/../../D2, '
            '/../D2, //in//..//../D2 ...). Oracle per step: deep snapshot of everything outside D unchanged, no result contains the marker. '
            'distinct = hash of the case; non-trivial = a case whose name contains ".." (realpath/httpdir) or that performs at least one '
            'successful mutation through the wrapper (case)',
    'trusted_base': ['path/filepath.Clean/Join modelled in Lib/Path.v (every realpath case compares the model with the real function)',
                     'frame property of the source (a call with a confined name touches nothing outside the root) is not a theorem: '
                     'checked by the per-step outside snapshot for MemMapFs, trusted for OsFs (symlinks could defeat it)'],
    'assumptions': ['Unix path separator; names without NUL'],
}

def nontrivial(cid, lines, r):
    t = lines[0].split(' ')
    if t[0] in ('realpath', 'httpdir'):
        return '2e2e' in t[3]
    for i, l in enumerate(lines[1:-1]):
        u = l.split(' ')
        if len(u) > 2 and u[0] == '.' and u[2] in ('Create', 'Mkdir', 'MkdirAll', 'Remove', 'RemoveAll', 'Rename', 'Chmod', 'Chtimes', 'OpenFile'):
            res = r['impl'].get('%s#%d' % (cid, i), '')
            if res in ('ok', 'handle'):
                return True
    return False

COQ_HEADER = '''From AF Require Import Lib.Bytes Lib.Path Lib.Ops Gen.Consts Model.MemFile Model.MemFs Model.BasePath Model.Stack Model.Digest.
Inductive vmcase := VR (i : N) (base name : str) (expect : option str)
                  | VH (i : N) (root name expect : str)
                  | VC (i : N) (k : stack) (its : list item) (d : N).
Definition oeq (a b : option str) : bool :=
  match a, b with Some x, Some y => beqb x y | None, None => true | _, _ => false end.
Definition vm_ok (c : vmcase) : bool :=
  match c with
  | VR _ base name e => oeq (real_path base name) e
  | VH _ root name e => beqb (http_target root name) e
  | VC _ k its d => N.eqb (case_digest k its) d
  end.
Definition vm_id (c : vmcase) : N := match c with VR i _ _ _ | VH i _ _ _ | VC i _ _ _ => i end.
'''
_ids = {}
def coq_case(cid, lines, r):
    t = lines[0].split(' ')
    i = _ids.setdefault(cid, len(_ids))
    m = r['M'].get(cid)
    if t[0] == 'realpath' and m is not None:
        e = 'None' if m.startswith('err') else '(Some %s)' % coq_bytes(m.split(':')[1])
        return 'VR %d%%N %s %s %s' % (i, coq_bytes(t[2]), coq_bytes(t[3]), e)
    if t[0] == 'httpdir' and m is not None and m.startswith('ok:'):
        return 'VH %d%%N %s %s %s' % (i, coq_bytes(t[2]), coq_bytes(t[3]), coq_bytes(m.split(':')[1]))
    if t[0] == 'case' and cid in r.get('D', {}) and len(lines) <= 60:
        return 'VC %d%%N %s [%s] %s%%N' % (i, coq_stack(t[2]), ';\n  '.join(coq_item(l) for l in lines[1:-1]), r['D'][cid])
    return None
