from common import *

CONFIG = {
    'props_file': 'Props/C09.v',
    'rule': 'case bp:D(mem) and nested bp:D2(bp:D1(mem)) for roots /d, /d/, /, /d/e, //d//e/, (/x,/in), (/x/,/in/), (/,/in): 5-30 ops from the '
            'structured generator (in-root names with alternative spellings, 6% ops outside POSIX preconditions) through the wrapper; every op is '
            'replayed on a twin MemMapFs with filepath.Join(joined root, name); per-step results must be identical, Name() joined with the root '
            'must be the source name, final snapshots (paths, bytes, modes) of underlying and twin must be equal. fullpath: FullBaseFsPath for '
            '9x9 root pairs x 8 relative paths vs Join(Join(b1,b2),rel). distinct = hash of the case; non-trivial = at least one successful '
            'mutation through the wrapper followed by a successful read',
    'trusted_base': ['path/filepath.Join/Clean modelled in Lib/Path.v'],
    'assumptions': ['stacking theorem: the inner root and the names never step up (".." above their start) — with ".." a stacked wrapper clamps '
                    'at the inner root where the joined one refuses (Example C09_stacking_needs_no_up); nested roots are rooted'],
}
from c01 import nontrivial as _nt
def nontrivial(cid, lines, r):
    if lines[0].startswith('fullpath') or lines[0].startswith('realpath'):
        return True
    return _nt(cid, lines, r)
COQ_HEADER = FS_COQ_HEADER
def coq_case(cid, lines, r):
    return fs_coq_case(cid, lines, r) if lines[0].startswith('case') else None
