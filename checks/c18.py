from common import *

CONFIG = {
    'props_file': 'Props/C18.v',
    'rule': 'temp cases (afero.VerifSetRandNum(seed), then ncalls sequential TempFile/TempDir calls; implementation and model draw the '
            'same candidates): (1) grid stacks {mem, bp:/d(mem), cow(mem,mem), cache:0(mem,mem)} x {TempFile, TempDir} x k = 0..12 '
            'pre-existing names equal to the next k candidates (as files, as directories, mixed) so that the retry path and the '
            'reseed-after-10-conflicts path run; (2) directories {/, /w, /w/sub, w, /w/, /w/../w, ""} existing or missing x patterns '
            'with 0, 1 and several "*" x 1..20 sequential callers; (3) generator seed 0 (self-seeding) and gaps in the colliding set; '
            '(4) random; (5) hostile: path separators in the pattern, the directory is a regular file; (6) ctemp: 4-16 real goroutines '
            'on MemMapFs and on OsFs (temp dir), with and without rival goroutines that create the predicted candidate names with '
            'O_CREATE|O_EXCL / Mkdir at the same time (oracle only, no model line). A call that reseeded from the clock is compared '
            'by shape/freshness only ("reseeded"). Go-side oracle per call: tree (walk + file bytes + modes) before/after: returned '
            'name absent before, present after with the right kind, directly inside Clean(dir), prefix + 9 digits + suffix, every '
            'pre-existing entry unchanged, only ancestors of the name may be new; names pairwise distinct per case; ctemp: no name '
            'granted twice by exclusive create, keep.txt unchanged. distinct = hash of the case line without its id; non-trivial = at '
            'least one colliding pre-existing candidate, or more than one call, or a concurrent case',
    'trusted_base': ['strconv.Itoa, strings.LastIndex, filepath.Join modelled in Model/Temp.v / Lib/Path.v (compared by every case)',
                     'reseed() (clock, pid) is an oracle input of the model; os.TempDir() = "/tmp" (the harness unsets TMPDIR)',
                     'the wrappers (BasePathFs, CopyOnWriteFs, CacheOnReadFs) and OsFs are covered by correspondence/oracle runs only: '
                     'the contract is proved for MemMapFs',
                     'atomicity of one exclusive create under real concurrency is NOT proved (property C04); '
                     'C18_concurrent_reduces assumes it'],
    'assumptions': ['C18_fresh_and_shaped_mem_*: the path map points into the heap (mem_wf), the requested directory is a directory '
                    '(is_dir_node), prefix and suffix hold no path separator (call_sane)',
                    'no entry is removed between the calls of a sequence',
                    'concurrent clause: each attempt (nextRandom; the exclusive create) is one atomic step'],
    'vm_sample': {'quick': 40, 'thorough': 300},
}

def nontrivial(cid, lines, r):
    t = lines[0].split(' ')
    if t[0] == 'ctemp':
        return True
    if t[0] == 'temp':
        return any(x[:1] in ('f', 'd') and x[1:].isdigit() for x in t[7].split(',')) or int(t[8]) > 1
    return True

COQ_HEADER = '''From AF Require Import Lib.Bytes Lib.Path Lib.Ops Gen.Consts Model.MemFile Model.MemFs Model.Stack Model.Temp Model.Cases1718.
Definition vmcase : Type := (N * stack * Z * str * str * bool * list temp_pre * nat * N)%type.
Definition vm_ok (c : vmcase) : bool :=
  let '(_, k, seed, dir, pat, isfile, pre, ncalls, d) := c in N.eqb (temp_case_digest k seed dir pat isfile pre ncalls) d.
Definition vm_id (c : vmcase) : N := let '(i, _, _, _, _, _, _, _, _) := c in i.
'''
_ids = {}

def coq_pre(s):
    if s == '-':
        return '[]'
    out = []
    for it in s.split(','):
        if it == 'D':
            out.append('TpMkdir')
        elif it == 'F':
            out.append('TpDirIsFile')
        elif it == 'K':
            out.append('TpKeep')
        elif it[0] == 'f':
            out.append('TpCandFile %s' % coq_nat(it[1:]))
        else:
            out.append('TpCandDir %s' % coq_nat(it[1:]))
    return '[' + '; '.join(out) + ']'

def coq_case(cid, lines, r):
    t = lines[0].split(' ')
    if t[0] != 'temp' or cid not in r.get('D', {}):
        return None
    if t[2].startswith('cache') and t[6] == 'file':
        return None        # 10000 attempts each: too slow for the in-Coq sample
    i = _ids.setdefault(cid, len(_ids))
    return '(%d%%N, %s, %s, %s, %s, %s, %s, %s, %s%%N)' % (i, coq_stack(t[2]), coq_z(t[3]), coq_bytes(t[4]), coq_bytes(t[5]),
                                                        'true' if t[6] == 'file' else 'false', coq_pre(t[7]), coq_nat(t[8]), r['D'][cid])
