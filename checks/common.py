"""helpers shared by the per-property plugins: printing case data as Coq terms"""

def coq_bytes(hexs):
    if hexs == '-' or hexs == '':
        return '[]'
    return '[' + ';'.join(str(int(hexs[i:i + 2], 16)) for i in range(0, len(hexs), 2)) + ']%N'

def coq_bool(s):
    return 'true' if s == 'true' else 'false'

def coq_z(n):
    n = int(n)
    return '(%d)%%Z' % n

def coq_list(items):
    return '[' + '; '.join(items) + ']'
