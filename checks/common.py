"""helpers shared by the per-property plugins: printing case data as Coq terms"""

def coq_bytes(hexs):
    if hexs == '-' or hexs == '':
        return '[]'
    return '[' + ';'.join(str(int(hexs[i:i + 2], 16)) for i in range(0, len(hexs), 2)) + ']%N'

def coq_bool(s):
    return 'true' if s == 'true' else 'false'

def coq_z(n):
    n = int(n)
    return '(%d)%%Z' % n

def coq_list(items):
    return '[' + '; '.join(items) + ']'


# ---- generic vm_compute cross-check for "case <id> <stack>" blocks ----
def coq_str(hexs):
    return coq_bytes(hexs)

def coq_nat(n):
    return '%d%%nat' % int(n)

def coq_fault_plan(arg):
    """faulty:<plan>: "-" | <i>:err:<IO|NOENT|PNOTEXIST|PNOENT|NOTEXIST> | <i>:short:<k>, joined by '+' (Model/Faulty.v)"""
    if arg in ('', '-'):
        return '[]'
    errs = {'IO': '(E KEIO)', 'NOENT': '(E KENOENT)', 'PNOTEXIST': '(EW KNotExist)',
            'PNOENT': '(EW KENOENT)', 'NOTEXIST': '(E KNotExist)'}
    out = []
    for part in arg.split('+'):
        i, kind, a = part.split(':')
        out.append('(%s, %s)' % (coq_nat(i), 'FltFail %s' % errs[a] if kind == 'err' else 'FltShort %s' % coq_nat(a)))
    return '[' + '; '.join(out) + ']'

def coq_stack(desc):
    """mem | ro(S) | bp:<hex>(S) | re:<n>(S) | cow(S,S) | cache:<dur>(S,S)"""
    pos = [0]
    def ident():
        st = pos[0]
        while pos[0] < len(desc) and desc[pos[0]] not in '(),':
            pos[0] += 1
        return desc[st:pos[0]]
    def expr():
        i = ident()
        if i == 'mem':
            return 'SMem'
        assert desc[pos[0]] == '('
        pos[0] += 1
        kids = [expr()]
        while desc[pos[0]] == ',':
            pos[0] += 1
            kids.append(expr())
        assert desc[pos[0]] == ')'
        pos[0] += 1
        kind, _, arg = i.partition(':')
        if kind == 'ro':
            return '(SReadOnly %s)' % kids[0]
        if kind == 'bp':
            return '(SBasePath %s %s)' % (coq_bytes(arg), kids[0])
        if kind == 're':
            return '(SRegexp %s %s)' % (coq_nat(arg), kids[0])
        if kind == 'cow':
            return '(SCow %s %s)' % (kids[0], kids[1])
        if kind == 'cache':
            return '(SCache %s %s %s)' % (coq_z(arg), kids[0], kids[1])
        if kind == 'faulty':
            return '(SFaulty %s %s)' % (coq_fault_plan(arg), kids[0])
        raise ValueError(i)
    return expr()

def coq_tgt(t):
    return '[]' if t == '.' else '[' + ';'.join(coq_nat(c) for c in t) + ']'

def coq_op(t):
    n, a = t[0], t[1:]
    S, Zs, Ns = coq_bytes, coq_z, coq_nat
    m = {
        'Create': lambda: 'Create %s' % S(a[0]),
        'Mkdir': lambda: 'Mkdir %s %s' % (S(a[0]), Zs(a[1])),
        'MkdirAll': lambda: 'MkdirAll %s %s' % (S(a[0]), Zs(a[1])),
        'Open': lambda: 'Open %s' % S(a[0]),
        'OpenFile': lambda: 'OpenFile %s %s %s' % (S(a[0]), Zs(a[1]), Zs(a[2])),
        'Remove': lambda: 'Remove %s' % S(a[0]),
        'RemoveAll': lambda: 'RemoveAll %s' % S(a[0]),
        'Rename': lambda: 'Rename %s %s' % (S(a[0]), S(a[1])),
        'Stat': lambda: 'Stat %s' % S(a[0]),
        'Chmod': lambda: 'Chmod %s %s' % (S(a[0]), Zs(a[1])),
        'Chown': lambda: 'Chown %s %s %s' % (S(a[0]), Zs(a[1]), Zs(a[2])),
        'Chtimes': lambda: 'Chtimes %s %s' % (S(a[0]), Zs(a[1])),
        'HRead': lambda: 'HRead %s %s' % (Ns(a[0]), Zs(a[1])),
        'HReadAt': lambda: 'HReadAt %s %s %s' % (Ns(a[0]), Zs(a[1]), Zs(a[2])),
        'HWrite': lambda: 'HWrite %s %s' % (Ns(a[0]), S(a[1])),
        'HWriteAt': lambda: 'HWriteAt %s %s %s' % (Ns(a[0]), S(a[1]), Zs(a[2])),
        'HWriteString': lambda: 'HWriteString %s %s' % (Ns(a[0]), S(a[1])),
        'HSeek': lambda: 'HSeek %s %s %s' % (Ns(a[0]), Zs(a[1]), Zs(a[2])),
        'HTruncate': lambda: 'HTruncate %s %s' % (Ns(a[0]), Zs(a[1])),
        'HClose': lambda: 'HClose %s' % Ns(a[0]),
        'HReaddir': lambda: 'HReaddir %s %s' % (Ns(a[0]), Zs(a[1])),
        'HReaddirnames': lambda: 'HReaddirnames %s %s' % (Ns(a[0]), Zs(a[1])),
        'HStat': lambda: 'HStat %s' % Ns(a[0]),
        'HName': lambda: 'HName %s' % Ns(a[0]),
        'HSync': lambda: 'HSync %s' % Ns(a[0]),
    }
    return m[n]()

def coq_item(line):
    t = line.split(' ')
    if t[0] == 'snap':
        return 'ISnap %s' % coq_tgt(t[1])
    if t[0] == 'index':
        return 'IIndex %s' % coq_tgt(t[1])
    slot = 'None' if t[1] == '-' else '(Some %s)' % coq_nat(t[1])
    return 'IOp %s %s (%s)' % (coq_tgt(t[0]), slot, coq_op(t[2:]))

FS_COQ_HEADER = '''From AF Require Import Lib.Bytes Lib.Path Lib.Ops Gen.Consts Model.MemFile Model.MemFs Model.Stack Model.Digest.
Definition vm_ok (c : N * stack * list item * N) : bool :=
  let '(_, k, its, expect) := c in N.eqb (case_digest k its) expect.
Definition vm_id (c : N * stack * list item * N) : N := let '(i, _, _, _) := c in i.
'''
_fs_ids = {}
def fs_coq_case(cid, lines, r):
    """lines of a 'case <id> <stack>' block; r['D'][cid] = digest printed by the extracted runner"""
    t = lines[0].split(' ')
    if t[0] != 'case' or cid not in r.get('D', {}) or len(lines) > 45:
        return None
    i = _fs_ids.setdefault(cid, len(_fs_ids))
    items = [coq_item(l) for l in lines[1:-1]]
    return '(%d%%N, %s, [%s], %s%%N)' % (i, coq_stack(t[2]), ';\n   '.join(items), r['D'][cid])
