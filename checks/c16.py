from common import *

CONFIG = {
    'props_file': 'Props/C16.v',
    'rule': 'walk/rwalk: (1) every tree of depth<=2 over names {a,b} (121 trees, children stored unsorted) x every root '
            '(each existing path, a missing one, ".") x every callback table with one non-continue action (SkipDir / injected '
            'error / return-the-passed-error at visit k) and SkipDir-then-action pairs; (2) random trees <=25 nodes, depth<=4 over '
            '12 names that sort differently as strings and as paths (a, a-b, a.b, a0, ab, B, _ ...) x roots {/, nested dir, '
            'unclean spellings, file, missing under root/dir/file, .} x random tables. glob/rglob: every pattern of length<=3 '
            '(4 thorough) over "ab*?[]-^/\\" relative and absolute on 3 fixed trees, generated patterns of 1-4 elements over '
            '* ? [ab] [a-c] [^a] literals and escaped characters (\\c, [\\c], \\c*) following existing paths, and a malformed/escaped '
            'stream; every pattern, malformed or not, is judged against filepath.Glob (matches, order, ErrBadPattern). match: '
            'filepath.Match on every pattern<=3 over "ab*?[]-^\\" x names<=2 plus random ones. Every tree is built on MemMapFs, '
            'BasePathFs(mem,"/"), CopyOnWriteFs(split over base and layer) and as real files in a temp dir (filepath.* reference). '
            'distinct = hash of the case line without id; non-trivial = walk with >=2 visits or a non-nil result, glob with >=1 match, '
            'match that is true or BadPattern',
    'trusted_base': ['filepath.Match is transcribed (Model/Glob.v match_seg) and compared with the real one on every match case; '
                     'it is shared by afero.Glob and filepath.Glob, so the Glob theorems do not depend on its details',
                     'sort.Strings / slices.Sort modelled as one insertion sort on the byte-wise string order',
                     'lstat/Stat/Readdirnames of MemMapFs and of the OS on a static symlink-free tree modelled as lookups in one tree; '
                     'lstat(Join(dir, name)) of a listed name returns that entry',
                     'filepath.Join / Split / Clean from Lib/Path.v (modelled, compared through every reported path)'],
    'assumptions': ['the tree does not change during the call and has no symlinks; directories are readable (readDirNames cannot fail)',
                    'callbacks are functions of the visits seen so far (state machines); filepath.SkipAll is not used',
                    'names and patterns are ASCII; patterns have fewer than 10000 bytes (escapes and malformed patterns are covered)',
                    'paths are absolute and clean enough that lexical Clean and kernel resolution agree '
                    '(relative paths: only through BasePathFs, MemMapFs has no working directory)'],
    'vm_sample': {'quick': 60, 'thorough': 400},
}


def _kind(lines):
    return lines[0].split(' ')[0] if lines else '?'


def nontrivial(cid, lines, r):
    k = _kind(lines)
    if k in ('walk', 'rwalk'):
        v = r['impl'].get(cid + '#std', '')
        return v.count(',') >= 1 or not v.endswith('r=-')
    if k in ('glob', 'rglob'):
        return not r['impl'].get(cid + '#std', 'm=- ').startswith('m=- ')
    if k == 'match':
        return r['impl'].get(cid) in ('true', 'BadPattern')
    return True


def _strip_e(s):
    return 'E' if len(s) > 1 and s[0] == 'E' and s[1].isdigit() else s


def spec_signature(key, impl, spec, lines):
    """same signatures as the Go-side oracle (c16.go c16WalkSig / c16GlobCase)"""
    tag = ''   # S lines exist for the first variant of a case only (plain MemMapFs, or BasePathFs for r-kinds)
    k = _kind(lines)
    if k in ('walk', 'rwalk'):
        a, s = impl.split(' r='), spec.split(' r=')
        if a[0] == s[0]:
            return 'walk%s:err:%s->%s' % (tag, _strip_e(s[1]), _strip_e(a[1]))
        return 'walk%s:visits' % tag
    if k in ('glob', 'rglob'):
        if impl.endswith('r=-') != spec.endswith('r=-'):
            return 'glob%s:error' % tag
        return 'glob%s:matches' % tag
    return k


# ---- vm_compute cross-check: the case as a Coq term, the extracted model's answers as expected values
COQ_HEADER = '''From AF Require Import Lib.Bytes Lib.Path Gen.Consts Model.Walk Model.Glob.
Definition ob_code (o : option bool) : N := match o with None => 0 | Some false => 1 | Some true => 2 end.
Definition on_code (o : option nat) : N := match o with None => 0 | Some n => N.succ (N.of_nat n) end.
Definition act_code (a : action) : N := match a with Continue => 0 | SkipDir => 1 | Fail e => 2 + N.of_nat e end.
Fixpoint lleqb (a b : list (list N)) : bool :=
  match a, b with [], [] => true | x :: a', y :: b' => beqb x y && lleqb a' b' | _, _ => false end.
Definition weqb (r : list visit * action) (e : list (list N) * N) : bool :=
  lleqb (map (fun v => ob_code (v_info v) :: on_code (v_err v) :: v_path v) (fst r)) (fst e) && N.eqb (act_code (snd r)) (snd e).
Definition geqb (r : glob_res) (e : list (list N) * N) : bool :=
  lleqb (fst r) (fst e) && N.eqb (match snd r with GNil => 0 | GBadPattern => 1 | GOutOfFuel => 2 end) (snd e).
Definition meqb (r : option bool) (e : N) : bool :=
  N.eqb (match r with Some false => 0 | Some true => 1 | None => 2 end) e.
Definition vm_ok (c : N * bool) : bool := snd c.
Definition vm_id (c : N * bool) : N := fst c.
'''
_ids = {}


def _tree(s):
    pos = [0]

    def rec():
        if s[pos[0]] == 'F':
            pos[0] += 1
            return 'F'
        pos[0] += 2
        kids = []
        if s[pos[0]] == ']':
            pos[0] += 1
            return '(D [])'
        while True:
            st = pos[0]
            while s[pos[0]] != '=':
                pos[0] += 1
            name = s[st:pos[0]]
            pos[0] += 1
            kids.append('(%s, %s)' % (coq_bytes(name), rec()))
            if s[pos[0]] == ',':
                pos[0] += 1
                continue
            pos[0] += 1
            return '(D [' + '; '.join(kids) + '])'
    return rec()


def _err_n(e):  # error name -> nat
    return 0 if e == 'NotExist' else int(e[1:])


def _walk_expect(text):
    v, r = text[2:].split(' r=')
    items = []
    if v != '-':
        for it in v.split(','):
            p, k, e = it.split(':')
            info = {'n': 0, 'f': 1, 'd': 2}[k]
            err = 0 if e == '-' else _err_n(e) + 1
            path = [int(p[i:i + 2], 16) for i in range(0, len(p), 2)] if p != '-' else []
            items.append('[' + ';'.join(str(x) for x in [info, err] + path) + ']%N')
    rc = 0 if r == '-' else 1 if r == 'SkipDir' else 2 + _err_n(r)
    return '(%s, %d%%N)' % (coq_list(items), rc)


def _glob_expect(text):
    m, r = text[2:].split(' r=')
    items = [coq_bytes(x) for x in m.split(',')] if m != '-' else []
    return '(%s, %d%%N)' % (coq_list(items), {'-': 0, 'BadPattern': 1, 'OutOfFuel': 2}[r])


def coq_case(cid, lines, r):
    t = lines[0].split(' ')
    k = t[0]
    M = r['M']
    akey = cid + '#bp' if k in ('rwalk', 'rglob') else cid
    if k in ('walk', 'rwalk'):
        if akey not in M or cid + '#std' not in M:
            return None
        tbl = coq_list([{'c': 'TCont', 's': 'TSkip', 'e': 'TErr', 'p': 'TProp'}[c] for c in t[4]] if t[4] != '-' else [])
        args = '%s %s %s' % (_tree(t[2]), coq_bytes(t[3]), tbl)
        body = 'weqb (run_afero_repo %s) %s && weqb (run_std %s) %s' % (args, _walk_expect(M[akey]), args, _walk_expect(M[cid + '#std']))
    elif k in ('glob', 'rglob'):
        if akey not in M or cid + '#std' not in M:
            return None
        args = '%s %s' % (_tree(t[2]), coq_bytes(t[3]))
        body = 'geqb (afero_glob %s) %s && geqb (std_glob %s) %s' % (args, _glob_expect(M[akey]), args, _glob_expect(M[cid + '#std']))
    elif k == 'match':
        if cid not in M:
            return None
        body = 'meqb (match_seg %s %s) %d%%N' % (coq_bytes(t[2]), coq_bytes(t[3]), {'false': 0, 'true': 1, 'BadPattern': 2}[M[cid]])
    else:
        return None
    i = _ids.setdefault(cid, len(_ids))
    return '(%d%%N, %s)' % (i, body)
