from common import *

CONFIG = {
    'props_file': 'Props/C07.v',
    'rule': 'stacks ro(mem), ro(bp:/a(mem)), ro(ro(mem)): a well-formed setup phase populates the source directly (all handles closed, '
            'every entry stamped with an explicit past mtime), then 5-30 unconstrained ops through the wrapper (every Fs method, every '
            'handle method on handles it returned, flags: all 2^12 combinations of 12 O_* bits (sampled in quick, complete in thorough), '
            'no-write-access words with other bits, random 31-bit words). Oracle per step: deep snapshot of the source (paths, bytes, mode, '
            'mtime in ns, child index) identical before/after; mutators return a permission error; Stat equals the direct Stat; final '
            'Stat/ReadDir/ReadFile sweep through the wrapper equals the direct sweep. distinct = hash of the item list; non-trivial = at '
            'least one handle obtained through the wrapper and one write/truncate attempted on it',
    'trusted_base': ['OsFs as a source is covered by the contract theorem only (the kernel enforces O_RDONLY); not exercised by this harness'],
    'assumptions': ['handles that existed on the source before wrapping are read-only or closed (hypothesis all_inert of the theorem)'],
}

def nontrivial(cid, lines, r):
    got = set()
    for i, l in enumerate(lines[1:-1]):
        t = l.split(' ')
        if len(t) < 3:
            continue
        res = r['impl'].get('%s#%d' % (cid, i), '')
        if t[0] == '.' and t[2] in ('Open', 'OpenFile') and res == 'handle':
            got.add(t[1])
        if t[2] in ('HWrite', 'HWriteAt', 'HWriteString', 'HTruncate') and t[3] in got:
            return True
    return False

COQ_HEADER = FS_COQ_HEADER
coq_case = fs_coq_case
