from common import *

CONFIG = {
    'props_file': 'Props/C06.v',
    'rule': 'stack cow(mem,mem) (base = child 0, overlay = child 1). 4 of 5 cases: a kind-consistent PAIR of trees is generated from one '
            'abstract tree (3-14 entries; every file placed in the base, the overlay or both with different contents; directories wherever '
            'needed and sometimes in both), set up directly on the two layers with explicit past mtimes, then 5-25 ops of the well-formed '
            'Fs-program generator through the wrapper (Create/OpenFile with sane flags, Write*/Read*/Seek/Truncate on returned handles, '
            'Mkdir(All), Remove(All), Rename, Chmod/Chtimes, Stat, directory opens). Oracles after every step made through the wrapper: '
            '(view) Stat + ReadFile through the union for every path of either layer equals "overlay entry if the overlay has one, else the '
            'base\'s" computed from deep dumps of both layers; (failed call) if a mutating call returned an error that view is the one before '
            'the call; (listing) for every directory present in both layers Readdir in pages of size 1-3 until EOF yields the union of both '
            'sets of names once each, Readdir(-1) twice yields all then none, afero.ReadDir agrees. 1 of 5 cases (ids u*): unconstrained '
            'setup and ops (all flag words, kind conflicts between the layers) for model correspondence only. Correspondence: every step '
            'result and the final full dumps of both layers equal the model\'s. distinct = hash of the item list; non-trivial = at least '
            'one successful op through the wrapper that wrote or copied up',
    'trusted_base': ['the paging and merge theorems are stated on uf_op / merge_dirs with abstract inner filesystems; that MemMapFs directory '
                     'handles answer Readdir(-1) with their full listing is exercised by the harness, not proved here',
                     'Go map iteration order of defaultUnionMergeDirsFn is unspecified: the model fixes one order, the harness compares '
                     'listings as sets per page boundary (canonical sort) — the theorems about names/NoDup/partition do not depend on the order',
                     'copy-up / write-read-back / failed-call theorems (C06_copy_up_preserves, C06_write_read_back, C06_write_overlay_file, '
                     'C06_failed_call_view_unchanged) are for MemMapFs on both sides, every overlay state satisfying the C01 invariant WF and '
                     'every rooted (failed calls: absolute) name; relative names, an overlay that holds a DIRECTORY under the name of a base '
                     'file, and Rename whose overlay-level call is not well-formed are covered by the per-step view oracle only; a base '
                     'directory carrying bytes is outside the statement (C06_failed_call_dir_with_bytes_refuted, corpus/C06/dir-with-bytes.case)'],
    'assumptions': ['both layers are kind-consistent for the view oracle (no path that is a file in one layer and a directory in the other); '
                    'kind conflicts are exercised for correspondence only',
                    'the program does not modify the layers behind the union\'s back while a union directory handle is being paged'],
}

WRITE_FS = ('Create', 'Mkdir', 'MkdirAll', 'Remove', 'RemoveAll', 'Rename', 'Chmod', 'Chown', 'Chtimes')

def nontrivial(cid, lines, r):
    got = set()
    for i, l in enumerate(lines[1:-1]):
        t = l.split(' ')
        if len(t) < 3:
            continue
        res = r['impl'].get('%s#%d' % (cid, i), '')
        if t[0] == '.' and t[2] in ('Open', 'OpenFile', 'Create') and res == 'handle':
            got.add(t[1])
        if t[0] == '.' and t[2] in WRITE_FS and res in ('ok', 'handle'):
            return True
        if t[0] == '.' and t[2] == 'OpenFile' and res == 'handle' and int(t[4]) & 1603 != 0:
            return True
        if t[2] in ('HWrite', 'HWriteAt', 'HWriteString') and t[3] in got and res.startswith('count:') and res.endswith(':-') and not res.startswith('count:0:'):
            return True
        if t[2] == 'HTruncate' and t[3] in got and res == 'ok':
            return True
    return False

COQ_HEADER = FS_COQ_HEADER
coq_case = fs_coq_case
