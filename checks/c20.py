from common import *
import os, re

ROOT = os.path.dirname(os.path.dirname(os.path.abspath(__file__)))

CONFIG = {
    'props_file': 'Props/C20.v',
    'go_module': 'harness-gcs',
    'overlay': [('gcsfake.go', 'gcsfs/zz_verif_fake.go')],
    'go_sums': [('/repo/gcsfs/go.sum', 'go.sum')],
    'consts_module': 'harness',
    'rule': 'gcase = initial objects put directly into the fake bucket + <=30 calls through gcsfs (+ epilogue: close all, '
            'snapshot, Stat/Open/Read every object) over <=4 object names in <=3 folders (explicit placeholder objects "d/" and '
            'implicit ones; names d, d/e, x, d/d, b, x/y; bases f g h d b long-name.bin). class i (>=80%): sequences the '
            'generator keeps inside the property\'s class with a Go-side reference (Seek after positional I/O, offsets inside '
            'the object, shrinking truncates, one open handle per object, prefix-free names) — (1) sweep: 3 openers x all pairs '
            'of 17 data-op templates (+ optional third op) on a 4-byte object, (2) mixed and data-heavy random sequences, payloads '
            '0-64 bytes, 1 in 10 cases with payloads of maxWriteSize-1 .. 2*maxWriteSize; class ib: the same with 64 KB / 300 KB '
            'payloads, judged by the Go-side oracle only (no model lines); class o: unconstrained/malformed calls (bad names, '
            'foreign buckets, gs:// and backslash names, offsets outside, growing truncates across maxWriteSize, closed handles, '
            'several handles per object, O_CREATE/O_EXCL/O_TRUNC flag sets) compared with the model only. distinct = hash of the '
            'case without its id; non-trivial = a successful write followed by a non-empty read, or a folder call '
            '(Readdir/Readdirnames/Remove/RemoveAll)',
    'trusted_base': [
        'overlay/gcsfake.go: the in-memory object store IS the reference semantics of "GCS" here (writer commits on Close, '
        'range readers on a snapshot, one-page prefix/delimiter listing: objects then prefixes); the real service is not exercised',
        'filepath.Base, strings.Split/Join/Replace, sort.Sort (insertion sort below 12 elements) modelled as list functions',
        'package constants maxWriteSize/folderSize copied into Model/Gcs.v and compared per run (gconst cases)',
    ],
    'assumptions': [
        'one goroutine; one open handle per object at a time; Fs-level Remove/Rename/RemoveAll only on names without open handles',
        'after ReadAt/WriteAt the position is re-established with Seek(whence 0 or 2) before Read/Write/Seek(whence 1)',
        'write and read offsets lie inside the object (0 <= off <= size), truncates shrink, names are prefix-free and no name is both an object and a folder',
        'a range read starting exactly at the end of an object yields an empty reader (the real service answers 416 there)',
        'int64 offsets do not overflow',
    ],
}

_DATA_OPS = ('HRead', 'HReadAt', 'HWrite', 'HWriteAt', 'HWriteString', 'HSeek', 'HTruncate', 'HStat', 'HSync', 'HClose')


def _op_of(line):
    t = line.split(' ')
    if t[0] == 'snap':
        return 'snap'
    return t[2] if len(t) > 2 else '?'


def nontrivial(cid, lines, r):
    wrote = False
    for i, l in enumerate(lines[1:-1]):
        op = _op_of(l)
        res = r['impl'].get('%s#%d' % (cid, i), '')
        if op in ('HReaddir', 'HReaddirnames', 'Remove', 'RemoveAll'):
            return True
        if op in ('HWrite', 'HWriteAt', 'HWriteString') and res.startswith('count:') and res.endswith(':-') and not res.startswith('count:0:'):
            wrote = True
        if wrote and op in ('HRead', 'HReadAt') and res.startswith('data:') and not res.startswith('data:-'):
            return True
    return False


def canon_case(lines):
    return [' '.join(lines[0].split(' ')[:1] + lines[0].split(' ')[2:])] + lines[1:]


def _sig(op, prev_ops, impl, spec):
    if impl == 'panic':
        return 'panic:' + op
    if op in _DATA_OPS:
        return ('folder:' if spec == 'dir' else 'data:') + op
    if op in ('HReaddir', 'HReaddirnames'):
        return 'listing:' + op
    if op == 'Stat':
        return 'folder:Stat' if 'dir' in (impl, spec) else 'data:Stat'
    if op == 'Remove':
        return 'remove:nonempty-removed' if spec == 'refused' else 'remove:refused'
    if op == 'snap':
        # the bucket differs: name the call since the previous snapshot that changes the object list
        if 'RemoveAll' in prev_ops:
            return 'removeall:subtree-remains' if len(impl) > len(spec) else 'removeall:collateral'
        if 'Remove' in prev_ops:
            return 'remove:nonempty-removed'
        return 'bucket:snap'
    return 'fsop:' + op


_cache = {}


def _load(kind):
    """impl and S lines of work/C20/<kind> (what ./check just wrote), keyed by case id -> {step: value}"""
    if kind in _cache:
        return _cache[kind]
    impl, spec = {}, {}
    d = os.path.join(ROOT, 'work', 'C20', kind)
    try:
        for l in open(os.path.join(d, 'impl.txt'), errors='replace'):
            k, _, v = l.rstrip('\n').partition(' ')
            if k.endswith('/p'):
                c, _, s = k[:-2].partition('#')
                impl.setdefault(c, {})[int(s)] = v
        for l in open(os.path.join(d, 'model.txt'), errors='replace'):
            if l.startswith('S '):
                k, _, v = l[2:].rstrip('\n').partition(' ')
                if k.endswith('/p'):
                    c, _, s = k[:-2].partition('#')
                    spec.setdefault(c, {})[int(s)] = v
    except FileNotFoundError:
        pass
    _cache[kind] = (impl, spec)
    return _cache[kind]


def spec_signature(key, impl, spec, lines):
    """all mismatching steps of a case carry the signature of the case's FIRST divergence
    (later ones are consequences of it)"""
    cid = key.split('#')[0]
    body = lines[1:-1]
    step = int(key.split('#')[1].split('/')[0])
    for kind in ('gen', 'corpus', 'replay'):
        I, S = _load(kind)
        if cid in I and cid in S and S[cid].get(step) == spec and I[cid].get(step) == impl:
            for s in sorted(S[cid]):
                if s in I[cid] and I[cid][s] != S[cid][s]:
                    step, impl, spec = s, I[cid][s], S[cid][s]
                    break
            break
    op = _op_of(body[step]) if step < len(body) else '?'
    prev = []
    for j in range(min(step, len(body)) - 1, -1, -1):
        o = _op_of(body[j])
        if o == 'snap':
            break
        prev.append(o)
    return _sig(op, prev, impl, spec)


# ---- vm_compute cross-check: the bucket after the whole case, recomputed inside Coq
COQ_HEADER = '''From AF Require Import Lib.Bytes Lib.Path Lib.Ops Gen.Consts Model.Gcs Model.GcsFs.
Local Open Scope Z_scope.
Fixpoint snap_eqb (a b : list (str * bytes)) : bool :=
  match a, b with
  | [], [] => true
  | (n, d) :: a', (m, e) :: b' => beqb n m && beqb d e && snap_eqb a' b'
  | _, _ => false
  end.
Definition vm_ok (c : N * gstore * list gitem * list (str * bytes)) : bool :=
  let '(_, objs, items, expect) := c in
  match rev (g_run cfg_src [98%N] 64%nat (g_init objs) items) with
  | GSnap l :: _ => snap_eqb l expect
  | _ => false
  end.
Definition vm_id (c : N * gstore * list gitem * list (str * bytes)) : N := let '(i, _, _, _) := c in i.
'''
_ids = {}


def _payload(s):
    if s.startswith('gen:'):
        _, seed, n = s.split(':')
        seed, n = int(seed), int(n)
        return ''.join('%02x' % ((seed + 131 * i + 17 * (i >> 8)) & 255) for i in range(n))
    return s


def _coq_op(t):
    op, a = t[0], t[1:]
    b = coq_bytes
    if op in ('Create', 'Open', 'Remove', 'RemoveAll', 'Stat'):
        return '%s %s' % (op, b(a[0]))
    if op in ('Mkdir', 'MkdirAll'):
        return '%s %s %s' % (op, b(a[0]), coq_z(a[1]))
    if op == 'OpenFile':
        return 'OpenFile %s %s %s' % (b(a[0]), coq_z(a[1]), coq_z(a[2]))
    if op == 'Rename':
        return 'Rename %s %s' % (b(a[0]), b(a[1]))
    if op in ('HRead', 'HSeek', 'HReadAt'):
        return '%s %s%%nat %s' % (op, a[0], ' '.join(coq_z(x) for x in a[1:]))
    if op in ('HWrite', 'HWriteString'):
        return '%s %s%%nat %s' % (op, a[0], b(_payload(a[1])))
    if op == 'HWriteAt':
        return 'HWriteAt %s%%nat %s %s' % (a[0], b(_payload(a[1])), coq_z(a[2]))
    if op in ('HTruncate', 'HReaddir', 'HReaddirnames'):
        return '%s %s%%nat %s' % (op, a[0], coq_z(a[1]))
    if op in ('HClose', 'HStat', 'HName', 'HSync'):
        return '%s %s%%nat' % (op, a[0])
    raise ValueError(op)


def coq_case(cid, lines, r):
    t0 = lines[0].split(' ')
    if t0[0] != 'gcase' or t0[2] == 'ib':
        return None
    body = lines[1:-1]
    while body and body[-1] != 'snap':
        body = body[:-1]            # up to the last snapshot of the case
    if not body:
        return None
    final = r['M'].get('%s#%d' % (cid, len(body) - 1), '')
    if not final.startswith('snap:') or '=L' in final or sum(len(l) for l in body) > 6000:
        return None
    objs, items = [], []
    for l in body:
        t = l.split(' ')
        if t[0] == 'obj':
            objs.append('(%s, %s)' % (coq_bytes(t[1]), coq_bytes(_payload(t[2]))))
        elif t[0] == 'snap':
            items.append('GISnap')
        else:
            slot = 'None' if t[1] == '-' else '(Some %s%%nat)' % t[1]
            items.append('GIOp %s (%s)' % (slot, _coq_op(t[2:])))
    expect = []
    if final != 'snap:':
        for e in final[5:].split(';'):
            n, _, d = e.partition('=')
            expect.append('(%s, %s)' % (coq_bytes(n), coq_bytes(d)))
    i = _ids.setdefault(cid, len(_ids))
    return '(%d%%N, %s, %s, %s)' % (i, coq_list(objs), coq_list(items), coq_list(expect))
