from common import *

CONFIG = {
    'props_file': 'Props/C04.v',
    'level_text': 'PARTIAL: the theorems are about the section machine of Model/Lin.v (every call = a sequence of atomic critical '
             'sections, any interleaving of sections, any number of threads and calls); the section machine has NO LOCKS: its sections are '
             'the sections of the filesystem lock m.mu, and which file mutex protects a section against which handle operation is not '
             'modelled beyond the shapes the translator recognises (Readdirnames, Rename, and OpenFile preparing its handle under one hold of the file mutex: switch lin_openfile_finish_one_hold, repaired finding OpenFile(O_APPEND|O_TRUNC) || Write through another handle); the Go '
             'scheduler, the Go memory model and preemption inside a critical section of a FILE mutex are outside the model, and the '
             'bounded quantifier of the property (2-4 goroutines x 1-4 ops) is covered by search (recorded histories checked against the '
             'extracted sequential model), not by proof',
    'rule': 'histories of 2-4 goroutines x 1-4 ops over /d /d/x /d/y /f /g on one MemMapFs after a short sequential setup; families: '
            'excl-create, create-race, mkdir, mkdir-remove, removeall, rename, torn-read, handle-io, create-vs-io, unrelated, '
            'metadata, random (whole op mix, private handles); 105 fixed window configurations (Readdirnames on an open directory || Rename of a child, '
            'OpenFile with O_TRUNC/O_APPEND || Create, Write, Chtimes, Rename, Remove, Chmod on the same name, creation below a file), every schedule of the depth-0 mode, in both tiers; '
            'LOCK-AWARE mode of the cooperative scheduler (every lock acquisition is a switching point, also inside a critical section of m.mu; acquisitions are try-locks under scheduler control, '
            'a goroutine whose lock is taken is blocked, nobody enabled = deadlock = oracle failure deadlock:<labels>): those 105 programs plus 241 written for it (listings through directory handles - Readdirnames, Readdir, whole and paged, one '
            'or two directories, two handles - || Rename of the directory / of a child out of, into, within it (also to a name that extends the old one), onto an existing name, between the two listed directories and back, of a subdirectory with children, RemoveAll of a child subtree, Remove, '
            'Mkdir, MkdirAll, Create, exclusive create; OpenFile with every combination of O_APPEND/O_TRUNC/O_CREATE, read-write, write-only and read-only || Write, WriteAt, Truncate through another handle, || Stat; Create over an existing file || Read, ReadAt, '
            'Write, Truncate, Stat through another handle; Chmod/Chtimes || File.Stat and Stat; WriteAt / Seek+Write / Seek+WriteString more than 64 KiB beyond the end of the file || File.Stat, Stat+Size, Seek(0,end), ReadAt across the offset, a second far WriteAt through another handle; ReadDir(-1) / ReadDir(0) - the fs.ReadDirFile spelling, item HReadDir - and Readdir(-1) of a directory with 130 entries || Remove, Create, Rename of the entry that sorts first) explored depth-first under a PREEMPTION BOUND (quick: at most 2 switches away from a goroutine that could have continued, thorough: 3; switches at a blocked '
            'acquisition, at the end of a goroutine and between calls are free; per-program budget 6000 / 200000 schedules; generator_notes.child.window_lockaware_programs lists schedules and exhausted-under-the-bound per program), the generated small '
            'programs with bound 1 / 2, and every other random schedule; 4 real-preemption window programs in the stress phase of both tiers (Rename of a directory with 200 children || listings '
            'through handles opened before; Rename of an entry between two directories || listing of the old and then of the new parent; 150-2500 rounds). A Stat is recorded as lookup + one call per FileInfo accessor (the '
            'FileInfo is a live view). stress: real scheduler, start barrier, jitter, every program repeated, distinct histories '
            '(stamps replaced by ranks) emitted once; dfs/rand (depth-0 mode), ldfs/lrand (lock-aware mode): second binary built from an instrumented copy of memmap.go and '
            'mem/file.go (lock operations = yield points of a cooperative scheduler), schedules enumerated depth-first for 2-3 '
            'goroutines x 1-2 ops and sampled for larger programs. Every history: Wing-Gong search (memoised on placed set + model '
            'state) for an order that respects real time and reproduces every result and the final tree on the extracted m_step; '
            'Go-side oracles: two winners among Mkdir / O_CREATE|O_EXCL of one name, Mkdir or O_CREATE returning not-exist, torn '
            'reads, results or subtrees changing on unrelated paths. distinct = program + results + real-time order; non-trivial = '
            'at least two calls of different goroutines overlap in real time',
    'trusted_base': ['the history recorder (one atomic counter; stamps taken immediately before the call and after it returns)',
                     'the instrumenter (go/ast rewriting of Lock/Unlock statements: x.Lock() becomes verifsched.Lock(label, x.TryLock, x.Unlock, x.Lock)) and the cooperative scheduler package verifsched '
                     '(enabledness of a waiting goroutine is decided by TryLock followed at once by Unlock; sync.Mutex/RWMutex TryLock semantics of Go 1.18+; writer preference of a WAITING RWMutex.Lock is not reproduced)',
                     'in the instrumented binary a Readdir result is rendered from unlocked reads of the returned entries (names, kinds) right after the call returns, not through the live FileInfos',
                     'ocaml/drv_c04.ml: the linearizability search over the extracted lin_step (= m_step behind handle slots)'],
    'assumptions': ['the Go scheduler and the Go memory model are outside the model: only interleavings that the stress runs happen to '
                    'produce, and lock-granular interleavings under the cooperative scheduler (exhaustive only under the preemption bound, for the fixed window programs), are examined',
                    'switches happen only in front of lock acquisitions and between calls: preemption INSIDE a critical section of a file mutex (between two plain memory accesses) is not examined (sound only where the lock discipline of C03 holds)',
                    'the Coq section machine has no locks: C04_today_linearizable is about sections of m.mu; handle operations running inside them are covered only where the translator reads the finer shape (Readdirnames, Rename, OpenFile: C04_today_linearizable_for_handles), elsewhere by search',
                    'stamps are taken outside the calls, so the recorded real-time order is a sub-order of the true one: a reported '
                    'violation is genuine, some violations may be missed',
                    'the FileInfo returned by Stat is a live view; each accessor call is treated as its own atomic read',
                    'map iteration order of RemoveAll is whatever the Go runtime picks; the section abstraction deletes keys in model order'],
    'depends': ['Model/Lin', 'Proofs/LinProof'],
    'vm_sample': {'quick': 0, 'thorough': 0},
}


def nontrivial(cid, lines, r):
    calls = []
    for l in lines[1:-1]:
        t = l.split(' ')
        if t[0] == 'c':
            calls.append((t[1], int(t[2]), int(t[3])))
    for i, a in enumerate(calls):
        for b in calls[i + 1:]:
            if a[0] != b[0] and not (a[2] < b[1] or b[2] < a[1]):
                return True
    return False


def canon_case(lines):
    # everything but the case id
    return [' '.join(l.split(' ')[:1] + l.split(' ')[2:]) if i == 0 else l for i, l in enumerate(lines)]
