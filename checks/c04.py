from common import *

CONFIG = {
    'props_file': 'Props/C04.v',
    'level_text': 'PARTIAL: the theorems are about the section machine of Model/Lin.v (every call = a sequence of atomic critical '
             'sections, any interleaving of sections, any number of threads and calls); the Go scheduler, the Go memory model and '
             'preemption inside a critical section are outside the model, and the bounded quantifier of the property (2-4 goroutines '
             'x 1-4 ops) is covered by search (recorded histories checked against the extracted sequential model), not by proof',
    'rule': 'histories of 2-4 goroutines x 1-4 ops over /d /d/x /d/y /f /g on one MemMapFs after a short sequential setup; families: '
            'excl-create, create-race, mkdir, mkdir-remove, removeall, rename, torn-read, handle-io, create-vs-io, unrelated, '
            'metadata, random (whole op mix, private handles); 86 fixed window configurations (Readdirnames on an open directory || Rename of a child, '
            'OpenFile with O_TRUNC/O_APPEND || Create, Write, Chtimes, Rename, Remove, Chmod on the same name), every schedule, in both tiers; 3 real-preemption window programs in the stress phase of both tiers (Rename of a directory with 200 children || listings '
            'through handles opened before; Rename of an entry between two directories || listing of the old and then of the new parent; 150-2500 rounds). A Stat is recorded as lookup + one call per FileInfo accessor (the '
            'FileInfo is a live view). stress: real scheduler, start barrier, jitter, every program repeated, distinct histories '
            '(stamps replaced by ranks) emitted once; dfs/rand: second binary built from an instrumented copy of memmap.go and '
            'mem/file.go (lock operations = yield points of a cooperative scheduler), schedules enumerated depth-first for 2-3 '
            'goroutines x 1-2 ops and sampled for larger programs. Every history: Wing-Gong search (memoised on placed set + model '
            'state) for an order that respects real time and reproduces every result and the final tree on the extracted m_step; '
            'Go-side oracles: two winners among Mkdir / O_CREATE|O_EXCL of one name, Mkdir or O_CREATE returning not-exist, torn '
            'reads, results or subtrees changing on unrelated paths. distinct = program + results + real-time order; non-trivial = '
            'at least two calls of different goroutines overlap in real time',
    'trusted_base': ['the history recorder (one atomic counter; stamps taken immediately before the call and after it returns)',
                     'the instrumenter (go/ast rewriting of Lock/Unlock statements) and the cooperative scheduler package verifsched',
                     'ocaml/drv_c04.ml: the linearizability search over the extracted lin_step (= m_step behind handle slots)'],
    'assumptions': ['the Go scheduler and the Go memory model are outside the model: only interleavings that the stress runs happen to '
                    'produce, and section-granular interleavings under the cooperative scheduler, are examined',
                    'preemption INSIDE a critical section is not modelled (sound only where the lock discipline of C03 holds)',
                    'stamps are taken outside the calls, so the recorded real-time order is a sub-order of the true one: a reported '
                    'violation is genuine, some violations may be missed',
                    'the FileInfo returned by Stat is a live view; each accessor call is treated as its own atomic read',
                    'map iteration order of RemoveAll is whatever the Go runtime picks; the section abstraction deletes keys in model order'],
    'depends': ['Model/Lin', 'Proofs/LinProof'],
    'vm_sample': {'quick': 0, 'thorough': 0},
}


def nontrivial(cid, lines, r):
    calls = []
    for l in lines[1:-1]:
        t = l.split(' ')
        if t[0] == 'c':
            calls.append((t[1], int(t[2]), int(t[3])))
    for i, a in enumerate(calls):
        for b in calls[i + 1:]:
            if a[0] != b[0] and not (a[2] < b[1] or b[2] < a[1]):
                return True
    return False


def canon_case(lines):
    # everything but the case id
    return [' '.join(l.split(' ')[:1] + l.split(' ')[2:]) if i == 0 else l for i, l in enumerate(lines)]
