from common import *

CONFIG = {
    'props_file': 'Props/C19.v',
    'go_module': 'harness-sftp',
    'go_sums': [('/repo/sftpfs/go.sum', 'go.sum')],
    'overlay': [],
    'consts_module': 'harness',
    'rule': 'sftp cases: one fresh in-process SFTP server per case (sftp.NewRequestServer over io.Pipe, sftp.InMemHandler), '
            'sftpfs.New(client1) under test, client2 = independent observer of the same handler (whole namespace + every file\'s '
            'bytes read back after EVERY step). (1) exhaustive: all sequences of length<=2 (quick) / <=3 (thorough) over 20/24 op '
            'templates after Create(/f)+Write(abcdef); (2) 260 (quick) / 6000 (thorough) sequences of 4-30 ops generated online over '
            '<=4 handle slots, 7 file names in 4 nested directories (unclean spellings 1/2 of the time), ops Create/OpenFile(14 flag '
            'sets)/Open/Write/WriteString/WriteAt/Read/ReadAt/Seek/Truncate/Close/Stat/Rename/Remove/Mkdir/MkdirAll/Readdir/'
            'Readdirnames/Chmod/Chown/Chtimes/RemoveAll/Name/Sync, payloads 0-64 bytes and (every 4th sequence, 1 write in 10) '
            '32768/32769/40000/65536/70001 bytes, reads up to 80000 bytes, offsets 0..size+40 and -1; (3) 60/1500 sequences from a '
            'malformed pool (unbound slots, flag 3, O_EXCL, "", "/", "..", paths below files, closed handles, Readdir on OpenFile '
            'handles). Never generated (outside "a conforming SFTP server"): reads through O_WRONLY handles, negative Truncate, '
            'renaming "/" or a directory into itself. distinct = hash of the item list; non-trivial = a write that reported n>0 '
            'followed by a successful read or a later step',
    'trusted_base': ['github.com/pkg/sftp v1.13.8 client (*sftp.Client, *sftp.File) and its in-memory request server are MODELLED '
                     'from their code/documentation, not verified (coq/Model/Sftp.v layers 1 and 2); sftpfs (layer 3) is transcribed',
                     'the observer (second pkg/sftp client on the same handler) is trusted to show what the server holds'],
    'assumptions': ['a conforming SFTP server: the in-memory request server of pkg/sftp within the envelope described in '
                    'coq/Model/Sftp.v (no READ on write-only handles, no negative sizes, no rename of "/" or into the own subtree)',
                    'each handle is used by one call at a time; int64 offsets do not overflow',
                    'Mkdir: this server refuses SETSTAT on directories, so sftpfs.Mkdir (MKDIR then Chmod) reports an error after '
                    'creating the directory; not counted as a violation'],
    'vm_sample': {'quick': 30, 'thorough': 200},
}


def nontrivial(cid, lines, r):
    items = lines[0].split(' ')[2].split(';') if len(lines[0].split(' ')) > 2 else []
    wrote = False
    for i, it in enumerate(items):
        t = it.split(',')
        res = r['impl'].get('%s#%d' % (cid, i), '')
        if wrote:
            return True
        if t[1] in ('HWrite', 'HWriteString') and res.startswith('count:') and not res.startswith('count:0:'):
            wrote = True
    return False


def spec_signature(key, impl, spec, lines):
    step = key.split('#')[1]
    k = int(step.split('/')[0])
    items = lines[0].split(' ')[2].split(';') if lines and len(lines[0].split(' ')) > 2 else []
    opname = items[k].split(',')[1] if k < len(items) else '?'
    if step.endswith('/d'):
        return 'accounting:%s' % opname
    return 'exact:%s:%s->%s' % (opname, spec.split(':')[0], impl.split(':')[0])


# ---------------------------------------------------------------- vm_compute cross-check
COQ_HEADER = '''From AF Require Import Lib.Bytes Lib.Path Lib.Ops Model.Sftp.
Local Open Scope Z_scope.
Definition fnv (b : bytes) : Z :=
  fold_left (fun h x => (Z.lxor h (Z.of_N x) * 16777619) mod 4294967296) b 2166136261.
Definition ecode (e : option err) : Z :=
  match e with
  | None => 0
  | Some e => match ek e with KEOF => 1 | KClosed => 2 | KNotExist | KENOENT => 3 | KPermission | KEPERM => 4
                            | KInvalid => 5 | _ => 6 end
  end.
Definition fi_code (fi : finfo) : list Z := [fnv (fi_name fi); if fi_dir fi then -1 else fi_size fi].
Definition res_code (r : res) : list Z :=
  match r with
  | RPanic => [1] | RNoSlot => [2] | ROk => [3]
  | RErr e => [4; ecode (Some e)]
  | RHandle _ => [5]
  | RInfo fi => 6 :: fi_code fi
  | RData b e => [7; zlen b; fnv b; ecode e]
  | RCount n e => [8; n; ecode e]
  | RPos n e => [9; n; ecode e]
  | RInfos l e => 10 :: ecode e :: flat_map fi_code l
  | RNames l e => 11 :: ecode e :: map fnv l
  | RName s => [12; fnv s]
  end.
Definition snap_code (l : list (str * option bytes)) : list Z :=
  flat_map (fun '(p, c) => fnv p :: match c with None => [-1; 0] | Some b => [zlen b; fnv b] end) l.
Fixpoint pat_aux (n : nat) (i seed : Z) : bytes :=
  match n with O => [] | S n' => Z.to_N ((seed + 31 * i + i / 256) mod 256) :: pat_aux n' (i + 1) seed end.
Definition pat (len seed : Z) : bytes := pat_aux (Z.to_nat len) 0 seed.
Fixpoint zl_eqb (a b : list Z) : bool :=
  match a, b with [], [] => true | x :: a', y :: b' => (x =? y) && zl_eqb a' b' | _, _ => false end.
Definition vm_ok (c : N * list sitem * list Z) : bool :=
  let '(_, items, expect) := c in
  zl_eqb (flat_map (fun '(r, sn) => (res_code r ++ [-7]) ++ snap_code sn ++ [-9]) (sftp_run_obs sftp_init items)) expect.
Definition vm_id (c : N * list sitem * list Z) : N := let '(i, _, _) := c in i.
'''

_ids = {}
_ECODE = {'-': 0, 'EOF': 1, 'Closed': 2, 'NotExist': 3, 'Perm': 4, 'Invalid': 5, 'Err': 6}


def _fnv(bs):
    h = 2166136261
    for x in bs:
        h = ((h ^ x) * 16777619) % 4294967296
    return h


def _bytes_code(s):
    """canonical bytes ('-', hex, '#len:hash') -> (len, fnv)"""
    if s == '-' or s == '':
        return 0, _fnv(b'')
    if s.startswith('#'):
        l, h = s[1:].split(':')
        return int(l), int(h, 16)
    b = bytes.fromhex(s)
    return len(b), _fnv(b)


def _fi_code(s):
    name, kind, size = s.split('|')
    return [_fnv(bytes.fromhex(name) if name != '-' else b''), -1 if kind == 'd' else int(size)]


def _res_code(s):
    t = s.split(':')
    k = t[0]
    if k == 'panic':
        return [1]
    if k == 'noslot':
        return [2]
    if k == 'ok':
        return [3]
    if k == 'err':
        return [4, _ECODE[t[1]]]
    if k == 'handle':
        return [5]
    if k == 'info':
        return [6] + _fi_code(t[1])
    if k == 'data':
        if t[1].startswith('#'):
            l, h = _bytes_code(t[1] + ':' + t[2])
            return [7, l, h, _ECODE[t[3]]]
        l, h = _bytes_code(t[1])
        return [7, l, h, _ECODE[t[2]]]
    if k in ('count', 'pos'):
        return [8 if k == 'count' else 9, int(t[1]), _ECODE[t[2]]]
    if k == 'infos':
        out = [10, _ECODE[t[2]]]
        if t[1] != '-':
            for fi in t[1].split(','):
                out += _fi_code(fi)
        return out
    if k == 'names':
        out = [11, _ECODE[t[2]]]
        if t[1] != '-':
            out += [_fnv(bytes.fromhex(n) if n != '-' else b'') for n in t[1].split(',')]
        return out
    if k == 'name':
        return [12, _fnv(bytes.fromhex(t[1]) if t[1] != '-' else b'')]
    raise ValueError(s)


def _snap_code(s):
    out = []
    if s == '-':
        return out
    for e in s.split(','):
        p, _, c = e.partition('=')
        out.append(_fnv(bytes.fromhex(p)))
        if c == 'd':
            out += [-1, 0]
        else:
            l, h = _bytes_code(c)
            out += [l, h]
    return out


def _payload(s):
    if s.startswith('P'):
        l, sd = s[1:].split('.')
        return '(pat %s %s)' % (l, sd)
    return coq_bytes(s)


def _op(t):
    n, a = t[0], t[1:]
    b, z = coq_bytes, coq_z
    if n in ('Create', 'Open', 'Remove', 'RemoveAll', 'Stat'):
        return '%s %s' % (n, b(a[0]))
    if n in ('Mkdir', 'MkdirAll', 'Chmod', 'Chtimes'):
        return '%s %s %s' % (n, b(a[0]), z(a[1]))
    if n == 'OpenFile':
        return 'OpenFile %s %s %s' % (b(a[0]), z(a[1]), z(a[2]))
    if n == 'Chown':
        return 'Chown %s %s %s' % (b(a[0]), z(a[1]), z(a[2]))
    if n == 'Rename':
        return 'Rename %s %s' % (b(a[0]), b(a[1]))
    if n in ('HRead', 'HTruncate', 'HReaddir', 'HReaddirnames'):
        return '%s %s %s' % (n, a[0], z(a[1]))
    if n == 'HReadAt':
        return 'HReadAt %s %s %s' % (a[0], z(a[1]), z(a[2]))
    if n in ('HWrite', 'HWriteString'):
        return '%s %s %s' % (n, a[0], _payload(a[1]))
    if n == 'HWriteAt':
        return 'HWriteAt %s %s %s' % (a[0], _payload(a[1]), z(a[2]))
    if n == 'HSeek':
        return 'HSeek %s %s %s' % (a[0], z(a[1]), z(a[2]))
    if n in ('HClose', 'HStat', 'HName', 'HSync'):
        return '%s %s' % (n, a[0])
    raise ValueError(n)


def coq_case(cid, lines, r):
    t = lines[0].split(' ')
    if t[0] != 'sftp' or len(t) < 3:
        return None
    items = [it for it in t[2].split(';') if it]
    if sum(1 for it in items if ',P' in it) > 1:
        return None          # keep the cross-check fast: at most one 32-70 KB payload per case
    expect, terms = [], []
    for i, it in enumerate(items):
        f = it.split(',')
        key = '%s#%d' % (cid, i)
        if key not in r['M'] or key + '/d' not in r['M']:
            return None
        expect += _res_code(r['M'][key]) + [-7] + _snap_code(r['M'][key + '/d']) + [-9]
        slot = 'None' if f[0] == '-' else '(Some %s%%nat)' % f[0]
        terms.append('(%s, %s)' % (slot, _op(f[1:])))
    i = _ids.setdefault(cid, len(_ids))
    return '(%d%%N, %s, %s)' % (i, coq_list(terms), coq_list([coq_z(x) for x in expect]))
