from common import *

CONFIG = {
    'props_file': 'Props/C12.v',
    'rule': 'fltcase blocks over cow(faulty:P(mem),faulty:P(mem)) and cache:100(faulty:P(mem),faulty:P(mem)): both layers sit behind the '
            'fault injector (harness/cmd/afcheck/faultfs.go = Model/Faulty.v faulty_step: one counter per wrapped filesystem over every Fs '
            'and File call, fault applied at one index). Exhaustive single-fault enumeration: caller {CopyOnWriteFs.OpenFile(O_RDWR), '
            'CopyOnWriteFs.Chmod, CacheOnReadFs.Open, CacheOnReadFs.OpenFile(O_RDONLY)} x layer {empty, parent directory only, older copy '
            'with different content (stale for the cache)} x size {0,1,5,40000,70000} x side {layer, base} x every call index of the '
            'fault-free run of the call x {err:IO, err:NOENT (small sizes), short:k on Write (short write), short:k on Read (early EOF)}; '
            'plus the O_RDWR|O_CREATE opens of both unions (cowopencreate, cacheopencreate) with every not-exist valued error (err:NOENT, '
            'err:PNOTEXIST, err:PNOENT, err:NOTEXIST), and the two-level cache cache:100(faulty:P(mem),cache:100(faulty:P(mem),faulty:P(mem))) '
            '(callers cache2open, cache2openfile, cache2opencreate; sides remote B, disk D, memory L; the copy-up target is the inner '
            'CacheOnReadFs, its handle a UnionFile; both inner MemMapFs are inspected); '
            'quick runs the two multi-chunk sizes on {no older copy, older copy} and faults their non-Read/Write calls for two of the four '
            'callers; thorough runs everything plus short:32767. Oracle on the Go side, from afero.VerifDump of the MemMapFs under the '
            'layer right after the faulted call: entry absent | bytes equal to the older copy | bytes equal to the base file, else FAIL '
            'partial-copy; a copy-up that was started (base Open/OpenFile seen) and did not produce the complete copy must have returned an '
            'error, else FAIL error-swallowed; the next read through the union must return the full base content (for CopyOnWriteFs with an '
            'untouched overlay version: that version), else FAIL next-read-not-full. The call traces (method names per index) of both '
            'injectors are compared with the model\'s. Plus random multi-fault plans on both sides (model correspondence only). '
            'distinct = hash of stack (with plan) + items; non-trivial = a fault is planned',
    'trusted_base': ['the fault injector (faultfs.go) and its numbering; io.Copy of the Go standard library is modelled (Model/Union.v io_copy), not verified',
                     'OsFs/other backends as layers are covered by the theorems only as far as they behave like the MemMapFs model'],
    'assumptions': ['single fault per run (at_most_one_fault); the layer satisfies layer_sane (parent directory registered, or neither parent nor file present); '
                    'the name is in MemMapFs normal form and is not the root'],
    'vm_sample': {'quick': 240, 'thorough': 1600},   # one case in four carries a digest (drv_c12.ml)
}

def _meta(lines):
    t = lines[0].split(' ')
    if len(t) < 4:
        return {}
    return dict(kv.split('=', 1) for kv in t[3].split(';') if '=' in kv)

def nontrivial(cid, lines, r):
    return _meta(lines).get('side', '-') in ('L', 'B', 'D', 'M')

def _gen(n, seed):
    return ''.join('%02x' % ((j * 7 + (j >> 8) * 31 + seed * 13 + 1) & 255) for j in range(n)) or '-'

def _expand(line):
    t = line.split(' ')
    for i, a in enumerate(t):
        if a.startswith('@gen:'):
            _, n, seed = a.split(':')
            t[i] = _gen(int(n), int(seed))
    return ' '.join(t)

COQ_HEADER = '''From AF Require Import Lib.Bytes Lib.Path Lib.Ops Gen.Consts Model.MemFile Model.MemFs Model.Faulty Model.Stack Model.Digest Model.FaultyRun.
Definition vm_ok (c : N * stack * list flt_item * N) : bool :=
  let '(_, k, its, expect) := c in N.eqb (flt_case_digest k its) expect.
Definition vm_id (c : N * stack * list flt_item * N) : N := let '(i, _, _, _) := c in i.
'''
_ids = {}
def coq_case(cid, lines, r):
    t = lines[0].split(' ')
    if t[0] != 'fltcase' or cid not in r.get('D', {}) or len(lines) > 45:
        return None
    items = []
    for l in lines[1:-1]:
        if l.startswith('trace '):
            items.append('FltTrace %s' % coq_tgt(l.split(' ')[1]))
        else:
            items.append('FltItem (%s)' % coq_item(_expand(l)))
    i = _ids.setdefault(cid, len(_ids))
    return '(%d%%N, %s, [%s], %s%%N)' % (i, coq_stack(t[2]), ';\n   '.join(items), r['D'][cid])
