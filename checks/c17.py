from common import *

CONFIG = {
    'props_file': 'Props/C17.v',
    'rule': 'contains cases: (1) every content of length<=6 (quick) / <=8 (thorough) over bytes {00,61,62} x every needle '
            'of length 1..2 (quick) / 1..3 (thorough); (2) random contents up to 14*L bytes with the longest needle planted '
            'around multiples of the half window (2L) +-L, 1-3 needles incl. empty ones. distinct = hash of (content, needles); '
            'non-trivial = content non-empty and at least one non-empty needle',
    'trusted_base': ['io.ReadAtLeast, bytes.Contains modelled from their documentation (Go standard library)'],
    'assumptions': ['the reader handed to readerContainsAny is a file positioned at 0 whose Read returns min(len(buf), remaining) bytes'],
}

def nontrivial(cid, lines, r):
    t = lines[0].split(' ')
    if t[0] == 'contains':
        return t[2] != '-' and any(n != '-' for n in t[3].split(','))
    return True

def spec_signature(key, impl, spec, lines):
    t = lines[0].split(' ') if lines else ['?']
    if t[0] == 'contains':
        return 'contains:' + ('false-positive' if impl == 'true' else 'false-negative')
    return t[0]

COQ_HEADER = '''From AF Require Import Lib.Bytes Gen.Consts Model.Search.
Definition vm_ok (c : N * bytes * list bytes * bool) : bool :=
  let '(_, content, nd, expect) := c in Bool.eqb (reader_contains_any content nd) expect.
Definition vm_id (c : N * bytes * list bytes * bool) : N := let '(i, _, _, _) := c in i.
'''
_ids = {}
def coq_case(cid, lines, r):
    t = lines[0].split(' ')
    if t[0] != 'contains' or cid not in r['M']:
        return None
    i = _ids.setdefault(cid, len(_ids))
    return '(%d%%N, %s, %s, %s)' % (i, coq_bytes(t[2]), coq_list([coq_bytes(n) for n in t[3].split(',')]), coq_bool(r['M'][cid]))
