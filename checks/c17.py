from common import *
import re

CONFIG = {
    'props_file': 'Props/C17.v',
    'rule': 'contains cases: (1) every content of length<=6 (quick) / <=8 (thorough) over bytes {00,61,62} x every needle '
            'of length 1..2 (quick) / 1..3 (thorough); (2) random contents up to 14*L bytes with the longest needle planted '
            'around multiples of the half window (2L) +-L, 1-3 needles incl. empty ones; (5) the same through readers that '
            'split the bytes as io.Reader permits (fifth token = chunking oracle, entry k = at most c bytes in the k-th Read, c=0: '
            '(0,nil), "e": io.EOF together with the last bytes): 5 contents x every oracle of <=3 (quick) / <=4 (thorough) entries '
            'over c in 0..5 x {e,-}; random contents with oracles of 1-byte reads, halflen-1 / halflen / halflen+1 / whole-buffer '
            'reads, (0,nil) reads and mixtures; files of 1000..8200 bytes read 1, 7, 511, 512, 4096, halflen+-1 bytes at a time; '
            'for these the number of Read calls and the bytes left unread are compared with the chunked model too (<id>#t). '
            'wfile/wreader/swreader cases (WriteFile / WriteReader / SafeWriteReader, then ReadFile, then a snapshot of every '
            'MemMapFs layer): (1) grid stacks {mem, bp:/d(mem), cow(mem,mem), cache:0(mem,mem)} x payload sizes '
            '{0,1,511,512,513,4096,40000,70000} x {parent directory present, two missing parent directories, the path pre-exists '
            'as a file of 0/3/600/70001 bytes}; readers hand out chunks of 1, 7, 512, 4096, 32768, 32769, 50000 bytes, one chunk, '
            'or explicit lengths with an empty chunk in the middle; (2) path spellings (relative, //, .., trailing /, "", "/", the '
            'path is a directory, the parent is a file); (3) random set-ups. Go-side oracle: bytes read back == bytes given after '
            'a successful write, parent directory exists after WriteReader, SafeWriteReader on an existing path returns an error '
            'and leaves the deep snapshot (bytes, modes, mtimes in ns, child index) unchanged. '
            'distinct = hash of the case line without its id; non-trivial = contains: content non-empty and at least one non-empty '
            'needle; w*: payload non-empty',
    'trusted_base': ['bytes.Contains modelled from its documentation; io.ReadAtLeast transcribed from src/io/io.go (Model/SearchChunked.v) '
                     'over a reader = content + chunking oracle (io.Reader contract: 0 <= n <= len(p), io.EOF with or after the last bytes)',
                     'bytes.Buffer.ReadFrom (request = free capacity when >= MinRead, else grow to max(len+512, 2*cap); the allocator\'s '
                     'rounding of a grown capacity is not modelled: unreachable when Stat reports the true size), io.Copy (32 KiB buffer, '
                     'one Write per non-empty Read) modelled from the Go 1.23 sources; filepath.Split from Lib/Path.v',
                     'the wrappers (BasePathFs, CopyOnWriteFs, CacheOnReadFs) are covered by the correspondence runs only: the '
                     'round-trip theorems are about MemMapFs'],
    'assumptions': ['C17_contains_exact: the reader handed to readerContainsAny is a file positioned at 0 whose Read returns min(len(buf), remaining) '
                    'bytes; C17_contains_exact_chunked: ANY reader of the content (every split into Read calls, finitely many (0,nil) reads, '
                    'io.EOF with or after the last bytes); excluded: Read errors other than io.EOF, a reader answering (0,nil) for ever; '
                    'fuel = len(content) + len(oracle) + 2, proved sufficient (the theorem states Some)',
                    'C17_write_read: p is a regular file, or absent with its parent directory present (sane_for); '
                    'C17_write_reader: the path map points into the heap, "/" exists, the last element of p is a proper name',
                    'the io.Reader given to WriteReader/SafeWriteReader is a plain reader (no WriterTo) that ends with (0, io.EOF)',
                    'ReadFile loop fuel = size reported by Stat + 2 (out of fuel is excluded by the statements)'],
    # the sample is drawn over all cases; about 7% of them are w* cases
    'vm_sample': {'quick': 500, 'thorough': 3000},
}

def nontrivial(cid, lines, r):
    t = lines[0].split(' ')
    if t[0] == 'contains':
        return t[2] != '-' and any(n != '-' for n in t[3].split(','))
    if t[0] in ('wfile', 'wreader', 'swreader'):
        return not (t[5].endswith(':0') or t[5] == 'hex:-')
    return True

def spec_signature(key, impl, spec, lines):
    t = lines[0].split(' ') if lines else ['?']
    if t[0] == 'contains':
        return 'contains:' + ('false-positive' if impl == 'true' else 'false-negative')
    return t[0]

COQ_HEADER = '''From AF Require Import Lib.Bytes Lib.Path Lib.Ops Gen.Consts Model.Search Model.SearchChunked Model.MemFile Model.MemFs Model.Stack Model.IOUtil Model.Cases1718.
Inductive vmcase :=
| VContains (i : N) (content : bytes) (nd : list bytes) (expect : bool)
| VContainsC (i : N) (content : bytes) (calls : list rcall) (nd : list bytes) (expect : bool) (reads unread : nat)
| VIO (i : N) (kind : nat) (k : stack) (setup : list io_setup) (p : str) (data : bytes) (lens : list nat) (perm : Z) (d : N).
Definition vm_ok (c : vmcase) : bool :=
  match c with
  | VContains _ content nd expect => Bool.eqb (reader_contains_any content nd) expect
  | VContainsC _ content calls nd expect reads unread =>
      match reader_contains_any_chunked_tr content calls nd with
      | Some (b, rd, lf) => Bool.eqb b expect && Nat.eqb rd reads && Nat.eqb lf unread
      | None => false
      end
  | VIO _ kind k setup p data lens perm d => N.eqb (io_case_digest kind k setup p data lens perm) d
  end.
Definition vm_id (c : vmcase) : N := match c with VContains i _ _ _ | VContainsC i _ _ _ _ _ _ | VIO i _ _ _ _ _ _ _ _ => i end.
'''
_ids = {}

def coq_payload(spec):
    f = spec.split(':')
    if f[0] == 'hex':
        return coq_bytes(f[1])
    if f[0] == 'rep':
        return '(repeat %s%%N (N.to_nat %s))' % (f[1], f[2])
    if f[0] == 'seq':
        return '(io_seq %s%%N (N.to_nat %s))' % (f[1], f[2])
    raise ValueError(spec)

def payload_len(spec):
    f = spec.split(':')
    return len(f[1]) // 2 if f[0] == 'hex' and f[1] != '-' else (0 if f[0] == 'hex' else int(f[2]))

def coq_lens(n, spec):
    if spec.startswith('c:'):
        k = int(spec[2:])
        lens = [] if (k <= 0 or n == 0) else [k] * ((n - 1) // k)
    else:
        lens = [int(x) for x in spec[2:].split('.')]
    if len(lens) > 400:
        return '(repeat (N.to_nat %d) (N.to_nat %d))' % (lens[0], len(lens))
    return '[' + ';'.join('N.to_nat %d' % x for x in lens) + ']'

def coq_setup(s):
    if s == '-':
        return '[]'
    items = []
    for it in s.split(','):
        f = it.split('=')
        items.append('IoMkdir %s' % coq_bytes(f[1]) if f[0] == 'd' else 'IoFile %s %s' % (coq_bytes(f[1]), coq_payload(f[2])))
    return '[' + '; '.join(items) + ']'

def coq_case(cid, lines, r):
    t = lines[0].split(' ')
    if t[0] == 'contains' and len(t) > 4 and cid in r['M'] and cid + '#t' in r['M']:
        i = _ids.setdefault(cid, len(_ids))
        m = re.fullmatch(r'reads=(\d+) left=(\d+)', r['M'][cid + '#t'])
        calls = [] if t[4] == '-' else ['(N.to_nat %d, %s)' % (int(x.rstrip('e')), 'true' if x.endswith('e') else 'false') for x in t[4].split(',')]
        return 'VContainsC %d%%N %s %s %s %s (N.to_nat %s) (N.to_nat %s)' % (i, coq_bytes(t[2]), coq_list(calls),
                                                          coq_list([coq_bytes(n) for n in t[3].split(',')]), coq_bool(r['M'][cid]),
                                                          m.group(1), m.group(2))
    if t[0] == 'contains' and cid in r['M']:
        i = _ids.setdefault(cid, len(_ids))
        return 'VContains %d%%N %s %s %s' % (i, coq_bytes(t[2]), coq_list([coq_bytes(n) for n in t[3].split(',')]), coq_bool(r['M'][cid]))
    if t[0] in ('wfile', 'wreader', 'swreader') and cid in r.get('D', {}):
        i = _ids.setdefault(cid, len(_ids))
        kind = {'wfile': 0, 'wreader': 1, 'swreader': 2}[t[0]]
        n = payload_len(t[5])
        lens = '[]' if kind == 0 else coq_lens(n, t[6])
        perm = coq_z(t[6]) if kind == 0 else '0%Z'
        return 'VIO %d%%N %d%%nat %s %s %s %s %s %s %s%%N' % (i, kind, coq_stack(t[2]), coq_setup(t[3]), coq_bytes(t[4]),
                                                           coq_payload(t[5]), lens, perm, r['D'][cid])
    return None
