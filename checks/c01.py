from common import *

CONFIG = {
    'props_file': 'Props/C01.v',
    'rule': 'case mem: op sequences of length 3-30 from a structured generator over a tracked abstract tree (names a,b,c, depth<=3, '
            '<=~8 live handles, alternative spellings with //, /./, dir/../dir, trailing /): well-formed stream (POSIX preconditions '
            'of C01 hold by construction, plus ~6% creating calls below a regular file — Create/Mkdir/MkdirAll/OpenFile(O_CREATE)/Rename whose nearest '
            'existing ancestor is a regular file: ENOTDIR on both sides, nothing changes; compared with OsFs in a fresh temp dir step by step and by a final Stat/ReadDir/ReadFile sweep) '
            'and a malformed stream (15% ops outside the preconditions; model-vs-implementation only). snap/index items dump the whole '
            'path map and child index of the MemMapFs (overlay export) for comparison with the model. distinct = hash of the item list; '
            'non-trivial = at least one successful mutation and one successful observation after it. '
            'pcase p<id> mem: the calls of case <id> once more; the implementation\'s results projected to the outcome language of the POSIX '
            'specification (class success/not-exist/exists/closed/not-a-directory/other, handle, Stat kind+size, bytes+EOF flag, counts, offsets, page names) are '
            'compared with the extracted model through mproj (M) and, for the prefix of the case inside wf_seq_sim (the hypothesis of C01_simulation, '
            'decided by the extracted wf_op_sim), with the extracted specification Model/Posix.v (S): the creating calls below a regular file get '
            'specification lines (ENOTDIR, fail:NotDir); the well-formed stream must lie inside wf_seq_sim in full (line p<id>#class)',
    'trusted_base': ['the Linux kernel filesystem (tmpfs/ext4 under os.MkdirTemp) as the reference for the oracle',
                     'path/filepath.Clean/Split/Dir modelled in Lib/Path.v (compared with the real functions in this check)'],
    'assumptions': ['relative names, names containing NUL and Rename of a directory into its own subtree are outside the modelled op set',
                    'the process runs as root with umask 0, so permission bits never deny access on the OS side'],
    'run_timeout': {'quick': 600, 'thorough': 7200},
}

MUT = ('Create', 'Mkdir', 'MkdirAll', 'OpenFile', 'Remove', 'RemoveAll', 'Rename', 'Chmod', 'Chtimes', 'HWrite', 'HWriteAt', 'HWriteString', 'HTruncate')
OBS = ('Stat', 'Open', 'HRead', 'HReadAt', 'HReaddir', 'HReaddirnames', 'HStat')

def spec_signature(key, impl, spec, lines):
    """implementation vs POSIX specification on a step inside the precondition of C01_simulation"""
    op = '?'
    try:
        op = lines[1 + int(key.split('#')[1])].split(' ')[2]
    except Exception:
        pass
    return 'spec:%s:%s->%s' % (op, spec.split(':')[0] + ('-' + spec.split(':')[1] if spec.startswith('fail:') else ''),
                               impl.split(':')[0] + ('-' + impl.split(':')[1] if impl.startswith('fail:') else ''))

def nontrivial(cid, lines, r):
    if lines[0].startswith('pcase'):
        return False        # the same calls as the case before it
    if lines[0].startswith('pathfn'):
        return '2e' in lines[0].split(' ')[2] or '2f2f' in lines[0].split(' ')[2]
    mutated = False
    for i, l in enumerate(lines[1:-1]):
        t = l.split(' ')
        if len(t) < 3:
            continue
        res = r['impl'].get('%s#%d' % (cid, i), '')
        ok = not (res.startswith('err:') or res in ('noslot', 'panic') or res.endswith(':Closed'))
        if t[2] in MUT and ok:
            mutated = True
        elif mutated and t[2] in OBS and ok:
            return True
    return False

COQ_HEADER = FS_COQ_HEADER
def coq_case(cid, lines, r):
    return fs_coq_case(cid, lines, r) if lines[0].startswith('case') else None
