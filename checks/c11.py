from common import *

CONFIG = {
    'props_file': 'Props/C11.v',
    'rule': 'stacks cache:0(mem,mem) and cache:1000(mem,mem). Start: a coherent pair built directly (one tree in the base; the cache holds all / '
            'part / none of it, cached files byte-identical with the base mtime). (e) exhaustive small scope: every sequence of 2 (quick) / 3 '
            '(thorough) of 14 handle methods (Read, ReadAt x3, Write, WriteAt, WriteString, Seek x3, Truncate x2, Sync, Stat) on an O_RDWR handle '
            'from CacheOnReadFs.OpenFile, file cached / not cached. (fl) every combination of O_WRONLY/O_RDWR/O_CREATE/O_EXCL/O_TRUNC/O_APPEND on a '
            'cached file, a base-only file and a new name. (m) one call (Chmod, Chtimes, Rename, Remove, RemoveAll, Mkdir, MkdirAll, Create, OpenFile, Open, Stat) '
            'on a small tree the cache holds nothing / part / all of. (r) 5-25 well-formed ops through the union only (structured generator: Mkdir, MkdirAll, '
            'Create, OpenFile with write flags, Open, Remove, RemoveAll, Rename, Stat, Chmod, Chtimes, handle Read/ReadAt/Write/WriteAt/WriteString/'
            'Seek/Truncate/Stat/Close at all offsets, alternative path spellings). (rf) refresh sweep: a write handle from Create / OpenFile (4 flag words) '
            'kept open on /f, a first write, the two copies age in 5 ways (not at all; cached copy old and base just written; both old with the base '
            'later / same age / earlier), one call through the union that names the file (Open, OpenFile x4, Chmod, Chtimes, Rename, Stat: what '
            'refreshes an expired outdated copy), further writes through the FIRST handle (and the second one), reads. (rr) 8-30 steps mixing the '
            'structured generator with kept write handles, ageing, calls naming a file with an open write handle, writes through the oldest handles. '
            'Ageing = direct Chtimes on the two layers (no byte is touched): the item language has whole seconds and the real clock, so "the clock '
            'moved past the cache duration" is expressed by setting the times back. (rc, ow: oracle only) real clock, duration 1 h, MemMapFs pair and '
            'OS pair: handle kept across a refresh by Open / OpenFile / ReadFile / Chmod; WriteFile / OpenFile(O_WRONLY ...) on new, uncached and '
            'outdated names over a base on the OS. (u) unconstrained: model correspondence only. Oracle after every '
            'step through the union (Go side, independent of the model): every regular file of the cache layer exists in the base with identical '
            'bytes (layers-diverge); ReadFile of every base file through a CacheOnReadFs over independent copies of both layers equals the base '
            'bytes (read-differs-from-base); a call that succeeds on an independent copy of the base alone does not fail through the cache '
            '(call-fails-through-cache:<op>:<error class>). distinct = hash of the item list; non-trivial = a write/truncate through a handle from the union, or a '
            'successful mutator through the union',
    'trusted_base': ['the copies used by the oracle are rebuilt through the public MemMapFs API from a dump (paths, bytes, permission bits, mtimes)'],
    'assumptions': ['nothing writes to the base or the cache layer directly after the coherent start state, except Chtimes of a name on the two '
                    'layers (ageing: stands for the passage of time, content and kind untouched)'],
}

def nontrivial(cid, lines, r):
    got = set()
    for i, l in enumerate(lines[1:-1]):
        t = l.split(' ')
        if len(t) < 3:
            continue
        res = r['impl'].get('%s#%d' % (cid, i), '')
        if t[0] == '.' and t[2] in ('Create', 'OpenFile') and res == 'handle':
            got.add(t[1])
        if t[2] in ('HWrite', 'HWriteAt', 'HWriteString', 'HTruncate') and t[3] in got:
            return True
        if t[0] == '.' and t[2] in ('Mkdir', 'MkdirAll', 'Remove', 'RemoveAll', 'Rename', 'Chmod', 'Chtimes') and res == 'ok':
            return True
    return False

COQ_HEADER = FS_COQ_HEADER
coq_case = fs_coq_case
