from common import *

CONFIG = {
    'props_file': 'Props/C10.v',
    'rule': 'stacks cache:0(mem,mem) and cache:1000(mem,mem) (base = child 0, cache layer = child 1). (e) rule sweep: one file, seeded cache '
            'copy {none, older, equal, newer than the base copy}, base rewritten directly and stamped {older, equal, newer, not at all}, then '
            'removed, read through the cache (Open+HRead loop / OpenFile(O_RDONLY) / Stat) before and after. (r) generated: 1-4 files in '
            'directories of depth 0-3, sizes 0..5000 (boundaries 511/512/513, 4095/4096/4097; around 32 KiB in a few cases), explicit mtimes '
            'T0 +- k*1000 s set with Chtimes on the base, optional seeded cache copies, 4-12 steps interleaving whole read loops through the '
            'cache (buffer sizes 1..32768, a direct base modification possibly in the middle of a loop) with direct base overwrites / partial '
            'overwrites / removals / re-creations / Chtimes. (u) unconstrained programs on both layers and the union: model correspondence only. '
            'Oracle (Go side, on the observed layers right before the call; independent of the model): no cached copy => the read returns the '
            'base bytes and the layer then holds the same bytes with the base mtime; duration 0 and a copy => the cached bytes; duration > 0 => '
            'the cached bytes unless copy mtime + duration < now and copy mtime < base mtime, then the base bytes and a refreshed copy. '
            'distinct = hash of the item list; non-trivial = at least one handle obtained through the cache and read',
    'trusted_base': ['wall clock: explicit mtimes are >= 20 years old and durations are 0 or 1000 s, so "mtime + duration < now" is decided '
                     'with a margin of years (copies made during the run: margin 1000 s); the oracle skips anything within 900 s of the boundary '
                     '(counter c10.boundary-skipped, 0 in practice)',
                     'the model runs item i with now = BIG + 1000*i and a duration of d seconds as d*10^12 units (Model/Stack.v)'],
    'assumptions': ['the cache layer is only written by the cache itself or before the reads start (pre-seeded copies)'],
}

def nontrivial(cid, lines, r):
    got = set()
    for i, l in enumerate(lines[1:-1]):
        t = l.split(' ')
        if len(t) < 3:
            continue
        res = r['impl'].get('%s#%d' % (cid, i), '')
        if t[0] == '.' and t[2] in ('Open', 'OpenFile') and res == 'handle':
            got.add(t[1])
        if t[2] == 'HRead' and t[3] in got:
            return True
    return False

COQ_HEADER = FS_COQ_HEADER
coq_case = fs_coq_case
