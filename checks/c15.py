from common import *

CONFIG = {
    'props_file': 'Props/C15.v',
    'rule': 'iocase: a tree (depth<=3, fan-out<=4, empty files and directories, sizes 0/1/10/5000, names that sort differently by '
            'byte order: a, a.b, a-b, ab, B, b, a0, _, c, n.txt; for RegexpFs stacks names matching the expression plus hidden ones) is '
            'built on the layers of a stack and wrapped as afero.NewIOFS(afero.NewBasePathFs(x, "/")) (the convention: io/fs names are '
            'unrooted, MemMapFs is rooted at "/"; stack descriptor bp:2f(x)); one more kind "memrel" is a bare MemMapFs whose tree was '
            'created under relative names. Stacks: mem, bp:/d(mem), ro(mem), re:n(mem), cow(mem,mem) with the tree split over both layers '
            '(directories on both, files on both with different bytes), bp:/d(cow(mem,mem)), memrel, and a random composition of depth<=3 '
            'of ro / bp / re / cow. (1) small scope: 36 trees over {b,a} x {absent, F0, F10, D[], D[a=F1], D[B=D[],a-b=F0]} on mem, memrel, cow; '
            '(2) 45 (quick) / 900 (thorough) generated trees per stack kind. Per case: testing/fstest.TestFS over the IOFS with every visible '
            'path as expected file (search oracle, no model line) and ~150 direct queries: Open/Stat/ReadDir/ReadFile of visible, missing and '
            'invalid names (fixed list "", /a, a/, a//b, ./a, a/../b, .., a/., /, ../a ... plus fstest-style corruptions of real paths), '
            'ReadDir(n) paging with sizes 1.., 2.., 3.., -1,-1 and mixed sequences, Read loops with chunk sizes 1/2/3/7/512/4096/6000, '
            'ReadAt at 0/size/size+3/inside, Seek+Read for every whence, Glob patterns generalised from real paths (+ malformed/escaped '
            'ones), Sub of ".", directories, a file, a missing and an invalid directory followed by the same queries, and FromIOFS: '
            'Stat/Open/ReadFile/Readdir/Readdirnames of every sampled path, every mutator on a missing name, a file and a directory, '
            'OpenFile with 5 flag words, Write/WriteAt/WriteString/Truncate on an opened file. Oracles: the KNOWN tree, and the generic io/fs '
            'helpers (fs.ReadDir/ReadFile/Stat/Glob/Sub/ValidPath) on a wrapper that hides every optional interface. '
            'distinct = hash of the case without its id; non-trivial = some listing has at least two entries',
    'trusted_base': ['testing/fstest.TestFS and testing/iotest.TestReader (the standard library\'s conformance procedure) as search oracle',
                     'io/fs generic helpers fs.ReadDir, fs.ReadFile, fs.Stat, fs.Glob, fs.Sub, fs.ValidPath and package sort as Go-side references',
                     'path.Match / filepath.Match transcribed in Model/Glob.v (C16), bytes.Buffer growth without allocator size classes '
                     '(only reached when a file is longer than its Stat size + 512)',
                     'the inner filesystems are the models of Model/Stack.v (MemMapFs, BasePathFs, ReadOnlyFs, RegexpFs, CopyOnWriteFs): '
                     'modelled, tied by this run\'s correspondence lines',
                     'constant translator for iofs.go (harness/cmd/afcheck/c15_consts.go): iofs_readdir_validates, iofs_stat_validates, '
                     'iofs_sub_validates, iofs_sub_dot_self, fromiofs_openfile_mask'],
    'assumptions': ['names and patterns are ASCII (utf8.ValidString holds)',
                    'the tree does not change while it is observed (paging theorem: nothing but Readdir calls on the handle)',
                    'at most one CopyOnWriteFs per stack, no kind conflicts between its layers (a name is a file on both or a directory on both)',
                    'paging results are compared as page lengths + error + the sorted set of entries (a union directory lists in Go map order)'],
    'vm_sample': {'quick': 30, 'thorough': 200},
}


def canon_case(lines):
    hd = lines[0].split(' ')
    return [' '.join(hd[:1] + hd[2:])] + lines[1:]


def nontrivial(cid, lines, r):
    i = 0
    for l in lines:
        if l.startswith('q '):
            if l.startswith('q readdir '):
                v = r['impl'].get('%s#%d' % (cid, i), '')
                if v.startswith('ents:') and ',' in v:
                    return True
            i += 1
    return False


# ---- vm_compute cross-check: the digest of the first queries, recomputed inside Coq
COQ_HEADER = '''From AF Require Import Lib.Bytes Lib.Path Lib.Ops Gen.Consts Model.MemFile Model.MemFs Model.Stack Model.Digest Model.IOFS Model.IOFSRun.
Definition vm_ok (c : N * bool) : bool := snd c.
Definition vm_id (c : N * bool) : N := fst c.
'''
_ids = {}
NQ = 24   # same prefix as ocaml/drv_c15.ml


def _basic(t):
    k, a = t[0], t[1:]
    B, Zs = coq_bytes, coq_z
    if k == 'open':
        return 'QOpen %s' % B(a[0])
    if k == 'readdir':
        return 'QReadDir %s' % B(a[0])
    if k == 'page':
        return 'QPage %s [%s]' % (B(a[0]), '; '.join(Zs(x) for x in a[1].split(',')))
    if k == 'readfile':
        return 'QReadFile %s' % B(a[0])
    if k == 'read':
        return 'QRead %s %s' % (B(a[0]), Zs(a[1]))
    if k == 'readat':
        return 'QReadAt %s %s %s' % (B(a[0]), Zs(a[1]), Zs(a[2]))
    if k == 'seek':
        return 'QSeek %s %s %s %s %s' % (B(a[0]), Zs(a[1]), Zs(a[2]), Zs(a[3]), Zs(a[4]))
    if k == 'stat':
        return 'QStat %s' % B(a[0])
    if k == 'glob':
        return 'QGlob %s' % B(a[0])
    raise ValueError(k)


def _mut(a):
    B = coq_bytes
    op, n = a[0], a[1]
    return {
        'Create': lambda: 'Create %s' % B(n),
        'Mkdir': lambda: 'Mkdir %s 493' % B(n),
        'MkdirAll': lambda: 'MkdirAll %s 493' % B(n),
        'OpenFile': lambda: 'OpenFile %s %s 420' % (B(n), coq_z(a[2])),
        'Remove': lambda: 'Remove %s' % B(n),
        'RemoveAll': lambda: 'RemoveAll %s' % B(n),
        'Rename': lambda: 'Rename %s %s' % (B(n), B((n if n != '-' else '') + '5f72')),
        'Chmod': lambda: 'Chmod %s 384' % B(n),
        'Chown': lambda: 'Chown %s 1 1' % B(n),
        'Chtimes': lambda: 'Chtimes %s 1000' % B(n),
    }[op]()


def _top(t):
    if t[0] == 'sub':
        return 'TSub %s (%s)' % (coq_bytes(t[1]), _basic(t[2:]))
    if t[0] == 'from':
        k = t[1]
        if k in ('stat', 'open', 'readfile', 'readdir', 'names'):
            c = {'stat': 'TFromStat', 'open': 'TFromOpen', 'readfile': 'TFromReadFile', 'readdir': 'TFromReaddir', 'names': 'TFromNames'}[k]
            return '%s %s' % (c, coq_bytes(t[2]))
        if k == 'mut':
            return 'TFromMut (%s)' % _mut(t[2:])
        if k == 'hmut':
            zz = '[122;122]%N'
            o = {'HWrite': 'HWrite 0 %s' % zz, 'HWriteAt': 'HWriteAt 0 %s 0' % zz, 'HWriteString': 'HWriteString 0 %s' % zz,
                 'HTruncate': 'HTruncate 0 0'}[t[3]]
            return 'TFromHMut %s (%s)' % (coq_bytes(t[2]), o)
        raise ValueError(k)
    return 'TBasic (%s)' % _basic(t)


def coq_case(cid, lines, r):
    hd = lines[0].split(' ')
    if hd[0] != 'iocase' or cid not in r.get('D', {}):
        return None
    setup = [l for l in lines[1:-1] if not l.startswith('q ')]
    qs = [l[2:].split(' ') for l in lines[1:-1] if l.startswith('q ') and l != 'q fstest' and not l.startswith('q mixed ')][:NQ]
    if any(len(l) > 600 for l in setup) or len(setup) > 60:
        return None    # 5000-byte files: too slow as Coq literals
    i = _ids.setdefault(cid, len(_ids))
    return '(%d%%N, N.eqb (io_digest %s [%s] [%s]) %s%%N)' % (
        i, coq_stack(hd[2]), ';\n  '.join(coq_item(l) for l in setup), ';\n  '.join(_top(q) for q in qs), r['D'][cid])
