from common import *

CONFIG = {
    'props_file': 'Props/C05.v',
    'rule': 'stack cow(mem,mem) (base = child 0, overlay = child 1). (a) flag sweep: base holds /f="abc" with explicit past mtimes; through the '
            'wrapper OpenFile(/f, F) then Write, Truncate, WriteAt, WriteString, Close on the returned handle, then OpenFile(/new, F) and Write, '
            'for every combination F of 12 O_* bits (every 41st in quick, all 4096 in thorough). (b) random programs: base and overlay are '
            'populated directly by well-formed setup phases (3-12 resp. 0-8 entries, files with content, handles closed), then 5-25 '
            'unconstrained ops through the wrapper (every Fs method, every handle method on handles it returned incl. union directory '
            'handles, flag words: O_* combinations, no-write-access words with other bits, random 31-bit words; names present in base only, '
            'overlay only, both, neither). Oracle per step made through the wrapper: deep snapshot of the BASE (paths, bytes, mode, mtime '
            'in ns, child index) identical before/after the step. Correspondence: every step result and the final full dumps of base and '
            'overlay equal the model\'s. distinct = hash of the item list; non-trivial = at least one successful op through the wrapper '
            'that wrote (Write*/Truncate on a handle it returned, or a successful mutating Fs call incl. OpenFile with a write-ish flag)',
    'trusted_base': ['OsFs (or any other real filesystem) as the base is covered by the contract theorem C05_base_frozen_any_base only '
                     '(the kernel enforces O_RDONLY for handles opened without write access); this harness exercises MemMapFs bases',
                     'the MemMapFs contract (C07_memfs_contract / reading_step) is a theorem about the MemMapFs model, tied to memmap.go and '
                     'mem/file.go by the C01/C02/C07 correspondence runs'],
    'assumptions': ['handles that existed on the base before wrapping are read-only or closed (hypothesis all_inert of C05_base_frozen_mem)',
                    'the program does not write to the base directly, only through the CopyOnWriteFs (the statement of the property)'],
}

WRITE_FS = ('Create', 'Mkdir', 'MkdirAll', 'Remove', 'RemoveAll', 'Rename', 'Chmod', 'Chown', 'Chtimes')

def nontrivial(cid, lines, r):
    got = set()
    for i, l in enumerate(lines[1:-1]):
        t = l.split(' ')
        if len(t) < 3:
            continue
        res = r['impl'].get('%s#%d' % (cid, i), '')
        if t[0] == '.' and t[2] in ('Open', 'OpenFile', 'Create') and res == 'handle':
            got.add(t[1])
        if t[0] == '.' and t[2] in WRITE_FS and res in ('ok', 'handle'):
            return True
        if t[0] == '.' and t[2] == 'OpenFile' and res == 'handle' and int(t[4]) & 1603 != 0:
            return True
        if t[2] in ('HWrite', 'HWriteAt', 'HWriteString') and t[3] in got and res.startswith('count:') and res.endswith(':-') and not res.startswith('count:0:'):
            return True
        if t[2] == 'HTruncate' and t[3] in got and res == 'ok':
            return True
    return False

COQ_HEADER = FS_COQ_HEADER
coq_case = fs_coq_case
