From AF Require Import Lib.Bytes Lib.Path Lib.Ops Model.BasePath.
Definition a : N := 97. Definition b : N := 98.
Definition S := SLASH. Definition D := DOT.
Eval vm_compute in real_path [S;a] [S;D;D;S;a;b].   (* /a , /../ab -> /ab : None *)
Eval vm_compute in real_path [S] [D;D;S;a].
Eval vm_compute in real_path [D] [a].
Eval vm_compute in real_path [] [].
Eval vm_compute in real_path [D;D] [D;D].
Eval vm_compute in real_path [a] [D;D;S;a;S;b].
Eval vm_compute in (join2 (join2 [a] [S;D;D]) [b], join2 [a] (join2 [S;D;D] [b])).
Eval vm_compute in (join2 (join2 [S;a] [S;b]) [D;D;S;D;D;S;b], join2 [S;a] (join2 [S;b] [D;D;S;D;D;S;b])).
Eval vm_compute in (real_path [S;b] [D;D;S;D;D;S;b]).
